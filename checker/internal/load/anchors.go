package load

import (
	_ "embed"
	"encoding/json"
	"fmt"
	"go/ast"
	"go/token"
	"go/types"
	"os"
	"path/filepath"
	"regexp"
	"sort"
	"strings"
)

// Anchors: the rules name a number of functions and struct fields of robustirc (the state-machine entry point, the
// serializers, the state maps …). A behaviour-preserving rename of such an entity must not make a check fail, so every
// name the rules mention is recorded in anchors.json together with a structural description taken from the tree on
// which the rules were written: for a function its package, receiver, signature and the set of things its body mentions
// (static callees, selected fields, short string constants); for a field its struct, type and the functions that use
// it. When a name no longer resolves, the unique entity with the same package/receiver/signature (struct/type) and a
// sufficiently similar description takes its place and is from then on known to the rules under the recorded name.
// The description is used only to re-identify a renamed entity, never for a verdict; if nothing matches, the anchor
// stays unresolved and the rule that needs it reports the check as broken.

//go:embed anchors.json
var anchorsJSON []byte

type funcAnchor struct {
	Pkg      string   `json:"pkg"`
	Recv     string   `json:"recv"`
	Sig      string   `json:"sig"`
	Features []string `json:"features"`
}

type fieldAnchor struct {
	Type  string   `json:"type"`
	Users []string `json:"users"`
}

type anchorFile struct {
	Funcs  map[string]funcAnchor  `json:"funcs"`
	Fields map[string]fieldAnchor `json:"fields"`
	// Named lists the simple names of module functions that occur as string literals in the rules' sources: a rule
	// recognises these by name (as callees), so the inliner (inline.go) leaves them alone.
	Named []string `json:"named"`
}

// canonFunc maps a re-identified function object to the name the rules know it by.
var canonFunc = map[*types.Func]string{}

func recvString(fi *FuncInfo) string {
	if fi.Obj == nil {
		return "var"
	}
	sig := fi.Obj.Type().(*types.Signature)
	if sig.Recv() == nil {
		return ""
	}
	return types.TypeString(sig.Recv().Type(), func(p *types.Package) string { return ShortPkg(p.Path()) })
}

func sigString(fi *FuncInfo) string {
	q := func(p *types.Package) string { return ShortPkg(p.Path()) }
	if fi.Obj != nil {
		sig := fi.Obj.Type().(*types.Signature)
		return types.TypeString(types.NewSignatureType(nil, nil, nil, sig.Params(), sig.Results(), sig.Variadic()), q)
	}
	return types.TypeString(fi.Var.Type(), q)
}

func features(fi *FuncInfo) []string {
	set := map[string]bool{}
	if fi.Body() == nil {
		return nil
	}
	info := fi.Pkg.TypesInfo
	ast.Inspect(fi.Body(), func(n ast.Node) bool {
		switch x := n.(type) {
		case *ast.SelectorExpr:
			if sel, ok := info.Selections[x]; ok {
				switch sel.Kind() {
				case types.FieldVal:
					t := sel.Recv()
					if p, ok := t.(*types.Pointer); ok {
						t = p.Elem()
					}
					if nmd, ok := t.(*types.Named); ok {
						set["field "+nmd.Obj().Name()+"."+x.Sel.Name] = true
					}
				case types.MethodVal:
					if fn, ok := sel.Obj().(*types.Func); ok {
						set["call "+fn.FullName()] = true
					}
				}
			} else if fn, ok := info.Uses[x.Sel].(*types.Func); ok {
				set["call "+fn.FullName()] = true
			}
		case *ast.Ident:
			if fn, ok := info.Uses[x].(*types.Func); ok {
				set["call "+fn.FullName()] = true
			}
		case *ast.BasicLit:
			if x.Kind == token.STRING && len(x.Value) <= 60 {
				set["str "+x.Value] = true
			}
		}
		return true
	})
	var out []string
	for k := range set {
		out = append(out, k)
	}
	sort.Strings(out)
	return out
}

func jaccard(a, b []string) float64 {
	sa := map[string]bool{}
	for _, x := range a {
		sa[x] = true
	}
	inter, union := 0, len(sa)
	seen := map[string]bool{}
	for _, x := range b {
		if seen[x] {
			continue
		}
		seen[x] = true
		if sa[x] {
			inter++
		} else {
			union++
		}
	}
	if union == 0 {
		return 1
	}
	return float64(inter) / float64(union)
}

// fieldUsers lists, per field object, the (canonical) names of the functions that mention it.
func (p *Program) fieldUsers() map[*types.Var][]string {
	out := map[*types.Var][]string{}
	for _, fi := range p.AllFuncs {
		if fi.Body() == nil {
			continue
		}
		info := fi.Pkg.TypesInfo
		seen := map[*types.Var]bool{}
		ast.Inspect(fi.Body(), func(n ast.Node) bool {
			switch x := n.(type) {
			case *ast.SelectorExpr:
				if sel, ok := info.Selections[x]; ok && sel.Kind() == types.FieldVal {
					if v, ok := sel.Obj().(*types.Var); ok && !seen[v] {
						seen[v] = true
						out[v] = append(out[v], fi.Name())
					}
				}
			case *ast.KeyValueExpr:
				if id, ok := x.Key.(*ast.Ident); ok {
					if v, ok := info.Uses[id].(*types.Var); ok && v.IsField() && !seen[v] {
						seen[v] = true
						out[v] = append(out[v], fi.Name())
					}
				}
			}
			return true
		})
	}
	return out
}

func (p *Program) structFields(short, typ string) []*types.Var {
	n := p.Named(short, typ)
	if n == nil {
		return nil
	}
	st, ok := n.Underlying().(*types.Struct)
	if !ok {
		return nil
	}
	var out []*types.Var
	for i := 0; i < st.NumFields(); i++ {
		out = append(out, st.Field(i))
	}
	return out
}

func typeStr(t types.Type) string {
	return types.TypeString(t, func(p *types.Package) string { return ShortPkg(p.Path()) })
}

// resolveAnchors re-identifies renamed anchors (see the comment at the top of this file).
func (p *Program) resolveAnchors() {
	canonFunc = map[*types.Func]string{}
	p.fieldAlias = map[string]*types.Var{}
	p.AnchorNotes = nil
	var af anchorFile
	if len(anchorsJSON) == 0 || json.Unmarshal(anchorsJSON, &af) != nil {
		return
	}
	byName := map[string]*FuncInfo{}
	for _, fi := range p.AllFuncs {
		byName[fi.Name()] = fi
	}
	var missing []string
	for name := range af.Funcs {
		if byName[name] == nil {
			missing = append(missing, name)
		}
	}
	sort.Strings(missing)
	taken := map[*FuncInfo]bool{}
	for _, name := range missing {
		a := af.Funcs[name]
		type cand struct {
			fi    *FuncInfo
			score float64
		}
		var cs []cand
		for _, fi := range p.AllFuncs {
			if taken[fi] || ShortPkg(fi.Pkg.PkgPath) != a.Pkg {
				continue
			}
			if _, isAnchor := af.Funcs[fi.Name()]; isAnchor {
				continue
			}
			if recvString(fi) != a.Recv || sigString(fi) != a.Sig {
				continue
			}
			cs = append(cs, cand{fi, jaccard(a.Features, features(fi))})
		}
		sort.Slice(cs, func(i, j int) bool { return cs[i].score > cs[j].score })
		if len(cs) == 0 || cs[0].score < 0.55 || (len(cs) > 1 && cs[0].score-cs[1].score < 0.15) {
			continue
		}
		fi := cs[0].fi
		taken[fi] = true
		p.AnchorNotes = append(p.AnchorNotes, fmt.Sprintf("function %s is not in the tree; %s has the same receiver and signature and a %.0f%% similar body and is analysed in its place", name, fi.Name(), cs[0].score*100))
		fi.Canon = name
		if fi.Obj != nil {
			canonFunc[fi.Obj] = name
		}
	}
	// fields
	var users map[*types.Var][]string
	var fmissing []string
	for key := range af.Fields {
		parts := strings.Split(key, ".")
		if len(parts) == 3 && p.fieldByName(parts[0], parts[1], parts[2]) == nil && p.Named(parts[0], parts[1]) != nil {
			fmissing = append(fmissing, key)
		}
	}
	sort.Strings(fmissing)
	takenF := map[*types.Var]bool{}
	for _, key := range fmissing {
		parts := strings.Split(key, ".")
		a := af.Fields[key]
		var cands []*types.Var
		for _, fv := range p.structFields(parts[0], parts[1]) {
			if takenF[fv] || typeStr(fv.Type()) != a.Type {
				continue
			}
			if _, isAnchor := af.Fields[parts[0]+"."+parts[1]+"."+fv.Name()]; isAnchor {
				continue
			}
			cands = append(cands, fv)
		}
		var pick *types.Var
		how := ""
		if len(cands) == 0 {
			// moved into a struct of its own: the only field of that type among the fields of the struct-typed fields of T
			// (one level down, same package) — `cache batchCache` with `m map[…]…` for the former `messagesCache`
			var nested []*types.Var
			via := ""
			for _, fv := range p.structFields(parts[0], parts[1]) {
				t := fv.Type()
				if pt, ok := t.(*types.Pointer); ok {
					t = pt.Elem()
				}
				n, ok := t.(*types.Named)
				if !ok || n.Obj().Pkg() == nil || ShortPkg(n.Obj().Pkg().Path()) != parts[0] {
					continue
				}
				st, ok := n.Underlying().(*types.Struct)
				if !ok {
					continue
				}
				for k := 0; k < st.NumFields(); k++ {
					if f := st.Field(k); !takenF[f] && typeStr(f.Type()) == a.Type {
						nested = append(nested, f)
						via = fv.Name() + " " + n.Obj().Name()
					}
				}
			}
			if len(nested) == 1 {
				pick, how = nested[0], "the only field of that type in the nested struct "+via
			}
		}
		switch {
		case pick != nil:
		case len(cands) == 1:
			pick, how = cands[0], "the only other field of that type"
		case len(cands) > 1:
			if users == nil {
				users = p.fieldUsers()
			}
			best, second := -1.0, -1.0
			for _, fv := range cands {
				s := jaccard(a.Users, users[fv])
				if s > best {
					second, best, pick = best, s, fv
				} else if s > second {
					second = s
				}
			}
			if best < 0.55 || best-second < 0.15 {
				pick = nil
			}
			how = fmt.Sprintf("same type, used by %.0f%% the same functions", best*100)
		}
		if pick == nil {
			continue
		}
		takenF[pick] = true
		p.fieldAlias[key] = pick
		p.AnchorNotes = append(p.AnchorNotes, fmt.Sprintf("field %s is not in the tree; field %s (%s) is analysed in its place", key, pick.Name(), how))
	}
}

var anchorFuncRe = regexp.MustCompile(`"((?:main|api|ircserver|outputstream|raftstore|robust|config|timesafeguard|privacy|raftlog|localnet)\.[A-Za-z0-9_(*).]+)"`)
var anchorFieldRe = regexp.MustCompile(`Field\("(\w+)", "(\w+)", "(\w+)"\)`)

// GenerateAnchors rewrites anchors.json from the rules' sources and the loaded tree (development time only).
func (p *Program) GenerateAnchors(rulesDir, out string) error {
	files, _ := filepath.Glob(filepath.Join(rulesDir, "*.go"))
	af := anchorFile{Funcs: map[string]funcAnchor{}, Fields: map[string]fieldAnchor{}}
	users := p.fieldUsers()
	for _, f := range files {
		b, err := os.ReadFile(f)
		if err != nil {
			return err
		}
		for _, m := range anchorFuncRe.FindAllStringSubmatch(string(b), -1) {
			if fi := p.Func(m[1]); fi != nil {
				af.Funcs[fi.Name()] = funcAnchor{Pkg: ShortPkg(fi.Pkg.PkgPath), Recv: recvString(fi), Sig: sigString(fi), Features: features(fi)}
				continue
			}
			parts := strings.Split(m[1], ".")
			if len(parts) == 3 {
				if fv := p.fieldByName(parts[0], parts[1], parts[2]); fv != nil {
					af.Fields[m[1]] = fieldAnchor{Type: typeStr(fv.Type()), Users: users[fv]}
				}
			}
		}
		for _, m := range anchorFieldRe.FindAllStringSubmatch(string(b), -1) {
			if fv := p.fieldByName(m[1], m[2], m[3]); fv != nil {
				af.Fields[m[1]+"."+m[2]+"."+m[3]] = fieldAnchor{Type: typeStr(fv.Type()), Users: users[fv]}
			}
		}
	}
	simple := map[string]bool{}
	for _, fi := range p.AllFuncs {
		if fi.Decl != nil {
			simple[fi.Decl.Name.Name] = true
		}
	}
	named := map[string]bool{}
	for _, f := range files {
		b, _ := os.ReadFile(f)
		for _, m := range simpleNameRe.FindAllStringSubmatch(string(b), -1) {
			if simple[m[1]] {
				named[m[1]] = true
			}
		}
	}
	for n := range named {
		af.Named = append(af.Named, n)
	}
	sort.Strings(af.Named)
	b, _ := json.MarshalIndent(af, "", " ")
	fmt.Printf("anchors: %d functions, %d fields, %d simple names\n", len(af.Funcs), len(af.Fields), len(af.Named))
	return os.WriteFile(out, append(b, '\n'), 0o644)
}

// FieldName is the name the rules know a field by (the recorded name when the field was re-identified after a rename).
func (p *Program) FieldName(fv *types.Var) string {
	if fv == nil {
		return ""
	}
	for key, v := range p.fieldAlias {
		if v == fv {
			return key[strings.LastIndex(key, ".")+1:]
		}
	}
	return fv.Name()
}

var simpleNameRe = regexp.MustCompile("[\"`]([A-Za-z_][A-Za-z0-9_]*)[\"`]")

// FieldOwner is the struct type name the rules know a field under when it was re-identified (possibly in a nested struct
// it was moved into), or "" for a field that was found where the rules expect it.
func (p *Program) FieldOwner(fv *types.Var) string {
	for key, v := range p.fieldAlias {
		if v == fv {
			parts := strings.Split(key, ".")
			if len(parts) == 3 {
				return parts[1]
			}
		}
	}
	return ""
}

// IsNamed reports whether a function's simple name occurs as a string literal in the rules.
func (p *Program) IsNamed(simple string) bool {
	p.IsAnchor("")
	return namedSimple[simple]
}

var namedSimple = map[string]bool{}
var anchorPkgs = map[string]bool{}

// anchorPkg reports whether the rules name a function of this module package.
func (p *Program) anchorPkg(short string) bool {
	p.IsAnchor("")
	return anchorPkgs[short] || expandEverywhere
}

// expandEverywhere lifts the package restriction of the inliner (its own tests).
var expandEverywhere = false

// IsAnchor reports whether the rules name a function by this (canonical) name.
func (p *Program) IsAnchor(name string) bool {
	var af anchorFile
	if anchorNames == nil {
		anchorNames = map[string]bool{}
		if len(anchorsJSON) > 0 && json.Unmarshal(anchorsJSON, &af) == nil {
			for n, fa := range af.Funcs {
				anchorNames[n] = true
				anchorPkgs[fa.Pkg] = true
			}
			for _, n := range af.Named {
				namedSimple[n] = true
			}
		}
	}
	return anchorNames[name]
}

var anchorNames map[string]bool
