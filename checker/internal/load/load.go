// Package load loads /repo's current working tree with go/packages (full
// syntax and types for the whole dependency closure), and offers lookups the
// rules share. Nothing here executes robustirc code.
package load

import (
	"fmt"
	"go/ast"
	"go/token"
	"go/types"
	"os"
	"path/filepath"
	"sort"
	"strconv"
	"strings"

	"golang.org/x/tools/go/packages"
	"golang.org/x/tools/go/ssa"
	"golang.org/x/tools/go/ssa/ssautil"
)

const ModPath = "github.com/robustirc/robustirc"

// minModulePkgs guards against judging a tree of which only a part was loaded (lowered by the inliner's own tests, which
// load small synthetic modules).
var minModulePkgs = 15

// Program is the loaded repository.
type Program struct {
	Dir   string
	Fset  *token.FileSet
	Pkgs  []*packages.Package          // root packages (the module's own)
	All   map[string]*packages.Package // every package in the closure, by path
	ByRel map[string]*packages.Package // module packages by short name: "main", "ircserver", "api", ...

	ssaProg *ssa.Program
	ssaPkgs map[*types.Package]*ssa.Package

	funcDecls map[*types.Func]*FuncInfo
	varFuncs  map[*types.Var]*FuncInfo
	AllFuncs  []*FuncInfo // every function/method declared in non-test files of module packages

	expanded    []expandedRange
	Expanded    map[string][]byte // the overlay the program was loaded from: expanded files by name (nil when nothing was expanded)
	Inlined     []string          // private helpers that were expanded at all their call sites (inline.go)
	InlineNotes []string          // expansions that were planned but not used

	fieldAlias  map[string]*types.Var // re-identified renamed anchor fields, by "pkg.Type.field" (anchors.go)
	AnchorNotes []string              // what was re-identified, for the evidence
}

// FuncInfo ties a declared function to its syntax.
type FuncInfo struct {
	Obj  *types.Func   // nil for package-level function-literal variables
	Decl *ast.FuncDecl // nil for package-level function-literal variables
	Pkg  *packages.Package
	File *ast.File

	// package-level `var f = func(...) {...}` (e.g. ircserver.authOper)
	Var *types.Var
	Lit *ast.FuncLit

	// Canon is the name the rules know this function by when it was re-identified after a rename (anchors.go).
	Canon string
}

// Name returns a stable, line-free name: "ircserver.(*IRCServer).cmdTopic".
func (f *FuncInfo) Name() string {
	if f.Canon != "" {
		return f.Canon
	}
	if f.Obj == nil && f.Var != nil {
		return ShortPkg(f.Var.Pkg().Path()) + "." + f.Var.Name()
	}
	return FuncName(f.Obj)
}

// Body returns the function body (nil for declarations without body).
func (f *FuncInfo) Body() *ast.BlockStmt {
	if f.Decl != nil {
		return f.Decl.Body
	}
	if f.Lit != nil {
		return f.Lit.Body
	}
	return nil
}

// Node returns the declaring syntax node (*ast.FuncDecl or *ast.FuncLit).
func (f *FuncInfo) Node() ast.Node {
	if f.Decl != nil {
		return f.Decl
	}
	return f.Lit
}

// Type returns the function's signature syntax.
func (f *FuncInfo) FuncType() *ast.FuncType {
	if f.Decl != nil {
		return f.Decl.Type
	}
	return f.Lit.Type
}

// Info returns the type information of the declaring package.
func (f *FuncInfo) Info() *types.Info { return f.Pkg.TypesInfo }

// FuncName renders a *types.Func as pkgshort.(*Recv).Name or pkgshort.Name.
func FuncName(fn *types.Func) string {
	if fn == nil {
		return "<nil>"
	}
	if c, ok := canonFunc[fn]; ok {
		return c
	}
	pkg := ""
	if fn.Pkg() != nil {
		pkg = ShortPkg(fn.Pkg().Path())
	}
	sig, _ := fn.Type().(*types.Signature)
	if sig != nil && sig.Recv() != nil {
		t := sig.Recv().Type()
		ptr := ""
		if p, ok := t.(*types.Pointer); ok {
			t = p.Elem()
			ptr = "*"
		}
		name := "?"
		if n, ok := t.(*types.Named); ok {
			name = n.Obj().Name()
		}
		return fmt.Sprintf("%s.(%s%s).%s", pkg, ptr, name, fn.Name())
	}
	return pkg + "." + fn.Name()
}

// ShortPkg maps an import path to the short name used in keys.
func ShortPkg(path string) string {
	if path == ModPath {
		return "main"
	}
	if strings.HasPrefix(path, ModPath+"/") {
		rest := strings.TrimPrefix(path, ModPath+"/")
		rest = strings.TrimPrefix(rest, "internal/")
		return rest
	}
	return path
}

// Load loads the repository at dir. Any list or type error is returned: a tree
// that does not type-check cannot be judged.
func Load(dir string, overlay map[string][]byte) (*Program, error) {
	p, err := loadOnce(dir, overlay)
	if err != nil || os.Getenv("VERIF_NOINLINE") != "" {
		return p, err
	}
	// normal form: expand small private helpers at their call sites (inline.go), then load the expanded program
	everInlined := map[string]bool{}
	var notes []string
	skipPkg := map[string]bool{}
	for round := 1; round <= maxInlineRounds; round++ {
		ov, names := p.inlinePass(overlay, skipPkg, round)
		if len(names) == 0 {
			break
		}
		q, err := loadOnce(dir, ov)
		if err != nil && len(skipPkg) == 0 {
			// leave out the packages whose expansion did not type-check and try once more
			for _, pkg := range p.Pkgs {
				for _, f := range pkg.GoFiles {
					if strings.Contains(err.Error(), f+":") {
						skipPkg[pkg.PkgPath] = true
					}
				}
			}
			notes = append(notes, fmt.Sprintf("round %d: an expansion did not type-check (%v); retried without the packages concerned", round, firstLine(err.Error())))
			if os.Getenv("VERIF_INLINE_DEBUG") != "" {
				fmt.Fprintln(os.Stderr, "inline:", notes[len(notes)-1])
				for f, b := range ov {
					os.WriteFile(filepath.Join(os.TempDir(), "inline-debug-"+filepath.Base(f)), b, 0o644)
				}
			}
			if len(skipPkg) > 0 {
				round--
				continue
			}
		}
		if err != nil {
			notes = append(notes, fmt.Sprintf("round %d: expansion of %s did not type-check and was not used (%v)", round, strings.Join(names, ", "), firstLine(err.Error())))
			if os.Getenv("VERIF_INLINE_DEBUG") != "" {
				fmt.Fprintln(os.Stderr, "inline:", notes[len(notes)-1])
				for f, b := range ov {
					os.WriteFile(filepath.Join(os.TempDir(), "inline-debug-"+filepath.Base(f)), b, 0o644)
				}
			}
			break
		}
		for _, n := range names {
			everInlined[n] = true
		}
		p, overlay = q, ov
	}
	p.InlineNotes = notes
	p.Expanded = overlay
	if d := os.Getenv("VERIF_INLINE_DUMP"); d != "" {
		for f, b := range overlay {
			os.WriteFile(filepath.Join(d, strings.ReplaceAll(strings.TrimPrefix(f, dir+"/"), "/", "__")), b, 0o644)
		}
	}
	if len(everInlined) > 0 {
		p.dropInlined(everInlined)
	}
	return p, nil
}

func firstLine(s string) string {
	if len(s) > 300 {
		s = s[:300]
	}
	return s
}

type expandedRange struct {
	file     string
	from, to int
}

// ExpandedPos reports whether "file:line" lies in the declaration of a helper that was expanded at its call sites.
func (p *Program) ExpandedPos(pos string) bool {
	i := strings.LastIndex(pos, ":")
	if i < 0 {
		return false
	}
	line, err := strconv.Atoi(pos[i+1:])
	if err != nil {
		return false
	}
	for _, r := range p.expanded {
		if r.file == pos[:i] && r.from <= line && line <= r.to {
			return true
		}
	}
	return false
}

// dropInlined removes the declarations of expanded helpers that nothing refers to any more.
func (p *Program) dropInlined(names map[string]bool) {
	used := map[*types.Func]bool{}
	for _, pkg := range p.Pkgs {
		for _, obj := range pkg.TypesInfo.Uses {
			if fn, ok := obj.(*types.Func); ok {
				used[fn.Origin()] = true
			}
		}
	}
	var keep []*FuncInfo
	for _, fi := range p.AllFuncs {
		if fi.Obj != nil && names[fi.Name()] && !used[fi.Obj] {
			p.Inlined = append(p.Inlined, fi.Name())
			a, b := p.Fset.Position(fi.Decl.Pos()), p.Fset.Position(fi.Decl.End())
			if rel, err := filepath.Rel(p.Dir, a.Filename); err == nil {
				p.expanded = append(p.expanded, expandedRange{rel, a.Line, b.Line})
			}
			delete(p.funcDecls, fi.Obj)
			continue
		}
		keep = append(keep, fi)
	}
	p.AllFuncs = keep
	sort.Strings(p.Inlined)
}

func loadOnce(dir string, overlay map[string][]byte) (*Program, error) {
	os.Unsetenv("GOWORK")
	env := append(os.Environ(),
		"GOFLAGS=-mod=mod", "GOPROXY=off", "GOSUMDB=off", "GOTOOLCHAIN=local", "GOWORK=off", "CGO_ENABLED=0")
	cfg := &packages.Config{
		Mode:    packages.LoadAllSyntax,
		Dir:     dir,
		Env:     env,
		Tests:   false,
		Overlay: overlay,
	}
	pkgs, err := packages.Load(cfg, "./...")
	if err != nil {
		return nil, fmt.Errorf("packages.Load: %v", err)
	}
	p := &Program{
		Dir:       dir,
		All:       map[string]*packages.Package{},
		ByRel:     map[string]*packages.Package{},
		funcDecls: map[*types.Func]*FuncInfo{},
		varFuncs:  map[*types.Var]*FuncInfo{},
	}
	var errs []string
	packages.Visit(pkgs, nil, func(pkg *packages.Package) {
		p.All[pkg.PkgPath] = pkg
		for _, e := range pkg.Errors {
			errs = append(errs, e.Error())
		}
	})
	if len(errs) > 0 {
		sort.Strings(errs)
		if len(errs) > 10 {
			errs = errs[:10]
		}
		return nil, fmt.Errorf("load errors: %s", strings.Join(errs, "; "))
	}
	for _, pkg := range pkgs {
		if pkg.PkgPath == ModPath || strings.HasPrefix(pkg.PkgPath, ModPath+"/") {
			// mod_test is its own module and is not part of ./... ; skip anything odd.
			p.Pkgs = append(p.Pkgs, pkg)
			p.ByRel[ShortPkg(pkg.PkgPath)] = pkg
			if p.Fset == nil {
				p.Fset = pkg.Fset
			}
		}
	}
	if len(p.Pkgs) < minModulePkgs {
		return nil, fmt.Errorf("only %d module packages loaded from %s (expected >= 15)", len(p.Pkgs), dir)
	}
	sort.Slice(p.Pkgs, func(i, j int) bool { return p.Pkgs[i].PkgPath < p.Pkgs[j].PkgPath })
	for _, pkg := range p.Pkgs {
		for _, f := range pkg.Syntax {
			for _, d := range f.Decls {
				if gd, ok := d.(*ast.GenDecl); ok && gd.Tok == token.VAR {
					for _, sp := range gd.Specs {
						vs, ok := sp.(*ast.ValueSpec)
						if !ok || len(vs.Names) != len(vs.Values) {
							continue
						}
						for i, name := range vs.Names {
							lit, ok := vs.Values[i].(*ast.FuncLit)
							if !ok {
								continue
							}
							v, _ := pkg.TypesInfo.Defs[name].(*types.Var)
							if v == nil {
								continue
							}
							fi := &FuncInfo{Var: v, Lit: lit, Pkg: pkg, File: f}
							p.varFuncs[v] = fi
							p.AllFuncs = append(p.AllFuncs, fi)
						}
					}
				}
				fd, ok := d.(*ast.FuncDecl)
				if !ok {
					continue
				}
				obj, _ := pkg.TypesInfo.Defs[fd.Name].(*types.Func)
				if obj == nil {
					continue
				}
				fi := &FuncInfo{Obj: obj, Decl: fd, Pkg: pkg, File: f}
				p.funcDecls[obj] = fi
				p.AllFuncs = append(p.AllFuncs, fi)
			}
		}
	}
	p.resolveAnchors()
	sort.Slice(p.AllFuncs, func(i, j int) bool { return p.AllFuncs[i].Name() < p.AllFuncs[j].Name() })
	return p, nil
}

// Pkg returns the module package with the given short name or nil.
func (p *Program) Pkg(short string) *packages.Package { return p.ByRel[short] }

// FuncOf returns the syntax of a declared module function.
func (p *Program) FuncOf(obj *types.Func) *FuncInfo {
	if obj == nil {
		return nil
	}
	return p.funcDecls[obj.Origin()]
}

// VarFunc returns the function literal bound to a package-level variable, if any.
func (p *Program) VarFunc(v *types.Var) *FuncInfo { return p.varFuncs[v] }

// Func looks up "pkgshort.Name" or "pkgshort.(*T).Name" / "pkgshort.(T).Name" / "pkgshort.T.Name".
func (p *Program) Func(name string) *FuncInfo {
	for _, f := range p.AllFuncs {
		if f.Name() == name {
			return f
		}
	}
	// tolerant form: pkg.T.Name
	for _, f := range p.AllFuncs {
		n := f.Name()
		n = strings.NewReplacer("(*", "", "(", "", ")", "").Replace(n)
		if n == name {
			return f
		}
	}
	return nil
}

// FuncsIn returns all declared functions of a module package.
func (p *Program) FuncsIn(short string) []*FuncInfo {
	var out []*FuncInfo
	for _, f := range p.AllFuncs {
		if ShortPkg(f.Pkg.PkgPath) == short {
			out = append(out, f)
		}
	}
	return out
}

// Named looks up a named type in a module package.
func (p *Program) Named(short, name string) *types.Named {
	pkg := p.ByRel[short]
	if pkg == nil {
		return nil
	}
	obj := pkg.Types.Scope().Lookup(name)
	if obj == nil {
		return nil
	}
	n, _ := obj.Type().(*types.Named)
	return n
}

// Field looks up a struct field object of a named struct type.
func (p *Program) Field(short, typ, field string) *types.Var {
	if v := p.fieldByName(short, typ, field); v != nil {
		return v
	}
	return p.fieldAlias[short+"."+typ+"."+field]
}

func (p *Program) fieldByName(short, typ, field string) *types.Var {
	n := p.Named(short, typ)
	if n == nil {
		return nil
	}
	st, ok := n.Underlying().(*types.Struct)
	if !ok {
		return nil
	}
	for i := 0; i < st.NumFields(); i++ {
		if st.Field(i).Name() == field {
			return st.Field(i)
		}
	}
	return nil
}

// Pos renders a position relative to the repository root.
func (p *Program) Pos(pos token.Pos) string {
	if !pos.IsValid() {
		return "-"
	}
	pp := p.Fset.Position(pos)
	rel, err := filepath.Rel(p.Dir, pp.Filename)
	if err != nil {
		rel = pp.Filename
	}
	return fmt.Sprintf("%s:%d", rel, pp.Line)
}

// SSA builds (once) the SSA form of the whole program.
func (p *Program) SSA() *ssa.Program {
	if p.ssaProg != nil {
		return p.ssaProg
	}
	var roots []*packages.Package
	roots = append(roots, p.Pkgs...)
	prog, _ := ssautil.AllPackages(roots, ssa.InstantiateGenerics)
	prog.Build()
	p.ssaProg = prog
	return prog
}

// SSAFunc returns the SSA function for a declared function.
func (p *Program) SSAFunc(obj *types.Func) *ssa.Function {
	if obj == nil {
		return nil
	}
	return p.SSA().FuncValue(obj)
}

// Info returns the types.Info holding the given file position's package.
func (p *Program) InfoFor(fi *FuncInfo) *types.Info { return fi.Pkg.TypesInfo }
