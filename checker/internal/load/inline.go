package load

// Source-level inlining of small private helper functions ("normal form").
//
// The rules read one function at a time: a guard that dominates a write, a lock held around a call, a look-up whose
// ok-result is tested. A maintainer who extracts a block into a helper — or introduces an accessor that several
// functions share — leaves the behaviour alone but moves the construct a rule looks for across a function boundary.
// Instead of teaching every rule to follow helpers, the loader normalises the tree first: a helper that
//
//   - is declared in a module package, is unexported, is not one of the functions the rules name (anchors.json),
//   - is referenced only by direct calls, every one of them in a supported position (below),
//   - has no defer / go / recover / labels / named results / type parameters / variadic parameter, is not recursive,
//   - stays within the size bounds (maxInlineStmts statements, maxInlineSites call sites)
//
// is expanded at its call sites in an overlay of the source (the files on disk are never touched), the tree is loaded
// again, and the rules run on the expanded program. The helper's own declaration is then dead and is left out of the
// function list. Nothing is executed; the expansion is a textual, type-resolved rewriting with these guarantees:
//
//   - parameters: an argument is substituted for its parameter only when it is free of side effects and its value
//     cannot differ between the call and the use (no heap read, or every use precedes the first effect of the body);
//     otherwise it is bound once, in argument order, to a fresh local of the parameter's type. An argument that can
//     panic and is not certainly evaluated by the body is evaluated (`_ = arg`) where the call was.
//   - results: `return e` becomes the assignment the call site made (`x, ok = e`), a `return` of the enclosing function
//     (`return f()`), or, for `if f() {A} else {B}`, the branch the value selects; early returns leave through a labelled
//     `switch { default: … }` wrapped around the body.
//   - names: locals of the body that also occur in the caller are renamed; a package-level name the body uses must
//     resolve to the same object at the call site, imports the caller's file lacks are added.
//   - positions: `//line` directives make every expanded statement report the helper's own file and line.
//
// Supported positions: a statement of its own; the only right-hand side of an assignment or definition to plain
// variables; the only operand of a `return`; the condition (possibly negated) of an `if` without init statement; and,
// for helpers whose body is a single `return <expr>` (or `v, ok := <expr>; return v, ok`), any expression.
// When an expansion would not type-check the previous program is kept: inlining can only remove false alarms about
// moved code, never hide a construct — the expanded statements are all still there for the rules to judge.

import (
	"bytes"
	"fmt"
	"go/ast"
	"go/constant"
	"go/token"
	"go/types"
	"os"
	"sort"
	"strings"

	"golang.org/x/tools/go/packages"
)

const (
	maxInlineStmts  = 60
	maxInlineSites  = 40
	maxInlineRounds = 5
)

type inlEdit struct {
	start, end int
	text       string
	seq        int
	group      int // edits of one group are applied together or not at all
}

type pendingImport struct{ file, name, path string }

type refSite struct {
	pkg   *packages.Package
	file  *ast.File
	id    *ast.Ident
	stack []ast.Node // from the enclosing declaration down to id
}

type inliner struct {
	p       *Program
	src     map[string][]byte // file name -> current content
	edits   map[string][]inlEdit
	imports map[string]map[string]string // file -> name -> path
	pendImp []pendingImport              // imports asked for while planning the current function
	skipPkg map[string]bool              // packages in which an earlier attempt did not type-check
	n       int
	seq     int
	purity  map[*types.Func]int // 0 unknown, 1 pure, 2 impure, 3 in progress
	done    []string
	why     map[string]string // function -> reason it was not expanded (diagnostics only)
}

func (in *inliner) content(name string) []byte {
	if b, ok := in.src[name]; ok {
		return b
	}
	b, err := os.ReadFile(name)
	if err != nil {
		return nil
	}
	in.src[name] = b
	return b
}

func (in *inliner) text(n ast.Node) string {
	f := in.p.Fset.File(n.Pos())
	b := in.content(f.Name())
	s, e := f.Offset(n.Pos()), f.Offset(n.End())
	if b == nil || s < 0 || e > len(b) || s > e {
		return ""
	}
	return string(b[s:e])
}

// inlinePass plans one round of expansions. It returns the new overlay (nil when nothing was expanded).
func (p *Program) inlinePass(overlay map[string][]byte, skipPkg map[string]bool, round int) (map[string][]byte, []string) {
	in := &inliner{p: p, skipPkg: skipPkg, n: round * 10000, src: map[string][]byte{}, edits: map[string][]inlEdit{}, imports: map[string]map[string]string{},
		purity: map[*types.Func]int{}, why: map[string]string{}}
	for k, v := range overlay {
		in.src[k] = v
	}
	// interface method names: a method that may be called through an interface stays
	ifaceMethods := map[string]bool{}
	for _, pkg := range p.Pkgs {
		for _, obj := range pkg.TypesInfo.Defs {
			tn, ok := obj.(*types.TypeName)
			if !ok {
				continue
			}
			if it, ok := tn.Type().Underlying().(*types.Interface); ok {
				for i := 0; i < it.NumMethods(); i++ {
					ifaceMethods[it.Method(i).Name()] = true
				}
			}
		}
	}
	// references
	refs := map[*types.Func][]refSite{}
	for _, pkg := range p.Pkgs {
		for _, f := range pkg.Syntax {
			var stack []ast.Node
			ast.Inspect(f, func(n ast.Node) bool {
				if n == nil {
					stack = stack[:len(stack)-1]
					return true
				}
				stack = append(stack, n)
				if id, ok := n.(*ast.Ident); ok {
					if fn, ok := pkg.TypesInfo.Uses[id].(*types.Func); ok {
						fn = fn.Origin()
						if _, mine := p.funcDecls[fn]; mine {
							refs[fn] = append(refs[fn], refSite{pkg: pkg, file: f, id: id, stack: append([]ast.Node(nil), stack...)})
						}
					}
				}
				return true
			})
		}
	}
	var cands []*FuncInfo
	for _, fi := range p.AllFuncs {
		if fi.Decl == nil || fi.Obj == nil || fi.Decl.Body == nil {
			continue
		}
		if reason := in.candidate(fi, ifaceMethods); reason != "" {
			in.why[fi.Name()] = reason
			continue
		}
		if len(refs[fi.Obj]) == 0 {
			continue
		}
		cands = append(cands, fi)
	}
	for _, fi := range cands {
		sites := refs[fi.Obj]
		if len(sites) > maxInlineSites {
			in.why[fi.Name()] = "too many call sites"
			continue
		}
		var plans []func()
		ok := true
		in.pendImp = nil
		for _, rs := range sites {
			pl, reason := in.plan(fi, rs)
			if pl == nil {
				in.why[fi.Name()] = reason + " at " + p.Pos(rs.id.Pos())
				ok = false
				break
			}
			plans = append(plans, pl)
		}
		if !ok {
			continue
		}
		for _, pi := range in.pendImp {
			if prev, has := in.imports[pi.file][pi.name]; has && prev != pi.path {
				ok = false
			}
		}
		if !ok {
			in.why[fi.Name()] = "conflicting import names"
			continue
		}
		for _, pi := range in.pendImp {
			if in.imports[pi.file] == nil {
				in.imports[pi.file] = map[string]string{}
			}
			in.imports[pi.file][pi.name] = pi.path
		}
		for _, pl := range plans {
			pl()
		}
		in.done = append(in.done, fi.Name())
	}
	if os.Getenv("VERIF_INLINE_DEBUG") != "" {
		var ks []string
		for k := range in.why {
			if in.why[k] != "exported" && in.why[k] != "named by the rules" {
				ks = append(ks, k)
			}
		}
		sort.Strings(ks)
		for _, k := range ks {
			fmt.Fprintf(os.Stderr, "inline: not %s: %s\n", k, in.why[k])
		}
		fmt.Fprintf(os.Stderr, "inline: expanded this round: %v\n", in.done)
	}
	if len(in.edits) == 0 {
		return nil, nil
	}
	out := map[string][]byte{}
	for k, v := range overlay {
		out[k] = v
	}
	for name, eds := range in.edits {
		sort.Slice(eds, func(i, j int) bool {
			if eds[i].start != eds[j].start {
				return eds[i].start < eds[j].start
			}
			if eds[i].end != eds[j].end {
				return eds[i].end > eds[j].end
			}
			return eds[i].seq < eds[j].seq
		})
		// outermost edits win; an edit nested in (or overlapping) an earlier one waits for the next round
		var keep []inlEdit
		lastEnd := -1
		droppedGroup := map[int]bool{}
		for _, e := range eds {
			if e.start < lastEnd || (e.start == e.end && e.start == lastEnd && false) {
				if e.group != 0 {
					droppedGroup[e.group] = true
				}
				continue
			}
			keep = append(keep, e)
			if e.end > lastEnd {
				lastEnd = e.end
			}
		}
		if len(droppedGroup) > 0 {
			k2 := keep[:0]
			for _, e := range keep {
				if e.group == 0 || !droppedGroup[e.group] {
					k2 = append(k2, e)
				}
			}
			keep = k2
		}
		b := in.content(name)
		var buf bytes.Buffer
		pos := 0
		for _, e := range keep {
			buf.Write(b[pos:e.start])
			buf.WriteString(e.text)
			pos = e.end
		}
		buf.Write(b[pos:])
		res := buf.Bytes()
		if imps := in.imports[name]; len(imps) > 0 {
			res = addImports(p, name, res, imps)
		}
		out[name] = res
	}
	sort.Strings(in.done)
	return out, in.done
}

// addImports appends import declarations on the line of the package clause (line numbers stay as they are).
func addImports(p *Program, name string, content []byte, imps map[string]string) []byte {
	var f *ast.File
	for _, pkg := range p.Pkgs {
		for _, sf := range pkg.Syntax {
			if p.Fset.File(sf.Pos()).Name() == name {
				f = sf
			}
		}
	}
	if f == nil {
		return content
	}
	off := p.Fset.File(f.Pos()).Offset(f.Name.End())
	var names []string
	for n := range imps {
		names = append(names, n)
	}
	sort.Strings(names)
	var sb strings.Builder
	for _, n := range names {
		fmt.Fprintf(&sb, "; import %s %q", n, imps[n])
	}
	return append(append(append([]byte(nil), content[:off]...), sb.String()...), content[off:]...)
}

// candidate returns "" when fi has the shape that can be expanded.
func (in *inliner) candidate(fi *FuncInfo, ifaceMethods map[string]bool) string {
	d := fi.Decl
	name := d.Name.Name
	if ast.IsExported(name) || name == "init" || name == "main" || name == "_" {
		return "exported"
	}
	if !in.p.anchorPkg(ShortPkg(fi.Pkg.PkgPath)) {
		return "exported" // a package the rules name nothing in: nothing to normalise
	}
	if in.skipPkg[fi.Pkg.PkgPath] {
		return "an expansion in this package did not type-check"
	}
	if in.p.IsAnchor(fi.Name()) || fi.Canon != "" || in.p.IsNamed(name) {
		return "named by the rules"
	}
	// a generic function is expanded with the type arguments the call site infers (newExpansion)
	sig := fi.Obj.Type().(*types.Signature)
	if sig.Params().Len() == 2 && sig.Results().Len() == 0 && sig.Params().At(0).Type().String() == "net/http.ResponseWriter" && sig.Params().At(1).Type().String() == "*net/http.Request" {
		return "an HTTP handler: an entry point the rules reason about, not a helper"
	}
	if sig.Recv() != nil {
		if ifaceMethods[name] {
			return "may be called through an interface"
		}
		if n := namedOf(sig.Recv().Type()); n != nil && n.TypeParams() != nil && n.TypeParams().Len() > 0 {
			return "generic receiver"
		}
	}
	stmts := 0
	bad := ""
	info := fi.Pkg.TypesInfo
	ast.Inspect(d.Body, func(n ast.Node) bool {
		switch n := n.(type) {
		case *ast.DeferStmt:
			// allowed where a return of the helper is a return of the caller (planStmt)
		case *ast.GoStmt:
			bad = "go statement"
		case *ast.LabeledStmt:
			// labels of loops are renamed per expansion (newExpansion)
			switch n.Stmt.(type) {
			case *ast.ForStmt, *ast.RangeStmt, *ast.SwitchStmt, *ast.TypeSwitchStmt, *ast.SelectStmt:
			default:
				bad = "label on a plain statement"
			}
		case *ast.BranchStmt:
			if n.Tok == token.GOTO {
				bad = "goto"
			}
		case *ast.CallExpr:
			if id, ok := ast.Unparen(n.Fun).(*ast.Ident); ok {
				if b, ok := info.Uses[id].(*types.Builtin); ok && b.Name() == "recover" {
					// allowed where the helper itself is the deferred function (planStmt)
				}
			}
			if fn := calleeOf(info, n); fn != nil && fn.Origin() == fi.Obj {
				bad = "recursive"
			}
		case *ast.FuncLit:
			// a return inside a literal belongs to the literal; the literal may capture parameters
		}
		if _, ok := n.(ast.Stmt); ok {
			stmts++
		}
		return true
	})
	if bad != "" {
		return bad
	}
	if stmts > maxInlineStmts {
		return "too long"
	}
	return ""
}

func hasNamedResults(d *ast.FuncDecl) bool {
	if d.Type.Results != nil {
		for _, f := range d.Type.Results.List {
			for _, n := range f.Names {
				if n.Name != "_" {
					return true
				}
			}
			if len(f.Names) > 0 {
				return true
			}
		}
	}
	return false
}

func callsRecover(info *types.Info, d *ast.FuncDecl) bool {
	found := false
	ast.Inspect(d.Body, func(n ast.Node) bool {
		if call, ok := n.(*ast.CallExpr); ok {
			if id, ok := ast.Unparen(call.Fun).(*ast.Ident); ok {
				if b, ok := info.Uses[id].(*types.Builtin); ok && b.Name() == "recover" {
					found = true
				}
			}
		}
		return true
	})
	return found
}

func hasDefer(d *ast.FuncDecl) bool {
	found := false
	ast.Inspect(d.Body, func(n ast.Node) bool {
		switch n.(type) {
		case *ast.FuncLit:
			return false
		case *ast.DeferStmt:
			found = true
		}
		return true
	})
	return found
}

// lowerableDefers returns the defer statements of a helper when they can be turned into explicit calls at every exit:
// each is a top-level statement of the body, defers a plain call (no function literal, no recover) whose operands are
// names, selections and constants, and no name it mentions is assigned after the defer statement — so evaluating the
// operands at the exit gives what evaluating them at the defer gave. (Panics are outside this normal form: a deferred
// call that would have run during a panic is not shown on that path.) nil if any defer does not qualify.
func lowerableDefers(info *types.Info, d *ast.FuncDecl) []*ast.DeferStmt {
	var out []*ast.DeferStmt
	top := map[ast.Stmt]bool{}
	for _, st := range d.Body.List {
		top[st] = true
	}
	ok := true
	ast.Inspect(d.Body, func(n ast.Node) bool {
		switch x := n.(type) {
		case *ast.FuncLit:
			return false
		case *ast.DeferStmt:
			if !top[x] {
				ok = false
				return false
			}
			if lit, isLit := ast.Unparen(x.Call.Fun).(*ast.FuncLit); isLit {
				// a literal without parameters reads everything when it runs, at the exit, anyway; one that could assign a
				// named result after the return values were computed is left alone
				if len(x.Call.Args) != 0 || (lit.Type.Params != nil && len(lit.Type.Params.List) != 0) || hasNamedResults(d) {
					ok = false
					return false
				}
				out = append(out, x)
				return false
			}
			simple := true
			var names []types.Object
			var operand func(e ast.Expr)
			operand = func(e ast.Expr) {
				switch y := ast.Unparen(e).(type) {
				case *ast.Ident:
					if o := info.Uses[y]; o != nil {
						if _, isVar := o.(*types.Var); isVar {
							names = append(names, o)
						}
					}
				case *ast.SelectorExpr:
					operand(y.X)
				case *ast.BasicLit:
				case *ast.UnaryExpr:
					if y.Op == token.AND {
						operand(y.X)
					} else {
						simple = false
					}
				case *ast.StarExpr:
					operand(y.X)
				default:
					simple = false
				}
			}
			operand(x.Call.Fun)
			for _, a := range x.Call.Args {
				operand(a)
			}
			if !simple {
				ok = false
				return false
			}
			// no operand name is assigned after the defer statement
			ast.Inspect(d.Body, func(m ast.Node) bool {
				var lhs []ast.Expr
				switch z := m.(type) {
				case *ast.AssignStmt:
					lhs = z.Lhs
				case *ast.IncDecStmt:
					lhs = []ast.Expr{z.X}
				case *ast.RangeStmt:
					lhs = []ast.Expr{z.Key, z.Value}
				}
				for _, l := range lhs {
					if l == nil || l.Pos() < x.End() {
						continue
					}
					if id, isID := ast.Unparen(l).(*ast.Ident); isID {
						o := info.Uses[id]
						if o == nil {
							o = info.Defs[id]
						}
						for _, nm := range names {
							if o == nm {
								ok = false
							}
						}
					}
				}
				return true
			})
			out = append(out, x)
			return false
		}
		return true
	})
	if !ok || len(out) == 0 {
		return nil
	}
	return out
}

// prefixHelper recognises `func f(p []byte) []byte { b := make([]byte, K+len(p)); b[0] = c0; …; copy(b[K:], p); return b }`
// and returns the constants c0 … cK-1 as source text.
func prefixHelper(info *types.Info, d *ast.FuncDecl) ([]string, bool) {
	if d.Recv != nil || d.Type.Params == nil || len(d.Type.Params.List) != 1 || len(d.Type.Params.List[0].Names) != 1 || d.Type.Results == nil || len(d.Type.Results.List) != 1 {
		return nil, false
	}
	param := info.Defs[d.Type.Params.List[0].Names[0]]
	isByteSlice := func(t types.Type) bool {
		sl, ok := t.Underlying().(*types.Slice)
		if !ok {
			return false
		}
		b, ok := sl.Elem().Underlying().(*types.Basic)
		return ok && b.Kind() == types.Uint8
	}
	if param == nil || !isByteSlice(param.Type()) || !isByteSlice(info.TypeOf(d.Type.Results.List[0].Type)) {
		return nil, false
	}
	st := d.Body.List
	if len(st) < 4 {
		return nil, false
	}
	k := len(st) - 3
	// b := make([]byte, K+len(p))
	as, ok := st[0].(*ast.AssignStmt)
	if !ok || as.Tok != token.DEFINE || len(as.Lhs) != 1 || len(as.Rhs) != 1 {
		return nil, false
	}
	bid, ok := as.Lhs[0].(*ast.Ident)
	if !ok {
		return nil, false
	}
	buf := info.Defs[bid]
	mk, ok := ast.Unparen(as.Rhs[0]).(*ast.CallExpr)
	if !ok || len(mk.Args) != 2 {
		return nil, false
	}
	if id, ok := ast.Unparen(mk.Fun).(*ast.Ident); !ok || id.Name != "make" || info.Uses[id] != types.Universe.Lookup("make") {
		return nil, false
	}
	sum, ok := ast.Unparen(mk.Args[1]).(*ast.BinaryExpr)
	if !ok || sum.Op != token.ADD {
		return nil, false
	}
	isLenP := func(e ast.Expr) bool {
		c, ok := ast.Unparen(e).(*ast.CallExpr)
		if !ok || len(c.Args) != 1 {
			return false
		}
		f, ok := ast.Unparen(c.Fun).(*ast.Ident)
		if !ok || f.Name != "len" || info.Uses[f] != types.Universe.Lookup("len") {
			return false
		}
		a, ok := ast.Unparen(c.Args[0]).(*ast.Ident)
		return ok && info.Uses[a] == param
	}
	isK := func(e ast.Expr) bool {
		tv, ok := info.Types[e]
		if !ok || tv.Value == nil {
			return false
		}
		v, exact := constant.Int64Val(constant.ToInt(tv.Value))
		return exact && v == int64(k)
	}
	if !((isK(sum.X) && isLenP(sum.Y)) || (isLenP(sum.X) && isK(sum.Y))) {
		return nil, false
	}
	// b[i] = ci
	var consts []string
	for i := 0; i < k; i++ {
		a, ok := st[1+i].(*ast.AssignStmt)
		if !ok || a.Tok != token.ASSIGN || len(a.Lhs) != 1 || len(a.Rhs) != 1 {
			return nil, false
		}
		ix, ok := a.Lhs[0].(*ast.IndexExpr)
		if !ok {
			return nil, false
		}
		x, ok := ast.Unparen(ix.X).(*ast.Ident)
		if !ok || info.Uses[x] != buf {
			return nil, false
		}
		itv, ok := info.Types[ix.Index]
		if !ok || itv.Value == nil {
			return nil, false
		}
		if v, exact := constant.Int64Val(constant.ToInt(itv.Value)); !exact || v != int64(i) {
			return nil, false
		}
		vtv, ok := info.Types[a.Rhs[0]]
		if !ok || vtv.Value == nil {
			return nil, false
		}
		cv, exact := constant.Int64Val(constant.ToInt(vtv.Value))
		if !exact || cv < 0 || cv > 255 {
			return nil, false
		}
		consts = append(consts, fmt.Sprintf("%d", cv))
	}
	// copy(b[K:], p)
	es, ok := st[1+k].(*ast.ExprStmt)
	if !ok {
		return nil, false
	}
	cp, ok := es.X.(*ast.CallExpr)
	if !ok || len(cp.Args) != 2 {
		return nil, false
	}
	if f, ok := ast.Unparen(cp.Fun).(*ast.Ident); !ok || f.Name != "copy" || info.Uses[f] != types.Universe.Lookup("copy") {
		return nil, false
	}
	sl, ok := ast.Unparen(cp.Args[0]).(*ast.SliceExpr)
	if !ok || sl.High != nil || sl.Low == nil || !isK(sl.Low) {
		return nil, false
	}
	if x, ok := ast.Unparen(sl.X).(*ast.Ident); !ok || info.Uses[x] != buf {
		return nil, false
	}
	if a, ok := ast.Unparen(cp.Args[1]).(*ast.Ident); !ok || info.Uses[a] != param {
		return nil, false
	}
	// return b
	ret, ok := st[2+k].(*ast.ReturnStmt)
	if !ok || len(ret.Results) != 1 {
		return nil, false
	}
	if x, ok := ast.Unparen(ret.Results[0]).(*ast.Ident); !ok || info.Uses[x] != buf {
		return nil, false
	}
	return consts, true
}

func namedOf(t types.Type) *types.Named {
	if p, ok := t.(*types.Pointer); ok {
		t = p.Elem()
	}
	n, _ := t.(*types.Named)
	return n
}

func calleeOf(info *types.Info, call *ast.CallExpr) *types.Func {
	switch f := ast.Unparen(call.Fun).(type) {
	case *ast.Ident:
		fn, _ := info.Uses[f].(*types.Func)
		return fn
	case *ast.SelectorExpr:
		fn, _ := info.Uses[f.Sel].(*types.Func)
		return fn
	}
	return nil
}

// exprBody returns the expression a helper evaluates to when its body is `return e` or `v… := e; return v…`.
func exprBody(info *types.Info, d *ast.FuncDecl) ast.Expr {
	if hasNamedResults(d) {
		return nil
	}
	l := d.Body.List
	if len(l) == 1 {
		if r, ok := l[0].(*ast.ReturnStmt); ok && len(r.Results) == 1 {
			return r.Results[0]
		}
	}
	if len(l) == 2 {
		as, ok1 := l[0].(*ast.AssignStmt)
		r, ok2 := l[1].(*ast.ReturnStmt)
		if ok1 && ok2 && as.Tok == token.DEFINE && len(as.Rhs) == 1 && len(as.Lhs) == len(r.Results) {
			for i := range as.Lhs {
				a, ok := as.Lhs[i].(*ast.Ident)
				b, ok2 := r.Results[i].(*ast.Ident)
				if !ok || !ok2 || a.Name == "_" || info.Defs[a] == nil || info.Uses[b] != info.Defs[a] {
					return nil
				}
			}
			return as.Rhs[0]
		}
	}
	return nil
}

type callCtx struct {
	rs       refSite
	call     *ast.CallExpr
	recv     ast.Expr // receiver expression or nil
	callIdx  int      // index of the call in rs.stack
	encl     *ast.FuncDecl
	enclLit  ast.Node // innermost FuncLit or FuncDecl
	callInfo *types.Info
	deferred bool                        // `defer helper(…)`: the arguments are evaluated now, the body runs when the caller returns
	typeArgs map[types.Object]types.Type // type parameter -> type argument (generic helper, inferred instantiation)
}

// plan prepares the expansion of one reference; it returns nil and a reason when the position is not supported.
func (in *inliner) plan(fi *FuncInfo, rs refSite) (func(), string) {
	st := rs.stack
	info := rs.pkg.TypesInfo
	k := len(st) - 1 // the identifier
	ci := k - 1
	var recv ast.Expr
	if sel, ok := st[ci].(*ast.SelectorExpr); ok && sel.Sel == rs.id {
		s := info.Selections[sel]
		if s == nil || s.Kind() != types.MethodVal || len(s.Index()) != 1 {
			return nil, "not a plain method call"
		}
		recv = sel.X
		ci--
	}
	for ci >= 0 {
		if _, ok := st[ci].(*ast.ParenExpr); ok {
			ci--
			continue
		}
		break
	}
	call, ok := st[ci].(*ast.CallExpr)
	if !ok || !contains(call.Fun, rs.id) {
		return nil, "used as a value"
	}

	cc := &callCtx{rs: rs, call: call, recv: recv, callIdx: ci, callInfo: info}
	for i := ci; i >= 0; i-- {
		switch n := st[i].(type) {
		case *ast.FuncLit:
			if cc.enclLit == nil {
				cc.enclLit = n
			}
		case *ast.FuncDecl:
			cc.encl = n
			if cc.enclLit == nil {
				cc.enclLit = n
			}
		}
	}
	if cc.encl == nil || cc.encl.Body == nil {
		return nil, "call outside a function body"
	}
	if tps := fi.Obj.Type().(*types.Signature).TypeParams(); tps != nil && tps.Len() > 0 {
		inst, ok := info.Instances[rs.id]
		if !ok || inst.TypeArgs == nil || inst.TypeArgs.Len() != tps.Len() {
			return nil, "generic helper without an inferred instantiation"
		}
		cc.typeArgs = map[types.Object]types.Type{}
		for k := 0; k < tps.Len(); k++ {
			cc.typeArgs[tps.At(k).Obj()] = inst.TypeArgs.At(k)
		}
	}
	// a function literal that is not called where it stands (a goroutine, a timer, a stored callback) is a unit of its
	// own: what it calls is not part of the enclosing function's step
	for i := ci; i >= 1; i-- {
		lit, ok := st[i].(*ast.FuncLit)
		if !ok {
			continue
		}
		immediate := false
		if call2, ok := st[i-1].(*ast.CallExpr); ok && ast.Unparen(call2.Fun) == ast.Expr(lit) {
			immediate = true
			if i >= 2 {
				if _, isGo := st[i-2].(*ast.GoStmt); isGo {
					immediate = false
				}
			}
		}
		if !immediate {
			return nil, "call inside a function literal that runs later"
		}
	}
	if cc.encl == fi.Decl {
		return nil, "recursive"
	}
	sig := fi.Obj.Type().(*types.Signature)
	if (sig.Recv() != nil) != (recv != nil) {
		return nil, "receiver mismatch"
	}
	if sig.Variadic() && !call.Ellipsis.IsValid() {
		if len(call.Args) < sig.Params().Len()-1 {
			return nil, "argument count (tuple argument)"
		}
	} else if len(call.Args) != sig.Params().Len() {
		return nil, "argument count (tuple argument)"
	}
	// a helper that returns a fresh slice holding fixed bytes followed by a copy of its argument (make with the exact
	// size, the bytes, copy) is `append([]byte{…}, arg...)` spelled out: the call is replaced by that expression
	if consts, ok := prefixHelper(fi.Pkg.TypesInfo, fi.Decl); ok && len(call.Args) == 1 && recv == nil {
		if _, isID := ast.Unparen(call.Args[0]).(*ast.Ident); isID {
			argTxt := in.text(call.Args[0])
			return func() {
				in.addEdit(call.Pos(), call.End(), "append([]byte{"+strings.Join(consts, ", ")+"}, "+argTxt+"...)")
			}, ""
		}
	}
	if e := exprBody(fi.Pkg.TypesInfo, fi.Decl); e != nil && !callsRecover(fi.Pkg.TypesInfo, fi.Decl) {
		if _, isDefer := st[ci-1].(*ast.DeferStmt); !isDefer {
			return in.planExpr(fi, cc, e)
		}
	}
	return in.planStmt(fi, cc)
}

func contains(root ast.Node, x ast.Node) bool {
	found := false
	ast.Inspect(root, func(n ast.Node) bool {
		if n == x {
			found = true
		}
		return !found
	})
	return found
}

// ---------- parameters

type binding struct {
	param  *types.Var
	args   []ast.Expr // one argument; several (or none) for a variadic parameter that is passed element by element
	spread bool       // args are the elements of the variadic parameter
	argTxt string
	direct bool
	temp   string
}

type expansion struct {
	in        *inliner
	fi        *FuncInfo
	cc        *callCtx
	binds     []*binding
	rename    map[types.Object]string
	prelude   []string
	label     string
	id        int
	usesOf    map[*types.Var][]*ast.Ident
	firstEff  token.Pos
	effects   []effect
	freeNames map[string]bool // names the body uses for things declared outside it
	// named results of the helper: declared at the start of the expansion; a bare return returns them
	resultVars  []string
	resultDecls []string
}

func (in *inliner) newExpansion(fi *FuncInfo, cc *callCtx) (*expansion, string) {
	in.n++
	ex := &expansion{in: in, fi: fi, cc: cc, rename: map[types.Object]string{}, id: in.n, usesOf: map[*types.Var][]*ast.Ident{}}
	ex.label = fmt.Sprintf("inl%d", ex.id)
	finfo := fi.Pkg.TypesInfo
	sig := fi.Obj.Type().(*types.Signature)
	body := fi.Decl.Body
	// identifiers of the caller (for renaming and capture checks)
	callerNames := map[string]bool{}
	ast.Inspect(cc.encl, func(n ast.Node) bool {
		if id, ok := n.(*ast.Ident); ok {
			callerNames[id.Name] = true
		}
		return true
	})
	// uses of parameters, locals of the body, free names
	assigned := map[*types.Var]bool{}
	var reason string
	scope := cc.callInfo.Scopes[cc.encl.Type]
	if inner := scope.Innermost(cc.call.Pos()); inner != nil {
		scope = inner
	}
	file := cc.rs.file
	ast.Inspect(body, func(n ast.Node) bool {
		switch n := n.(type) {
		case *ast.Ident:
			if obj := finfo.Defs[n]; obj != nil {
				if _, isVar := obj.(*types.Var); isVar || isConstOrType(obj) {
					if n.Name != "_" && callerNames[n.Name] {
						ex.rename[obj] = fmt.Sprintf("%s__i%d", n.Name, ex.id)
					}
				}
				if _, isLabel := obj.(*types.Label); isLabel {
					// labels share one name space per function: always made unique
					ex.rename[obj] = fmt.Sprintf("%s__i%d", n.Name, ex.id)
				}
				return true
			}
			obj := finfo.Uses[n]
			if obj == nil {
				return true
			}
			if v, ok := obj.(*types.Var); ok && isParamOf(sig, v) {
				ex.usesOf[v] = append(ex.usesOf[v], n)
				return true
			}
			if pn, ok := obj.(*types.PkgName); ok {
				if !in.ensureImport(file, cc.rs.pkg, pn, scope, cc.call.Pos()) {
					reason = "import " + pn.Imported().Path() + " not available under the same name"
				}
				return true
			}
			// package-level or universe object: must resolve to the same object at the call site
			if obj.Parent() == fi.Pkg.Types.Scope() || obj.Parent() == types.Universe {
				if ex.freeNames == nil {
					ex.freeNames = map[string]bool{}
				}
				ex.freeNames[n.Name] = true
				if _, o := scope.LookupParent(n.Name, cc.call.Pos()); o != obj {
					reason = "name " + n.Name + " means something else at the call site"
				}
			}
		case *ast.SelectorExpr:
			// field and method names are not free identifiers: skip Sel
			ast.Inspect(n.X, func(m ast.Node) bool { return true })
		}
		return true
	})
	for node, obj := range finfo.Implicits {
		if _, isClause := node.(*ast.CaseClause); isClause && node.Pos() >= body.Pos() && node.End() <= body.End() && callerNames[obj.Name()] {
			reason = "type-switch variable " + obj.Name() + " also occurs in the caller"
		}
	}
	if reason != "" {
		return nil, reason
	}
	// named results are locals of the expansion
	if fi.Decl.Type.Results != nil {
		for _, f := range fi.Decl.Type.Results.List {
			for _, n := range f.Names {
				obj := finfo.Defs[n]
				if obj == nil || n.Name == "_" {
					if len(f.Names) > 0 && n.Name == "_" {
						return nil, "blank named result"
					}
					continue
				}
				name := n.Name
				if callerNames[name] {
					name = fmt.Sprintf("%s__i%d", n.Name, ex.id)
					ex.rename[obj] = name
				}
				ts, ok := in.typeString(obj.Type(), cc)
				if !ok {
					return nil, "type of result " + n.Name + " cannot be spelled at the call site"
				}
				ex.resultVars = append(ex.resultVars, name)
				// (a named result that no return reads would be "declared and not used" as a local)
				ex.resultDecls = append(ex.resultDecls, fmt.Sprintf("var %s %s; _ = %s", name, ts, name))
			}
		}
	}
	// assigned / address-taken parameters
	ast.Inspect(body, func(n ast.Node) bool {
		mark := func(e ast.Expr) {
			// the parameter itself, or a part of a parameter that is a value (a field of a struct parameter, an element
			// of an array parameter): the body then changes its own copy
			for {
				switch x := ast.Unparen(e).(type) {
				case *ast.SelectorExpr:
					if s := finfo.Selections[x]; s != nil && s.Kind() == types.FieldVal && !s.Indirect() {
						if _, isPtr := finfo.TypeOf(x.X).Underlying().(*types.Pointer); !isPtr {
							e = x.X
							continue
						}
					}
				case *ast.IndexExpr:
					if _, isArr := finfo.TypeOf(x.X).Underlying().(*types.Array); isArr {
						e = x.X
						continue
					}
				case *ast.SliceExpr:
					if _, isArr := finfo.TypeOf(x.X).Underlying().(*types.Array); isArr {
						e = x.X
						continue
					}
				}
				break
			}
			if id, ok := ast.Unparen(e).(*ast.Ident); ok {
				if v, ok := finfo.Uses[id].(*types.Var); ok && isParamOf(sig, v) {
					assigned[v] = true
				}
			}
		}
		switch n := n.(type) {
		case *ast.AssignStmt:
			for _, l := range n.Lhs {
				mark(l)
			}
		case *ast.IncDecStmt:
			mark(n.X)
		case *ast.UnaryExpr:
			if n.Op == token.AND {
				mark(n.X)
			}
		case *ast.CallExpr:
			// a method with a pointer receiver called on a value parameter takes its address
			if sel, ok := ast.Unparen(n.Fun).(*ast.SelectorExpr); ok {
				if s := finfo.Selections[sel]; s != nil && s.Kind() == types.MethodVal {
					if fn, ok := s.Obj().(*types.Func); ok {
						if rs := fn.Type().(*types.Signature).Recv(); rs != nil {
							if _, ptrRecv := rs.Type().(*types.Pointer); ptrRecv {
								if _, argPtr := finfo.TypeOf(sel.X).Underlying().(*types.Pointer); !argPtr {
									mark(sel.X)
								}
							}
						}
					}
				}
			}
		case *ast.RangeStmt:
			if n.Key != nil {
				mark(n.Key)
			}
			if n.Value != nil {
				mark(n.Value)
			}
		}
		return true
	})
	ex.effects = in.effectsOf(fi)
	ex.firstEff = token.Pos(1 << 40)
	if len(ex.effects) > 0 {
		ex.firstEff = ex.effects[0].pos
	}
	// bindings in evaluation order: receiver, then arguments
	type pa struct {
		v      *types.Var
		args   []ast.Expr
		txt    string
		spread bool
	}
	var pas []pa
	recvNeedsAddr := false
	if sig.Recv() != nil {
		txt := in.text(cc.recv)
		rt := cc.callInfo.TypeOf(cc.recv)
		_, recvPtr := sig.Recv().Type().(*types.Pointer)
		_, argPtr := rt.Underlying().(*types.Pointer)
		switch {
		case recvPtr && !argPtr:
			// x.m() with a pointer receiver takes &x; where the body only selects from the receiver, (&x).f is x.f
			if !selectorBasesOnly(body, ex.usesOf[sig.Recv()]) {
				txt = "(&" + txt + ")"
			} else {
				recvNeedsAddr = true // … unless it has to be bound to a local after all
			}
		case !recvPtr && argPtr:
			txt = "(*" + txt + ")"
		}
		pas = append(pas, pa{sig.Recv(), []ast.Expr{cc.recv}, txt, false})
	}
	for i := 0; i < sig.Params().Len(); i++ {
		if sig.Variadic() && i == sig.Params().Len()-1 && !cc.call.Ellipsis.IsValid() {
			ts, ok := in.typeString(sig.Params().At(i).Type(), cc)
			if !ok {
				return nil, "type of the variadic parameter cannot be spelled at the call site"
			}
			rest := cc.call.Args[i:]
			var parts []string
			for _, a := range rest {
				parts = append(parts, in.text(a))
			}
			txt := ts + "{" + strings.Join(parts, ", ") + "}"
			if len(rest) == 0 {
				txt = ts + "(nil)"
			}
			pas = append(pas, pa{sig.Params().At(i), rest, txt, true})
			continue
		}
		pas = append(pas, pa{sig.Params().At(i), []ast.Expr{cc.call.Args[i]}, in.text(cc.call.Args[i]), false})
	}
	all := func(args []ast.Expr, f func(ast.Expr) bool) bool {
		for _, a := range args {
			if !f(a) {
				return false
			}
		}
		return true
	}
	anyOf := func(args []ast.Expr, f func(ast.Expr) bool) bool {
		for _, a := range args {
			if f(a) {
				return true
			}
		}
		return false
	}
	// a variable whose address is passed along makes every argument that mentions it unstable
	addrTaken := map[types.Object]bool{}
	for _, a := range pas {
		for _, arg := range a.args {
			ast.Inspect(arg, func(n ast.Node) bool {
				if u, ok := n.(*ast.UnaryExpr); ok && u.Op == token.AND {
					if id, ok := ast.Unparen(u.X).(*ast.Ident); ok {
						addrTaken[cc.callInfo.Uses[id]] = true
					}
				}
				return true
			})
		}
	}
	for _, a := range pas {
		b := &binding{param: a.v, args: a.args, spread: a.spread, argTxt: a.txt}
		uses := ex.usesOf[a.v]
		pure := all(a.args, func(e ast.Expr) bool { return in.pureExpr(cc.callInfo, e) })
		mentionsAddr := false
		for _, arg := range a.args {
			arg := arg
			ast.Inspect(arg, func(n ast.Node) bool {
				if id, ok := n.(*ast.Ident); ok && addrTaken[cc.callInfo.Uses[id]] {
					if _, isAddr := ast.Unparen(arg).(*ast.UnaryExpr); !isAddr {
						mentionsAddr = true
					}
				}
				return true
			})
		}
		argPanics := anyOf(a.args, func(e ast.Expr) bool { return mayPanic(cc.callInfo, e) })
		argHeapFree := all(a.args, func(e ast.Expr) bool { return heapFree(cc.callInfo, e) })
		argDupSafe := !a.spread && all(a.args, dupSafe)
		stable := ex.usesStable(uses, readsOf(cc.callInfo, a.args))
		captured := false
		for _, u := range uses {
			if ex.insideLit(u) {
				captured = true
			}
		}
		switch {
		case captured && a.v.Name() != "_" && a.v.Name() != "":
			// a function literal of the body captures the parameter: it may run later, when the caller's variable has
			// moved on; only a variable that never changes can stand for it
			b.direct = !assigned[a.v] && !a.spread && !mentionsAddr && ex.constantLocal(a.args[0])
		case cc.deferred && a.v.Name() != "_" && a.v.Name() != "":
			// only a variable that is never assigned again has, when the caller returns, the value it had at the defer
			b.direct = !assigned[a.v] && !a.spread && !mentionsAddr && ex.constantLocal(a.args[0])
		case a.v.Name() == "_" || a.v.Name() == "":
			b.direct = true
			if !pure || argPanics {
				ex.prelude = append(ex.prelude, "_ = "+a.txt)
			}
		case assigned[a.v] && !a.spread && !mentionsAddr && ex.deadLocalAfterCall(a.args[0], a.v):
			// the body assigns to the parameter, and the argument is a local variable of the caller that nothing reads
			// after the call: the body may work on that variable itself
			b.direct = true
		case !assigned[a.v] && !pure && !mentionsAddr && !a.spread && len(uses) == 1 && ex.evaluatedFirst(uses[0]) && ex.othersHeapFree(a.args[0]):
			// an argument with effects that the body evaluates exactly once, before anything else: it is evaluated at the
			// same point of the execution either way (the other arguments do not read shared state)
			b.direct = true
		case assigned[a.v] || !pure || mentionsAddr:
			b.direct = false
		case !argDupSafe:
			b.direct = len(uses) == 1 && stable
		case argHeapFree:
			b.direct = true
		default:
			b.direct = stable
		}
		if b.direct && a.v.Name() != "_" && a.v.Name() != "" {
			if len(uses) == 0 {
				if argPanics {
					ex.prelude = append(ex.prelude, "_ = "+a.txt)
				}
			} else if argPanics && !ex.certainlyEvaluated(uses) {
				ex.prelude = append(ex.prelude, "_ = "+a.txt)
			}
			if !a.spread && needsParens(a.args[0]) {
				b.argTxt = "(" + b.argTxt + ")"
			}
		}
		if !b.direct {
			ts, ok := in.typeString(a.v.Type(), cc)
			if !ok {
				return nil, "type of parameter " + a.v.Name() + " cannot be spelled at the call site"
			}
			b.temp = fmt.Sprintf("%s__i%d", a.v.Name(), ex.id)
			bound := a.txt
			if recvNeedsAddr && a.v == sig.Recv() {
				bound = "&" + bound
			}
			ex.prelude = append(ex.prelude, fmt.Sprintf("var %s %s = %s", b.temp, ts, bound))
			if len(uses) == 0 {
				ex.prelude = append(ex.prelude, "_ = "+b.temp)
			}
		}
		ex.binds = append(ex.binds, b)
	}
	return ex, ""
}

// deadLocalAfterCall: arg is a plain local variable (or parameter) of the caller with the parameter's type, its address is
// never taken, no function literal mentions it, nothing mentions it after the call, and no loop around the call mentions
// it outside the call.
func (ex *expansion) deadLocalAfterCall(arg ast.Expr, param *types.Var) bool {
	cc := ex.cc
	id, ok := arg.(*ast.Ident)
	if !ok {
		return false
	}
	v, ok := cc.callInfo.Uses[id].(*types.Var)
	if !ok || v.IsField() || v.Pkg() == nil || v.Parent() == v.Pkg().Scope() || !types.Identical(v.Type(), param.Type()) {
		return false
	}
	dead := true
	var stack []ast.Node
	ast.Inspect(cc.encl, func(n ast.Node) bool {
		if n == nil {
			stack = stack[:len(stack)-1]
			return true
		}
		stack = append(stack, n)
		u, ok := n.(*ast.Ident)
		if !ok || cc.callInfo.Uses[u] != v {
			return true
		}
		if u.Pos() >= cc.call.Pos() && u.End() <= cc.call.End() {
			if u != id {
				dead = false // mentioned twice in the call
			}
			return true
		}
		if u.Pos() > cc.call.End() {
			dead = false
		}
		for _, s := range stack {
			switch s := s.(type) {
			case *ast.FuncLit:
				dead = false
			case *ast.UnaryExpr:
				if s.Op == token.AND && ast.Unparen(s.X) == ast.Expr(u) {
					dead = false
				}
			case *ast.ForStmt, *ast.RangeStmt:
				if s.Pos() <= cc.call.Pos() && cc.call.End() <= s.End() {
					dead = false // a loop around the call mentions it
				}
			}
		}
		return true
	})
	// the call itself must not sit in a function literal (the variable could be captured)
	if _, isLit := cc.enclLit.(*ast.FuncLit); isLit {
		return false
	}
	// in a loop the call is its own successor: the variable has to be declared inside every loop around the call
	for _, n := range cc.rs.stack {
		switch n.(type) {
		case *ast.ForStmt, *ast.RangeStmt:
			if n.Pos() <= cc.call.Pos() && cc.call.End() <= n.End() && v.Pos() < n.Pos() {
				return false
			}
		}
	}
	return dead
}

// evaluatedFirst: the use is evaluated unconditionally before any call, channel operation or dereference of the body.
func (ex *expansion) evaluatedFirst(u *ast.Ident) bool {
	body := ex.fi.Decl.Body
	if len(body.List) == 0 {
		return false
	}
	var root ast.Node
	switch s := body.List[0].(type) {
	case *ast.ExprStmt, *ast.ReturnStmt, *ast.AssignStmt:
		root = s
	case *ast.IfStmt:
		if s.Init != nil {
			root = s.Init
		} else {
			root = s.Cond
		}
	case *ast.ForStmt:
		if s.Init != nil || s.Cond == nil {
			return false
		}
		root = s.Cond
	default:
		return false
	}
	if u.Pos() < root.Pos() || u.End() > root.End() || underShortCircuit(root, u) {
		return false
	}
	first := true
	info := ex.fi.Pkg.TypesInfo
	ast.Inspect(root, func(n ast.Node) bool {
		if n == nil || !first {
			return false
		}
		switch n := n.(type) {
		case *ast.CallExpr:
			if n.Rparen < u.Pos() && !ex.in.pureCall(info, n) {
				first = false
			}
		case *ast.UnaryExpr:
			if n.Op == token.ARROW && n.End() <= u.Pos() {
				first = false
			}
		}
		return true
	})
	// as the operand of a loop condition it is evaluated again on every iteration: not the same as once before the loop
	if _, isFor := body.List[0].(*ast.ForStmt); isFor {
		return false
	}
	return first
}

// othersHeapFree: every argument of the call other than arg depends on nothing the argument's effects could change.
func (ex *expansion) othersHeapFree(arg ast.Expr) bool {
	cc := ex.cc
	if cc.recv != nil && cc.recv != arg && !heapFree(cc.callInfo, cc.recv) {
		if _, isIdent := ast.Unparen(cc.recv).(*ast.Ident); !isIdent {
			return false
		}
	}
	for _, a := range cc.call.Args {
		if a != arg && !heapFree(cc.callInfo, a) {
			return false
		}
	}
	return true
}

// constantLocal: arg is a local variable or parameter of the caller that is assigned nowhere in the caller (apart from its
// declaration), whose address is not taken, and that is not the variable of a loop.
func (ex *expansion) constantLocal(arg ast.Expr) bool {
	cc := ex.cc
	id, ok := arg.(*ast.Ident)
	if !ok {
		return false
	}
	v, ok := cc.callInfo.Uses[id].(*types.Var)
	if !ok || v.IsField() || v.Pkg() == nil || v.Parent() == v.Pkg().Scope() {
		return false
	}
	okc := true
	ast.Inspect(cc.encl, func(n ast.Node) bool {
		mark := func(e ast.Expr) {
			if x, ok := ast.Unparen(e).(*ast.Ident); ok && cc.callInfo.Uses[x] == v {
				okc = false
			}
		}
		switch n := n.(type) {
		case *ast.AssignStmt:
			for _, l := range n.Lhs {
				mark(l)
			}
		case *ast.IncDecStmt:
			mark(n.X)
		case *ast.UnaryExpr:
			if n.Op == token.AND {
				mark(n.X)
			}
		case *ast.RangeStmt:
			for _, e := range []ast.Expr{n.Key, n.Value} {
				if x, ok := e.(*ast.Ident); ok && cc.callInfo.Defs[x] == v {
					okc = false
				}
			}
		}
		return true
	})
	return okc
}

// selectorBasesOnly: every one of the identifiers is the operand of a selector expression.
func selectorBasesOnly(body ast.Node, ids []*ast.Ident) bool {
	want := map[*ast.Ident]bool{}
	for _, id := range ids {
		want[id] = true
	}
	ast.Inspect(body, func(n ast.Node) bool {
		if sel, ok := n.(*ast.SelectorExpr); ok {
			if id, ok := sel.X.(*ast.Ident); ok {
				delete(want, id)
			}
		}
		return true
	})
	return len(want) == 0
}

func isConstOrType(o types.Object) bool {
	switch o.(type) {
	case *types.Const, *types.TypeName:
		return true
	}
	return false
}

func isParamOf(sig *types.Signature, v *types.Var) bool {
	if sig.Recv() == v {
		return true
	}
	for i := 0; i < sig.Params().Len(); i++ {
		if sig.Params().At(i) == v {
			return true
		}
	}
	return false
}

func needsParens(e ast.Expr) bool {
	switch e.(type) {
	case *ast.Ident, *ast.BasicLit, *ast.SelectorExpr, *ast.IndexExpr, *ast.CallExpr, *ast.ParenExpr, *ast.CompositeLit:
		return false
	}
	return true
}

// ensureImport makes sure the package name pn (as used in the helper's file) denotes the same package in the caller's file.
func (in *inliner) ensureImport(file *ast.File, pkg *packages.Package, pn *types.PkgName, scope *types.Scope, pos token.Pos) bool {
	_, o := scope.LookupParent(pn.Name(), pos)
	if o != nil {
		if other, ok := o.(*types.PkgName); ok && other.Imported() == pn.Imported() {
			return true
		}
		return false
	}
	name := in.p.Fset.File(file.Pos()).Name()
	if prev, ok := in.imports[name][pn.Name()]; ok && prev != pn.Imported().Path() {
		return false
	}
	in.pendImp = append(in.pendImp, pendingImport{name, pn.Name(), pn.Imported().Path()})
	return true
}

// typeString spells t for the caller's file.
func (in *inliner) typeString(t types.Type, cc *callCtx) (string, bool) {
	if len(cc.typeArgs) > 0 {
		t = substTypeParams(t, cc.typeArgs)
	}
	ok := true
	scope := cc.callInfo.Scopes[cc.encl.Type]
	if inner := scope.Innermost(cc.call.Pos()); inner != nil {
		scope = inner
	}
	s := types.TypeString(t, func(p *types.Package) string {
		if p == cc.rs.pkg.Types {
			return ""
		}
		// find the name the caller's file imports p under
		for _, imp := range cc.rs.file.Imports {
			if pn, _ := cc.callInfo.Implicits[imp].(*types.PkgName); pn != nil && pn.Imported() == p {
				return pn.Name()
			}
			if imp.Name != nil {
				if pn, _ := cc.callInfo.Defs[imp.Name].(*types.PkgName); pn != nil && pn.Imported() == p {
					return pn.Name()
				}
			}
		}
		// not imported by the caller's file: import it, if the name is free there
		if _, o := scope.LookupParent(p.Name(), cc.call.Pos()); o == nil {
			name := in.p.Fset.File(cc.rs.file.Pos()).Name()
			if prev, has := in.imports[name][p.Name()]; !has || prev == p.Path() {
				in.pendImp = append(in.pendImp, pendingImport{name, p.Name(), p.Path()})
				return p.Name()
			}
		}
		ok = false
		return p.Name()
	})
	if !ok {
		return "", false
	}
	// a named type of the caller's own package that is shadowed locally cannot be spelled
	if n := namedOf(t); n != nil && n.Obj().Pkg() == cc.rs.pkg.Types {
		if _, o := scope.LookupParent(n.Obj().Name(), cc.call.Pos()); o != n.Obj() {
			return "", false
		}
	}
	if strings.Contains(s, "struct{") && strings.Contains(s, ";") || strings.Contains(s, "interface {") && !strings.Contains(s, "interface {}") {
		return "", false
	}
	return s, true
}

// substTypeParams replaces type parameters in the common composite types (enough for the parameter and result types of
// small helpers); a type it cannot rebuild is returned as it is and then fails to be spelled.
func substTypeParams(t types.Type, m map[types.Object]types.Type) types.Type {
	switch x := t.(type) {
	case *types.TypeParam:
		if r, ok := m[x.Obj()]; ok {
			return r
		}
	case *types.Pointer:
		return types.NewPointer(substTypeParams(x.Elem(), m))
	case *types.Slice:
		return types.NewSlice(substTypeParams(x.Elem(), m))
	case *types.Array:
		return types.NewArray(substTypeParams(x.Elem(), m), x.Len())
	case *types.Map:
		return types.NewMap(substTypeParams(x.Key(), m), substTypeParams(x.Elem(), m))
	case *types.Chan:
		return types.NewChan(x.Dir(), substTypeParams(x.Elem(), m))
	}
	return t
}

// ---------- purity, stability

func (in *inliner) pureFunc(fn *types.Func) bool {
	fn = fn.Origin()
	switch in.purity[fn] {
	case 1:
		return true
	case 2, 3:
		return false
	}
	in.purity[fn] = 3
	res := in.pureFuncUncached(fn)
	if res {
		in.purity[fn] = 1
	} else {
		in.purity[fn] = 2
	}
	return res
}

var pureStdPkgs = map[string]bool{"strings": true, "strconv": true, "unicode": true, "unicode/utf8": true, "path": true, "path/filepath": true, "math": true, "math/bits": true, "errors": true}
var pureStdRecv = map[string]bool{"strings.Replacer": true, "time.Time": true, "time.Duration": true, "net/url.URL": false}

func (in *inliner) pureFuncUncached(fn *types.Func) bool {
	sig := fn.Type().(*types.Signature)
	if fn.Pkg() == nil {
		return fn.Name() == "Error" // error.Error()
	}
	path := fn.Pkg().Path()
	fi := in.p.funcDecls[fn]
	if fi == nil && (path == "encoding/binary" || path == "bytes") {
		// readers and predicates; Put…/Write…/Read…/Append… and the Buffer/Reader types change their operands
		if sig.Recv() != nil {
			if n := namedOf(sig.Recv().Type()); n != nil && (n.Obj().Name() == "Buffer" || n.Obj().Name() == "Reader") {
				return false
			}
		}
		for _, p := range []string{"Put", "Write", "Read", "Append"} {
			if strings.HasPrefix(fn.Name(), p) {
				return false
			}
		}
		return true
	}
	if fi == nil {
		if sig.Recv() != nil {
			if n := namedOf(sig.Recv().Type()); n != nil && n.Obj().Pkg() != nil {
				return pureStdRecv[n.Obj().Pkg().Path()+"."+n.Obj().Name()]
			}
			return false
		}
		if pureStdPkgs[path] {
			return true
		}
		if path == "fmt" {
			switch fn.Name() {
			case "Sprintf", "Sprint", "Sprintln", "Errorf":
				return true
			}
		}
		return false
	}
	_ = path
	if fi.Decl == nil || fi.Decl.Body == nil {
		return false
	}
	if hasDefer(fi.Decl) || callsRecover(fi.Pkg.TypesInfo, fi.Decl) {
		return false
	}
	// no effect on anything but its own locals and the buffers it made itself
	return len(in.effectsOf(fi)) == 0
}

func (in *inliner) pureCall(info *types.Info, call *ast.CallExpr) bool {
	fun := ast.Unparen(call.Fun)
	if tv, ok := info.Types[fun]; ok && tv.IsType() {
		return true
	}
	if id, ok := fun.(*ast.Ident); ok {
		if b, ok := info.Uses[id].(*types.Builtin); ok {
			switch b.Name() {
			case "len", "cap", "min", "max", "append", "make", "new", "complex", "real", "imag":
				return true
			}
			return false
		}
	}
	fn := calleeOf(info, call)
	if fn == nil {
		return false
	}
	if sel, ok := fun.(*ast.SelectorExpr); ok {
		if s := info.Selections[sel]; s != nil {
			if _, isIface := s.Recv().Underlying().(*types.Interface); isIface && fn.Name() != "Error" {
				return false
			}
		}
	}
	return in.pureFunc(fn)
}

// pureExpr: evaluating e has no effect other than a possible panic, and needs no channel operation.
func (in *inliner) pureExpr(info *types.Info, e ast.Expr) bool {
	pure := true
	ast.Inspect(e, func(n ast.Node) bool {
		if !pure {
			return false
		}
		switch n := n.(type) {
		case *ast.CallExpr:
			if !in.pureCall(info, n) {
				pure = false
			}
		case *ast.UnaryExpr:
			if n.Op == token.ARROW {
				pure = false
			}
		case *ast.FuncLit:
			pure = false
		}
		return true
	})
	return pure
}

// dupSafe: evaluating e twice gives interchangeable values (no fresh allocation whose identity could matter).
func dupSafe(e ast.Expr) bool {
	ok := true
	ast.Inspect(e, func(n ast.Node) bool {
		switch n := n.(type) {
		case *ast.CompositeLit, *ast.FuncLit:
			ok = false
		case *ast.CallExpr:
			if id, isId := ast.Unparen(n.Fun).(*ast.Ident); isId && (id.Name == "make" || id.Name == "new" || id.Name == "append") {
				ok = false
			}
		}
		return ok
	})
	return ok
}

// heapFree: the value of e depends only on local variables of the caller and constants (strings are immutable).
func heapFree(info *types.Info, e ast.Expr) bool {
	ok := true
	ast.Inspect(e, func(n ast.Node) bool {
		if !ok {
			return false
		}
		switch n := n.(type) {
		case *ast.StarExpr:
			ok = false
		case *ast.IndexExpr:
			if tv, has := info.Types[n.X]; has {
				if _, isStr := tv.Type.Underlying().(*types.Basic); !isStr {
					if _, isArr := tv.Type.Underlying().(*types.Array); !isArr {
						ok = false
					}
				}
			}
		case *ast.SliceExpr:
			if tv, has := info.Types[n.X]; has {
				if _, isStr := tv.Type.Underlying().(*types.Basic); !isStr {
					// a slice of a local array variable is a stable value (the header points into the variable)
					_, isArr := tv.Type.Underlying().(*types.Array)
					_, isIdent := ast.Unparen(n.X).(*ast.Ident)
					if !(isArr && isIdent) {
						ok = false
					}
				}
			}
		case *ast.SelectorExpr:
			if s := info.Selections[n]; s != nil && s.Kind() == types.MethodExpr {
				return false // T.M: a function value, reads nothing
			}
			if s := info.Selections[n]; s != nil && s.Kind() == types.MethodVal && !s.Indirect() {
				return true // x.m with the receiver taken as it is: binds x, reads nothing
			}
			if s := info.Selections[n]; s != nil {
				if s.Indirect() {
					ok = false
				}
				if tv, has := info.Types[n.X]; has {
					if _, isPtr := tv.Type.Underlying().(*types.Pointer); isPtr {
						ok = false
					}
				}
			} else if id, isId := n.X.(*ast.Ident); isId {
				if _, isPkg := info.Uses[id].(*types.PkgName); isPkg {
					if _, isVar := info.Uses[n.Sel].(*types.Var); isVar {
						ok = false // package-level variable of another package
					}
				}
			}
		case *ast.Ident:
			if v, isVar := info.Uses[n].(*types.Var); isVar && v.Pkg() != nil && v.Parent() == v.Pkg().Scope() {
				ok = false // package-level variable
			}
		case *ast.CallExpr:
			// a pure function of heap-free scalar/string arguments is heap free; one that is handed a pointer, slice or map is not
			for _, a := range n.Args {
				if tv, has := info.Types[a]; has && !scalarLike(tv.Type) {
					ok = false
				}
			}
			if sel, isSel := ast.Unparen(n.Fun).(*ast.SelectorExpr); isSel {
				if s := info.Selections[sel]; s != nil && !scalarLike(s.Recv()) {
					if named := namedOf(s.Recv()); named == nil || named.Obj().Pkg() == nil || named.Obj().Pkg().Path() != "strings" {
						ok = false
					}
				}
			}
		}
		return true
	})
	return ok
}

func scalarLike(t types.Type) bool {
	switch u := t.Underlying().(type) {
	case *types.Basic:
		return true
	case *types.Struct:
		for i := 0; i < u.NumFields(); i++ {
			if !scalarLike(u.Field(i).Type()) {
				return false
			}
		}
		return true
	case *types.Array:
		return scalarLike(u.Elem())
	}
	return false
}

func mayPanic(info *types.Info, e ast.Expr) bool {
	p := false
	ast.Inspect(e, func(n ast.Node) bool {
		switch n := n.(type) {
		case *ast.IndexExpr:
			if tv, has := info.Types[n.X]; has {
				if _, isMap := tv.Type.Underlying().(*types.Map); !isMap {
					if !tv.IsType() {
						p = true
					}
				}
			}
		case *ast.SliceExpr, *ast.StarExpr, *ast.TypeAssertExpr:
			p = true
		case *ast.SelectorExpr:
			if s := info.Selections[n]; s != nil {
				if tv, has := info.Types[n.X]; has {
					if _, isPtr := tv.Type.Underlying().(*types.Pointer); isPtr && s.Kind() == types.FieldVal {
						p = true
					}
				}
			}
		case *ast.BinaryExpr:
			if n.Op == token.QUO || n.Op == token.REM {
				p = true
			}
		case *ast.CallExpr:
			if tv, has := info.Types[n.Fun]; !has || !tv.IsType() {
				if id, isId := ast.Unparen(n.Fun).(*ast.Ident); !isId || (id.Name != "len" && id.Name != "cap") {
					p = true
				}
			}
		}
		return !p
	})
	return p
}

// An effect is a point of the body after which shared state may have changed.
type effect struct {
	pos     token.Pos
	field   *types.Var // a write to this struct field (through any path)
	elemOf  types.Type // a write to an element of a slice / array / map of this type
	pkgVar  *types.Var // a write to this package-level variable
	unknown bool       // a store through a pointer, a channel operation, or a call that is not known to be pure
}

// effectsOf lists the effects of the body in source order; firstEffect is the position of the earliest one.
func (in *inliner) effectsOf(fi *FuncInfo) []effect {
	info := fi.Pkg.TypesInfo
	var out []effect
	locals := map[types.Object]bool{}
	ast.Inspect(fi.Decl.Body, func(n ast.Node) bool {
		if id, ok := n.(*ast.Ident); ok {
			if v, ok := info.Defs[id].(*types.Var); ok {
				locals[v] = true
			}
		}
		return true
	})
	write := func(l ast.Expr, pos token.Pos) {
		switch x := ast.Unparen(l).(type) {
		case *ast.Ident:
			if x.Name == "_" || locals[info.ObjectOf(x)] {
				return
			}
			if v, ok := info.ObjectOf(x).(*types.Var); ok && v.Pkg() != nil && v.Parent() == v.Pkg().Scope() {
				out = append(out, effect{pos: pos, pkgVar: v})
				return
			}
			// a parameter: assigned parameters are bound to temporaries anyway
			if _, ok := info.ObjectOf(x).(*types.Var); ok {
				return
			}
			out = append(out, effect{pos: pos, unknown: true})
		case *ast.SelectorExpr:
			if s := info.Selections[x]; s != nil && s.Kind() == types.FieldVal {
				if f, ok := s.Obj().(*types.Var); ok {
					out = append(out, effect{pos: pos, field: f})
					return
				}
			}
			out = append(out, effect{pos: pos, unknown: true})
		case *ast.IndexExpr:
			if localBuffer(info, fi.Decl.Body, x.X, locals) {
				return
			}
			if tv, ok := info.Types[x.X]; ok {
				out = append(out, effect{pos: pos, elemOf: tv.Type})
				return
			}
			out = append(out, effect{pos: pos, unknown: true})
		default:
			out = append(out, effect{pos: pos, unknown: true})
		}
	}
	ast.Inspect(fi.Decl.Body, func(n ast.Node) bool {
		switch n := n.(type) {
		case *ast.AssignStmt:
			for _, l := range n.Lhs {
				write(l, n.End())
			}
		case *ast.IncDecStmt:
			write(n.X, n.End())
		case *ast.SendStmt:
			out = append(out, effect{pos: n.End(), unknown: true})
		case *ast.UnaryExpr:
			if n.Op == token.ARROW {
				out = append(out, effect{pos: n.End(), unknown: true})
			}
		case *ast.SelectStmt:
			out = append(out, effect{pos: n.Pos(), unknown: true})
		case *ast.RangeStmt:
			if tv, ok := info.Types[n.X]; ok {
				if _, isChan := tv.Type.Underlying().(*types.Chan); isChan {
					out = append(out, effect{pos: n.Pos(), unknown: true})
				}
			}
		case *ast.CallExpr:
			if !in.pureCall(info, n) {
				// acquiring or releasing a sync lock changes no data: a value the caller could read without a data race before
				// the lock operation is the same after it (C20 judges data races separately)
				if fn := calleeOf(info, n); fn != nil && fn.Pkg() != nil && fn.Pkg().Path() == "sync" {
					switch fn.Name() {
					case "Lock", "Unlock", "RLock", "RUnlock":
						return true
					}
				}
				// encoding/binary's Put… and copy write into their first argument only: no shared effect when that is a
				// buffer the body made itself
				if len(n.Args) > 0 && localBuffer(info, fi.Decl.Body, n.Args[0], locals) {
					if fn := calleeOf(info, n); fn != nil && fn.Pkg() != nil && fn.Pkg().Path() == "encoding/binary" && strings.HasPrefix(fn.Name(), "Put") {
						return true
					}
					if id, ok := ast.Unparen(n.Fun).(*ast.Ident); ok {
						if bi, ok := info.Uses[id].(*types.Builtin); ok && bi.Name() == "copy" {
							return true
						}
					}
				}
				if id, ok := ast.Unparen(n.Fun).(*ast.Ident); ok && len(n.Args) > 0 {
					if bi, ok := info.Uses[id].(*types.Builtin); ok && bi.Name() == "delete" {
						if tv, ok := info.Types[n.Args[0]]; ok {
							out = append(out, effect{pos: n.Rparen, elemOf: tv.Type})
							return true
						}
					}
				}
				out = append(out, effect{pos: n.Rparen, unknown: true})
			}
		}
		return true
	})
	sort.Slice(out, func(i, j int) bool { return out[i].pos < out[j].pos })
	return out
}

// localBuffer: e is (a slice of) a local array of the body, or a local slice whose only definition in the body is a
// make(…) or a composite literal.
func localBuffer(info *types.Info, body *ast.BlockStmt, e ast.Expr, locals map[types.Object]bool) bool {
	for {
		switch x := ast.Unparen(e).(type) {
		case *ast.SliceExpr:
			e = x.X
			continue
		case *ast.Ident:
			obj := info.ObjectOf(x)
			if obj == nil || !locals[obj] {
				return false
			}
			if _, isArr := obj.Type().Underlying().(*types.Array); isArr {
				return true
			}
			if _, isSlice := obj.Type().Underlying().(*types.Slice); !isSlice {
				return false
			}
			defs, fresh := 0, 0
			ast.Inspect(body, func(n ast.Node) bool {
				switch n := n.(type) {
				case *ast.AssignStmt:
					for i, l := range n.Lhs {
						if id, ok := l.(*ast.Ident); ok && info.ObjectOf(id) == obj {
							defs++
							if len(n.Rhs) == len(n.Lhs) {
								switch r := ast.Unparen(n.Rhs[i]).(type) {
								case *ast.CompositeLit:
									fresh++
								case *ast.CallExpr:
									if fid, ok := r.Fun.(*ast.Ident); ok && fid.Name == "make" {
										fresh++
									}
								}
							}
						}
					}
				case *ast.ValueSpec:
					for _, id := range n.Names {
						if info.ObjectOf(id) == obj {
							defs++
							if len(n.Values) == 0 {
								fresh++ // nil slice: nothing to write into, harmless
							}
						}
					}
				}
				return true
			})
			return defs == 1 && fresh == 1
		}
		return false
	}
}

// reads describes what an argument expression reads from shared state.
type reads struct {
	fields  map[*types.Var]bool
	elemsOf []types.Type
	pkgVars map[*types.Var]bool
	other   bool // a dereference, or a call that is handed something it can read through
}

func readsOf(info *types.Info, args []ast.Expr) reads {
	r := reads{fields: map[*types.Var]bool{}, pkgVars: map[*types.Var]bool{}}
	for _, e := range args {
		ast.Inspect(e, func(n ast.Node) bool {
			switch n := n.(type) {
			case *ast.StarExpr:
				r.other = true
			case *ast.IndexExpr:
				if tv, has := info.Types[n.X]; has && !tv.IsType() {
					if _, isStr := tv.Type.Underlying().(*types.Basic); !isStr {
						r.elemsOf = append(r.elemsOf, tv.Type)
					}
				}
			case *ast.SliceExpr:
				if tv, has := info.Types[n.X]; has {
					if _, isStr := tv.Type.Underlying().(*types.Basic); !isStr {
						r.elemsOf = append(r.elemsOf, tv.Type)
					}
				}
			case *ast.SelectorExpr:
				if s := info.Selections[n]; s != nil {
					if f, ok := s.Obj().(*types.Var); ok && s.Kind() == types.FieldVal {
						r.fields[f] = true
					} else if s.Kind() != types.FieldVal {
						// a method value / call on a receiver: judged at the call
					}
				} else if id, isId := n.X.(*ast.Ident); isId {
					if _, isPkg := info.Uses[id].(*types.PkgName); isPkg {
						if v, isVar := info.Uses[n.Sel].(*types.Var); isVar {
							r.pkgVars[v] = true
						}
					}
				}
			case *ast.Ident:
				if v, isVar := info.Uses[n].(*types.Var); isVar && v.Pkg() != nil && v.Parent() == v.Pkg().Scope() {
					r.pkgVars[v] = true
				}
			case *ast.CallExpr:
				if tv, has := info.Types[n.Fun]; has && tv.IsType() {
					return true
				}
				for _, a := range n.Args {
					if tv, has := info.Types[a]; has && !scalarLike(tv.Type) {
						r.other = true
					}
				}
				if sel, isSel := ast.Unparen(n.Fun).(*ast.SelectorExpr); isSel {
					if s := info.Selections[sel]; s != nil && !scalarLike(s.Recv()) {
						if named := namedOf(s.Recv()); named == nil || named.Obj().Pkg() == nil || named.Obj().Pkg().Path() != "strings" {
							r.other = true
						}
					}
				}
			}
			return true
		})
	}
	return r
}

func (r reads) conflicts(e effect) bool {
	switch {
	case e.unknown:
		return true
	case e.field != nil:
		return r.fields[e.field] || r.other
	case e.elemOf != nil:
		for _, t := range r.elemsOf {
			if types.Identical(t.Underlying(), e.elemOf.Underlying()) {
				return true
			}
		}
		return r.other
	case e.pkgVar != nil:
		return r.pkgVars[e.pkgVar] || r.other
	}
	return true
}

// usesStable: no effect of the body that could change what the argument reads comes before a use (in source order, and
// anywhere in a loop around the use), and no use sits in a function literal.
func (ex *expansion) usesStable(uses []*ast.Ident, rd reads) bool {
	for _, u := range uses {
		for _, e := range ex.effects {
			if !rd.conflicts(e) {
				continue
			}
			if e.pos <= u.Pos() {
				return false
			}
			if ex.sameLoop(u, e.pos) {
				return false
			}
		}
		if ex.insideLoopOrLit(u, false) && ex.insideLit(u) {
			return false
		}
	}
	return true
}

// sameLoop: a loop of the body contains both the use and position p.
func (ex *expansion) sameLoop(u *ast.Ident, p token.Pos) bool {
	res := false
	ast.Inspect(ex.fi.Decl.Body, func(n ast.Node) bool {
		switch n.(type) {
		case *ast.ForStmt, *ast.RangeStmt:
			if n.Pos() <= u.Pos() && u.End() <= n.End() && n.Pos() <= p && p <= n.End() {
				res = true
			}
		}
		return true
	})
	return res
}

func (ex *expansion) insideLit(u *ast.Ident) bool {
	res := false
	ast.Inspect(ex.fi.Decl.Body, func(n ast.Node) bool {
		if l, ok := n.(*ast.FuncLit); ok && l.Pos() <= u.Pos() && u.End() <= l.End() {
			res = true
		}
		return true
	})
	return res
}

func (ex *expansion) insideLoopOrLit(u *ast.Ident, onlyEffectLoops bool) bool {
	inside := false
	var stack []ast.Node
	ast.Inspect(ex.fi.Decl.Body, func(n ast.Node) bool {
		if n == nil {
			stack = stack[:len(stack)-1]
			return true
		}
		stack = append(stack, n)
		if n == ast.Node(u) {
			for _, s := range stack {
				switch s := s.(type) {
				case *ast.FuncLit:
					inside = true
				case *ast.ForStmt, *ast.RangeStmt:
					if !onlyEffectLoops || (ex.firstEff >= s.Pos() && ex.firstEff <= s.End()) {
						inside = true
					}
				}
			}
		}
		return true
	})
	return inside
}

// certainlyEvaluated: some use sits in a top-level simple statement of the body that precedes every branch.
func (ex *expansion) certainlyEvaluated(uses []*ast.Ident) bool {
	for _, st := range ex.fi.Decl.Body.List {
		switch s := st.(type) {
		case *ast.ExprStmt, *ast.AssignStmt, *ast.IncDecStmt, *ast.DeclStmt, *ast.ReturnStmt:
			for _, u := range uses {
				if u.Pos() >= s.Pos() && u.End() <= s.End() && u.Pos() < ex.firstEff && !underShortCircuit(s, u) {
					return true
				}
			}
		case *ast.IfStmt:
			if s.Init == nil {
				for _, u := range uses {
					if u.Pos() >= s.Cond.Pos() && u.End() <= s.Cond.End() && !underShortCircuit(s.Cond, u) {
						return true
					}
				}
			}
			return false
		default:
			return false
		}
	}
	return false
}

func underShortCircuit(root ast.Node, u *ast.Ident) bool {
	res := false
	ast.Inspect(root, func(n ast.Node) bool {
		if b, ok := n.(*ast.BinaryExpr); ok && (b.Op == token.LAND || b.Op == token.LOR) {
			if u.Pos() >= b.Y.Pos() && u.End() <= b.Y.End() {
				res = true
			}
		}
		if _, ok := n.(*ast.FuncLit); ok && u.Pos() >= n.Pos() && u.End() <= n.End() {
			res = true
		}
		return true
	})
	return res
}

// ---------- text generation

// substituted returns the source of node n of the helper (inside its body) with parameters replaced and locals renamed;
// extra edits (for return statements) are merged in.
func (ex *expansion) substituted(n ast.Node, extra []inlEdit) string {
	in := ex.in
	f := in.p.Fset.File(n.Pos())
	src := in.content(f.Name())
	base := f.Offset(n.Pos())
	end := f.Offset(n.End())
	finfo := ex.fi.Pkg.TypesInfo
	var eds []inlEdit
	byParam := map[*types.Var]*binding{}
	for _, b := range ex.binds {
		byParam[b.param] = b
	}
	// for _, x := range vs { body } with vs a variadic parameter passed element by element (at most four elements) and a body
	// without unlabelled break / continue and without declarations at its top level: the body once per element, x replaced
	unrolled := map[*ast.Ident]bool{}
	ast.Inspect(n, func(m ast.Node) bool {
		rs, ok := m.(*ast.RangeStmt)
		if !ok || rs.Tok != token.DEFINE {
			return true
		}
		vid, ok := ast.Unparen(rs.X).(*ast.Ident)
		if !ok {
			return true
		}
		v, _ := finfo.Uses[vid].(*types.Var)
		b := byParam[v]
		if b == nil || !b.spread || !b.direct || len(b.args) == 0 || len(b.args) > 4 {
			return true
		}
		if k, ok := rs.Key.(*ast.Ident); !ok || k.Name != "_" {
			return true
		}
		xid, ok := rs.Value.(*ast.Ident)
		if !ok || xid.Name == "_" {
			return true
		}
		xobj := finfo.Defs[xid]
		okBody := xobj != nil
		for _, st := range rs.Body.List {
			if len(topLevelDecls(st)) > 0 {
				okBody = false
			}
		}
		ast.Inspect(rs.Body, func(k ast.Node) bool {
			switch y := k.(type) {
			case *ast.FuncLit:
				return false
			case *ast.ForStmt, *ast.RangeStmt, *ast.SwitchStmt, *ast.SelectStmt, *ast.TypeSwitchStmt:
				// an unlabelled break / continue inside belongs to it — but a continue inside a switch belongs to our loop
				ast.Inspect(y, func(z ast.Node) bool {
					if br, ok := z.(*ast.BranchStmt); ok && br.Label == nil && br.Tok == token.CONTINUE {
						if _, isLoop := y.(*ast.ForStmt); !isLoop {
							if _, isRange := y.(*ast.RangeStmt); !isRange {
								okBody = false
							}
						}
					}
					return true
				})
				return false
			case *ast.BranchStmt:
				if y.Label == nil && (y.Tok == token.BREAK || y.Tok == token.CONTINUE) {
					okBody = false
				}
			case *ast.AssignStmt:
				for _, l := range y.Lhs {
					if id, ok := l.(*ast.Ident); ok && finfo.Uses[id] == xobj {
						okBody = false // the element variable is assigned to
					}
				}
			case *ast.UnaryExpr:
				if id, ok := ast.Unparen(y.X).(*ast.Ident); ok && y.Op == token.AND && finfo.Uses[id] == xobj {
					okBody = false
				}
			}
			return true
		})
		if !okBody {
			return true
		}
		// the text of the body (without braces) with the usual substitutions, the element variable left in place …
		bodyTxt := strings.TrimSpace(ex.substituted(rs.Body, nil))
		bodyTxt = bodyTxt[1 : len(bodyTxt)-1]
		// … then replaced, as a whole word, by each element in turn
		var sb strings.Builder
		name := xid.Name
		if rn := ex.rename[xobj]; rn != "" {
			name = rn
		}
		for _, a := range b.args {
			el := in.text(a)
			if needsParens(a) {
				el = "(" + el + ")"
			}
			sb.WriteString("{")
			sb.WriteString(replaceWord(bodyTxt, name, el))
			sb.WriteString("}\n")
		}
		in.seq++
		eds = append(eds, inlEdit{f.Offset(rs.Pos()), f.Offset(rs.End()), sb.String(), in.seq, 0})
		unrolled[vid] = true
		return false
	})
	// p(x, a, b) with p a parameter that is bound to the method expression T.M: x.M(a, b)
	methodExprDone := map[*ast.Ident]bool{}
	ast.Inspect(n, func(m ast.Node) bool {
		call, ok := m.(*ast.CallExpr)
		if !ok || len(call.Args) == 0 {
			return true
		}
		pid, ok := call.Fun.(*ast.Ident)
		if !ok {
			return true
		}
		v, _ := finfo.Uses[pid].(*types.Var)
		b := byParam[v]
		if b == nil || !b.direct || b.spread || len(b.args) != 1 {
			return true
		}
		sel, ok := ast.Unparen(b.args[0]).(*ast.SelectorExpr)
		if !ok {
			return true
		}
		if s := ex.cc.callInfo.Selections[sel]; s == nil || s.Kind() != types.MethodExpr {
			return true
		}
		a0 := call.Args[0]
		in.seq++
		eds = append(eds, inlEdit{f.Offset(call.Pos()), f.Offset(a0.Pos()), "(", in.seq, 0})
		in.seq++
		if len(call.Args) > 1 {
			eds = append(eds, inlEdit{f.Offset(a0.End()), f.Offset(call.Args[1].Pos()), ")." + sel.Sel.Name + "(", in.seq, 0})
		} else {
			eds = append(eds, inlEdit{f.Offset(a0.End()), f.Offset(call.Rparen), ")." + sel.Sel.Name + "(", in.seq, 0})
		}
		methodExprDone[pid] = true
		return true
	})
	// append([]T{x, y}, vs...) with vs a variadic parameter passed element by element: []T{x, y, a, b}
	spreadDone := map[*ast.Ident]bool{}
	ast.Inspect(n, func(m ast.Node) bool {
		call, ok := m.(*ast.CallExpr)
		if !ok || !call.Ellipsis.IsValid() || len(call.Args) != 2 {
			return true
		}
		fid, ok := call.Fun.(*ast.Ident)
		if !ok {
			return true
		}
		if bi, ok := finfo.Uses[fid].(*types.Builtin); !ok || bi.Name() != "append" {
			return true
		}
		lit, ok := call.Args[0].(*ast.CompositeLit)
		vid, ok2 := call.Args[1].(*ast.Ident)
		if !ok || !ok2 {
			return true
		}
		v, _ := finfo.Uses[vid].(*types.Var)
		b := byParam[v]
		if b == nil || !b.spread || !b.direct || !types.Identical(finfo.TypeOf(lit), v.Type()) {
			return true
		}
		var parts []string
		for _, a := range b.args {
			parts = append(parts, in.text(a))
		}
		tail := strings.Join(parts, ", ") + "}"
		if len(lit.Elts) > 0 && len(parts) > 0 {
			tail = ", " + tail
		}
		in.seq++
		eds = append(eds, inlEdit{f.Offset(call.Pos()), f.Offset(lit.Pos()), "", in.seq, 0})
		in.seq++
		eds = append(eds, inlEdit{f.Offset(lit.Rbrace), f.Offset(call.End()), tail, in.seq, 0})
		spreadDone[vid] = true
		return true
	})
	ast.Inspect(n, func(m ast.Node) bool {
		id, ok := m.(*ast.Ident)
		if !ok || spreadDone[id] || methodExprDone[id] {
			return true
		}
		var repl string
		if obj := finfo.Defs[id]; obj != nil {
			repl = ex.rename[obj]
		} else if obj := finfo.Uses[id]; obj != nil && ex.cc.typeArgs[obj] != nil {
			if ts, ok := in.typeString(ex.cc.typeArgs[obj], ex.cc); ok {
				repl = ts
			} else {
				repl = "<type argument that cannot be spelled>" // does not type-check: the expansion is not used
			}
		} else if obj := finfo.Uses[id]; obj != nil {
			if v, ok := obj.(*types.Var); ok {
				if b := byParam[v]; b != nil {
					if b.direct {
						repl = b.argTxt
					} else {
						repl = b.temp
					}
				}
			}
			if repl == "" {
				repl = ex.rename[obj]
			}
		}
		if repl != "" {
			in.seq++
			eds = append(eds, inlEdit{f.Offset(id.Pos()), f.Offset(id.End()), repl, in.seq, 0})
		}
		return true
	})
	eds = append(eds, extra...)
	sort.Slice(eds, func(i, j int) bool {
		if eds[i].start != eds[j].start {
			return eds[i].start < eds[j].start
		}
		return eds[i].seq < eds[j].seq
	})
	var sb strings.Builder
	pos := base
	for _, e := range eds {
		if e.start < pos || e.end > end {
			continue
		}
		sb.Write(src[pos:e.start])
		sb.WriteString(e.text)
		pos = e.end
	}
	sb.Write(src[pos:end])
	return sb.String()
}

// composite-literal key `Field: param` must not be substituted as a key; go/types records field keys in Uses as fields,
// not as parameters, so they are left alone by construction.

// replaceWord replaces the identifier name by repl wherever it stands as a whole word outside string and rune literals.
func replaceWord(src, name, repl string) string {
	var sb strings.Builder
	isWord := func(c byte) bool {
		return c == '_' || (c >= '0' && c <= '9') || (c >= 'a' && c <= 'z') || (c >= 'A' && c <= 'Z') || c >= 0x80
	}
	for i := 0; i < len(src); {
		c := src[i]
		switch {
		case c == '"' || c == '\'':
			j := i + 1
			for j < len(src) && src[j] != c {
				if src[j] == '\\' {
					j++
				}
				j++
			}
			if j >= len(src) {
				j = len(src) - 1
			}
			sb.WriteString(src[i : j+1])
			i = j + 1
		case c == '`':
			j := i + 1
			for j < len(src) && src[j] != '`' {
				j++
			}
			if j >= len(src) {
				j = len(src) - 1
			}
			sb.WriteString(src[i : j+1])
			i = j + 1
		case strings.HasPrefix(src[i:], name) && (i == 0 || (!isWord(src[i-1]) && src[i-1] != '.')) && (i+len(name) >= len(src) || !isWord(src[i+len(name)])):
			sb.WriteString(repl)
			i += len(name)
		default:
			sb.WriteByte(c)
			i++
		}
	}
	return sb.String()
}

func (in *inliner) lineDirective(pos token.Pos) string {
	pp := in.p.Fset.Position(pos)
	return fmt.Sprintf("\n//line %s:%d\n", pp.Filename, pp.Line)
}

// restOfLineDirective re-synchronises positions after an expansion that replaced [.., end): the text that follows on the
// same line is reported at its own line again.
func (in *inliner) resync(end token.Pos) string {
	pp := in.p.Fset.Position(end)
	return fmt.Sprintf("\n//line %s:%d\n", pp.Filename, pp.Line)
}

func (in *inliner) addEdit(start, end token.Pos, text string) {
	in.addGroupEdit(start, end, text, 0)
}

func (in *inliner) addGroupEdit(start, end token.Pos, text string, group int) {
	f := in.p.Fset.File(start)
	in.seq++
	in.edits[f.Name()] = append(in.edits[f.Name()], inlEdit{f.Offset(start), f.Offset(end), text, in.seq, group})
}

// planHoist: the call is an operand somewhere inside a statement. If the helper changes no shared state, ends in its
// only return, `return E` with E free of effects, and everything the statement evaluates before the call is free of
// effects too, the body can run just before the statement and E can stand where the call stood.
func (in *inliner) planHoist(fi *FuncInfo, cc *callCtx, rets []*ast.ReturnStmt, last ast.Stmt) (func(), string) {
	sig := fi.Obj.Type().(*types.Signature)
	finfo := fi.Pkg.TypesInfo
	body := fi.Decl.Body
	if sig.Results().Len() != 1 || len(rets) != 1 || ast.Stmt(rets[0]) != last || len(rets[0].Results) != 1 || hasNamedResults(fi.Decl) || hasDefer(fi.Decl) {
		return nil, "operand of an expression"
	}
	res := rets[0].Results[0]
	if !in.pureExpr(finfo, res) {
		return nil, "operand of an expression (result has effects)"
	}
	if tv, has := finfo.Types[res]; !has || tv.Value != nil || tv.IsNil() || !types.Identical(tv.Type, sig.Results().At(0).Type()) {
		return nil, "operand of an expression (result needs a conversion)"
	}
	hasEffects := len(in.effectsOf(fi)) > 0
	// the statement, and the path from it to the call
	st := cc.rs.stack
	si := -1
	for i := cc.callIdx - 1; i >= 0; i-- {
		if _, ok := st[i].(ast.Stmt); ok {
			si = i
			break
		}
		switch n := st[i].(type) {
		case *ast.FuncLit:
			return nil, "operand inside a function literal"
		case *ast.BinaryExpr:
			if (n.Op == token.LAND || n.Op == token.LOR) && contains(n.Y, cc.call) {
				return nil, "operand evaluated conditionally"
			}
		}
	}
	if si < 1 {
		return nil, "operand of an expression"
	}
	stmt := st[si].(ast.Stmt)
	switch s := stmt.(type) {
	case *ast.ExprStmt, *ast.AssignStmt, *ast.ReturnStmt, *ast.IncDecStmt, *ast.SendStmt:
	case *ast.IfStmt:
		if s.Init != nil || !contains(s.Cond, cc.call) {
			return nil, "operand in a statement that cannot be preceded"
		}
	default:
		return nil, "operand in a statement that cannot be preceded"
	}
	inListOK := false
	before := stmt // the statement the body is placed in front of
	switch p := st[si-1].(type) {
	case *ast.IfStmt:
		if p.Init == stmt && si >= 2 {
			before = p
			si--
		}
	case *ast.SwitchStmt:
		if p.Init == stmt && si >= 2 {
			before = p
			si--
		}
	}
	switch p := st[si-1].(type) {
	case *ast.BlockStmt:
		for _, x := range p.List {
			inListOK = inListOK || x == before
		}
	case *ast.CaseClause:
		for _, x := range p.Body {
			inListOK = inListOK || x == before
		}
	case *ast.CommClause:
		for _, x := range p.Body {
			inListOK = inListOK || x == before
		}
	}
	if !inListOK {
		return nil, "operand in a statement that is not in a statement list"
	}
	// what the statement evaluates before the call must have no effects
	ok := true
	ast.Inspect(stmt, func(n ast.Node) bool {
		if n == nil || !ok {
			return false
		}
		if n.Pos() >= cc.call.Pos() {
			return false
		}
		switch n := n.(type) {
		case *ast.CallExpr:
			if n != cc.call && n.End() <= cc.call.Pos() && !in.pureCall(cc.callInfo, n) {
				ok = false
			}
		case *ast.UnaryExpr:
			if n.Op == token.ARROW {
				ok = false
			}
		case *ast.FuncLit:
			return false
		}
		return true
	})
	if !ok {
		return nil, "operand evaluated after something with effects"
	}
	if hasEffects {
		// a helper that changes shared state may still run first if nothing the statement evaluates before the call reads
		// shared state (plain variables, constants, the names of the functions called)
		reads := false
		ast.Inspect(stmt, func(n ast.Node) bool {
			if n == nil || reads {
				return false
			}
			if n.Pos() >= cc.call.Pos() {
				return false
			}
			if e, isExpr := n.(ast.Expr); isExpr && e.End() <= cc.call.Pos() {
				switch e.(type) {
				case *ast.SelectorExpr, *ast.IndexExpr, *ast.StarExpr, *ast.SliceExpr, *ast.CallExpr:
					if !heapFree(cc.callInfo, e) {
						reads = true
					}
				}
			}
			return true
		})
		if reads {
			return nil, "operand of an expression (the helper changes shared state that the statement reads before the call)"
		}
		// what comes after the call in the statement is evaluated after the helper either way
	}
	// may the result expression stand where the call stood? Only if nothing that runs later in the statement can change
	// what it reads
	bindResult := false
	if !heapFree(finfo, res) {
		ast.Inspect(stmt, func(n ast.Node) bool {
			if c2, isCall := n.(*ast.CallExpr); isCall && c2.Pos() >= cc.call.End() && !in.pureCall(cc.callInfo, c2) {
				bindResult = true
			}
			if u, isU := n.(*ast.UnaryExpr); isU && u.Op == token.ARROW && u.Pos() >= cc.call.End() {
				bindResult = true
			}
			return true
		})
		// an assignment statement writes its left-hand side after everything was evaluated: no reordering there
	}
	ex, reason := in.newExpansion(fi, cc)
	if ex == nil {
		return nil, reason
	}
	for _, b := range ex.binds {
		for _, a := range b.args {
			if !in.pureExpr(cc.callInfo, a) {
				return nil, "operand of an expression (argument with effects)"
			}
		}
	}
	// flat: every name the body declares at its top level becomes unique
	for _, bs := range body.List {
		for _, id := range topLevelDecls(bs) {
			if obj := finfo.Defs[id]; obj != nil && id.Name != "_" {
				ex.rename[obj] = fmt.Sprintf("%s__i%d", id.Name, ex.id)
			}
		}
	}
	return func() {
		ff := in.p.Fset.File(fi.Decl.Pos())
		in.seq++
		extra := []inlEdit{{ff.Offset(last.Pos()), ff.Offset(last.End()), "", in.seq, 0}}
		inner := strings.TrimSpace(ex.substituted(body, extra))
		inner = inner[1 : len(inner)-1]
		var sb strings.Builder
		for _, pl := range ex.prelude {
			sb.WriteString(pl + "; ")
		}
		sb.WriteString(in.lineDirective(body.Lbrace))
		sb.WriteString(inner)
		sb.WriteString(in.resync(before.Pos()))
		group := 1000 + ex.id
		txt := ex.substituted(res, nil)
		if needsParens(res) {
			txt = "(" + txt + ")"
		}
		if bindResult {
			// the result is read where the call stood; Go orders calls, not plain reads, so a later call of the same
			// statement could change what the expression reads: keep the value in a local
			tmp := fmt.Sprintf("r__i%d", ex.id)
			sbs := sb.String()
			k := strings.LastIndex(sbs, "\n//line ")
			sbs = sbs[:k] + fmt.Sprintf("\n%s := %s", tmp, txt) + sbs[k:]
			in.addGroupEdit(before.Pos(), before.Pos(), sbs, group)
			in.addGroupEdit(cc.call.Pos(), cc.call.End(), tmp, group)
			return
		}
		in.addGroupEdit(before.Pos(), before.Pos(), sb.String(), group)
		in.addGroupEdit(cc.call.Pos(), cc.call.End(), txt, group)
	}, ""
}

// ---------- expression-bodied helpers

func (in *inliner) planExpr(fi *FuncInfo, cc *callCtx, e ast.Expr) (func(), string) {
	sig := fi.Obj.Type().(*types.Signature)
	finfo := fi.Pkg.TypesInfo
	nres := sig.Results().Len()
	parent := cc.rs.stack[cc.callIdx-1]
	if nres != 1 {
		// a tuple: only where the call is the whole right-hand side / the whole return / a statement
		switch pn := parent.(type) {
		case *ast.AssignStmt:
			if len(pn.Rhs) != 1 || len(pn.Lhs) != nres {
				return nil, "tuple result in an unsupported position"
			}
		case *ast.ReturnStmt:
			if len(pn.Results) != 1 {
				return nil, "tuple result in an unsupported position"
			}
			if _, isCall := ast.Unparen(e).(*ast.CallExpr); !isCall {
				return nil, "comma-ok expression cannot be returned directly"
			}
		default:
			return nil, "tuple result in an unsupported position"
		}
		if _, isCall := ast.Unparen(e).(*ast.CallExpr); !isCall {
			if nres != 2 || !commaOkCapable(finfo, e) {
				return nil, "tuple result"
			}
		}
	} else {
		if tv, has := finfo.Types[e]; !has || tv.Value != nil || tv.IsNil() {
			return nil, "constant result"
		}
		// the conversion to the result type must not be lost: the expression's type has to be the result type
		// (or the expression is an untyped constant that the context converts anyway)
		et := finfo.TypeOf(e)
		if et == nil || !types.Identical(et, sig.Results().At(0).Type()) {
			return nil, "result needs a conversion"
		}
		if _, isStmt := parent.(*ast.ExprStmt); isStmt {
			if _, isCall := ast.Unparen(e).(*ast.CallExpr); !isCall {
				return nil, "expression result discarded"
			}
		}
	}
	ex, reason := in.newExpansion(fi, cc)
	if ex == nil {
		return nil, reason
	}
	for _, b := range ex.binds {
		if !b.direct {
			return nil, "argument for " + b.param.Name() + " cannot be substituted in an expression"
		}
	}
	if len(ex.prelude) > 0 {
		return nil, "argument may panic without being evaluated by the helper"
	}
	return func() {
		txt := ex.substituted(e, nil)
		if needsParens(e) && nres == 1 {
			txt = "(" + txt + ")"
		}
		if strings.Contains(txt, "\n") {
			txt = txt + "/*line " + posString(in.p.Fset.Position(cc.call.End())) + "*/"
		}
		in.addEdit(cc.call.Pos(), cc.call.End(), txt)
	}, ""
}

func commaOkCapable(info *types.Info, e ast.Expr) bool {
	switch x := ast.Unparen(e).(type) {
	case *ast.IndexExpr:
		if tv, ok := info.Types[x.X]; ok {
			_, isMap := tv.Type.Underlying().(*types.Map)
			return isMap
		}
	case *ast.TypeAssertExpr:
		return x.Type != nil
	case *ast.UnaryExpr:
		return x.Op == token.ARROW
	}
	return false
}

// freeBreak: an unlabelled break in n that would leave a statement outside n.
func freeBreak(n ast.Node) bool {
	found := false
	var walk func(n ast.Node, inBreakable bool)
	walk = func(n ast.Node, inBreakable bool) {
		if n == nil || found {
			return
		}
		ast.Inspect(n, func(m ast.Node) bool {
			if found || m == nil {
				return false
			}
			switch m := m.(type) {
			case *ast.FuncLit:
				return false
			case *ast.ForStmt, *ast.RangeStmt, *ast.SwitchStmt, *ast.TypeSwitchStmt, *ast.SelectStmt:
				if m != n {
					return false // a break inside belongs to it
				}
			case *ast.BranchStmt:
				if m.Tok == token.BREAK && m.Label == nil {
					found = true
				}
			}
			return true
		})
	}
	walk(n, false)
	return found
}

func posString(pp token.Position) string {
	if pp.Column <= 0 {
		return fmt.Sprintf("%s:%d", pp.Filename, pp.Line)
	}
	return fmt.Sprintf("%s:%d:%d", pp.Filename, pp.Line, pp.Column)
}

// ---------- statement-bodied helpers

func (in *inliner) planStmt(fi *FuncInfo, cc *callCtx) (func(), string) {
	sig := fi.Obj.Type().(*types.Signature)
	nres := sig.Results().Len()
	st := cc.rs.stack
	parent := st[cc.callIdx-1]
	// returns of the body (not of nested literals)
	var rets []*ast.ReturnStmt
	var walk func(n ast.Node)
	walk = func(n ast.Node) {
		ast.Inspect(n, func(m ast.Node) bool {
			switch m := m.(type) {
			case *ast.FuncLit:
				return false
			case *ast.ReturnStmt:
				rets = append(rets, m)
			}
			return true
		})
	}
	walk(fi.Decl.Body)
	body := fi.Decl.Body
	var last ast.Stmt
	if len(body.List) > 0 {
		last = body.List[len(body.List)-1]
	}
	early := 0
	for _, r := range rets {
		if ast.Stmt(r) != last {
			early++
		}
	}
	inList := func(stmt ast.Node, idx int) bool {
		if idx < 1 {
			return false
		}
		switch p := st[idx-1].(type) {
		case *ast.BlockStmt:
			for _, s := range p.List {
				if s == stmt {
					return true
				}
			}
		case *ast.CaseClause:
			for _, s := range p.Body {
				if s == stmt {
					return true
				}
			}
		case *ast.CommClause:
			for _, s := range p.Body {
				if s == stmt {
					return true
				}
			}
		}
		return false
	}
	type mode int
	const (
		mStmt mode = iota
		mAssign
		mReturn
		mIf
		mDefer
	)
	var md mode
	var target ast.Stmt // the statement that is replaced
	var lhs []string
	var decls []string
	var ifs *ast.IfStmt
	negated := false
	tailReturn := false
	tailRetText := ""
	retPre, retSuf := "", "" // constant operands of the caller's return around the helper's value
	var unify []types.Object // locals of the helper that become the variables the call site defines
	var thread *threadPlan   // `x, ok := helper(); if !ok { return … }`: early returns of the helper go straight to the guard's body
	switch pn := parent.(type) {
	case *ast.ExprStmt:
		if !inList(pn, cc.callIdx-1) {
			return nil, "statement not in a statement list"
		}
		md, target = mStmt, pn
		if nres != 0 {
			// the results are discarded: assigned to blanks
			md = mAssign
			for i := 0; i < nres; i++ {
				// (a typed variable rather than the blank: `_ = nil` is not Go)
				ts, ok := in.typeString(sig.Results().At(i).Type(), cc)
				if !ok {
					return nil, "type of a discarded result cannot be spelled at the call site"
				}
				in.seq++
				name := fmt.Sprintf("discard%d__i%d", i, in.n+5000+in.seq%5000)
				decls = append(decls, fmt.Sprintf("var %s %s; _ = %s", name, ts, name))
				lhs = append(lhs, name)
			}
			tailReturn = tailOf(cc.enclLit, pn)
		} else if tailOf(cc.enclLit, pn) {
			md = mReturn // a return of the helper is a return of the caller
		} else if t := tailBeforeConstReturn(cc.callInfo, cc.enclLit, pn, in); t != "" {
			// after the call nothing runs but `return <constants>`: a return of the helper is that return
			tailRetText = t
		}
	case *ast.AssignStmt:
		if len(pn.Rhs) != 1 || ast.Unparen(pn.Rhs[0]) != ast.Expr(cc.call) && pn.Rhs[0] != ast.Expr(cc.call) || len(pn.Lhs) != nres || (pn.Tok != token.ASSIGN && pn.Tok != token.DEFINE) {
			return nil, "assignment form"
		}
		if !inList(pn, cc.callIdx-1) {
			// `if x, err := helper(); cond { … }`: the init statement moves in front of the `if`, both inside a block of their
			// own (same scope for x and err; also right for `else if`); the next round expands the call there
			if cc.callIdx >= 2 {
				if outer, ok := st[cc.callIdx-2].(*ast.IfStmt); ok && outer.Init == ast.Stmt(pn) && outer.Cond != nil {
					initTxt := in.text(pn)
					return func() {
						in.addEdit(outer.Pos(), outer.Cond.Pos(), "{ "+initTxt+"; if ")
						in.addEdit(outer.End(), outer.End(), " }")
					}, ""
				}
			}
			return nil, "assignment not in a statement list"
		}
		for i, l := range pn.Lhs {
			id, ok := l.(*ast.Ident)
			if !ok {
				return nil, "assignment to something other than a variable"
			}
			lhs = append(lhs, id.Name)
			if pn.Tok == token.DEFINE && id.Name != "_" {
				if obj := cc.callInfo.Defs[id]; obj != nil {
					ts, ok := in.typeString(obj.Type(), cc)
					if !ok {
						return nil, "type of " + id.Name + " cannot be spelled"
					}
					decls = append(decls, fmt.Sprintf("var %s %s", id.Name, ts))
				}
			}
			_ = i
		}
		md, target = mAssign, pn
		if pn.Tok == token.DEFINE {
			unify = in.unifiable(fi, cc, pn, rets, last)
			if unify == nil && cc.callIdx >= 2 {
				thread = in.threadable(fi, cc, pn, st[cc.callIdx-2], rets, last)
			}
		}
	case *ast.ReturnStmt:
		retAt := 0
		if len(pn.Results) != 1 {
			// `return nil, helper(x)`: the other operands are constants (no evaluation to order), the helper gives one value
			if nres != 1 {
				return nil, "return with other operands"
			}
			retAt = -1
			for i, res := range pn.Results {
				if ast.Unparen(res) == ast.Expr(cc.call) {
					retAt = i
					continue
				}
				tv := cc.callInfo.Types[res]
				if tv.Value == nil && !tv.IsNil() {
					return nil, "return with other operands"
				}
			}
			if retAt < 0 {
				return nil, "return with other operands"
			}
			for i, res := range pn.Results {
				if i < retAt {
					retPre += in.text(res) + ", "
				} else if i > retAt {
					retSuf += ", " + in.text(res)
				}
			}
		}
		// the enclosing function (or literal) must return exactly what the helper returns
		var rt *types.Signature
		switch e := cc.enclLit.(type) {
		case *ast.FuncLit:
			rt, _ = cc.callInfo.TypeOf(e).(*types.Signature)
		case *ast.FuncDecl:
			if o, ok := cc.callInfo.Defs[e.Name].(*types.Func); ok {
				rt = o.Type().(*types.Signature)
			}
		}
		if rt == nil || rt.Results().Len() != len(pn.Results)+nres-1 {
			return nil, "return arity"
		}
		for i := 0; i < nres; i++ {
			if !types.Identical(rt.Results().At(retAt+i).Type(), sig.Results().At(i).Type()) {
				return nil, "return type differs"
			}
		}
		for i := 0; i < rt.Results().Len(); i++ {
			if rt.Results().At(i).Name() != "" {
				return nil, "enclosing function has named results"
			}
		}
		md, target = mReturn, pn
	case *ast.DeferStmt:
		if pn.Call != cc.call || nres != 0 {
			return nil, "deferred with results"
		}
		if !inList(pn, cc.callIdx-1) {
			return nil, "defer not in a statement list"
		}
		cc.deferred = true
		md, target = mDefer, pn
	case *ast.UnaryExpr, *ast.IfStmt:
		idx := cc.callIdx - 1
		if u, ok := pn.(*ast.UnaryExpr); ok {
			if u.Op != token.NOT {
				return nil, "operand of an expression"
			}
			negated = true
			idx--
			for idx >= 0 {
				if _, isP := st[idx].(*ast.ParenExpr); isP {
					idx--
					continue
				}
				break
			}
		}
		s, ok := st[idx].(*ast.IfStmt)
		if !ok || s.Init != nil || nres != 1 {
			return nil, "operand of an expression"
		}
		c := ast.Unparen(s.Cond)
		if negated {
			u, ok := c.(*ast.UnaryExpr)
			if !ok || ast.Unparen(u.X) != ast.Expr(cc.call) {
				return nil, "operand of a larger condition"
			}
		} else if c != ast.Expr(cc.call) {
			return nil, "operand of a larger condition"
		}
		if b, ok := sig.Results().At(0).Type().Underlying().(*types.Basic); !ok || b.Kind() != types.Bool {
			return nil, "condition is not boolean"
		}
		ifs = s
		hasLabel := false
		ast.Inspect(s, func(n ast.Node) bool {
			if _, ok := n.(*ast.LabeledStmt); ok {
				hasLabel = true
			}
			return true
		})
		if hasLabel {
			return nil, "labels in the branches"
		}
		if early > 0 && (freeBreak(s.Body) || (s.Else != nil && freeBreak(s.Else))) {
			return nil, "break in a branch"
		}
		if !inList(s, idx) {
			if up, ok := st[idx-1].(*ast.IfStmt); !ok || up.Else != ast.Stmt(s) {
				return nil, "if statement not in a statement list"
			}
		}
		md, target = mIf, s
	default:
		return in.planHoist(fi, cc, rets, last)
	}
	var lowered []*ast.DeferStmt // deferred calls that are made explicit at every exit of the expanded body
	if hasDefer(fi.Decl) && md != mReturn && md != mDefer && tailRetText == "" {
		lowered = lowerableDefers(fi.Pkg.TypesInfo, fi.Decl)
		if md == mIf {
			lowered = nil // the deferred calls would have to run between the condition and the branch
		}
		if lowered == nil {
			return nil, "defer in a helper whose return is not a return of the caller"
		}
		// the short forms (result locals become the call site's variables; early returns threaded to the guard that
		// follows) have no place for the deferred calls: the general form is used
		unify, thread = nil, nil
	}
	if callsRecover(fi.Pkg.TypesInfo, fi.Decl) && md != mDefer {
		return nil, "recover in a helper that is not itself deferred"
	}
	ex, reason := in.newExpansion(fi, cc)
	if ex == nil {
		return nil, reason
	}
	if unify != nil {
		// the variables the call site defines are the helper's own result locals: no copy at the end
		finfo := fi.Pkg.TypesInfo
		for name := range ex.freeNames {
			for _, l := range lhs {
				if l == name {
					unify = nil
				}
			}
		}
		if unify != nil {
			for _, st := range body.List {
				for _, id := range topLevelDecls(st) {
					if obj := finfo.Defs[id]; obj != nil && id.Name != "_" {
						ex.rename[obj] = fmt.Sprintf("%s__i%d", id.Name, ex.id)
					}
				}
			}
			for i, obj := range unify {
				if lhs[i] != "_" {
					ex.rename[obj] = lhs[i]
				}
			}
		}
	}
	if thread != nil {
		finfo := fi.Pkg.TypesInfo
		for name := range ex.freeNames {
			for _, l := range lhs {
				if l == name {
					thread = nil
				}
			}
		}
		if thread != nil {
			for _, st := range body.List {
				for _, id := range topLevelDecls(st) {
					if obj := finfo.Defs[id]; obj != nil && id.Name != "_" {
						ex.rename[obj] = fmt.Sprintf("%s__i%d", id.Name, ex.id)
					}
				}
			}
			for i, obj := range thread.unified {
				if obj != nil && lhs[i] != "_" {
					ex.rename[obj] = lhs[i]
				}
			}
		}
	}
	return func() {
		needLabel := false
		if thread != nil {
			ff := in.p.Fset.File(fi.Decl.Pos())
			var extra []inlEdit
			ed := func(s, e token.Pos, t string) {
				in.seq++
				extra = append(extra, inlEdit{ff.Offset(s), ff.Offset(e), t, in.seq, 0})
			}
			guardBody := in.text(thread.guard.Body)
			for _, r := range rets {
				if ast.Stmt(r) == last {
					// the final return: assign the positions that are not the helper's own locals
					var ls, rs []string
					for i, res := range r.Results {
						if thread.unified[i] != nil {
							continue
						}
						if lhs[i] == "_" {
							ls, rs = append(ls, "_"), append(rs, ex.substituted(res, nil))
							continue
						}
						ls, rs = append(ls, lhs[i]), append(rs, ex.substituted(res, nil))
					}
					if len(ls) == 0 {
						ed(r.Pos(), r.End(), "")
					} else {
						ed(r.Pos(), r.End(), strings.Join(ls, ", ")+" = "+strings.Join(rs, ", "))
					}
					continue
				}
				// an early return: the guard fires; its body mentions at most the variables assigned here
				var ls, rs []string
				for i, res := range r.Results {
					if lhs[i] == "_" || !mentionsName(thread.guard.Body, lhs[i]) {
						continue
					}
					ls, rs = append(ls, lhs[i]), append(rs, ex.substituted(res, nil))
				}
				as := ""
				if len(ls) > 0 {
					as = strings.Join(ls, ", ") + " = " + strings.Join(rs, ", ") + "; "
				}
				ed(r.Pos(), r.End(), "{ "+as+guardBody+" }")
			}
			inner := strings.TrimSpace(ex.substituted(body, extra))
			inner = inner[1 : len(inner)-1]
			var sb strings.Builder
			for i, d := range thread.decls {
				if d != "" && lhs[i] != "_" {
					sb.WriteString(d + "; ")
				}
			}
			for _, pl := range ex.prelude {
				sb.WriteString(pl + "; ")
			}
			sb.WriteString(in.lineDirective(body.Lbrace))
			sb.WriteString(inner)
			sb.WriteString(in.resync(target.End()))
			in.addEdit(target.Pos(), target.End(), sb.String())
			return
		}
		if unify != nil {
			ff := in.p.Fset.File(fi.Decl.Pos())
			in.seq++
			extra := []inlEdit{{ff.Offset(last.Pos()), ff.Offset(last.End()), "", in.seq, 0}}
			var post []string
			for i, obj := range unify {
				if lhs[i] == "_" {
					n := obj.Name()
					if r := ex.rename[obj]; r != "" {
						n = r
					}
					post = append(post, "_ = "+n)
				}
			}
			inner := strings.TrimSpace(ex.substituted(body, extra))
			inner = inner[1 : len(inner)-1]
			var sb strings.Builder
			for _, pl := range ex.prelude {
				sb.WriteString(pl + "; ")
			}
			sb.WriteString(in.lineDirective(body.Lbrace))
			sb.WriteString(inner)
			sb.WriteString(strings.Join(post, "; "))
			sb.WriteString(in.resync(target.End()))
			in.addEdit(target.Pos(), target.End(), sb.String())
			return
		}
		if md == mDefer {
			// `defer helper(a, b)`: the arguments are bound where the defer stands, the body becomes the deferred literal
			inner := strings.TrimSpace(ex.substituted(body, nil))
			var sb strings.Builder
			for _, pl := range ex.prelude {
				sb.WriteString(pl + "; ")
			}
			sb.WriteString("defer func() ")
			sb.WriteString("{" + in.lineDirective(body.Lbrace) + inner[1:len(inner)-1] + in.resync(target.End()) + "}()")
			in.addEdit(target.Pos(), target.End(), sb.String())
			return
		}
		var extra []inlEdit
		ff := in.p.Fset.File(fi.Decl.Pos())
		off := func(p token.Pos) int { return ff.Offset(p) }
		ed := func(s, e token.Pos, t string) {
			in.seq++
			extra = append(extra, inlEdit{off(s), off(e), t, in.seq, 0})
		}
		// deferred calls of the helper that are registered when control is at statement n, made explicit (latest first): the
		// helper's defers are top-level statements of its body, so a return inside a later top-level statement has passed them
		deferCalls := func(n ast.Node) string {
			out := ""
			for k := len(lowered) - 1; k >= 0; k-- {
				if lowered[k].End() <= n.Pos() {
					out += "; " + ex.substituted(lowered[k].Call, nil)
				}
			}
			return out
		}
		for _, d := range lowered {
			ed(d.Pos(), d.End(), "")
		}
		brk := func(r *ast.ReturnStmt) string {
			if ast.Stmt(r) == last {
				return deferCalls(r)
			}
			if tailReturn {
				return deferCalls(r) + "; return"
			}
			needLabel = true
			return deferCalls(r) + "; break " + ex.label
		}
		var thenTxt, elseTxt string
		thenTerm, elseTerm := false, false
		if md == mIf {
			thenTxt = in.text(ifs.Body)
			thenTerm = terminates(ifs.Body)
			if ifs.Else != nil {
				elseTxt = in.text(ifs.Else)
				if b, ok := ifs.Else.(*ast.BlockStmt); ok {
					elseTerm = terminates(b)
				}
			}
		}
		for _, r := range rets {
			if len(r.Results) == 0 && len(ex.resultVars) > 0 {
				// a bare return of a helper with named results
				vars := strings.Join(ex.resultVars, ", ")
				switch md {
				case mAssign:
					ed(r.Pos(), r.End(), "{ "+strings.Join(lhs, ", ")+" = "+vars+brk(r)+" }")
				case mReturn:
					ed(r.End(), r.End(), " "+retPre+vars+retSuf)
				case mIf:
					a, b := thenTxt, elseTxt
					if negated {
						a, b = elseTxt, thenTxt
					}
					tail := " " + orEmpty(a)
					if b != "" {
						tail += " else " + b
					}
					ed(r.Pos(), r.End(), "{ if "+vars+tail+brk(r)+" }")
				}
				continue
			}
			switch md {
			case mStmt:
				if tailRetText != "" {
					if ast.Stmt(r) == last {
						ed(r.Pos(), r.End(), "")
					} else {
						ed(r.Pos(), r.End(), tailRetText)
					}
				} else if ast.Stmt(r) == last {
					ed(r.Pos(), r.End(), strings.TrimPrefix(deferCalls(r), "; "))
				} else {
					needLabel = true
					ed(r.Pos(), r.End(), "{ "+strings.TrimPrefix(deferCalls(r)+"; break "+ex.label, "; ")+" }")
				}
			case mAssign:
				allBlank := true
				for _, l := range lhs {
					if l != "_" {
						allBlank = false
					}
				}
				op := " = "
				_ = allBlank
				ed(r.Pos(), r.Pos()+token.Pos(len("return")), "{ "+strings.Join(lhs, ", ")+op)
				ed(r.End(), r.End(), brk(r)+" }")
			case mReturn:
				// stays a return of the enclosing function (with the caller's constant operands around it)
				if retPre != "" {
					ed(r.Pos()+token.Pos(len("return")), r.Pos()+token.Pos(len("return")), " "+retPre)
				}
				if retSuf != "" {
					ed(r.End(), r.End(), retSuf)
				}
			case mIf:
				val, isConst := boolConst(fi.Pkg.TypesInfo, r.Results[0])
				sel := func(v bool) (string, bool) {
					if v != negated {
						return thenTxt, thenTerm
					}
					return elseTxt, elseTerm
				}
				if isConst {
					t, term := sel(val)
					tail := ""
					if !term {
						tail = brk(r)
					}
					if t == "" {
						t = "{}"
					}
					ed(r.Pos(), r.End(), "{ "+t+tail+" }")
				} else {
					a, _ := sel(true)
					b, _ := sel(false)
					open := "{ if "
					ed(r.Pos(), r.Pos()+token.Pos(len("return")), open)
					tail := " " + orEmpty(a)
					if b != "" {
						tail += " else " + b
					}
					ed(r.End(), r.End(), tail+brk(r)+" }")
				}
			}
		}
		inner := ex.substituted(body, extra) // includes the braces of the body
		inner = strings.TrimSpace(inner)
		inner = inner[1 : len(inner)-1]
		if _, endsInReturn := last.(*ast.ReturnStmt); !endsInReturn && len(lowered) > 0 {
			// the body runs off its end: the deferred calls run there
			inner += strings.TrimPrefix(deferCalls(&ast.EmptyStmt{Semicolon: body.Rbrace}), "; ") + "\n"
		}
		var sb strings.Builder
		for _, d := range decls {
			sb.WriteString(d + "; ")
		}
		// an expansion that declares nothing needs no block of its own
		flat := !needLabel && len(ex.prelude) == 0 && len(ex.resultDecls) == 0 && !declares(fi.Pkg.TypesInfo, body)
		if flat {
			if up, ok := cc.rs.stack[indexOfNode(cc.rs.stack, target)-1].(*ast.IfStmt); ok && up.Else == target {
				flat = false
			}
		}
		if !flat {
			sb.WriteString("{ ")
		}
		if needLabel {
			sb.WriteString(ex.label + ": switch { default: ")
		}
		for _, pl := range ex.prelude {
			sb.WriteString(pl + "; ")
		}
		for _, d := range ex.resultDecls {
			sb.WriteString(d + "; ")
		}
		sb.WriteString(in.lineDirective(body.Lbrace))
		sb.WriteString(inner)
		sb.WriteString(in.resync(target.End()))
		if needLabel {
			sb.WriteString("} ")
		}
		if !flat {
			sb.WriteString("}")
		}
		in.addEdit(target.Pos(), target.End(), sb.String())
	}, ""
}

// topLevelDecls returns the identifiers a statement declares in the block it belongs to.
func topLevelDecls(st ast.Stmt) []*ast.Ident {
	var out []*ast.Ident
	switch s := st.(type) {
	case *ast.DeclStmt:
		if gd, ok := s.Decl.(*ast.GenDecl); ok {
			for _, sp := range gd.Specs {
				switch sp := sp.(type) {
				case *ast.ValueSpec:
					out = append(out, sp.Names...)
				case *ast.TypeSpec:
					out = append(out, sp.Name)
				}
			}
		}
	case *ast.AssignStmt:
		if s.Tok == token.DEFINE {
			for _, l := range s.Lhs {
				if id, ok := l.(*ast.Ident); ok {
					out = append(out, id)
				}
			}
		}
	}
	return out
}

// unifiable: `a, b := helper(…)` defines only new variables, and the helper ends in its only return, `return x, y`, of
// distinct locals declared at the top level of its body with the types of a and b: then x and y can be a and b.
func (in *inliner) unifiable(fi *FuncInfo, cc *callCtx, as *ast.AssignStmt, rets []*ast.ReturnStmt, last ast.Stmt) []types.Object {
	if len(rets) != 1 || ast.Stmt(rets[0]) != last || len(rets[0].Results) != len(as.Lhs) || hasNamedResults(fi.Decl) {
		return nil
	}
	finfo := fi.Pkg.TypesInfo
	top := map[types.Object]bool{}
	for _, st := range fi.Decl.Body.List {
		for _, id := range topLevelDecls(st) {
			if obj, ok := finfo.Defs[id].(*types.Var); ok {
				top[obj] = true
			}
		}
	}
	var out []types.Object
	seen := map[types.Object]bool{}
	names := map[string]bool{}
	for i, res := range rets[0].Results {
		rid, ok := res.(*ast.Ident)
		if !ok {
			return nil
		}
		obj, ok := finfo.Uses[rid].(*types.Var)
		if !ok || !top[obj] || seen[obj] {
			return nil
		}
		seen[obj] = true
		lid, ok := as.Lhs[i].(*ast.Ident)
		if !ok {
			return nil
		}
		if lid.Name != "_" {
			def := cc.callInfo.Defs[lid]
			if def == nil || !types.Identical(def.Type(), obj.Type()) || names[lid.Name] {
				return nil
			}
			names[lid.Name] = true
		}
		out = append(out, obj)
	}
	return out
}

// threadPlan: `a, ok := helper(…)` is followed by `if !ok { A }` (or `if err != nil { A }`) with A ending in return / panic /
// continue, every early return of the helper makes that guard fire (a constant in the tested position), and the helper ends
// in its final return. Then an early return can run A on the spot, the body needs no labelled exit and stays flat, and a
// result position that always carries the same top-level local of the helper (or a constant on the early returns) is that
// local — `cmd, ok := Commands[k]` of the helper is the caller's `cmd`.
type threadPlan struct {
	guard   *ast.IfStmt
	unified []types.Object // per result position: the helper's local that becomes the caller's variable, or nil
	decls   []string       // per result position: `var x T` for positions that are assigned (not unified)
}

func mentionsName(n ast.Node, name string) bool {
	found := false
	ast.Inspect(n, func(m ast.Node) bool {
		if id, ok := m.(*ast.Ident); ok && id.Name == name {
			found = true
		}
		return true
	})
	return found
}

func (in *inliner) threadable(fi *FuncInfo, cc *callCtx, as *ast.AssignStmt, parent ast.Node, rets []*ast.ReturnStmt, last ast.Stmt) *threadPlan {
	if len(rets) < 2 || hasNamedResults(fi.Decl) || hasDefer(fi.Decl) {
		return nil
	}
	if lr, ok := last.(*ast.ReturnStmt); !ok || len(lr.Results) != len(as.Lhs) {
		return nil
	}
	// the statement after the assignment
	var list []ast.Stmt
	switch p := parent.(type) {
	case *ast.BlockStmt:
		list = p.List
	case *ast.CaseClause:
		list = p.Body
	case *ast.CommClause:
		list = p.Body
	}
	var guard *ast.IfStmt
	for i, st := range list {
		if st == ast.Stmt(as) && i+1 < len(list) {
			guard, _ = list[i+1].(*ast.IfStmt)
		}
	}
	if guard == nil || guard.Init != nil || guard.Else != nil || len(guard.Body.List) == 0 {
		return nil
	}
	switch t := guard.Body.List[len(guard.Body.List)-1].(type) {
	case *ast.ReturnStmt:
	case *ast.BranchStmt:
		if t.Tok != token.CONTINUE || t.Label != nil {
			return nil
		}
	case *ast.ExprStmt:
		c, ok := t.X.(*ast.CallExpr)
		if !ok {
			return nil
		}
		if id, ok := c.Fun.(*ast.Ident); !ok || id.Name != "panic" {
			return nil
		}
	default:
		return nil
	}
	hasLabelOrBreak := false
	ast.Inspect(guard.Body, func(n ast.Node) bool {
		switch x := n.(type) {
		case *ast.LabeledStmt:
			hasLabelOrBreak = true
		case *ast.BranchStmt:
			if x.Label != nil {
				hasLabelOrBreak = true
			}
		}
		return true
	})
	if hasLabelOrBreak {
		return nil
	}
	// the tested variable and the value that makes the guard fire
	pos, fireOn := -1, ""
	lhsIdx := func(e ast.Expr) int {
		id, ok := ast.Unparen(e).(*ast.Ident)
		if !ok {
			return -1
		}
		for i, l := range as.Lhs {
			if lid, ok := l.(*ast.Ident); ok && lid.Name == id.Name && lid.Name != "_" && cc.callInfo.ObjectOf(lid) == cc.callInfo.ObjectOf(id) {
				return i
			}
		}
		return -1
	}
	switch c := ast.Unparen(guard.Cond).(type) {
	case *ast.Ident:
		pos, fireOn = lhsIdx(c), "true"
	case *ast.UnaryExpr:
		if c.Op == token.NOT {
			pos, fireOn = lhsIdx(c.X), "false"
		}
	case *ast.BinaryExpr:
		if c.Op == token.EQL || c.Op == token.NEQ {
			x, y := c.X, c.Y
			if id, ok := ast.Unparen(x).(*ast.Ident); ok && id.Name == "nil" {
				x, y = y, x
			}
			if id, ok := ast.Unparen(y).(*ast.Ident); ok && id.Name == "nil" && c.Op == token.EQL {
				pos, fireOn = lhsIdx(x), "nil"
			}
		}
	}
	if pos < 0 {
		return nil
	}
	finfo := fi.Pkg.TypesInfo
	constKind := func(e ast.Expr) string {
		if id, ok := ast.Unparen(e).(*ast.Ident); ok {
			if o := finfo.Uses[id]; o != nil && o.Parent() == types.Universe {
				switch id.Name {
				case "true", "false", "nil":
					return id.Name
				}
			}
		}
		return ""
	}
	for _, r := range rets {
		if len(r.Results) != len(as.Lhs) {
			return nil
		}
		k := constKind(r.Results[pos])
		if ast.Stmt(r) == last {
			if k == fireOn {
				return nil // the final return fires the guard as well: nothing to thread towards
			}
			continue
		}
		if k != fireOn {
			return nil
		}
	}
	// all variables defined here are new
	tp := &threadPlan{guard: guard, unified: make([]types.Object, len(as.Lhs)), decls: make([]string, len(as.Lhs))}
	top := map[types.Object]bool{}
	for _, st := range fi.Decl.Body.List {
		for _, id := range topLevelDecls(st) {
			if obj, ok := finfo.Defs[id].(*types.Var); ok {
				top[obj] = true
			}
		}
	}
	lastRet := last.(*ast.ReturnStmt)
	seen := map[types.Object]bool{}
	for i, l := range as.Lhs {
		lid, ok := l.(*ast.Ident)
		if !ok {
			return nil
		}
		if lid.Name == "_" {
			continue
		}
		def := cc.callInfo.Defs[lid]
		if def == nil {
			return nil
		}
		// unify when the final return carries a top-level local of the helper there and every early return a constant
		if rid, ok := ast.Unparen(lastRet.Results[i]).(*ast.Ident); ok {
			if obj, ok := finfo.Uses[rid].(*types.Var); ok && top[obj] && !seen[obj] && types.Identical(obj.Type(), def.Type()) {
				allConst := true
				for _, r := range rets {
					if ast.Stmt(r) != last && constKind(r.Results[i]) == "" {
						if id2, ok := ast.Unparen(r.Results[i]).(*ast.Ident); !ok || finfo.Uses[id2] != types.Object(obj) {
							allConst = false
						}
					}
				}
				if allConst {
					seen[obj] = true
					tp.unified[i] = obj
					continue
				}
			}
		}
		ts, ok := in.typeString(def.Type(), cc)
		if !ok {
			return nil
		}
		tp.decls[i] = fmt.Sprintf("var %s %s", lid.Name, ts)
	}
	return tp
}

// declares: the block declares a name at its top level (a nested block may declare what it likes).
func declares(info *types.Info, b *ast.BlockStmt) bool {
	for _, st := range b.List {
		switch s := st.(type) {
		case *ast.DeclStmt:
			return true
		case *ast.AssignStmt:
			if s.Tok == token.DEFINE {
				return true
			}
		case *ast.LabeledStmt:
			return true
		}
	}
	return false
}

func indexOfNode(stack []ast.Node, n ast.Node) int {
	for i, s := range stack {
		if s == n {
			return i
		}
	}
	return 1
}

// tailOf: stmt is the last statement of the body of fn (a FuncDecl or FuncLit) and fn has no results.
func tailOf(fn ast.Node, stmt ast.Stmt) bool {
	var ft *ast.FuncType
	var body *ast.BlockStmt
	switch f := fn.(type) {
	case *ast.FuncDecl:
		ft, body = f.Type, f.Body
	case *ast.FuncLit:
		ft, body = f.Type, f.Body
	}
	if ft == nil || body == nil || len(body.List) == 0 || (ft.Results != nil && len(ft.Results.List) > 0) {
		return false
	}
	// the last statement of the body, or the last statement of a branch (if / else, a clause of a switch or select without
	// fallthrough, a nested block) of a statement that is itself in tail position; never inside a loop
	var inTail func(list []ast.Stmt) bool
	inTail = func(list []ast.Stmt) bool {
		if len(list) == 0 {
			return false
		}
		lastSt := list[len(list)-1]
		if lastSt == stmt {
			return true
		}
		switch x := lastSt.(type) {
		case *ast.BlockStmt:
			return inTail(x.List)
		case *ast.IfStmt:
			for cur := x; cur != nil; {
				if inTail(cur.Body.List) {
					return true
				}
				switch e := cur.Else.(type) {
				case *ast.BlockStmt:
					return inTail(e.List)
				case *ast.IfStmt:
					cur = e
					continue
				}
				break
			}
		case *ast.SwitchStmt:
			for _, cl := range x.Body.List {
				if cc, ok := cl.(*ast.CaseClause); ok && inTail(cc.Body) {
					return true
				}
			}
		case *ast.TypeSwitchStmt:
			for _, cl := range x.Body.List {
				if cc, ok := cl.(*ast.CaseClause); ok && inTail(cc.Body) {
					return true
				}
			}
		case *ast.SelectStmt:
			for _, cl := range x.Body.List {
				if cc, ok := cl.(*ast.CommClause); ok && inTail(cc.Body) {
					return true
				}
			}
		case *ast.LabeledStmt:
			return inTail([]ast.Stmt{x.Stmt})
		}
		return false
	}
	return inTail(body.List)
}

// tailBeforeConstReturn: the body of fn ends in `return c1, …` with constant operands, and stmt is in tail position of the
// statement right before it. It returns the text of that return statement, or "".
func tailBeforeConstReturn(info *types.Info, fn ast.Node, stmt ast.Stmt, in *inliner) string {
	var body *ast.BlockStmt
	switch f := fn.(type) {
	case *ast.FuncDecl:
		body = f.Body
	case *ast.FuncLit:
		body = f.Body
	}
	if body == nil || len(body.List) < 2 {
		return ""
	}
	ret, ok := body.List[len(body.List)-1].(*ast.ReturnStmt)
	if !ok || len(ret.Results) == 0 {
		return ""
	}
	for _, e := range ret.Results {
		tv, has := info.Types[e]
		if !has || (tv.Value == nil && !tv.IsNil()) {
			if id, isID := ast.Unparen(e).(*ast.Ident); !isID || (id.Name != "nil" && id.Name != "true" && id.Name != "false") {
				return ""
			}
		}
	}
	// a function without results whose body is everything before the final return
	shadow := &ast.FuncLit{Type: &ast.FuncType{Params: &ast.FieldList{}}, Body: &ast.BlockStmt{List: body.List[:len(body.List)-1]}}
	if !tailOf(shadow, stmt) {
		return ""
	}
	return in.text(ret)
}

func orEmpty(s string) string {
	if s == "" {
		return "{}"
	}
	return s
}

func boolConst(info *types.Info, e ast.Expr) (bool, bool) {
	if id, ok := ast.Unparen(e).(*ast.Ident); ok {
		if c, ok := info.Uses[id].(*types.Const); ok && c.Parent() == types.Universe {
			switch id.Name {
			case "true":
				return true, true
			case "false":
				return false, true
			}
		}
	}
	return false, false
}

func terminates(b *ast.BlockStmt) bool {
	if b == nil || len(b.List) == 0 {
		return false
	}
	switch s := b.List[len(b.List)-1].(type) {
	case *ast.ReturnStmt:
		return true
	case *ast.BranchStmt:
		return s.Tok == token.BREAK || s.Tok == token.CONTINUE || s.Tok == token.GOTO
	case *ast.ExprStmt:
		if c, ok := s.X.(*ast.CallExpr); ok {
			if id, ok := c.Fun.(*ast.Ident); ok && id.Name == "panic" {
				return true
			}
		}
	}
	return false
}
