package load

// Differential test of the normal form (inline.go): every synthetic program below is run twice with `go run` — as written,
// and after its private helpers were expanded — and must print the same, panics included. The programs are small modules
// made for this test (they carry robustirc's module path only so that the loader accepts them); nothing of robustirc is
// executed. Each case names the helpers that must have been expanded, so that a case cannot pass because nothing happened.

import (
	"bytes"
	"os"
	"os/exec"
	"path/filepath"
	"sort"
	"strings"
	"testing"
)

type inlineCase struct {
	name   string
	src    string   // body of main.go after `package main` and the imports
	expand []string // helpers that must be expanded (simple names)
	keep   []string // helpers that must not be expanded
}

var inlineCases = []inlineCase{
	{name: "accessor comma-ok", expand: []string{"lookup"}, src: `
type S struct{ m map[string]*int }
func (s *S) lookup(k string) (*int, bool) { v, ok := s.m[strings.ToLower(k)]; return v, ok }
func main() {
	one := 1
	s := &S{m: map[string]*int{"a": &one}}
	for _, k := range []string{"A", "b"} {
		v, ok := s.lookup(k)
		if !ok { fmt.Println(k, "missing"); continue }
		fmt.Println(k, *v)
	}
}`},
	{name: "statement helper with early returns", expand: []string{"record"}, src: `
var log []string
func record(kind string, n int) {
	if n < 0 { log = append(log, "neg"); return }
	for i := 0; i < n; i++ {
		if i == 2 { log = append(log, kind+":stop"); return }
		log = append(log, fmt.Sprint(kind, i))
	}
	log = append(log, "done")
}
func main() {
	record("a", -1)
	record("b", 1)
	record("c", 5)
	fmt.Println(log)
}`},
	{name: "assignment with several returns and an error", expand: []string{"parse"}, src: `
func parse(s string) (int, error) {
	if s == "" { return 0, errors.New("empty") }
	n := 0
	for _, c := range s {
		if c < '0' || c > '9' { return n, fmt.Errorf("bad %q", c) }
		n = n*10 + int(c-'0')
	}
	return n, nil
}
func main() {
	for _, in := range []string{"", "12", "1x"} {
		n, err := parse(in)
		if err != nil { fmt.Println("err", n, err); continue }
		fmt.Println("ok", n)
	}
	var n int
	var err error
	n, err = parse("77")
	fmt.Println(n, err)
}`},
	{name: "condition with constant results", expand: []string{"allowed", "refuse"}, src: `
var out []string
func allowed(user string, level int) bool {
	if user == "" { out = append(out, "no user"); return false }
	if level > 3 { out = append(out, "too high"); return false }
	return true
}
func refuse(level int) bool {
	if level == 2 { return true }
	return level > 5
}
func main() {
	for _, u := range []string{"", "x"} {
		for l := 1; l < 7; l += 2 {
			if !allowed(u, l) { out = append(out, "denied"); continue }
			out = append(out, "granted")
			if refuse(l) { out = append(out, "refused") } else if l == 1 { out = append(out, "one") } else { out = append(out, "other") }
		}
	}
	fmt.Println(out)
}`},
	{name: "return position with a defer in the helper", expand: []string{"find"}, src: `
var trace []string
func find(m map[int]string, k int) string {
	trace = append(trace, "enter")
	defer func() { trace = append(trace, "leave") }()
	if v, ok := m[k]; ok { return v }
	return "none"
}
func get(m map[int]string, k int) string {
	if k < 0 { return "negative" }
	return find(m, k)
}
func main() {
	m := map[int]string{1: "one"}
	fmt.Println(get(m, -1), get(m, 1), get(m, 2), trace)
}`},
	{name: "deferred helper that recovers", expand: []string{"guard"}, src: `
var notes []string
func guard(name string, n *int) {
	if *n == 0 { return }
	if r := recover(); r != nil { notes = append(notes, fmt.Sprint(name, " recovered ", r, " n=", *n)) }
}
func work(name string, n int) {
	defer guard(name, &n)
	n++
	if n == 2 { panic("two") }
	notes = append(notes, name+" fine")
}
func main() {
	work("a", 0)
	work("b", 1)
	fmt.Println(notes)
}`},
	{name: "variadic parameters", expand: []string{"numeric"}, src: `
func send(cmd string, params []string) string { return cmd + " " + strings.Join(params, ",") }
func numeric(nick, cmd string, params ...string) string {
	return send(cmd, append([]string{nick}, params...))
}
func main() {
	fmt.Println(numeric("n", "001"))
	fmt.Println(numeric("n", "002", "a"))
	fmt.Println(numeric("n", "003", "a", "b"))
	rest := []string{"x", "y"}
	fmt.Println(numeric("n", "004", rest...))
}`},
	{name: "key helper as an operand", expand: []string{"key"}, src: `
func key(id uint64) []byte {
	var k [8]byte
	binary.BigEndian.PutUint64(k[:], id)
	return k[:]
}
type db struct{ m map[string]string }
func (d *db) put(k []byte, v string) error { d.m[string(k)] = v; return nil }
func (d *db) rng(a, b []byte) string { return fmt.Sprint(a, b) }
func main() {
	d := &db{m: map[string]string{}}
	if err := d.put(key(7), "seven"); err != nil { fmt.Println(err) }
	d.put(key(8), "eight")
	fmt.Println(d.rng(key(1), key(2)), len(d.m), d.m[string(key(7))])
}`},
	{name: "result locals become the call site's variables", expand: []string{"newest"}, src: `
func newest(m map[uint64]bool, below uint64) (uint64, bool) {
	var latest uint64
	found := false
	for k := range m {
		if k < below && (!found || k > latest) { latest, found = k, true }
	}
	return latest, found
}
func main() {
	m := map[uint64]bool{3: true, 9: true, 5: true}
	old, found := newest(m, 8)
	fmt.Println(old, found)
	old2, found2 := newest(m, 1)
	fmt.Println(old2, found2)
}`},
	{name: "parameter assigned in the body", expand: []string{"follow"}, src: `
func follow(pos int, steps []int) int {
	for _, s := range steps { pos += s }
	return pos
}
func main() {
	p := 10
	for i := 0; i < 3; i++ {
		fmt.Println(follow(p, []int{i, i}))
	}
	fmt.Println(p)
	q := 5
	r := follow(q, []int{1})
	fmt.Println(r)
}`},
	{name: "argument that reads what the body changes", expand: []string{"rename"}, src: `
type sess struct{ nick string }
var index = map[string]*sess{}
func rename(s *sess, old string, nu string) {
	s.nick = nu
	delete(index, old)
	index[nu] = s
}
func main() {
	s := &sess{nick: "a"}
	index["a"] = s
	rename(s, s.nick, "b")
	keys := []string{}
	for k := range index { keys = append(keys, k) }
	sort.Strings(keys)
	fmt.Println(keys, s.nick)
}`},
	{name: "argument that panics although the body ignores it", expand: []string{"maybe"}, src: `
func maybe(flag bool, v string) string {
	if flag { return v }
	return "-"
}
func main() {
	defer func() { fmt.Println("recovered:", recover() != nil) }()
	params := []string{"x"}
	a := maybe(true, params[0])
	fmt.Println(a)
	b := maybe(false, params[1])
	fmt.Println(b, "not reached")
}`},
	{name: "named results and bare returns", expand: []string{"pair"}, src: `
func pair(m map[int]int, k int) (cur, next int) {
	cur, ok := m[k]
	if !ok { return -1, -1 }
	next, ok = m[cur]
	if !ok { next = -2; return }
	return
}
func main() {
	m := map[int]int{1: 2, 2: 3, 5: 9}
	for _, k := range []int{1, 5, 7} {
		cur, next := pair(m, k)
		fmt.Println(cur, next)
	}
}`},
	{name: "method expression parameters", expand: []string{"outer"}, src: `
type it struct{ pos int; data []int }
func (i *it) First() bool { i.pos = 0; return len(i.data) > 0 }
func (i *it) Last() bool { i.pos = len(i.data) - 1; return len(i.data) > 0 }
func (i *it) Next() bool { i.pos++; return i.pos < len(i.data) }
func (i *it) Prev() bool { i.pos--; return i.pos >= 0 }
func outer(i *it, seek, step func(*it) bool) int {
	if !seek(i) { return -1 }
	for i.data[i.pos]%2 == 1 {
		if !step(i) { return -1 }
	}
	return i.data[i.pos]
}
func first(i *it) int { return outer(i, (*it).First, (*it).Next) }
func last(i *it) int { return outer(i, (*it).Last, (*it).Prev) }
func main() {
	i := &it{data: []int{1, 4, 6, 7}}
	a := first(i)
	b := last(i)
	c := first(&it{})
	d := last(&it{data: []int{1}})
	fmt.Println(a, b, c, d)
}`},
	{name: "pointer receiver on an addressable value", expand: []string{"id", "bump"}, src: `
type batch struct{ ids []int; n int }
func (b *batch) id() int { return b.ids[0] }
func (b *batch) bump() { b.n++ }
type stream struct{ last batch }
func main() {
	s := &stream{last: batch{ids: []int{42}}}
	s.last.bump()
	s.last.bump()
	fmt.Println(s.last.id(), s.last.n)
}`},
	{name: "name that means something else at the call site", keep: []string{"scaled"}, src: `
var factor = 3
func scaled(n int) int { return n * factor }
func main() {
	factor := 10
	fmt.Println(scaled(2), factor)
}`},
	{name: "nested helpers", expand: []string{"lower", "find", "has"}, src: `
var table = map[string]int{"a": 1}
func lower(s string) string { return strings.ToLower(s) }
func find(k string) (int, bool) { v, ok := table[lower(k)]; return v, ok }
func has(k string) bool {
	_, ok := find(k)
	return ok
}
func main() {
	fmt.Println(has("A"), has("b"))
	if has("A") { fmt.Println("yes") }
}`},
	{name: "non-constant result in a condition", expand: []string{"member"}, src: `
var calls int
func member(set map[string]bool, k string) bool {
	calls++
	if k == "" { return false }
	return set[k] || set["*"]
}
func main() {
	set := map[string]bool{"a": true}
	for _, k := range []string{"", "a", "b"} {
		if member(set, k) { fmt.Println(k, "in") } else { fmt.Println(k, "out") }
		if !member(set, k) { fmt.Println(k, "not in") }
	}
	fmt.Println(calls)
}`},
	{name: "early return inside nested loops and switches", expand: []string{"scan"}, src: `
var seen []string
func scan(rows [][]int) {
	for r, row := range rows {
		for _, v := range row {
			switch {
			case v < 0:
				seen = append(seen, "neg")
				return
			case v == 0:
				break
			default:
				seen = append(seen, fmt.Sprint(r, v))
			}
		}
	}
	seen = append(seen, "end")
}
func main() {
	scan([][]int{{1, 0, 2}, {3}})
	scan([][]int{{1, -1, 2}, {3}})
	fmt.Println(seen)
}`},
	{name: "lock operations before the use of an argument", expand: []string{"evict"}, src: `
type cache struct{ mu sync.Mutex; m map[int]string; last []int }
func (c *cache) evict(id int) {
	c.mu.Lock()
	delete(c.m, id)
	c.mu.Unlock()
}
func main() {
	c := &cache{m: map[int]string{1: "a", 2: "b"}, last: []int{2}}
	c.evict(c.last[0])
	c.evict(7)
	fmt.Println(len(c.m), c.m[1])
}`},
	{name: "discarded results at the end of a function", expand: []string{"apply"}, src: `
var events []string
func apply(ok bool) bool {
	if ok { events = append(events, "applied"); return true }
	events = append(events, "proxied")
	return false
}
func handle(ok bool) {
	events = append(events, "start")
	apply(ok)
}
func handle2(ok bool) {
	apply(ok)
	events = append(events, "after")
}
func main() {
	handle(true); handle(false); handle2(true); handle2(false)
	fmt.Println(events)
}`},
	{name: "helper called from a goroutine stays a unit", keep: []string{"unban"}, src: `
var mu sync.Mutex
var banned = map[string]bool{"x": true}
func unban(a string) { mu.Lock(); defer mu.Unlock(); delete(banned, a) }
func main() {
	done := make(chan bool)
	go func() { unban("x"); done <- true }()
	<-done
	fmt.Println(len(banned))
}`},
	{name: "argument with effects used once first", expand: []string{"stable"}, src: `
type iter struct{ n int }
func (i *iter) Key() []byte { i.n++; return []byte{byte(i.n)} }
func stable(k []byte) bool { return bytes.HasPrefix(k, []byte{2}) }
func main() {
	i := &iter{}
	fmt.Println(stable(i.Key()), stable(i.Key()), i.n)
}`},
	{name: "arguments with effects keep their order", expand: []string{"join3"}, src: `
var n int
func next() int { n++; return n }
func join3(a, b, c int) string {
	s := fmt.Sprint(c)
	s += fmt.Sprint(a)
	return s + fmt.Sprint(b)
}
func main() {
	x := join3(next(), next(), next())
	fmt.Println(x, n)
}`},
	{name: "local of the helper named like a variable of the caller", expand: []string{"shift"}, src: `
func shift(v int) int {
	x := 100
	x += v
	return x
}
func main() {
	x := 7
	y := shift(x)
	fmt.Println(x, y)
	z := shift(x + y)
	fmt.Println(z)
}`},
	{name: "branch with a break of the caller's loop", src: `
var picked []int
func even(v int) bool {
	if v < 0 { return false }
	return v%2 == 0
}
func main() {
	for _, v := range []int{1, 2, -4, 6, 7} {
		if even(v) { picked = append(picked, v); if v == 6 { break } } else if v == 7 { picked = append(picked, 700) }
	}
	fmt.Println(picked)
}`},
	{name: "operand after a call with effects", src: `
var n int
func bump() int { n++; return n }
func tag(v int) string {
	var b [2]byte
	b[0], b[1] = byte('a'+v), byte('a'+n)
	return string(b[:])
}
func show(i int, s string) { fmt.Println(i, s) }
func tagAndBump(v int) string {
	n += 10
	return tag(v)
}
func main() {
	show(bump(), tag(1))
	show(bump(), tag(2))
	show(bump(), tagAndBump(3))
	show(n, tagAndBump(4))
}`},
	{name: "value receiver changed in the body", expand: []string{"with"}, src: `
type batch struct{ n int; ids [2]int }
func (b batch) with(n int) batch {
	b.n = n
	b.ids[0] = n
	return b
}
type stream struct{ last batch }
func main() {
	s := &stream{}
	c := s.last.with(5)
	fmt.Println(s.last, c)
}`},
	{name: "pointer method on a value parameter", expand: []string{"bumped"}, src: `
type ctr struct{ n int }
func (c *ctr) inc() { c.n++ }
func bumped(c ctr) int {
	c.inc()
	return c.n
}
func main() {
	c := ctr{n: 1}
	v := bumped(c)
	fmt.Println(c.n, v)
}`},
	{name: "parameter captured by a function literal", expand: []string{"register"}, src: `
var hooks []func() int
func register(v int) {
	hooks = append(hooks, func() int { return v * 2 })
}
func main() {
	x := 1
	for i := 0; i < 3; i++ {
		register(x)
		x += 10
	}
	for _, h := range hooks { fmt.Println(h()) }
}`},
	{name: "blank on the defining side", expand: []string{"newest2"}, src: `
func newest2(m map[int]bool) (int, bool) {
	best, found := 0, false
	for k := range m {
		if !found || k > best { best, found = k, true }
	}
	return best, found
}
func main() {
	_, ok := newest2(map[int]bool{})
	v, _ := newest2(map[int]bool{4: true, 2: true})
	fmt.Println(ok, v)
}`},
	{name: "the same helper twice in one block", expand: []string{"sum"}, src: `
func sum(xs []int) int {
	total := 0
	for _, x := range xs { total += x }
	return total
}
func main() {
	a := sum([]int{1, 2})
	b := sum([]int{3, 4})
	var c int
	c = sum([]int{a, b})
	fmt.Println(a, b, c)
}`},
	{name: "return out of a select", expand: []string{"poll"}, src: `
func poll(ch chan int, done chan bool) (int, bool) {
	select {
	case v := <-ch:
		return v, true
	case <-done:
		return 0, false
	}
}
func main() {
	ch, done := make(chan int, 1), make(chan bool, 1)
	ch <- 9
	v, ok := poll(ch, done)
	fmt.Println(v, ok)
	done <- true
	v, ok = poll(ch, done)
	fmt.Println(v, ok)
}`},
	{name: "labelled loop and a range over the variadic elements", expand: []string{"without"}, src: `
func without(peers []string, exclude ...string) []string {
	var remaining []string
nextPeer:
	for _, peer := range peers {
		for _, excluded := range exclude {
			if peer == excluded {
				continue nextPeer
			}
		}
		remaining = append(remaining, peer)
	}
	return remaining
}
func main() {
	all := []string{"a", "b", "c", "d"}
	me, join := "b", "d"
	peers := without(all, me, join)
	rest := without(peers, "a")
	none := without(all)
	fmt.Println(peers, rest, none)
}`},
	{name: "operand with effects that nothing precedes", src: `
var journal []string
type st struct{ n int }
func collect(names []string, tag string) []int {
	journal = append(journal, "collect "+tag)
	var out []int
	for _, n := range names { out = append(out, len(n)) }
	return out
}
func judge(xs []int) int { journal = append(journal, "judge"); t := 0; for _, x := range xs { t += x }; return t }
func (s *st) judge(xs []int) int { s.n++; return judge(xs) + s.n }
func run(names []string) int {
	return judge(collect(names, "run"))
}
func main() {
	a := judge(collect([]string{"ab", "c"}, "a"))
	s := &st{}
	b := s.judge(collect([]string{"xyz"}, "b"))
	fmt.Println(a, b, run([]string{"q"}), journal)
}`},
	{name: "early returns threaded to the guard that follows", expand: []string{"lookup2", "pick"}, src: `
type cmd struct{ min int; name string }
var cmds = map[string]*cmd{"join": {1, "JOIN"}, "quit": {0, "QUIT"}}
var replies []string
func lookup2(server bool, name string, n int) (*cmd, bool) {
	prefix := ""
	if server { prefix = "server_" }
	c, ok := cmds[prefix+name]
	if !ok { replies = append(replies, "unknown "+name); return nil, false }
	if n < c.min { replies = append(replies, "need more "+name); return nil, false }
	return c, true
}
func process(server bool, name string, n int) string {
	c, ok := lookup2(server, name, n)
	if !ok {
		return "refused"
	}
	return c.name
}
func pick(xs []int, want int) (int, bool) {
	for i, x := range xs {
		if x == want { return i, true }
	}
	return -1, false
}
func main() {
	fmt.Println(process(false, "join", 1), process(false, "join", 0), process(true, "join", 1), process(false, "nope", 3), replies)
	for _, w := range []int{5, 7, 9} {
		idx, found := pick([]int{9, 5}, w)
		if !found { fmt.Println(w, "missing"); continue }
		fmt.Println(w, idx)
	}
}`},
	{name: "generic helper", expand: []string{"sortedKeys"}, src: `
type lc string
func sortedKeys[K ~string, V any](m map[K]V) []string {
	keys := make([]string, 0, len(m))
	for k := range m { keys = append(keys, string(k)) }
	sort.Strings(keys)
	return keys
}
func main() {
	a := sortedKeys(map[lc]bool{"b": true, "a": true})
	b := sortedKeys(map[string]int{"z": 1})
	fmt.Println(a, b)
}`},
	{name: "helper with defers in the last clause before a constant return", expand: []string{"install", "skip"}, src: `
var order []string
var mu sync.Mutex
func install(v int) {
	if v < 0 { order = append(order, "invalid"); return }
	mu.Lock()
	defer mu.Unlock()
	defer func() { order = append(order, "deferred") }()
	order = append(order, fmt.Sprint("installed ", v))
}
func skip(v int) { order = append(order, "skipped") }
func apply(kind string, v int) error {
	defer func() { order = append(order, "outer") }()
	switch kind {
	case "config":
		install(v)
	case "death":
		skip(v)
	case "create":
		return errors.New("exists")
	}
	return nil
}
func main() {
	fmt.Println(apply("config", 1), apply("config", -1), apply("death", 0), apply("create", 0), apply("other", 0))
	fmt.Println(order)
}`},
	{name: "helper's value returned between constant operands", expand: []string{"classify", "find"}, src: `
var errGone = errors.New("gone")
var errLater = errors.New("later")
type table struct{ m map[int]string; seen int }
func (t *table) find(id int) (string, bool) { s, ok := t.m[id]; return s, ok }
func (t *table) classify(id int) error {
	if id <= t.seen {
		return errGone
	}
	return errLater
}
func (t *table) get(id int) (string, error, int) {
	if s, found := t.find(id); found {
		return s, nil, 1
	}
	return "", t.classify(id), -1
}
func main() {
	t := &table{m: map[int]string{1: "a"}, seen: 5}
	fmt.Println(t.get(1))
	fmt.Println(t.get(3))
	fmt.Println(t.get(9))
}`},
	{name: "defers of a helper made explicit at every exit; if-init call hoisted", expand: []string{"copyAll", "locked", "sections"}, src: `
var trace []string
var mu sync.Mutex
type it struct{ n, i int }
func (x *it) next() bool { x.i++; return x.i <= x.n }
func (x *it) release() { trace = append(trace, fmt.Sprint("release ", x.n)) }
func copyAll(n int, failAt int) (int, error) {
	mu.Lock()
	defer mu.Unlock()
	if n < 0 {
		return 0, errors.New("negative")
	}
	x := &it{n: n}
	defer x.release()
	copied := 0
	for x.next() {
		if x.i == failAt {
			return copied, fmt.Errorf("failed at %d", x.i)
		}
		copied++
	}
	trace = append(trace, "done")
	return copied, nil
}
func locked(v *int) {
	mu.Lock()
	defer mu.Unlock()
	*v++
}
func positive(v int) bool {
	mu.Lock()
	defer mu.Unlock()
	return v > 0
}
func sections() (int, string) {
	mu.Lock()
	defer mu.Unlock()
	a := len(trace)
	b := fmt.Sprint("sections ", a)
	return a, b
}
func persist(n, failAt int) error {
	trace = append(trace, "start")
	cnt, label := sections() // the helper's lock is released here, not at the end of persist
	var z int
	locked(&z)
	trace = append(trace, label, fmt.Sprint(cnt, z))
	if c, err := copyAll(n, failAt); err != nil {
		trace = append(trace, fmt.Sprint("error after ", c))
		return err
	} else if c > 2 {
		trace = append(trace, "many")
	}
	var k int
	locked(&k)
	locked(&k)
	if positive(k) {
		locked(&k) // takes the mutex positive() has released by now
	}
	trace = append(trace, fmt.Sprint("ok ", k))
	return nil
}
func main() {
	fmt.Println(persist(3, 0), persist(3, 2), persist(-1, 0), persist(1, 0))
	fmt.Println(trace)
	mu.Lock() // still usable: every expansion released it
	mu.Unlock()
}`},
	{name: "prefix helper written with make and copy", expand: []string{"marked"}, src: `
func marked(v []byte) []byte {
	buf := make([]byte, 2+len(v))
	buf[0] = 'p'
	buf[1] = 0x01
	copy(buf[2:], v)
	return buf
}
func main() {
	v := []byte("payload")
	a := marked(v)
	v[0] = 'X' // the result does not share memory with the argument
	b := marked(nil)
	fmt.Println(string(a), len(a), b, len(marked(v)))
}`},
}

const inlineTestHeader = `package main

import (
	"bytes"
	"encoding/binary"
	"errors"
	"fmt"
	"sort"
	"strings"
	"sync"
)

var _ = bytes.Equal
var _ = binary.BigEndian
var _ = errors.New
var _ = fmt.Sprint
var _ = sort.Strings
var _ = strings.ToLower
var _ sync.Mutex
`

func runGo(t *testing.T, dir string) string {
	t.Helper()
	cmd := exec.Command("go", "run", ".")
	cmd.Dir = dir
	cmd.Env = append(os.Environ(), "GOFLAGS=-mod=mod", "GOPROXY=off", "GOSUMDB=off", "GOTOOLCHAIN=local", "GOWORK=off")
	var out bytes.Buffer
	cmd.Stdout = &out
	cmd.Stderr = &out
	cmd.Run() // a panic is part of the behaviour that is compared
	// goroutine ids and addresses in panic traces differ between runs: keep the first lines only
	lines := strings.Split(out.String(), "\n")
	var keep []string
	for _, l := range lines {
		if strings.HasPrefix(l, "goroutine ") || strings.HasPrefix(l, "exit status") {
			break
		}
		keep = append(keep, l)
	}
	return strings.Join(keep, "\n")
}

func TestInlinePreservesBehaviour(t *testing.T) {
	if _, err := exec.LookPath("go"); err != nil {
		t.Skip("no go tool")
	}
	oldMin, oldEverywhere := minModulePkgs, expandEverywhere
	minModulePkgs, expandEverywhere = 1, true
	defer func() { minModulePkgs, expandEverywhere = oldMin, oldEverywhere }()
	for _, tc := range inlineCases {
		tc := tc
		t.Run(tc.name, func(t *testing.T) {
			dir := t.TempDir()
			dir, _ = filepath.EvalSymlinks(dir)
			os.WriteFile(filepath.Join(dir, "go.mod"), []byte("module "+ModPath+"\n\ngo 1.22\n"), 0o644)
			os.WriteFile(filepath.Join(dir, "main.go"), []byte(inlineTestHeader+tc.src+"\n"), 0o644)
			want := runGo(t, dir)
			if strings.Contains(want, "cannot") || strings.Contains(want, "undefined:") || strings.Contains(want, "syntax error") {
				t.Fatalf("the test program does not build:\n%s", want)
			}
			p, err := Load(dir, nil)
			if err != nil {
				t.Fatalf("load: %v", err)
			}
			if len(p.InlineNotes) > 0 {
				t.Errorf("expansion notes: %v", p.InlineNotes)
			}
			got := map[string]bool{}
			for _, n := range p.Inlined {
				got[n[strings.LastIndex(n, ".")+1:]] = true
			}
			for _, n := range tc.expand {
				if !got[n] {
					t.Errorf("helper %s was not expanded (expanded: %v)", n, p.Inlined)
				}
			}
			for _, n := range tc.keep {
				if got[n] {
					t.Errorf("helper %s must not be expanded", n)
				}
			}
			// write the expanded program out and run it
			exp := t.TempDir()
			os.WriteFile(filepath.Join(exp, "go.mod"), []byte("module "+ModPath+"\n\ngo 1.22\n"), 0o644)
			src, err := os.ReadFile(filepath.Join(dir, "main.go"))
			if err != nil {
				t.Fatal(err)
			}
			if b, ok := p.Expanded[filepath.Join(dir, "main.go")]; ok {
				src = b
			}
			os.WriteFile(filepath.Join(exp, "main.go"), src, 0o644)
			have := runGo(t, exp)
			if have != want {
				t.Errorf("behaviour differs after expansion\n--- as written:\n%s\n--- expanded:\n%s\n--- expanded source:\n%s", want, have, src)
			}
		})
	}
	_ = sort.Strings
}
