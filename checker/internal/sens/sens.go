// Package sens is the thorough tier's sensitivity analysis. It never executes
// robustirc: it derives source variants of /repo's *current* tree (stored seeded
// patches; statement-level mutants of the functions that carry the property's
// obligations), re-runs the same static rules on each variant in a sub-process
// and records which variants the rules notice. The verdict of the check is the
// verdict on the unmodified tree; sensitivity numbers are evidence about the
// checker (how much of the anchored code the verdict depends on), not about
// robustirc, and never raise a VIOLATION.
package sens

import (
	"bytes"
	"encoding/json"
	"fmt"
	"go/ast"
	"go/format"
	"go/token"
	"os"
	"os/exec"
	"path/filepath"
	"sort"
	"strings"
	"sync"

	"verif/checker/internal/load"
	"verif/checker/internal/report"
)

// Dry is what `verifcheck -dry` prints as its last line.
type Dry struct {
	Exit     int      `json:"exit"`
	Violated []string `json:"violated"`
	Broken   []string `json:"broken"`
}

type SeedResult struct {
	Seed     string   `json:"seed"`
	Status   string   `json:"status"` // detected | missed | patch-does-not-apply | broken
	Violated []string `json:"violated,omitempty"`
}

type Mutant struct {
	File    string `json:"file,omitempty"`
	Content string `json:"content,omitempty"` // kept copy of the variant's source (silent variants only; replay/ is scratch)
	Func    string `json:"function"`
	Pos     string `json:"pos"`
	Kind    string `json:"kind"`
	What    string `json:"what"`
	Status  string `json:"status"` // noticed | silent | invalid
	By      string `json:"by,omitempty"`
}

type Result struct {
	Seeds          []SeedResult      `json:"seeded_changes"`
	SeedsDetected  int               `json:"seeded_detected"`
	SeedsTotal     int               `json:"seeded_total"`
	Generated      int               `json:"mutants_generated"`
	Invalid        int               `json:"mutants_not_compiling"`
	Noticed        int               `json:"mutants_noticed"`
	Silent         int               `json:"mutants_silent"`
	ByKind         map[string][2]int `json:"mutants_by_kind_noticed_of_valid"`
	SilentSamples  []Mutant          `json:"silent_samples"`
	NoticedSamples []Mutant          `json:"noticed_samples"`
	Note           string            `json:"note"`
}

func runDry(self, prop, repo, verif string, overlay map[string]string) (*Dry, error) {
	args := []string{"-prop", prop, "-tier", "quick", "-dry", "-repo", repo, "-verif", verif}
	for f, c := range overlay {
		args = append(args, "-overlay", f+"="+c)
	}
	cmd := exec.Command(self, args...)
	var out bytes.Buffer
	cmd.Stdout = &out
	cmd.Stderr = &out
	cmd.Run()
	lines := strings.Split(strings.TrimSpace(out.String()), "\n")
	var agg *Dry
	for _, ln := range lines {
		if strings.HasPrefix(ln, "DRY ") {
			var d Dry
			if err := json.Unmarshal([]byte(ln[4:]), &d); err != nil {
				return nil, err
			}
			// with -prop all there is one line per property: a variant is noticed if any rule set notices it
			if agg == nil {
				agg = &Dry{}
			}
			if d.Exit == 1 || (d.Exit == 2 && agg.Exit == 0) {
				agg.Exit = d.Exit
			}
			agg.Violated = append(agg.Violated, d.Violated...)
			agg.Broken = append(agg.Broken, d.Broken...)
		}
	}
	if agg != nil {
		return agg, nil
	}
	// the loader refused the variant (does not type-check)
	return &Dry{Exit: 2, Broken: []string{"variant does not load"}}, nil
}

// copyTree copies the Go sources of repo (no .git) to dst.
func copyTree(repo, dst string) error {
	return filepath.Walk(repo, func(path string, fi os.FileInfo, err error) error {
		if err != nil {
			return err
		}
		rel, _ := filepath.Rel(repo, path)
		if fi.IsDir() {
			if fi.Name() == ".git" || rel == "mod_test" {
				return filepath.SkipDir
			}
			return os.MkdirAll(filepath.Join(dst, rel), 0o755)
		}
		if !fi.Mode().IsRegular() {
			return nil
		}
		b, err := os.ReadFile(path)
		if err != nil {
			return err
		}
		return os.WriteFile(filepath.Join(dst, rel), b, 0o644)
	})
}

// Seeds replays every stored seeded change of the property against a scratch copy of repo's current tree.
func Seeds(self, prop, repo, verif string, res *Result) {
	dirs, _ := filepath.Glob(filepath.Join(verif, "seeded", prop+"-*"))
	sort.Strings(dirs)
	var mu sync.Mutex
	var wg sync.WaitGroup
	sem := make(chan struct{}, 8)
	for _, d := range dirs {
		patch := filepath.Join(d, "patch.diff")
		if _, err := os.Stat(patch); err != nil {
			continue
		}
		wg.Add(1)
		go func(d, patch string) {
			defer wg.Done()
			sem <- struct{}{}
			defer func() { <-sem }()
			sr := SeedResult{Seed: filepath.Base(d)}
			tmp, err := os.MkdirTemp("", "verif-seed-")
			if err == nil {
				defer os.RemoveAll(tmp)
				err = copyTree(repo, tmp)
			}
			if err != nil {
				sr.Status = "broken"
			} else {
				ap := exec.Command("git", "apply", "--whitespace=nowarn", patch)
				ap.Dir = tmp
				ap.Env = append(os.Environ(), "GIT_CEILING_DIRECTORIES="+filepath.Dir(tmp))
				if out, err := ap.CombinedOutput(); err != nil {
					_ = out
					sr.Status = "patch-does-not-apply"
				} else {
					dry, _ := runDry(self, prop, tmp, verif, nil)
					switch {
					case dry == nil:
						sr.Status = "broken"
					case dry.Exit == 1 || (dry.Exit == 2 && len(dry.Violated) == 0 && len(dry.Broken) > 0 && dry.Broken[0] != "variant does not load"):
						sr.Status = "detected"
						sr.Violated = dry.Violated
						if len(sr.Violated) == 0 {
							sr.Violated = dry.Broken
						}
					case dry.Exit == 2:
						sr.Status = "broken"
						sr.Violated = dry.Broken
					default:
						sr.Status = "missed"
					}
				}
			}
			if len(sr.Violated) > 4 {
				sr.Violated = append(sr.Violated[:4], fmt.Sprintf("… %d more", len(sr.Violated)-4))
			}
			mu.Lock()
			res.Seeds = append(res.Seeds, sr)
			mu.Unlock()
		}(d, patch)
	}
	wg.Wait()
	sort.Slice(res.Seeds, func(i, j int) bool { return res.Seeds[i].Seed < res.Seeds[j].Seed })
	for _, s := range res.Seeds {
		if s.Status != "patch-does-not-apply" {
			res.SeedsTotal++
		}
		if s.Status == "detected" {
			res.SeedsDetected++
		}
	}
}

type mutSite struct {
	fi   *load.FuncInfo
	kind string
	what string
	pos  token.Pos
	// apply mutates the AST and returns an undo function
	apply func() func()
}

func endsInJump(b *ast.BlockStmt) bool {
	if len(b.List) == 0 {
		return false
	}
	switch s := b.List[len(b.List)-1].(type) {
	case *ast.ReturnStmt:
		return true
	case *ast.BranchStmt:
		return s.Tok == token.CONTINUE || s.Tok == token.BREAK
	}
	return false
}

func short(fset *token.FileSet, n ast.Node) string {
	var b bytes.Buffer
	format.Node(&b, fset, n)
	s := strings.Join(strings.Fields(b.String()), " ")
	if len(s) > 90 {
		s = s[:90] + "…"
	}
	return s
}

// sites enumerates mutation sites in one function body: delete a simple statement, drop a guard
// (an if without else whose body ends in return/continue/break), negate a condition, swap && and ||.
func sites(p *load.Program, fi *load.FuncInfo) []mutSite {
	var out []mutSite
	fset := p.Fset
	var walkBlock func(list *[]ast.Stmt)
	visitStmt := func(s ast.Stmt) {}
	walkBlock = func(list *[]ast.Stmt) {
		for i := range *list {
			i := i
			s := (*list)[i]
			switch st := s.(type) {
			case *ast.ExprStmt, *ast.IncDecStmt, *ast.AssignStmt, *ast.DeferStmt, *ast.GoStmt, *ast.SendStmt:
				if as, ok := st.(*ast.AssignStmt); ok && as.Tok == token.DEFINE {
					break // deleting a definition rarely compiles
				}
				out = append(out, mutSite{fi: fi, kind: "delete-statement", what: short(fset, s), pos: s.Pos(), apply: func() func() {
					old := (*list)[i]
					(*list)[i] = &ast.EmptyStmt{Semicolon: old.Pos(), Implicit: false}
					return func() { (*list)[i] = old }
				}})
			case *ast.IfStmt:
				if st.Else == nil && endsInJump(st.Body) && st.Init == nil {
					out = append(out, mutSite{fi: fi, kind: "drop-guard", what: "if " + short(fset, st.Cond) + " {… " + short(fset, st.Body.List[len(st.Body.List)-1]) + "}", pos: s.Pos(), apply: func() func() {
						old := (*list)[i]
						(*list)[i] = &ast.EmptyStmt{Semicolon: old.Pos()}
						return func() { (*list)[i] = old }
					}})
				}
				out = append(out, mutSite{fi: fi, kind: "negate-condition", what: "if " + short(fset, st.Cond), pos: st.Cond.Pos(), apply: func() func() {
					old := st.Cond
					st.Cond = &ast.UnaryExpr{Op: token.NOT, X: &ast.ParenExpr{X: old}}
					return func() { st.Cond = old }
				}})
			}
			visitStmt(s)
		}
	}
	visitStmt = func(s ast.Stmt) {
		switch st := s.(type) {
		case *ast.BlockStmt:
			walkBlock(&st.List)
		case *ast.IfStmt:
			walkBlock(&st.Body.List)
			if st.Else != nil {
				visitStmt(st.Else)
			}
		case *ast.ForStmt:
			walkBlock(&st.Body.List)
		case *ast.RangeStmt:
			walkBlock(&st.Body.List)
		case *ast.SwitchStmt:
			for _, cc := range st.Body.List {
				walkBlock(&cc.(*ast.CaseClause).Body)
			}
		case *ast.TypeSwitchStmt:
			for _, cc := range st.Body.List {
				walkBlock(&cc.(*ast.CaseClause).Body)
			}
		case *ast.SelectStmt:
			for _, cc := range st.Body.List {
				walkBlock(&cc.(*ast.CommClause).Body)
			}
		case *ast.LabeledStmt:
			visitStmt(st.Stmt)
		}
	}
	body := fi.Body()
	if body == nil {
		return nil
	}
	walkBlock(&body.List)
	// binary operator swaps anywhere in the body
	ast.Inspect(body, func(n ast.Node) bool {
		be, ok := n.(*ast.BinaryExpr)
		if !ok {
			return true
		}
		var to token.Token
		switch be.Op {
		case token.LAND:
			to = token.LOR
		case token.LOR:
			to = token.LAND
		case token.LSS:
			to = token.LEQ
		case token.LEQ:
			to = token.LSS
		case token.GTR:
			to = token.GEQ
		case token.GEQ:
			to = token.GTR
		case token.EQL:
			to = token.NEQ
		case token.NEQ:
			to = token.EQL
		default:
			return true
		}
		out = append(out, mutSite{fi: fi, kind: "swap-operator", what: short(fset, be) + "  (" + be.Op.String() + " → " + to.String() + ")", pos: be.OpPos, apply: func() func() {
			old := be.Op
			be.Op = to
			return func() { be.Op = old }
		}})
		return true
	})
	return out
}

// Mutants derives up to max statement-level variants of the functions that carry the property's
// obligations and records which of them the rule set notices.
func Mutants(self, prop, repo, verif string, p *load.Program, base *report.Result, max, workers int, res *Result) {
	funcs := map[string]bool{}
	for _, o := range base.Obligations {
		if o.Status == report.Observed {
			continue
		}
		funcs[o.Func] = true
	}
	var names []string
	for n := range funcs {
		names = append(names, n)
	}
	sort.Strings(names)
	var all []mutSite
	for _, n := range names {
		fi := p.Func(n)
		if fi == nil || fi.File == nil {
			continue
		}
		all = append(all, sites(p, fi)...)
	}
	// deterministic thinning to max sites, spread evenly over the list
	if max > 0 && len(all) > max {
		var thin []mutSite
		for i := 0; i < max; i++ {
			thin = append(thin, all[i*len(all)/max])
		}
		all = thin
	}
	runMutants(self, prop, repo, verif, p, all, workers, res, prop)
}

func runMutants(self, prop, repo, verif string, p *load.Program, all []mutSite, workers int, res *Result, tag string) {
	tmp, err := os.MkdirTemp("", "verif-mut-")
	if err != nil {
		res.Note += " (mutants skipped: " + err.Error() + ")"
		return
	}
	defer os.RemoveAll(tmp)
	os.RemoveAll(filepath.Join(verif, "replay", tag+"-mutants"))
	res.ByKind = map[string][2]int{}
	type job struct {
		m       Mutant
		file    string
		content string
	}
	var jobs []job
	// the AST is shared: apply, print, undo — sequentially
	for i, s := range all {
		undo := s.apply()
		var b bytes.Buffer
		err := format.Node(&b, p.Fset, s.fi.File)
		undo()
		if err != nil {
			continue
		}
		cf := filepath.Join(tmp, fmt.Sprintf("m%04d.go", i))
		if os.WriteFile(cf, b.Bytes(), 0o644) != nil {
			continue
		}
		jobs = append(jobs, job{m: Mutant{Func: s.fi.Name(), Pos: p.Pos(s.pos), Kind: s.kind, What: s.what}, file: p.Fset.File(s.fi.File.Pos()).Name(), content: cf})
	}
	results := make([]Mutant, len(jobs))
	var wg sync.WaitGroup
	sem := make(chan struct{}, workers)
	for i, j := range jobs {
		wg.Add(1)
		go func(i int, j job) {
			defer wg.Done()
			sem <- struct{}{}
			defer func() { <-sem }()
			d, _ := runDry(self, prop, repo, verif, map[string]string{j.file: j.content})
			m := j.m
			m.File = j.file
			switch {
			case d == nil || (d.Exit == 2 && len(d.Broken) > 0 && d.Broken[0] == "variant does not load"):
				m.Status = "invalid"
			case d.Exit == 1:
				m.Status = "noticed"
				if len(d.Violated) > 0 {
					m.By = d.Violated[0]
				}
			case d.Exit == 2:
				m.Status = "noticed"
				if len(d.Broken) > 0 {
					m.By = "check broken: " + d.Broken[0]
				}
			default:
				m.Status = "silent"
				keep := filepath.Join(verif, "replay", tag+"-mutants", filepath.Base(j.content))
				if b, err := os.ReadFile(j.content); err == nil {
					os.MkdirAll(filepath.Dir(keep), 0o755)
					if os.WriteFile(keep, b, 0o644) == nil {
						m.Content = keep
					}
				}
			}
			results[i] = m
		}(i, j)
	}
	wg.Wait()
	for _, m := range results {
		res.Generated++
		k := res.ByKind[m.Kind]
		switch m.Status {
		case "invalid":
			res.Invalid++
		case "noticed":
			res.Noticed++
			k[0]++
			k[1]++
			if len(res.NoticedSamples) < 12 {
				res.NoticedSamples = append(res.NoticedSamples, m)
			}
		case "silent":
			res.Silent++
			k[1]++
			if len(res.SilentSamples) < 40 {
				ms := m
				ms.Content, ms.File = "", ""
				res.SilentSamples = append(res.SilentSamples, ms)
			}
		}
		res.ByKind[m.Kind] = k
	}
	// full list for the developer (replay/ is not committed)
	if b, err := json.MarshalIndent(results, "", " "); err == nil {
		os.MkdirAll(filepath.Join(verif, "replay"), 0o755)
		os.WriteFile(filepath.Join(verif, "replay", tag+"-mutants.json"), b, 0o644)
	}
}

// Sweep (development aid): statement-level variants of every function of one module package, judged by all rule sets.
// The result lists every variant with its verdict; silent ones keep a copy of their source for tools/mutkill.py.
func Sweep(self, repo, verif string, p *load.Program, pkg string, workers int) {
	var all []mutSite
	for _, fi := range p.FuncsIn(pkg) {
		if fi.File == nil || fi.Body() == nil {
			continue
		}
		all = append(all, sites(p, fi)...)
	}
	res := &Result{}
	runMutants(self, "all", repo, verif, p, all, workers, res, "sweep-"+strings.ReplaceAll(pkg, "/", "_"))
	fmt.Printf("sweep %s: %d variants, %d do not compile, %d noticed, %d silent\n", pkg, res.Generated, res.Invalid, res.Noticed, res.Silent)
}
