// Package cfgx refines go/cfg block graphs to statement level and answers the
// path questions the rules ask: edge dominance ("every path to X takes the
// true edge of K"), must-pass-before, must-pass-after. All answers are plain
// graph reachability with vertices/edges removed, so they are exact for the
// CFG (which over-approximates feasible paths).
package cfgx

import (
	"go/ast"
	"go/token"
	"go/types"
	"sort"
	"sync"

	"golang.org/x/tools/go/cfg"
)

// Edge is a CFG edge; conditional edges carry the condition and its value.
type Edge struct {
	From, To int
	Cond     ast.Expr // nil for unconditional edges
	Tag      ast.Expr // switch tag when Cond is a case expression of a tagged switch
	eq       *ast.BinaryExpr
	Val      bool // value of Cond (or of Tag==Cond) on this edge
	Range    *ast.RangeStmt
}

// Vertex is one CFG node (statement or expression) or a synthetic point.
type Vertex struct {
	ID    int
	Node  ast.Node // nil for synthetic vertices
	Block *cfg.Block
	Succ  []*Edge
	Pred  []*Edge
	Kind  string // "node", "tail", "entry", "exit", "panic"
}

// Graph is the statement-level CFG of one function body.
type Graph struct {
	Name  string
	Info  *types.Info
	Body  *ast.BlockStmt
	V     []*Vertex
	Entry int
	Exit  int       // normal return (return statement or falling off the end)
	Panic int       // no-return call
	nodes []*Vertex // node vertices sorted by position for containment look-up
}

// NoReturn reports whether call never returns (panic, log.Fatal*, log.Panic*, glog.Fatal*, glog.Exit*, os.Exit).
func NoReturn(info *types.Info, call *ast.CallExpr) bool {
	switch fun := ast.Unparen(call.Fun).(type) {
	case *ast.Ident:
		if b, ok := info.Uses[fun].(*types.Builtin); ok && b.Name() == "panic" {
			return true
		}
	case *ast.SelectorExpr:
		obj, ok := info.Uses[fun.Sel].(*types.Func)
		if !ok || obj.Pkg() == nil {
			return false
		}
		n := obj.Name()
		switch obj.Pkg().Path() {
		case "log":
			return hasPrefix(n, "Fatal") || hasPrefix(n, "Panic")
		case "github.com/stapelberg/glog", "github.com/golang/glog":
			return hasPrefix(n, "Fatal") || hasPrefix(n, "Exit")
		case "os":
			return n == "Exit"
		case "runtime":
			return n == "Goexit"
		}
	}
	return false
}

func hasPrefix(s, p string) bool { return len(s) >= len(p) && s[:len(p)] == p }

// New builds the graph for a function body.
func New(name string, body *ast.BlockStmt, info *types.Info) *Graph {
	g := &Graph{Name: name, Info: info, Body: body}
	if body == nil {
		body = &ast.BlockStmt{}
	}
	c := cfg.New(body, func(call *ast.CallExpr) bool { return !NoReturn(info, call) })

	// case expression -> tag of its switch; ranges
	tags := map[ast.Expr]ast.Expr{}
	ast.Inspect(body, func(n ast.Node) bool {
		if sw, ok := n.(*ast.SwitchStmt); ok && sw.Tag != nil {
			for _, cl := range sw.Body.List {
				for _, e := range cl.(*ast.CaseClause).List {
					tags[e] = sw.Tag
				}
			}
		}
		return true
	})

	newV := func(kind string, n ast.Node, b *cfg.Block) *Vertex {
		v := &Vertex{ID: len(g.V), Node: n, Block: b, Kind: kind}
		g.V = append(g.V, v)
		return v
	}
	entry := newV("entry", nil, nil)
	exit := newV("exit", nil, nil)
	pan := newV("panic", nil, nil)
	g.Entry, g.Exit, g.Panic = entry.ID, exit.ID, pan.ID

	first := map[*cfg.Block]*Vertex{}
	tail := map[*cfg.Block]*Vertex{}
	addEdge := func(e *Edge) {
		g.V[e.From].Succ = append(g.V[e.From].Succ, e)
		g.V[e.To].Pred = append(g.V[e.To].Pred, e)
	}
	for _, b := range c.Blocks {
		var prev *Vertex
		for _, n := range b.Nodes {
			v := newV("node", n, b)
			if prev == nil {
				first[b] = v
			} else {
				addEdge(&Edge{From: prev.ID, To: v.ID})
			}
			prev = v
		}
		t := newV("tail", nil, b)
		tail[b] = t
		if prev == nil {
			first[b] = t
		} else {
			addEdge(&Edge{From: prev.ID, To: t.ID})
		}
	}
	if len(c.Blocks) > 0 {
		addEdge(&Edge{From: entry.ID, To: first[c.Blocks[0]].ID})
	} else {
		addEdge(&Edge{From: entry.ID, To: exit.ID})
	}
	for _, b := range c.Blocks {
		t := tail[b]
		switch len(b.Succs) {
		case 0:
			var last ast.Node
			if len(b.Nodes) > 0 {
				last = b.Nodes[len(b.Nodes)-1]
			}
			if es, ok := last.(*ast.ExprStmt); ok {
				if call, ok := es.X.(*ast.CallExpr); ok && NoReturn(info, call) {
					addEdge(&Edge{From: t.ID, To: pan.ID})
					continue
				}
			}
			addEdge(&Edge{From: t.ID, To: exit.ID})
		case 1:
			addEdge(&Edge{From: t.ID, To: first[b.Succs[0]].ID})
		case 2:
			var cond ast.Expr
			var rng *ast.RangeStmt
			if b.Kind == cfg.KindRangeLoop {
				rng, _ = b.Stmt.(*ast.RangeStmt)
			} else if len(b.Nodes) > 0 {
				cond, _ = b.Nodes[len(b.Nodes)-1].(ast.Expr)
			}
			var tag ast.Expr
			if cond != nil {
				tag = tags[cond]
			}
			addEdge(&Edge{From: t.ID, To: first[b.Succs[0]].ID, Cond: cond, Tag: tag, Val: true, Range: rng})
			addEdge(&Edge{From: t.ID, To: first[b.Succs[1]].ID, Cond: cond, Tag: tag, Val: false, Range: rng})
		}
	}
	for _, v := range g.V {
		if v.Kind == "node" {
			g.nodes = append(g.nodes, v)
		}
	}
	sort.SliceStable(g.nodes, func(i, j int) bool {
		a, b := g.nodes[i].Node, g.nodes[j].Node
		if a.Pos() != b.Pos() {
			return a.Pos() < b.Pos()
		}
		return a.End() > b.End()
	})
	return g
}

// VertexOf returns the vertex whose node is the smallest one containing n, or -1.
func (g *Graph) VertexOf(n ast.Node) int {
	return g.VertexAt(n.Pos(), n.End())
}

// FactsAtNode returns FactsAt for the vertex of n, plus the facts that short-circuit evaluation establishes inside that
// vertex on the way down to n: in `a && n` the facts of a being true, in `a || n` those of a being false.
func (g *Graph) FactsAtNode(n ast.Node) []Fact {
	v := g.VertexOf(n)
	out := g.FactsAt(v)
	if v < 0 {
		return out
	}
	var walk func(root ast.Node) bool
	walk = func(root ast.Node) bool {
		found := false
		ast.Inspect(root, func(m ast.Node) bool {
			if found || m == nil {
				return false
			}
			if m == n {
				found = true
				return false
			}
			if m.Pos() > n.Pos() || m.End() < n.End() {
				return false // n is not inside m
			}
			if be, ok := m.(*ast.BinaryExpr); ok && (be.Op == token.LAND || be.Op == token.LOR) {
				if be.Y.Pos() <= n.Pos() && n.End() <= be.Y.End() {
					out = append(out, ExpandCond(be.X, be.Op == token.LAND)...)
				}
			}
			return true
		})
		return found
	}
	walk(g.V[v].Node)
	return out
}

// VertexAt returns the smallest node vertex spanning [pos,end), or -1.
func (g *Graph) VertexAt(pos, end token.Pos) int {
	best := -1
	var bestLen token.Pos
	for _, v := range g.nodes {
		if v.Node.Pos() <= pos && end <= v.Node.End() {
			l := v.Node.End() - v.Node.Pos()
			if best == -1 || l < bestLen {
				best, bestLen = v.ID, l
			}
		}
	}
	if best == -1 {
		// no vertex spans the node (e.g. a DeclStmt, whose ValueSpecs are the CFG nodes,
		// or an if/for statement): take the first vertex inside it
		for _, v := range g.nodes {
			if pos <= v.Node.Pos() && v.Node.End() <= end {
				return v.ID
			}
		}
	}
	return best
}

// Reach computes the vertices reachable from `from` without entering blocked
// vertices and without taking blocked edges. `from` itself is always included.
func (g *Graph) Reach(from int, blockedV func(int) bool, blockedE func(*Edge) bool) []bool {
	seen := make([]bool, len(g.V))
	if from < 0 || from >= len(g.V) {
		return seen
	}
	stack := []int{from}
	seen[from] = true
	for len(stack) > 0 {
		u := stack[len(stack)-1]
		stack = stack[:len(stack)-1]
		for _, e := range g.V[u].Succ {
			if seen[e.To] {
				continue
			}
			if blockedE != nil && blockedE(e) {
				continue
			}
			if blockedV != nil && blockedV(e.To) {
				continue
			}
			seen[e.To] = true
			stack = append(stack, e.To)
		}
	}
	return seen
}

// Live reports whether v is reachable from the entry.
func (g *Graph) Live(v int) bool { return g.Reach(g.Entry, nil, nil)[v] }

// Fact is an atomic condition known to hold.
type Fact struct {
	Expr ast.Expr // boolean expression, or case expression when Tag != nil
	Tag  ast.Expr // non-nil: the fact is Tag == Expr (Val true) / Tag != Expr (Val false)
	Val  bool
}

// ExpandCond splits a condition with a known value into atomic facts:
// !x, x && y (true), x || y (false), parentheses.
// Facts returns the atomic facts that hold on edge e (the tag of a tagged switch is kept).
func (e *Edge) Facts() []Fact {
	if e.Cond == nil {
		return nil
	}
	if e.Tag != nil {
		return []Fact{{Expr: e.Cond, Tag: e.Tag, Val: e.Val}, {Expr: e.asEquality(), Val: e.Val}}
	}
	return ExpandCond(e.Cond, e.Val)
}

// asEquality renders the case test of a tagged switch as the comparison it stands for (tag == case value), so that rules
// written for `if x == v` read `switch x { case v: }` the same way. The node is synthetic: its operands are the real
// expressions (with type information), the comparison itself has none.
func (e *Edge) asEquality() *ast.BinaryExpr {
	if e.eq == nil {
		e.eq = &ast.BinaryExpr{X: e.Tag, OpPos: e.Cond.Pos(), Op: token.EQL, Y: e.Cond}
	}
	return e.eq
}

func ExpandCond(e ast.Expr, val bool) []Fact {
	e = ast.Unparen(e)
	switch x := e.(type) {
	case *ast.UnaryExpr:
		if x.Op == token.NOT {
			return ExpandCond(x.X, !val)
		}
	case *ast.BinaryExpr:
		if (x.Op == token.LAND && val) || (x.Op == token.LOR && !val) {
			return append(ExpandCond(x.X, val), ExpandCond(x.Y, val)...)
		}
	}
	if eq := errorsIsAsEquality(e); eq != nil {
		return []Fact{{Expr: e, Val: val}, {Expr: eq, Val: val}}
	}
	return []Fact{{Expr: e, Val: val}}
}

var synthEq sync.Map // *ast.CallExpr -> *ast.BinaryExpr

// errorsIsAsEquality renders errors.Is(x, S) as the comparison x == S, which is what it decides for a sentinel that nothing
// wraps; rules about "the edge taken for error S" read both spellings alike. (Rules about whether an error may be wrapped
// look at the syntax, not at facts.) The node is synthetic; its operands are the real expressions.
func errorsIsAsEquality(e ast.Expr) *ast.BinaryExpr {
	call, ok := e.(*ast.CallExpr)
	if !ok || len(call.Args) != 2 {
		return nil
	}
	se, ok := call.Fun.(*ast.SelectorExpr)
	if !ok || se.Sel.Name != "Is" {
		return nil
	}
	if x, ok := se.X.(*ast.Ident); !ok || x.Name != "errors" {
		return nil
	}
	if v, ok := synthEq.Load(call); ok {
		return v.(*ast.BinaryExpr)
	}
	be := &ast.BinaryExpr{X: call.Args[0], OpPos: call.Pos(), Op: token.EQL, Y: call.Args[1]}
	v, _ := synthEq.LoadOrStore(call, be)
	return v.(*ast.BinaryExpr)
}

// EdgeDominates reports whether every path from the entry to target takes edge e.
func (g *Graph) EdgeDominates(e *Edge, target int) bool {
	if !g.Live(target) {
		return false
	}
	r := g.Reach(g.Entry, nil, func(x *Edge) bool { return x == e })
	return !r[target]
}

// FactsAt returns the atomic facts established by conditional edges that
// every path from the entry to target must take. Staleness (operands being
// reassigned after the test) is the caller's concern.
func (g *Graph) FactsAt(target int) []Fact {
	var out []Fact
	if target < 0 || !g.Live(target) {
		return nil
	}
	for _, v := range g.V {
		if len(v.Succ) != 2 || v.Succ[0].Cond == nil {
			continue
		}
		if v.Succ[0].To == v.Succ[1].To {
			continue
		}
		for _, e := range v.Succ {
			if g.EdgeDominates(e, target) {
				if e.Tag != nil {
					out = append(out, Fact{Expr: e.Cond, Tag: e.Tag, Val: e.Val}, Fact{Expr: e.asEquality(), Val: e.Val})
				} else {
					out = append(out, ExpandCond(e.Cond, e.Val)...)
				}
			}
		}
	}
	return out
}

// DominatedBy reports whether every path entry -> target passes a vertex
// satisfying pred (target itself does not count).
func (g *Graph) DominatedBy(target int, pred func(*Vertex) bool) bool {
	if target < 0 || !g.Live(target) {
		return false
	}
	r := g.Reach(g.Entry, func(v int) bool { return v != target && pred(g.V[v]) }, nil)
	return !r[target]
}

// PostDominatedBy reports whether every path from `from` to `to` (usually
// g.Exit) passes a vertex satisfying pred (from itself does not count).
// Paths that end in the panic vertex are not constrained.
func (g *Graph) PostDominatedBy(from, to int, pred func(*Vertex) bool) bool {
	r := g.Reach(from, func(v int) bool { return v != from && pred(g.V[v]) }, nil)
	return !r[to]
}

// Between reports whether some path from a to b (not re-entering a) contains a vertex satisfying pred.
// It is used for "no intervening write" side conditions.
func (g *Graph) Between(a, b int, pred func(*Vertex) bool) bool {
	// vertices reachable from a
	fromA := g.Reach(a, nil, nil)
	// vertices that can reach b: reverse reachability
	toB := make([]bool, len(g.V))
	stack := []int{b}
	toB[b] = true
	for len(stack) > 0 {
		u := stack[len(stack)-1]
		stack = stack[:len(stack)-1]
		for _, e := range g.V[u].Pred {
			if !toB[e.From] {
				toB[e.From] = true
				stack = append(stack, e.From)
			}
		}
	}
	for _, v := range g.V {
		if v.ID == a || v.ID == b {
			continue
		}
		if fromA[v.ID] && toB[v.ID] && pred(v) {
			return true
		}
	}
	return false
}

// Nodes returns all node vertices in source order.
func (g *Graph) Nodes() []*Vertex { return g.nodes }

// Returns lists the vertices holding return statements.
func (g *Graph) Returns() []*Vertex {
	var out []*Vertex
	for _, v := range g.nodes {
		if _, ok := v.Node.(*ast.ReturnStmt); ok {
			out = append(out, v)
		}
	}
	return out
}

// CondsAt returns the unexpanded branch conditions (with their value) of the
// conditional edges every path from the entry to target must take.
func (g *Graph) CondsAt(target int) []Fact {
	var out []Fact
	if target < 0 || !g.Live(target) {
		return nil
	}
	for _, v := range g.V {
		if len(v.Succ) != 2 || v.Succ[0].Cond == nil || v.Succ[0].To == v.Succ[1].To {
			continue
		}
		for _, e := range v.Succ {
			if g.EdgeDominates(e, target) {
				out = append(out, Fact{Expr: e.Cond, Tag: e.Tag, Val: e.Val})
			}
		}
	}
	return out
}
