// Package report holds obligation records, the known-findings file, the
// evidence writer and the replay files.
package report

import (
	"encoding/json"
	"fmt"
	"os"
	"path/filepath"
	"regexp"
	"sort"
	"strings"
	"time"
)

// Status of an obligation.
const (
	Discharged = "discharged"
	Violation  = "violation"
	Exception  = "exception" // frozen, one named symbol + reason
	Assumed    = "assumed"   // recorded premise (e.g. protocol-conforming services input)
	Observed   = "observation"
)

// Obligation is one instance of a rule on one construct.
type Obligation struct {
	Rule      string `json:"rule"`      // e.g. C06.G3
	Func      string `json:"func"`      // e.g. ircserver.(*IRCServer).cmdTopic
	Construct string `json:"construct"` // line-free descriptor
	Pos       string `json:"pos"`       // file:line (informational only, never part of the key)
	Status    string `json:"status"`
	By        string `json:"by,omitempty"`     // justification that discharged it
	Detail    string `json:"detail,omitempty"` // what fails / path
}

// Key identifies an obligation independent of line numbers.
func (o *Obligation) Key() string {
	return o.Rule + " / " + o.Func + " / " + o.Construct
}

// Result is what one rule set (one property) produced.
type Result struct {
	Filter func(o *Obligation) bool // non-nil while a scoped borrowed rule set runs

	Property    string
	Obligations []*Obligation
	Broken      []string // anchors that did not resolve, floors not met: check broken, exit 2
	Notes       []string
	Functions   int // functions analysed
	Explanation string
	Rules       []string
	Assumptions []string
	Extra       map[string]interface{}
	floors      map[string]int
	seen        map[string]int
	seenAt      map[string]*Obligation
}

func NewResult(prop string) *Result {
	return &Result{Property: prop, Extra: map[string]interface{}{}, floors: map[string]int{}}
}

// MergeSamePos, when set, reports whether a position lies in the declaration of a helper that the loader expanded at its
// call sites. A construct of such a helper that is met twice in one function (the helper was expanded twice there) is one
// construct: it keeps one key and holds only if it holds in every expansion.
var MergeSamePos func(pos string) bool

func (r *Result) Add(o *Obligation) *Obligation {
	// a scoped borrow keeps only the obligations that are necessary conditions of the borrowing property
	if r.Filter != nil && !r.Filter(o) {
		return o
	}
	// keys must be unique: repeated constructs in one function get an ordinal (source order)
	if r.seen == nil {
		r.seen = map[string]int{}
	}
	o.Rule = r.qualify(o.Rule)
	base := o.Key()
	if MergeSamePos != nil && o.Pos != "" && o.Pos != "-" && MergeSamePos(o.Pos) {
		if r.seenAt == nil {
			r.seenAt = map[string]*Obligation{}
		}
		if prev := r.seenAt[base+"@"+o.Pos]; prev != nil {
			if o.Status == Violation && prev.Status != Violation {
				prev.Status, prev.Detail, prev.By = o.Status, o.Detail, o.By
			}
			return prev
		}
		r.seenAt[base+"@"+o.Pos] = o
	}
	r.seen[base]++
	if n := r.seen[base]; n > 1 {
		o.Construct = fmt.Sprintf("%s #%d", o.Construct, n)
	}
	r.Obligations = append(r.Obligations, o)
	return o
}

// Ok records a discharged obligation.
func (r *Result) Ok(rule, fn, construct, pos, by string) {
	r.Add(&Obligation{Rule: rule, Func: fn, Construct: construct, Pos: pos, Status: Discharged, By: by})
}

// Fail records a violated obligation.
func (r *Result) Fail(rule, fn, construct, pos, detail string) {
	r.Add(&Obligation{Rule: rule, Func: fn, Construct: construct, Pos: pos, Status: Violation, Detail: detail})
}

// Check records discharged or violation depending on ok.
func (r *Result) Check(ok bool, rule, fn, construct, pos, by, detail string) {
	if ok {
		r.Ok(rule, fn, construct, pos, by)
	} else {
		r.Fail(rule, fn, construct, pos, detail)
	}
}

func (r *Result) Except(rule, fn, construct, pos, reason string) {
	r.Add(&Obligation{Rule: rule, Func: fn, Construct: construct, Pos: pos, Status: Exception, By: reason})
}

func (r *Result) Assume(rule, fn, construct, pos, reason string) {
	r.Add(&Obligation{Rule: rule, Func: fn, Construct: construct, Pos: pos, Status: Assumed, By: reason})
}

func (r *Result) Observe(rule, fn, construct, pos, detail string) {
	r.Add(&Obligation{Rule: rule, Func: fn, Construct: construct, Pos: pos, Status: Observed, Detail: detail})
}

// Break marks the check as broken (anchor missing etc.).
func (r *Result) Break(format string, args ...interface{}) {
	r.Broken = append(r.Broken, fmt.Sprintf(format, args...))
}

// Floor demands at least n obligations of the rule (vacuity guard).
func (r *Result) Floor(rule string, n int) {
	if r.Filter != nil {
		return // floors of a partially borrowed rule set are enforced by the owning property's check
	}
	r.floors[r.qualify(rule)] = n
}

// qualify prefixes rules borrowed from another property's rule set (e.g. C02.N3 run as part of C05 becomes C05/C02.N3).
func (r *Result) qualify(rule string) string {
	if strings.HasPrefix(rule, r.Property+".") || strings.HasPrefix(rule, r.Property+"/") {
		return rule
	}
	return r.Property + "/" + rule
}

// (Filter is set by rules.Run while a scoped borrowed rule set runs.)

// Finding is one entry of known_findings.json.
type Finding struct {
	Property string `json:"property"`
	Rule     string `json:"rule"`
	Key      string `json:"key"`
	Status   string `json:"status"` // known | fixed
	Commit   string `json:"commit,omitempty"`
	What     string `json:"what"`
}

type findingsFile struct {
	Findings []Finding `json:"findings"`
}

func LoadFindings(path string) ([]Finding, error) {
	b, err := os.ReadFile(path)
	if err != nil {
		if os.IsNotExist(err) {
			return nil, nil
		}
		return nil, err
	}
	var ff findingsFile
	if err := json.Unmarshal(b, &ff); err != nil {
		return nil, err
	}
	return ff.Findings, nil
}

var unsafeName = regexp.MustCompile(`[^A-Za-z0-9_.-]+`)

// Finish applies floors and known findings, prints the verdict lines, writes
// evidence and replay files, and returns the process exit code.
// DryRun makes Finish print a one-line machine-readable verdict instead of writing evidence and replay files
// (used for the source variants of the thorough tier).
var DryRun bool

func (r *Result) Finish(verifDir, tier string, seed int64, start time.Time, findings []Finding, extra map[string]interface{}) int {
	// floors
	counts := map[string]int{}
	for _, o := range r.Obligations {
		counts[o.Rule]++
	}
	var frules []string
	for rule := range r.floors {
		frules = append(frules, rule)
	}
	sort.Strings(frules)
	for _, rule := range frules {
		if counts[rule] < r.floors[rule] {
			r.Break("rule %s produced %d obligations, floor is %d (vacuity guard)", rule, counts[rule], r.floors[rule])
		}
	}
	sort.SliceStable(r.Obligations, func(i, j int) bool {
		a, b := r.Obligations[i], r.Obligations[j]
		if a.Rule != b.Rule {
			return a.Rule < b.Rule
		}
		if a.Func != b.Func {
			return a.Func < b.Func
		}
		return a.Construct < b.Construct
	})

	known := map[string]Finding{}
	for _, f := range findings {
		if f.Status != "known" {
			continue
		}
		if f.Property == r.Property {
			known[f.Key] = f
		}
		// a finding recorded for property Q also covers the same obligation when Q's rule set runs borrowed under this property
		known[r.Property+"/"+f.Key] = f
	}
	var viol, knownHit []*Obligation
	nDis, nExc, nAss, nObs := 0, 0, 0, 0
	seenKnown := map[string]bool{}
	for _, o := range r.Obligations {
		switch o.Status {
		case Discharged:
			nDis++
		case Exception:
			nExc++
		case Assumed:
			nAss++
		case Observed:
			nObs++
		case Violation:
			if _, ok := known[o.Key()]; ok {
				knownHit = append(knownHit, o)
				seenKnown[o.Key()] = true
			} else {
				viol = append(viol, o)
			}
		}
	}

	exit := 0
	if DryRun {
		d := struct {
			Exit     int      `json:"exit"`
			Violated []string `json:"violated"`
			Broken   []string `json:"broken"`
		}{Violated: []string{}, Broken: r.Broken}
		for _, o := range viol {
			d.Violated = append(d.Violated, o.Key())
		}
		if len(viol) > 0 {
			d.Exit = 1
		} else if len(r.Broken) > 0 {
			d.Exit = 2
		}
		b, _ := json.Marshal(d)
		fmt.Printf("DRY %s\n", b)
		return d.Exit
	}
	os.MkdirAll(filepath.Join(verifDir, "replay"), 0o755)
	os.MkdirAll(filepath.Join(verifDir, "evidence"), 0o755)
	for _, o := range knownHit {
		fmt.Printf("KNOWN-FINDING: property=%s %s [%s at %s] %s\n", r.Property, known[o.Key()].What, o.Key(), o.Pos, o.Detail)
	}
	var replayPaths []string
	for _, o := range viol {
		name := r.Property + "-" + unsafeName.ReplaceAllString(o.Rule+"-"+o.Func+"-"+o.Construct, "_")
		if len(name) > 150 {
			name = name[:150]
		}
		path := filepath.Join(verifDir, "replay", name+".json")
		b, _ := json.MarshalIndent(map[string]interface{}{
			"property": r.Property, "obligation": o, "key": o.Key(),
			"how_to_replay": fmt.Sprintf("cd /verif && ./check.sh %s quick   # re-analyses /repo; the obligation with this key must be reported again", r.Property),
		}, "", " ")
		os.WriteFile(path, b, 0o644)
		replayPaths = append(replayPaths, path)
		fmt.Printf("  violated: %s\n    at %s\n    %s\n", o.Key(), o.Pos, o.Detail)
		fmt.Printf("VIOLATION property=%s replay=%s\n", r.Property, path)
		exit = 1
	}
	if len(r.Broken) > 0 {
		for _, b := range r.Broken {
			fmt.Printf("CHECK-BROKEN property=%s %s\n", r.Property, b)
		}
		if exit == 0 {
			exit = 2
		}
	}

	// evidence
	samples := []interface{}{}
	perRule := map[string]int{}
	for _, o := range r.Obligations {
		if o.Status == Violation {
			samples = append(samples, o)
		}
	}
	for _, o := range r.Obligations {
		if o.Status != Violation && perRule[o.Rule] < 3 && len(samples) < 60 {
			perRule[o.Rule]++
			samples = append(samples, o)
		}
	}
	byRule := map[string]map[string]int{}
	for _, o := range r.Obligations {
		if byRule[o.Rule] == nil {
			byRule[o.Rule] = map[string]int{}
		}
		byRule[o.Rule][o.Status]++
	}
	var exceptions []string
	for _, o := range r.Obligations {
		if o.Status == Exception {
			exceptions = append(exceptions, o.Key()+" — "+o.By)
		}
	}
	var knownLines []string
	for _, o := range knownHit {
		knownLines = append(knownLines, o.Key())
	}
	distinct := map[string]bool{}
	for _, o := range r.Obligations {
		distinct[o.Key()] = true
	}
	cov := map[string]interface{}{
		"explanation":         r.Explanation,
		"obligations":         len(r.Obligations),
		"discharged":          nDis,
		"exceptions":          nExc,
		"assumed":             nAss,
		"observations":        nObs,
		"known_findings":      knownLines,
		"violations_new":      len(viol),
		"evaluations":         len(r.Obligations),
		"distinct_nontrivial": len(distinct),
		"rule":                "one evaluation = one obligation (rule instance on one construct of /repo's current source, keyed rule/function/construct); distinct = distinct keys",
		"samples":             samples,
		"functions_analysed":  r.Functions,
		"rules":               r.Rules,
		"per_rule":            byRule,
		"exception_list":      exceptions,
		"notes":               r.Notes,
		"broken":              r.Broken,
		"checker_cmd":         fmt.Sprintf("./check.sh %s %s", r.Property, tier),
	}
	for k, v := range r.Extra {
		cov[k] = v
	}
	for k, v := range extra {
		cov[k] = v
	}
	ev := map[string]interface{}{
		"property_id": r.Property,
		"tier":        tier,
		"seed":        seed,
		"level":       "other",
		"coverage":    cov,
		"assumptions": append([]string{"static analysis of /repo's working tree; third-party libraries are trusted per the callee classification in DESIGN.md section 2"}, r.Assumptions...),
		"wall_s":      time.Since(start).Seconds(),
		"violations":  len(viol),
	}
	b, _ := json.MarshalIndent(ev, "", " ")
	if err := os.WriteFile(filepath.Join(verifDir, "evidence", r.Property+".json"), b, 0o644); err != nil {
		fmt.Printf("CHECK-BROKEN property=%s cannot write evidence: %v\n", r.Property, err)
		if exit == 0 {
			exit = 2
		}
	}
	fmt.Printf("%s %s: %d obligations, %d discharged, %d exceptions, %d assumed, %d known findings, %d violations, %d broken (%.1fs)\n",
		r.Property, tier, len(r.Obligations), nDis, nExc, nAss, len(knownHit), len(viol), len(r.Broken), time.Since(start).Seconds())
	_ = strings.Join
	return exit
}
