// Package astx has type-resolved AST helpers shared by the rules.
package astx

import (
	"bytes"
	"go/ast"
	"go/constant"
	"go/printer"
	"go/token"
	"go/types"
	"strings"
)

// Str renders a node compactly on one line.
func Str(n ast.Node) string {
	if n == nil {
		return "<nil>"
	}
	var buf bytes.Buffer
	printer.Fprint(&buf, token.NewFileSet(), n)
	s := buf.String()
	s = strings.Join(strings.Fields(s), " ")
	if len(s) > 160 {
		s = s[:157] + "..."
	}
	return s
}

// Callee resolves the called function or method (static calls and interface methods), or nil.
func Callee(info *types.Info, call *ast.CallExpr) *types.Func {
	switch fun := ast.Unparen(call.Fun).(type) {
	case *ast.Ident:
		f, _ := info.Uses[fun].(*types.Func)
		return f
	case *ast.SelectorExpr:
		if sel, ok := info.Selections[fun]; ok {
			f, _ := sel.Obj().(*types.Func)
			return f
		}
		f, _ := info.Uses[fun.Sel].(*types.Func)
		return f
	case *ast.IndexExpr: // generic instantiation
		if id, ok := fun.X.(*ast.Ident); ok {
			f, _ := info.Uses[id].(*types.Func)
			return f
		}
		if se, ok := fun.X.(*ast.SelectorExpr); ok {
			f, _ := info.Uses[se.Sel].(*types.Func)
			return f
		}
	}
	return nil
}

// Builtin returns the builtin's name if call is a builtin call.
func Builtin(info *types.Info, call *ast.CallExpr) string {
	if id, ok := ast.Unparen(call.Fun).(*ast.Ident); ok {
		if b, ok := info.Uses[id].(*types.Builtin); ok {
			return b.Name()
		}
	}
	return ""
}

// IsConversion reports whether call is a type conversion.
func IsConversion(info *types.Info, call *ast.CallExpr) bool {
	tv, ok := info.Types[call.Fun]
	return ok && tv.IsType()
}

// PkgFunc reports whether fn is the package-level function pkgpath.name.
func PkgFunc(fn *types.Func, pkgpath, name string) bool {
	if fn == nil || fn.Pkg() == nil || fn.Pkg().Path() != pkgpath || fn.Name() != name {
		return false
	}
	sig := fn.Type().(*types.Signature)
	return sig.Recv() == nil
}

// RecvNamed returns the receiver's named type (pointer stripped), or nil.
func RecvNamed(fn *types.Func) *types.Named {
	if fn == nil {
		return nil
	}
	sig, ok := fn.Type().(*types.Signature)
	if !ok || sig.Recv() == nil {
		return nil
	}
	t := sig.Recv().Type()
	if p, ok := t.(*types.Pointer); ok {
		t = p.Elem()
	}
	n, _ := t.(*types.Named)
	return n
}

// Method reports whether fn is method name of named type pkgpath.typ.
func Method(fn *types.Func, pkgpath, typ, name string) bool {
	n := RecvNamed(fn)
	if n == nil || fn.Name() != name {
		return false
	}
	o := n.Obj()
	return o.Name() == typ && o.Pkg() != nil && o.Pkg().Path() == pkgpath
}

// NamedOf strips pointers and returns the named type of t, or nil.
func NamedOf(t types.Type) *types.Named {
	for {
		switch x := t.(type) {
		case *types.Pointer:
			t = x.Elem()
			continue
		case *types.Named:
			return x
		case *types.Alias:
			t = types.Unalias(x)
			continue
		}
		return nil
	}
}

// IsNamed reports whether t (pointers stripped) is the named type pkgpath.name.
func IsNamed(t types.Type, pkgpath, name string) bool {
	n := NamedOf(t)
	if n == nil {
		return false
	}
	o := n.Obj()
	return o.Name() == name && o.Pkg() != nil && o.Pkg().Path() == pkgpath
}

// FieldSel returns the struct field selected by sel (directly or promoted), or nil.
func FieldSel(info *types.Info, sel *ast.SelectorExpr) *types.Var {
	if s, ok := info.Selections[sel]; ok && s.Kind() == types.FieldVal {
		v, _ := s.Obj().(*types.Var)
		return v
	}
	return nil
}

// Obj returns the object an identifier refers to or defines.
func Obj(info *types.Info, id *ast.Ident) types.Object {
	if o := info.Uses[id]; o != nil {
		return o
	}
	return info.Defs[id]
}

// ConstString returns the constant string value of e, if any.
func ConstString(info *types.Info, e ast.Expr) (string, bool) {
	tv, ok := info.Types[e]
	if !ok || tv.Value == nil || tv.Value.Kind() != constant.String {
		return "", false
	}
	return constant.StringVal(tv.Value), true
}

// ConstInt returns the constant integer value of e, if any.
func ConstInt(info *types.Info, e ast.Expr) (int64, bool) {
	tv, ok := info.Types[e]
	if !ok || tv.Value == nil {
		return 0, false
	}
	v := constant.ToInt(tv.Value)
	if v.Kind() != constant.Int {
		return 0, false
	}
	i, exact := constant.Int64Val(v)
	return i, exact
}

// Alias maps a local variable that is defined exactly once, never reassigned and never has its address taken to its
// defining expression, when that expression is pure and reads only values that cannot change between the definition
// and any use (constants, other such locals and unassigned parameters, range variables, fields of the incoming
// *irc.Message that the function never writes, calls of pure string functions). It is filled once per loaded program
// (rules.computeAliases). Same and Expand see through these names, so that introducing or inlining such a local
// does not change what a rule sees.
var Alias = map[types.Object]ast.Expr{}

// Expand replaces an identifier that names a stable pure local by its defining expression (transitively).
func Expand(info *types.Info, e ast.Expr) ast.Expr {
	e = ast.Unparen(e)
	for i := 0; i < 8 && e != nil; i++ {
		id, ok := e.(*ast.Ident)
		if !ok {
			break
		}
		d, ok := Alias[Obj(info, id)]
		if !ok || d == nil {
			break
		}
		e = ast.Unparen(d)
	}
	return e
}

// Same reports structural equality of two expressions with identifiers
// resolved to objects and constants compared by value.
func Same(info *types.Info, a, b ast.Expr) bool {
	a, b = Expand(info, a), Expand(info, b)
	if a == nil || b == nil {
		return a == b
	}
	if ta, ok := info.Types[a]; ok && ta.Value != nil {
		if tb, ok := info.Types[b]; ok && tb.Value != nil {
			return constant.Compare(ta.Value, token.EQL, tb.Value)
		}
		return false
	}
	switch x := a.(type) {
	case *ast.Ident:
		y, ok := b.(*ast.Ident)
		if !ok {
			return false
		}
		ox, oy := Obj(info, x), Obj(info, y)
		if ox == nil || oy == nil {
			return x.Name == y.Name
		}
		return ox == oy
	case *ast.SelectorExpr:
		y, ok := b.(*ast.SelectorExpr)
		if !ok {
			return false
		}
		if x.Sel.Name != y.Sel.Name {
			return false
		}
		// package-qualified identifiers
		if ox, oy := info.Uses[x.Sel], info.Uses[y.Sel]; ox != nil && oy != nil && ox != oy {
			return false
		}
		if _, ok := info.Selections[x]; !ok {
			// qualified identifier pkg.Name
			return info.Uses[x.Sel] == info.Uses[y.Sel]
		}
		return Same(info, x.X, y.X)
	case *ast.IndexExpr:
		y, ok := b.(*ast.IndexExpr)
		return ok && Same(info, x.X, y.X) && Same(info, x.Index, y.Index)
	case *ast.CallExpr:
		y, ok := b.(*ast.CallExpr)
		if !ok || len(x.Args) != len(y.Args) || !Same(info, x.Fun, y.Fun) {
			return false
		}
		for i := range x.Args {
			if !Same(info, x.Args[i], y.Args[i]) {
				return false
			}
		}
		return true
	case *ast.StarExpr:
		y, ok := b.(*ast.StarExpr)
		return ok && Same(info, x.X, y.X)
	case *ast.UnaryExpr:
		y, ok := b.(*ast.UnaryExpr)
		return ok && x.Op == y.Op && Same(info, x.X, y.X)
	case *ast.BinaryExpr:
		y, ok := b.(*ast.BinaryExpr)
		return ok && x.Op == y.Op && Same(info, x.X, y.X) && Same(info, x.Y, y.Y)
	case *ast.BasicLit:
		y, ok := b.(*ast.BasicLit)
		return ok && x.Kind == y.Kind && x.Value == y.Value
	case *ast.SliceExpr:
		y, ok := b.(*ast.SliceExpr)
		return ok && Same(info, x.X, y.X) && sameOpt(info, x.Low, y.Low) && sameOpt(info, x.High, y.High) && sameOpt(info, x.Max, y.Max)
	case *ast.TypeAssertExpr:
		y, ok := b.(*ast.TypeAssertExpr)
		return ok && Same(info, x.X, y.X)
	}
	return false
}

func sameOpt(info *types.Info, a, b ast.Expr) bool {
	if a == nil || b == nil {
		return a == nil && b == nil
	}
	return Same(info, a, b)
}

// Mentions reports whether e contains an identifier referring to obj.
func Mentions(info *types.Info, n ast.Node, obj types.Object) bool {
	found := false
	ast.Inspect(n, func(m ast.Node) bool {
		if id, ok := m.(*ast.Ident); ok && Obj(info, id) == obj {
			found = true
		}
		return !found
	})
	return found
}

// Calls collects the call expressions inside n (not descending into function literals unless deep).
func Calls(n ast.Node, deep bool) []*ast.CallExpr {
	var out []*ast.CallExpr
	ast.Inspect(n, func(m ast.Node) bool {
		if _, ok := m.(*ast.FuncLit); ok && !deep && m != n {
			return false
		}
		if c, ok := m.(*ast.CallExpr); ok {
			out = append(out, c)
		}
		return true
	})
	return out
}

// Assigned lists the expressions written by statement s: assignment
// left-hand sides, inc/dec operands, and the map argument of delete()
// (as an index expression m[k]).
func Assigned(info *types.Info, s ast.Node) []ast.Expr {
	var out []ast.Expr
	switch x := s.(type) {
	case *ast.AssignStmt:
		out = append(out, x.Lhs...)
	case *ast.IncDecStmt:
		out = append(out, x.X)
	case *ast.RangeStmt:
		if x.Key != nil {
			out = append(out, x.Key)
		}
		if x.Value != nil {
			out = append(out, x.Value)
		}
	case *ast.ExprStmt:
		if c, ok := x.X.(*ast.CallExpr); ok && Builtin(info, c) == "delete" && len(c.Args) == 2 {
			out = append(out, &ast.IndexExpr{X: c.Args[0], Index: c.Args[1]})
		}
	}
	return out
}

// Parents builds a child->parent map for the subtree rooted at root.
func Parents(root ast.Node) map[ast.Node]ast.Node {
	par := map[ast.Node]ast.Node{}
	var stack []ast.Node
	ast.Inspect(root, func(n ast.Node) bool {
		if n == nil {
			stack = stack[:len(stack)-1]
			return true
		}
		if len(stack) > 0 {
			par[n] = stack[len(stack)-1]
		}
		stack = append(stack, n)
		return true
	})
	return par
}

// BaseIdent returns the identifier at the root of a selector/index/star chain, or nil.
func BaseIdent(e ast.Expr) *ast.Ident {
	for {
		switch x := ast.Unparen(e).(type) {
		case *ast.Ident:
			return x
		case *ast.SelectorExpr:
			e = x.X
		case *ast.IndexExpr:
			e = x.X
		case *ast.StarExpr:
			e = x.X
		case *ast.SliceExpr:
			e = x.X
		case *ast.UnaryExpr:
			e = x.X
		case *ast.CallExpr:
			return nil
		default:
			return nil
		}
	}
}
