// Package flowx computes flow-insensitive data + control dependences inside
// one function body: for every local variable the set of objects (struct
// fields, parameters, package-level variables, called functions, constants)
// its value may depend on. It is used for "the value stored here depends on
// that field" rules (codec correspondences, horizon dependence, id flow).
package flowx

import (
	"go/ast"
	"go/token"
	"go/types"

	"verif/checker/internal/astx"
)

// Set is a set of objects.
type Set map[types.Object]bool

func (s Set) add(o types.Object) bool {
	if o == nil || s[o] {
		return false
	}
	s[o] = true
	return true
}

// Deps is the result for one function.
type Deps struct {
	Info   *types.Info
	Root   ast.Node
	local  map[types.Object]Set // local var -> direct deps
	ctrl   map[ast.Node][]ast.Expr
	isLoc  map[types.Object]bool
	closed bool
}

// Compute analyses root (a *ast.FuncDecl, *ast.FuncLit or block).
func Compute(info *types.Info, root ast.Node) *Deps {
	d := &Deps{Info: info, Root: root, local: map[types.Object]Set{}, ctrl: map[ast.Node][]ast.Expr{}, isLoc: map[types.Object]bool{}}
	// locals: every object defined inside root (including params and results)
	ast.Inspect(root, func(n ast.Node) bool {
		if id, ok := n.(*ast.Ident); ok {
			if o := info.Defs[id]; o != nil {
				if _, ok := o.(*types.Var); ok {
					d.isLoc[o] = true
				}
			}
		}
		return true
	})
	d.walk(root, nil)
	return d
}

// IsLocal reports whether o is a variable defined inside the analysed function (params included).
func (d *Deps) IsLocal(o types.Object) bool { return d.isLoc[o] }

func (d *Deps) addDep(lhs ast.Expr, srcs []ast.Expr, conds []ast.Expr) {
	base := astx.BaseIdent(lhs)
	if base == nil {
		return
	}
	o := astx.Obj(d.Info, base)
	if o == nil || !d.isLoc[o] {
		return
	}
	s := d.local[o]
	if s == nil {
		s = Set{}
		d.local[o] = s
	}
	for _, e := range srcs {
		d.mentions(e, s)
	}
	for _, e := range conds {
		d.mentions(e, s)
	}
	// index / selector parts of the lhs other than the base also feed the variable
	switch x := ast.Unparen(lhs).(type) {
	case *ast.IndexExpr:
		d.mentions(x.Index, s)
	}
}

// mentions adds every object referenced in e (fields through selections, callees, vars, consts).
func (d *Deps) mentions(e ast.Node, into Set) {
	if e == nil {
		return
	}
	ast.Inspect(e, func(n ast.Node) bool {
		switch x := n.(type) {
		case *ast.Ident:
			if o := astx.Obj(d.Info, x); o != nil {
				switch o.(type) {
				case *types.Var, *types.Func, *types.Const:
					into.add(o)
				}
			}
		case *ast.SelectorExpr:
			if sel, ok := d.Info.Selections[x]; ok {
				into.add(sel.Obj())
			}
		case *ast.FuncLit:
			return false
		}
		return true
	})
}

func (d *Deps) walk(n ast.Node, conds []ast.Expr) {
	switch x := n.(type) {
	case nil:
		return
	case *ast.FuncDecl:
		if x.Body != nil {
			d.walk(x.Body, conds)
		}
	case *ast.FuncLit:
		d.walk(x.Body, conds)
	case *ast.BlockStmt:
		for _, s := range x.List {
			d.walk(s, conds)
		}
	case *ast.IfStmt:
		d.walk(x.Init, conds)
		d.scanCalls(x.Cond, conds)
		c2 := append(append([]ast.Expr{}, conds...), x.Cond)
		d.walk(x.Body, c2)
		d.walk(x.Else, c2)
	case *ast.ForStmt:
		d.walk(x.Init, conds)
		c2 := conds
		if x.Cond != nil {
			c2 = append(append([]ast.Expr{}, conds...), x.Cond)
		}
		d.walk(x.Post, c2)
		d.walk(x.Body, c2)
	case *ast.RangeStmt:
		c2 := append(append([]ast.Expr{}, conds...), x.X)
		if x.Key != nil {
			d.addDep(x.Key, []ast.Expr{x.X}, conds)
		}
		if x.Value != nil {
			d.addDep(x.Value, []ast.Expr{x.X}, conds)
		}
		d.walk(x.Body, c2)
	case *ast.SwitchStmt:
		d.walk(x.Init, conds)
		c2 := conds
		if x.Tag != nil {
			c2 = append(append([]ast.Expr{}, conds...), x.Tag)
		}
		for _, cl := range x.Body.List {
			cc := cl.(*ast.CaseClause)
			c3 := append(append([]ast.Expr{}, c2...), cc.List...)
			for _, s := range cc.Body {
				d.walk(s, c3)
			}
		}
	case *ast.TypeSwitchStmt:
		d.walk(x.Init, conds)
		d.walk(x.Assign, conds)
		for _, cl := range x.Body.List {
			cc := cl.(*ast.CaseClause)
			for _, s := range cc.Body {
				d.walk(s, conds)
			}
		}
	case *ast.SelectStmt:
		for _, cl := range x.Body.List {
			cc := cl.(*ast.CommClause)
			d.walk(cc.Comm, conds)
			for _, s := range cc.Body {
				d.walk(s, conds)
			}
		}
	case *ast.LabeledStmt:
		d.walk(x.Stmt, conds)
	case *ast.AssignStmt:
		if len(x.Lhs) == len(x.Rhs) {
			for i := range x.Lhs {
				srcs := []ast.Expr{x.Rhs[i]}
				if x.Tok != token.ASSIGN && x.Tok != token.DEFINE {
					srcs = append(srcs, x.Lhs[i])
				}
				d.addDep(x.Lhs[i], srcs, conds)
			}
		} else {
			for _, l := range x.Lhs {
				d.addDep(l, x.Rhs, conds)
			}
		}
		for _, r := range x.Rhs {
			d.scanCalls(r, conds)
		}
	case *ast.IncDecStmt:
		d.addDep(x.X, nil, conds)
	case *ast.DeclStmt:
		if gd, ok := x.Decl.(*ast.GenDecl); ok {
			for _, sp := range gd.Specs {
				if vs, ok := sp.(*ast.ValueSpec); ok {
					for i, name := range vs.Names {
						if len(vs.Values) == len(vs.Names) {
							d.addDep(name, []ast.Expr{vs.Values[i]}, conds)
						} else if len(vs.Values) > 0 {
							d.addDep(name, vs.Values, conds)
						}
					}
					for _, v := range vs.Values {
						d.scanCalls(v, conds)
					}
				}
			}
		}
	case *ast.ExprStmt:
		d.scanCalls(x.X, conds)
	case *ast.ReturnStmt:
		for _, r := range x.Results {
			d.scanCalls(r, conds)
		}
	case *ast.DeferStmt:
		d.scanCalls(x.Call, conds)
	case *ast.GoStmt:
		d.scanCalls(x.Call, conds)
	case *ast.SendStmt:
		d.addDep(x.Chan, []ast.Expr{x.Value}, conds)
	}
}

// scanCalls models mutation through calls: f(&x, a, b) and x.M(a, b) make x depend on a, b and f.
func (d *Deps) scanCalls(e ast.Node, conds []ast.Expr) {
	if e == nil {
		return
	}
	ast.Inspect(e, func(n ast.Node) bool {
		switch c := n.(type) {
		case *ast.FuncLit:
			d.walk(c.Body, conds)
			return false
		case *ast.CallExpr:
			var srcs []ast.Expr
			srcs = append(srcs, c.Args...)
			srcs = append(srcs, c.Fun)
			for _, a := range c.Args {
				if u, ok := ast.Unparen(a).(*ast.UnaryExpr); ok && u.Op == token.AND {
					d.addDep(u.X, srcs, conds)
				} else if tv, ok := d.Info.Types[a]; ok {
					// slices / maps / pointers passed to a call may be filled by it
					switch tv.Type.Underlying().(type) {
					case *types.Slice, *types.Map, *types.Pointer:
						if astx.BaseIdent(a) != nil {
							d.addDep(a, srcs, conds)
						}
					}
				}
			}
			if se, ok := ast.Unparen(c.Fun).(*ast.SelectorExpr); ok {
				if _, isSel := d.Info.Selections[se]; isSel {
					if id := astx.BaseIdent(se.X); id != nil {
						d.addDep(se.X, c.Args, conds)
					}
				}
			}
		}
		return true
	})
}

func (d *Deps) close() {
	if d.closed {
		return
	}
	d.closed = true
	changed := true
	for changed {
		changed = false
		for o, s := range d.local {
			for dep := range s {
				if dep == o {
					continue
				}
				if ds, ok := d.local[dep]; ok {
					for x := range ds {
						if s.add(x) {
							changed = true
						}
					}
				}
			}
		}
	}
}

// Of returns everything expression e may depend on (transitively through locals).
func (d *Deps) Of(e ast.Node) Set {
	d.close()
	out := Set{}
	d.mentions(e, out)
	for o := range out {
		if ds, ok := d.local[o]; ok {
			for x := range ds {
				out[x] = true
			}
		}
	}
	return out
}

// OfObj returns the dependence set of a local variable.
func (d *Deps) OfObj(o types.Object) Set {
	d.close()
	out := Set{}
	out[o] = true
	for x := range d.local[o] {
		out[x] = true
	}
	return out
}

// CondsAt returns the conditions (if/for/switch/range operands) enclosing target inside root.
func CondsAt(root ast.Node, target ast.Node) []ast.Expr {
	var out []ast.Expr
	var rec func(n ast.Node, conds []ast.Expr) bool
	contains := func(n ast.Node) bool {
		return n != nil && n.Pos() <= target.Pos() && target.End() <= n.End()
	}
	rec = func(n ast.Node, conds []ast.Expr) bool {
		if n == nil || !contains(n) {
			return false
		}
		found := false
		switch x := n.(type) {
		case *ast.IfStmt:
			c2 := append(append([]ast.Expr{}, conds...), x.Cond)
			if contains(x.Body) {
				found = rec(x.Body, c2)
			} else if x.Else != nil && contains(x.Else) {
				found = rec(x.Else, c2)
			} else {
				out = conds
				return true
			}
		case *ast.ForStmt:
			c2 := conds
			if x.Cond != nil {
				c2 = append(append([]ast.Expr{}, conds...), x.Cond)
			}
			if contains(x.Body) {
				found = rec(x.Body, c2)
			}
		case *ast.RangeStmt:
			c2 := append(append([]ast.Expr{}, conds...), x.X)
			if contains(x.Body) {
				found = rec(x.Body, c2)
			}
		case *ast.SwitchStmt:
			c2 := conds
			if x.Tag != nil {
				c2 = append(append([]ast.Expr{}, conds...), x.Tag)
			}
			for _, cl := range x.Body.List {
				cc := cl.(*ast.CaseClause)
				if contains(cc) {
					c3 := append(append([]ast.Expr{}, c2...), cc.List...)
					for _, s := range cc.Body {
						if rec(s, c3) {
							return true
						}
					}
					out = c3
					return true
				}
			}
		default:
			// generic descent
			done := false
			ast.Inspect(n, func(m ast.Node) bool {
				if done || m == nil {
					return false
				}
				if m == n {
					return true
				}
				switch m.(type) {
				case *ast.IfStmt, *ast.ForStmt, *ast.RangeStmt, *ast.SwitchStmt:
					if contains(m) {
						if rec(m, conds) {
							done = true
						}
					}
					return false
				}
				return true
			})
			if done {
				return true
			}
		}
		if found {
			return true
		}
		out = conds
		return true
	}
	rec(root, nil)
	return out
}
