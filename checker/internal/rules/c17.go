package rules

import (
	"go/ast"
	"go/token"
	"go/types"
	"strings"

	"verif/checker/internal/astx"
	"verif/checker/internal/cfgx"
	"verif/checker/internal/flowx"
	"verif/checker/internal/load"
)

func init() { register("C17", c17) }

// relFact normalises a comparison fact to "a > b holds" / "a > b does not hold" for the given operand predicates.
// It returns (+1) when the fact implies a > b, (-1) when it implies !(a > b), 0 otherwise.
func gtFact(f cfgx.Fact, isA, isB func(ast.Expr) bool) int {
	if f.Tag != nil {
		return 0
	}
	be, ok := ast.Unparen(f.Expr).(*ast.BinaryExpr)
	if !ok {
		return 0
	}
	op := be.Op
	x, y := be.X, be.Y
	if isB(x) && isA(y) {
		// swap operands: b op a  ==  a op' b
		x, y = y, x
		switch op {
		case token.LSS:
			op = token.GTR
		case token.GTR:
			op = token.LSS
		case token.LEQ:
			op = token.GEQ
		case token.GEQ:
			op = token.LEQ
		}
	} else if !(isA(x) && isB(y)) {
		return 0
	}
	switch {
	case op == token.GTR && f.Val:
		return 1
	case op == token.GTR && !f.Val:
		return -1
	case op == token.LEQ && f.Val:
		return -1
	case op == token.LEQ && !f.Val:
		return 1
	}
	return 0
}

func c17(c *Ctx) {
	r := c.R
	r.Explanation = "Partial: (Y1) getSessionLocked answers 'no such session' only on the edge lastProcessed.Id > id.Id and 'not yet seen' on the complementary edge, a found session wins; lastProcessed has only the expected writers and is advanced after every processed entry; (Y2) the API never turns 'not yet seen' into 404 on a follower (proxy / 5xx instead) and only two functions map session() errors; (Y3) the expiry sweep proposes DeleteSession exactly on the edge Reply == 0 and time.Since(LastActivity) > Config.SessionExpiration, for the range key, and main proposes them only as leader; (Y4) Session.deleted is set only by deleteSessionLocked, which always removes the nick from the index and every channel; every processed entry is followed by MaybeDeleteSession, which removes exactly the sessions marked deleted; (Y5) after deleteSessionLocked(x) a handler sends x only the closing ERROR/KILL. Which error a lagging follower returns for a concrete id depends on the applied prefix and is not decided."
	r.Rules = []string{"C17.Y1 the two look-up errors", "C17.Y2 error mapping at the API", "C17.Y3 expiry sweep", "C17.Y4 ending a session cleans up", "C17.Y5 nothing further is delivered", "C17.Y6 an announced end happens"}

	// ---------- Y1
	gsl := c.MustFunc("ircserver.(*IRCServer).getSessionLocked")
	lp := c.P.Field("ircserver", "IRCServer", "lastProcessed")
	sessions := c.P.Field("ircserver", "IRCServer", "sessions")
	if gsl == nil || lp == nil || sessions == nil {
		r.Break("C17 anchors missing")
		return
	}
	{
		info := gsl.Info()
		g := c.Graph(gsl)
		var idParam types.Object
		for _, fld := range gsl.FuncType().Params.List {
			for _, nm := range fld.Names {
				idParam = info.Defs[nm]
			}
		}
		isLP := func(e ast.Expr) bool {
			se, ok := ast.Unparen(e).(*ast.SelectorExpr)
			if !ok || se.Sel.Name != "Id" {
				return false
			}
			in, ok := ast.Unparen(se.X).(*ast.SelectorExpr)
			return ok && astx.FieldSel(info, in) == lp
		}
		isID := func(e ast.Expr) bool {
			se, ok := ast.Unparen(e).(*ast.SelectorExpr)
			if !ok || se.Sel.Name != "Id" {
				return false
			}
			id, ok := ast.Unparen(se.X).(*ast.Ident)
			return ok && astx.Obj(info, id) == idParam
		}
		n := 0
		for _, rv := range g.Returns() {
			rs := rv.Node.(*ast.ReturnStmt)
			if len(rs.Results) != 2 {
				continue
			}
			pos := c.P.Pos(rs.Pos())
			verdict := 0
			for _, f := range g.FactsAt(rv.ID) {
				if v := gtFact(f, isLP, isID); v != 0 {
					verdict = v
				}
			}
			switch {
			case refersTo(info, rs.Results[1], pathIrcsrv, "ErrNoSuchSession"):
				n++
				r.Check(verdict == 1, "C17.Y1", gsl.Name(), "ErrNoSuchSession only when lastProcessed.Id > id.Id", pos, "dominated by that edge",
					"'no such session' is returned on a path where a newer entry than the session id has not provably been processed: a lagging follower tells a client its live session is gone")
			case refersTo(info, rs.Results[1], pathIrcsrv, "ErrSessionNotYetSeen"):
				n++
				r.Check(verdict == -1, "C17.Y1", gsl.Name(), "ErrSessionNotYetSeen on the complementary edge", pos, "dominated by !(lastProcessed.Id > id.Id)",
					"'not yet seen' is not returned exactly on the complement of lastProcessed.Id > id.Id")
			case isNilIdent(info, rs.Results[1]):
				n++
				// found session: on the ok edge of the look-up in i.sessions, and before the error decision
				ok := false
				for _, f := range g.FactsAt(rv.ID) {
					if f.Tag != nil || !f.Val {
						continue
					}
					if id, isID := ast.Unparen(f.Expr).(*ast.Ident); isID {
						for _, d := range defsOf(info, gsl.Node(), astx.Obj(info, id)) {
							if ie, isIE := ast.Unparen(d).(*ast.IndexExpr); isIE {
								if se, isSel := ast.Unparen(ie.X).(*ast.SelectorExpr); isSel && astx.FieldSel(info, se) == sessions {
									if kid, isK := ast.Unparen(ie.Index).(*ast.Ident); isK && astx.Obj(info, kid) == idParam {
										ok = true
									}
								}
							}
						}
					}
				}
				r.Check(ok, "C17.Y1", gsl.Name(), "a found session is returned", pos, "on the ok edge of sessions[id]", "the success return is not on the ok edge of the look-up of the requested id")
			}
		}
		r.Check(n >= 3, "C17.Y1", gsl.Name(), "three outcomes present", c.P.Pos(gsl.Node().Pos()), "found / no such / not yet seen", "getSessionLocked does not have the three expected outcomes")
		// lastProcessed read under its lock
		for _, v := range g.Nodes() {
			if mentionsField(info, v.Node, lp) {
				if _, isDefer := v.Node.(*ast.DeferStmt); isDefer {
					continue
				}
				ok := g.DominatedBy(v.ID, func(x *cfgx.Vertex) bool {
					return isLockCall(info, x.Node, "lastProcessedMu", "RLock") || isLockCall(info, x.Node, "lastProcessedMu", "Lock")
				})
				r.Check(ok, "C17.Y1", gsl.Name(), "lastProcessed read under lastProcessedMu", c.P.Pos(v.Node.Pos()), "RLock dominates", "lastProcessed is read without lastProcessedMu")
			}
		}
	}
	// the restore replaces the sessions and the last-processed mark in one critical section: while Unmarshal assigns
	// lastProcessed it holds sessionsMu for writing. (A mark that jumps ahead before the sessions are loaded makes every
	// look-up of a session the snapshot contains answer "no such session" in between.)
	if um := c.P.Func("ircserver.(*IRCServer).Unmarshal"); um != nil && um.Body() != nil {
		ug := c.Graph(um)
		ulf := c.lockFlow(um, ug, lockSet{})
		nLP := 0
		for _, v := range ug.Nodes() {
			as, ok := v.Node.(*ast.AssignStmt)
			if !ok {
				continue
			}
			for _, l := range as.Lhs {
				if fv, _ := lhsField(um.Info(), l); fv == lp {
					nLP++
					r.Check(ulf.must[v.ID]["IRCServer.sessionsMu"] == "W", "C17.Y1", um.Name(), "lastProcessed is restored in the critical section that restores the sessions", c.P.Pos(as.Pos()), "lockset "+ulf.must[v.ID].String(),
						"Unmarshal sets the last-processed mark without holding sessionsMu: between this and the loading of the sessions a look-up of a session that the snapshot contains is answered 'no such session' (the mark is already past its id, the table does not have it yet) — the client gives up a live session")
				}
			}
		}
		if nLP == 0 {
			r.Break("C17.Y1: Unmarshal does not assign lastProcessed")
		}
	}
	allowedW := map[string]bool{"ircserver.(*IRCServer).SetLastProcessed": true, "ircserver.(*IRCServer).Unmarshal": true}
	for _, w := range c.writersOf(lp) {
		r.Check(allowedW[w.Name()], "C17.Y1", w.Name(), "writes IRCServer.lastProcessed", c.P.Pos(c.funcFlow(w).writePos[lp]), "expected writer", "unexpected writer of lastProcessed")
	}
	arm := c.MustFunc("main.(*FSM).applyRobustMessage")
	if arm != nil {
		info := arm.Info()
		g := c.Graph(arm)
		isPM := func(fn *types.Func, _ *ast.CallExpr) bool {
			return isFunc(fn, "ircserver", "(*IRCServer).ProcessMessage")
		}
		isSLP := func(fn *types.Func, _ *ast.CallExpr) bool {
			return isFunc(fn, "ircserver", "(*IRCServer).SetLastProcessed")
		}
		isMDS := func(fn *types.Func, _ *ast.CallExpr) bool {
			return isFunc(fn, "ircserver", "(*IRCServer).MaybeDeleteSession")
		}
		var msgParam types.Object = paramOfType(arm, pathRobust, "Message")
		deps := flowx.Compute(info, arm.Node())
		for _, call := range callsIn(arm, isPM) {
			v := g.VertexOf(call)
			ok := g.PostDominatedBy(v, g.Exit, func(x *cfgx.Vertex) bool { return containsCall(info, x, isSLP) })
			r.Check(ok, "C17.Y1", arm.Name(), "lastProcessed advanced after ProcessMessage", c.P.Pos(call.Pos()), "SetLastProcessed on every path to the return",
				"an entry is processed without lastProcessed being advanced afterwards: deleted sessions keep answering 'not yet seen'")
			ok = g.PostDominatedBy(v, g.Exit, func(x *cfgx.Vertex) bool {
				if !containsCall(info, x, isMDS) {
					return false
				}
				for _, cc := range astx.Calls(x.Node, false) {
					if fn := astx.Callee(info, cc); fn != nil && isMDS(fn, cc) && len(cc.Args) == 1 {
						if se, ok := ast.Unparen(cc.Args[0]).(*ast.SelectorExpr); ok && se.Sel.Name == "Session" {
							return true
						}
					}
				}
				return false
			})
			r.Check(ok, "C17.Y4", arm.Name(), "MaybeDeleteSession(msg.Session) after ProcessMessage", c.P.Pos(call.Pos()), "on every path to the return",
				"an entry is processed without MaybeDeleteSession(msg.Session) afterwards: sessions marked deleted stay in the session table (and in snapshots)")
		}
		// Y3b: a committed entry is processed on nothing but the entry's type and the existence of its session (the marker
		// update's error for client lines): no further condition — in particular none that reads node-local or
		// non-replicated values — decides whether ProcessMessage runs
		for _, call := range callsIn(arm, isPM) {
			v := g.VertexOf(call)
			extra := ""
			for _, cl := range c.clausesAt(arm, g, v) {
				for _, l := range cl {
					okLit := false
					// err == nil of a look-up / marker update
					if x, isNil, ok := nilCompare(info, cfgx.Fact{Expr: l.E, Val: l.Pos}); ok && isNil {
						if types.Identical(info.TypeOf(x), types.Universe.Lookup("error").Type()) {
							okLit = true
						}
					}
					if !okLit {
						extra = astx.Str(l.E)
					}
				}
			}
			// tagged switch facts (msg.Type) are not in clausesAt; everything else counts
			r.Check(extra == "", "C17.Y3", arm.Name(), "a committed entry is processed whenever its session exists", c.P.Pos(call.Pos()), "ProcessMessage dominated only by the type switch and err == nil tests",
				"whether a committed entry is processed depends on a further condition ("+extra+"): if that condition reads anything that is not replicated state (a value of this FSM instance, a clock) one replica ends the session and another keeps it")
		}
		// Y1b: what "processed" means differs between the arms. A client line advances the mark to its SESSION's id; the entry
		// that ends a session advances it to the ENTRY's own id (which is newer than the id of the session it deletes), so that the
		// deleted session is answered "no such session", not "not yet seen". Calls in a helper are judged by the arm calling it.
		{
			kindOf := func(inf *types.Info, e ast.Expr) string {
				kind := ""
				ast.Inspect(e, func(n ast.Node) bool {
					if se, ok := n.(*ast.SelectorExpr); ok {
						switch se.Sel.Name {
						case "Session":
							kind = "session"
						}
					}
					return true
				})
				if kind == "" {
					kind = "entry"
				}
				return kind
			}
			armOf := func(v int) string {
				for _, f := range g.FactsAt(v) {
					if f.Tag != nil && f.Val {
						if refersTo(info, f.Expr, pathRobust, "DeleteSession") {
							return "DeleteSession"
						}
						if refersTo(info, f.Expr, pathRobust, "IRCFromClient") {
							return "IRCFromClient"
						}
					}
				}
				return ""
			}
			want := map[string]string{"DeleteSession": "entry", "IRCFromClient": "session"}
			check := func(armName, kind string, pos token.Pos) {
				if armName == "" {
					return
				}
				r.Check(kind == want[armName], "C17.Y1", arm.Name(), "lastProcessed after "+armName+" is the "+want[armName]+"'s id", c.P.Pos(pos), "argument built from msg."+map[string]string{"entry": "Id", "session": "Session"}[want[armName]]+".Id",
					"after "+armName+" the last-processed mark is set from the "+kind+"'s id instead of the "+want[armName]+"'s: after a session was ended, look-ups of it are answered 'not yet seen' (retry / proxy) instead of 'no such session'")
			}
			for _, call := range callsIn(arm, isSLP) {
				if len(call.Args) == 1 {
					check(armOf(g.VertexOf(call)), kindOf(info, call.Args[0]), call.Pos())
				}
			}
			// helpers of package main called from an arm
			for _, v := range g.Nodes() {
				for _, call := range astx.Calls(v.Node, false) {
					fn := astx.Callee(info, call)
					if fn == nil {
						continue
					}
					h := c.P.FuncOf(fn)
					if h == nil || h == arm || h.Body() == nil || load.ShortPkg(h.Pkg.PkgPath) != "main" {
						continue
					}
					for _, c2 := range callsIn(h, isSLP) {
						if len(c2.Args) == 1 {
							check(armOf(v.ID), kindOf(h.Info(), c2.Args[0]), c2.Pos())
						}
					}
				}
			}
		}
		for _, call := range callsIn(arm, isSLP) {
			ok := len(call.Args) == 1 && msgParam != nil && deps.Of(call.Args[0])[msgParam]
			r.Check(ok, "C17.Y1", arm.Name(), "lastProcessed taken from the entry", c.P.Pos(call.Pos()), "argument derives from msg", "SetLastProcessed is not given an id taken from the entry")
		}
	}

	// ---------- Y2
	sess := c.MustFunc("api.(*HTTP).session")
	if sess != nil {
		isSession := func(fn *types.Func, _ *ast.CallExpr) bool { return fn == sess.Obj }
		allowed := map[string]bool{"api.(*HTTP).sessionOrProxy": true, "api.(*HTTP).handleGetMessages": true}
		var otherCallers []*load.FuncInfo
		for _, fi := range c.P.AllFuncs {
			for _, call := range callsIn(fi, isSession) {
				if allowed[fi.Name()] {
					r.Ok("C17.Y2", fi.Name(), "caller of api.session", c.P.Pos(call.Pos()), "one of the two callers with rules of their own (below)")
				} else {
					otherCallers = append(otherCallers, fi)
				}
			}
		}
		isNYS := func(info *types.Info, e ast.Expr) (bool, bool) { // (is comparison with NYS, equality sense)
			be, ok := ast.Unparen(e).(*ast.BinaryExpr)
			if !ok || (be.Op != token.EQL && be.Op != token.NEQ) {
				return false, false
			}
			if refersTo(info, be.X, pathIrcsrv, "ErrSessionNotYetSeen") || refersTo(info, be.Y, pathIrcsrv, "ErrSessionNotYetSeen") {
				return true, be.Op == token.EQL
			}
			return false, false
		}
		is404 := func(info *types.Info, v *cfgx.Vertex) bool {
			if v.Node == nil {
				return false
			}
			for _, call := range astx.Calls(v.Node, false) {
				fn := astx.Callee(info, call)
				if fn == nil || !isFunc(fn, "net/http", "Error") || len(call.Args) != 3 {
					continue
				}
				if code, ok := astx.ConstInt(info, call.Args[2]); ok && code == 404 {
					return true
				}
			}
			return false
		}
		// any other caller of api.session maps the look-up error to a status by itself: wherever it answers 404 after the
		// call, "not yet seen" has been excluded (the error was compared unequal to it, or is nil)
		for _, fi := range otherCallers {
			info := fi.Info()
			g := c.Graph(fi)
			for _, call := range callsIn(fi, isSession) {
				cv := g.VertexOf(call)
				var eobj types.Object
				if as, ok := g.V[cv].Node.(*ast.AssignStmt); ok && len(as.Lhs) == 2 {
					if id, ok := as.Lhs[1].(*ast.Ident); ok && id.Name != "_" {
						eobj = astx.Obj(info, id)
					}
				}
				if eobj == nil {
					r.Fail("C17.Y2", fi.Name(), "caller of api.session keeps the look-up error", c.P.Pos(call.Pos()), "the error of api.session is discarded: 'no such session' and 'not yet seen' cannot be told apart")
					continue
				}
				reach := g.Reach(cv, nil, nil)
				n404 := 0
				for _, x := range g.V {
					if !reach[x.ID] || x.ID == cv || !is404(info, x) {
						continue
					}
					n404++
					excluded := false
					for _, f := range g.FactsAt(x.ID) {
						if ok, eq := isNYS(info, f.Expr); ok && f.Tag == nil && eq != f.Val {
							excluded = true
						}
						if e2, isNil, ok := nilCompare(info, f); ok && isNil {
							if id, ok := ast.Unparen(e2).(*ast.Ident); ok && astx.Obj(info, id) == eobj {
								excluded = true
							}
						}
					}
					r.Check(excluded, "C17.Y2", fi.Name(), "404 only where 'not yet seen' is excluded", c.P.Pos(x.Node.Pos()), "dominated by err != ErrSessionNotYetSeen (or err == nil)",
						"a caller of api.session answers 404 on a path on which the session may merely not have been seen yet: a lagging node tells a client its live session is gone")
				}
				if n404 == 0 {
					r.Ok("C17.Y2", fi.Name(), "caller of api.session answers no 404", c.P.Pos(call.Pos()), "no http.Error(…, 404) reachable from the call")
				}
			}
		}
		// the callers compare the error by identity, so session() must hand GetAuth's error on unwrapped
		{
			info := sess.Info()
			g := c.Graph(sess)
			isGetAuth := func(fn *types.Func, _ *ast.CallExpr) bool { return fname(fn) == "GetAuth" }
			for _, call := range callsIn(sess, isGetAuth) {
				v := g.VertexOf(call)
				as, ok := g.V[v].Node.(*ast.AssignStmt)
				if !ok || len(as.Lhs) != 2 {
					continue
				}
				eid, ok := as.Lhs[1].(*ast.Ident)
				if !ok {
					continue
				}
				eobj := astx.Obj(info, eid)
				for _, rv := range g.Returns() {
					rs := rv.Node.(*ast.ReturnStmt)
					if len(rs.Results) != 2 {
						continue
					}
					onErr := false
					for _, f := range g.FactsAt(rv.ID) {
						if x, isNil, isCmp := nilCompare(info, f); isCmp && !isNil {
							if id, ok := ast.Unparen(x).(*ast.Ident); ok && astx.Obj(info, id) == eobj && g.DominatedBy(rv.ID, func(x *cfgx.Vertex) bool { return x.ID == v }) {
								onErr = true
							}
						}
					}
					if !onErr {
						continue
					}
					id, isID := ast.Unparen(rs.Results[1]).(*ast.Ident)
					r.Check(isID && astx.Obj(info, id) == eobj, "C17.Y2", sess.Name(), "look-up error is handed on unwrapped", c.P.Pos(rs.Pos()), "return …, err",
						"api.session wraps or replaces the error of GetAuth while sessionOrProxy and handleGetMessages compare it with == ErrSessionNotYetSeen: the comparison never matches, a lagging follower answers 404 for a live session and stops proxying to the leader")
				}
			}
		}
		if sop := c.MustFunc("api.(*HTTP).sessionOrProxy"); sop != nil {
			info := sop.Info()
			g := c.Graph(sop)
			found := false
			for _, v := range g.V {
				for _, e := range v.Succ {
					if e.Cond == nil || e.Tag != nil {
						continue
					}
					// the edge on which "not yet seen" holds and the node is not the leader (either polarity of the test:
					// true edge of A && B, false edge of !A || !B): unit clauses of the edge's condition
					hasNYS, notLeader := false, false
					for _, cl := range c.clausesOf(info, sop.Node(), e.Cond, e.Val, 0) {
						if len(cl) != 1 {
							continue
						}
						l := cl[0]
						if ok, eq := isNYS(info, l.E); ok && eq == l.Pos {
							hasNYS = true
						}
						if be, ok := ast.Unparen(l.E).(*ast.BinaryExpr); ok && (refersTo(info, be.Y, pathRaft, "Leader") || refersTo(info, be.X, pathRaft, "Leader")) {
							if (be.Op == token.NEQ && l.Pos) || (be.Op == token.EQL && !l.Pos) {
								notLeader = true
							}
						}
					}
					if !hasNYS {
						continue
					}
					found = true
					reach := g.Reach(e.To, nil, nil)
					bad := false
					for _, x := range g.V {
						if reach[x.ID] && is404(info, x) {
							bad = true
						}
					}
					proxies := false
					for _, x := range g.V {
						if reach[x.ID] && containsCall(info, x, func(fn *types.Func, _ *ast.CallExpr) bool { return isFunc(fn, "api", "(*HTTP).maybeProxyToLeader") }) {
							proxies = true
						}
					}
					r.Check(!bad && proxies && notLeader, "C17.Y2", sop.Name(), "not-yet-seen on a follower is proxied, never 404", c.P.Pos(e.Cond.Pos()),
						"true edge of err == ErrSessionNotYetSeen && State() != Leader reaches the proxy and no 404",
						"a follower that has not yet seen the session answers 404 (or does not forward to the leader): the client believes its live session is gone")
				}
			}
			r.Check(found, "C17.Y2", sop.Name(), "tests ErrSessionNotYetSeen", c.P.Pos(sop.Node().Pos()), "found", "sessionOrProxy does not distinguish ErrSessionNotYetSeen")
			// … and nothing else decides: every edge that can be taken with "not yet seen" on a non-leader must not reach a 404
			for _, v := range g.V {
				for _, e := range v.Succ {
					if e.Cond == nil || e.Tag != nil {
						continue
					}
					mentions := false
					ast.Inspect(e.Cond, func(n ast.Node) bool {
						if ex, ok := n.(ast.Expr); ok {
							if isN, _ := isNYS(info, ex); isN {
								mentions = true
							}
						}
						return true
					})
					if !mentions {
						continue
					}
					// the edge excludes the dangerous case iff some clause consists only of {err != NotYetSeen, State() == Leader}
					safe := implied(c.clausesOf(info, sop.Node(), e.Cond, e.Val, 0), func(l lit) bool {
						if isN, eq := isNYS(info, l.E); isN {
							return eq != l.Pos // "err != NotYetSeen" holds
						}
						if be, ok := ast.Unparen(l.E).(*ast.BinaryExpr); ok && (refersTo(info, be.Y, pathRaft, "Leader") || refersTo(info, be.X, pathRaft, "Leader")) {
							return (be.Op == token.EQL && l.Pos) || (be.Op == token.NEQ && !l.Pos)
						}
						return false
					})
					if safe {
						continue
					}
					reach := g.Reach(e.To, nil, nil)
					bad := false
					for _, x := range g.V {
						if (reach[x.ID] || x.ID == e.To) && is404(info, x) {
							// unless the proxy hand-off lies on every path to it (the function returns after proxying)
							bad = true
							if g.DominatedBy(x.ID, func(y *cfgx.Vertex) bool {
								return containsCall(info, y, func(fn *types.Func, _ *ast.CallExpr) bool { return isFunc(fn, "api", "(*HTTP).maybeProxyToLeader") })
							}) {
								bad = false
							}
						}
					}
					r.Check(!bad, "C17.Y2", sop.Name(), "no 404 for 'not yet seen' on a non-leader", c.P.Pos(e.Cond.Pos()), "edges that admit err == ErrSessionNotYetSeen on a follower do not reach the 404 answer",
						"a node that is not the leader can answer 404 for a session it has not seen yet (a further condition next to the leader test, e.g. no known leader during an election): the client believes its live session is gone")
				}
			}
			// the proxied request must not also be handled locally: the error is returned to the caller
		}
		if hgm := c.MustFunc("api.(*HTTP).handleGetMessages"); hgm != nil {
			info := hgm.Info()
			g := c.Graph(hgm)
			n := 0
			for _, v := range g.Nodes() {
				if !is404(info, v) {
					continue
				}
				n++
				ok := false
				for _, f := range g.FactsAt(v.ID) {
					if isCmp, eq := isNYS(info, f.Expr); isCmp && f.Tag == nil && eq != f.Val {
						ok = true
					}
					// switch err { case ErrSessionNotYetSeen: … default: 404 }: the tag fact err != case value
					if f.Tag != nil && !f.Val && refersTo(info, f.Expr, pathIrcsrv, "ErrSessionNotYetSeen") {
						ok = true
					}
				}
				r.Check(ok, "C17.Y2", hgm.Name(), "404 only when the error is not 'not yet seen'", c.P.Pos(v.Node.Pos()), "dominated by err != ErrSessionNotYetSeen",
					"GetMessages answers 404 for a session the follower has merely not seen yet")
			}
			// the status code held in a variable (`code := 404; if err == NotYetSeen { code = 500 }; http.Error(w, …, code)`): a
			// definition `code = 404` may be the value at the answer only on paths that establish err != 'not yet seen'
			for _, v := range g.Nodes() {
				for _, call := range astx.Calls(v.Node, false) {
					fn := astx.Callee(info, call)
					if fn == nil || !isFunc(fn, "net/http", "Error") || len(call.Args) != 3 {
						continue
					}
					cid, isID := ast.Unparen(call.Args[2]).(*ast.Ident)
					if !isID {
						continue
					}
					if _, isConst := astx.ConstInt(info, cid); isConst {
						continue
					}
					cobj := astx.Obj(info, cid)
					defVal := func(x int) (int64, bool, bool) { // value, is constant, is a definition
						if g.V[x].Node == nil {
							return 0, false, false
						}
						val, isC, isDef := int64(0), false, false
						ast.Inspect(g.V[x].Node, func(m ast.Node) bool {
							switch y := m.(type) {
							case *ast.AssignStmt:
								for i, l := range y.Lhs {
									if id, ok := l.(*ast.Ident); ok && astx.Obj(info, id) == cobj {
										isDef = true
										if len(y.Lhs) == len(y.Rhs) {
											val, isC = astx.ConstInt(info, y.Rhs[i])
										}
									}
								}
							case *ast.ValueSpec:
								for i, id := range y.Names {
									if info.Defs[id] == cobj {
										isDef = true
										if i < len(y.Values) {
											val, isC = astx.ConstInt(info, y.Values[i])
										} else {
											val, isC = 0, true
										}
									}
								}
							}
							return true
						})
						return val, isC, isDef
					}
					notNYS := func(e *cfgx.Edge) bool {
						for _, f := range e.Facts() {
							if isCmp, eq := isNYS(info, f.Expr); isCmp && f.Tag == nil && eq != f.Val {
								return true
							}
							if f.Tag != nil && !f.Val && refersTo(info, f.Expr, pathIrcsrv, "ErrSessionNotYetSeen") {
								return true
							}
						}
						return false
					}
					for x := range g.V {
						val, isC, isDef := defVal(x)
						if !isDef || (isC && val != 404) {
							continue
						}
						n++
						reaches := g.Reach(x, func(y int) bool { _, _, d := defVal(y); return d && y != x }, notNYS)[v.ID]
						// the definition itself may already sit behind err != 'not yet seen'
						behind := false
						for _, f := range g.FactsAt(x) {
							if isCmp, eq := isNYS(info, f.Expr); isCmp && f.Tag == nil && eq != f.Val {
								behind = true
							}
						}
						r.Check(!reaches || behind, "C17.Y2", hgm.Name(), "status 404 held in "+cid.Name+" reaches the answer only when the error is not 'not yet seen'", c.P.Pos(g.V[x].Node.Pos()),
							"every path from this definition to http.Error passes another definition or establishes err != ErrSessionNotYetSeen",
							"GetMessages answers 404 for a session the follower has merely not seen yet")
					}
				}
			}
			r.Check(n > 0, "C17.Y2", hgm.Name(), "404 answer found", c.P.Pos(hgm.Node().Pos()), "found", "handleGetMessages has no 404 answer")
		}
	}

	// ---------- Y3
	if es := c.MustFunc("ircserver.(*IRCServer).ExpireSessions"); es != nil {
		info := es.Info()
		g := c.Graph(es)
		la := c.P.Field("ircserver", "Session", "LastActivity")
		se := c.P.Field("config", "Network", "SessionExpiration")
		deps := flowx.Compute(info, es.Node())
		n := 0
		for _, cl := range compositeLitsOf(info, es.Body(), pathRobust, "Message") {
			t := litField(cl, "Type")
			if t == nil || !refersTo(info, t, pathRobust, "DeleteSession") {
				continue
			}
			n++
			v := g.VertexOf(cl)
			pos := c.P.Pos(cl.Pos())
			// enclosing range over i.sessions, key used as Session
			var rng *ast.RangeStmt
			ast.Inspect(es.Body(), func(m ast.Node) bool {
				if rs, ok := m.(*ast.RangeStmt); ok && rs.Body.Pos() <= cl.Pos() && cl.End() <= rs.Body.End() {
					if sel, ok := ast.Unparen(rs.X).(*ast.SelectorExpr); ok && astx.FieldSel(info, sel) == sessions {
						rng = rs
					}
				}
				return true
			})
			okKey := false
			if rng != nil && rng.Key != nil {
				if s := litField(cl, "Session"); s != nil && astx.Same(info, s, rng.Key) {
					okKey = true
				}
			}
			r.Check(okKey, "C17.Y3", es.Name(), "proposal names the iterated session", pos, "Session: <range key of i.sessions>", "the DeleteSession proposal is not for the session being examined")
			notService, idle := false, false
			for _, f := range g.FactsAt(v) {
				if f.Tag != nil {
					continue
				}
				be, ok := ast.Unparen(f.Expr).(*ast.BinaryExpr)
				if !ok {
					continue
				}
				// id.Reply != 0 false  /  id.Reply == 0 true
				if sel, ok := ast.Unparen(be.X).(*ast.SelectorExpr); ok && sel.Sel.Name == "Reply" && rng != nil && rng.Key != nil && astx.Same(info, sel.X, rng.Key) {
					if z, okz := astx.ConstInt(info, be.Y); okz && z == 0 && ((be.Op == token.NEQ && !f.Val) || (be.Op == token.EQL && f.Val)) {
						notService = true
					}
				}
				// time.Since(s.LastActivity) > timeout
				isSince := func(e ast.Expr) bool {
					call, ok := ast.Unparen(e).(*ast.CallExpr)
					if !ok || len(call.Args) != 1 {
						return false
					}
					fn := astx.Callee(info, call)
					if fn == nil || !isFunc(fn, "time", "Since") {
						return false
					}
					sel, ok := ast.Unparen(call.Args[0]).(*ast.SelectorExpr)
					return ok && astx.FieldSel(info, sel) == la && rng != nil && rng.Value != nil && astx.Same(info, sel.X, rng.Value)
				}
				isTimeout := func(e ast.Expr) bool { return se != nil && deps.Of(e)[se] && !deps.Of(e)[la] }
				if gtFact(f, isSince, isTimeout) == 1 {
					idle = true
				}
			}
			r.Check(notService, "C17.Y3", es.Name(), "services pseudo-clients never expire", pos, "dominated by id.Reply == 0", "a DeleteSession can be proposed for a session with Reply != 0 (a services pseudo-client)")
			r.Check(idle, "C17.Y3", es.Name(), "only sessions idle longer than the configured expiration", pos, "dominated by time.Since(s.LastActivity) > SessionExpiration",
				"the expiry proposal is not guarded by time.Since(<that session>.LastActivity) > Config.SessionExpiration")
		}
		r.Check(n > 0, "C17.Y3", es.Name(), "DeleteSession proposal found", c.P.Pos(es.Node().Pos()), "found", "ExpireSessions builds no DeleteSession proposal")
	}
	if mainFn := c.MustFunc("main.main"); mainFn != nil {
		info := mainFn.Info()
		g := c.Graph(mainFn)
		n := 0
		for _, call := range callsIn(mainFn, func(fn *types.Func, _ *ast.CallExpr) bool {
			return isFunc(fn, "ircserver", "(*IRCServer).ExpireSessions")
		}) {
			n++
			v := g.VertexOf(call)
			ok := false
			for _, f := range g.FactsAt(v) {
				if be, isBE := ast.Unparen(f.Expr).(*ast.BinaryExpr); isBE && f.Tag == nil {
					leader := refersTo(info, be.Y, pathRaft, "Leader") || refersTo(info, be.X, pathRaft, "Leader")
					if leader && ((be.Op == token.NEQ && !f.Val) || (be.Op == token.EQL && f.Val)) {
						ok = true
					}
				}
			}
			r.Check(ok, "C17.Y3", mainFn.Name(), "expiry proposed only by the leader", c.P.Pos(call.Pos()), "dominated by node.State() == raft.Leader", "the expiry sweep is proposed on non-leaders too")
		}
		r.Check(n > 0, "C17.Y3", mainFn.Name(), "expiry sweep wired", c.P.Pos(mainFn.Node().Pos()), "found", "main never calls ExpireSessions")
	}

	// ---------- Y4
	deleted := c.P.Field("ircserver", "Session", "deleted")
	nicks := c.P.Field("ircserver", "IRCServer", "nicks")
	chNicks := c.P.Field("ircserver", "channel", "nicks")
	dsl := c.MustFunc("ircserver.(*IRCServer).deleteSessionLocked")
	if deleted == nil || nicks == nil || chNicks == nil || dsl == nil {
		r.Break("C17.Y4 anchors missing")
		return
	}
	for _, w := range c.writersOf(deleted) {
		ok := w == dsl || w.Name() == "ircserver.(*IRCServer).Unmarshal"
		r.Check(ok, "C17.Y4", w.Name(), "writes Session.deleted", c.P.Pos(c.funcFlow(w).writePos[deleted]), "deleteSessionLocked only", "Session.deleted is set outside deleteSessionLocked: the session is dropped without leaving its channels / freeing its nick")
	}
	{
		info := dsl.Info()
		g := c.Graph(dsl)
		var sParam types.Object = paramOfType(dsl, pathIrcsrv, "Session")
		isDeleteOf := func(n ast.Node, field *types.Var) bool {
			es, ok := n.(*ast.ExprStmt)
			if !ok {
				return false
			}
			call, ok := es.X.(*ast.CallExpr)
			if !ok || astx.Builtin(info, call) != "delete" || len(call.Args) != 2 {
				return false
			}
			sel, ok := ast.Unparen(call.Args[0]).(*ast.SelectorExpr)
			if !ok || astx.FieldSel(info, sel) != field {
				return false
			}
			// key is NickToLower(s.Nick), possibly held in a local that was computed once (a stable alias, or a local with
			// that single definition which nothing in the function reassigns)
			keyExpr := astx.Expand(info, call.Args[1])
			if kid, isID := keyExpr.(*ast.Ident); isID {
				if d := uniqueDef(info, dsl.Node(), kid); d != nil {
					keyExpr = ast.Unparen(d)
				}
			}
			kc, ok := keyExpr.(*ast.CallExpr)
			if !ok || len(kc.Args) != 1 {
				return false
			}
			if fn := astx.Callee(info, kc); fn == nil || fname(fn) != "NickToLower" {
				return false
			}
			ks, ok := ast.Unparen(kc.Args[0]).(*ast.SelectorExpr)
			if !ok || ks.Sel.Name != "Nick" {
				return false
			}
			id, ok := ast.Unparen(ks.X).(*ast.Ident)
			return ok && astx.Obj(info, id) == sParam
		}
		// the mark
		markV := -1
		for _, v := range g.Nodes() {
			if as, ok := v.Node.(*ast.AssignStmt); ok && len(as.Lhs) == 1 {
				if f, _ := lhsField(info, as.Lhs[0]); f == deleted {
					markV = v.ID
				}
			}
		}
		r.Check(markV >= 0 && g.PostDominatedBy(g.Entry, g.Exit, func(x *cfgx.Vertex) bool { return x.ID == markV }), "C17.Y4", dsl.Name(), "marks the session deleted on every path", c.P.Pos(dsl.Node().Pos()), "s.deleted = true", "deleteSessionLocked does not always mark the session deleted")
		okNick := g.PostDominatedBy(g.Entry, g.Exit, func(x *cfgx.Vertex) bool { return isDeleteOf(x.Node, nicks) })
		r.Check(okNick, "C17.Y4", dsl.Name(), "frees the nickname on every path", c.P.Pos(dsl.Node().Pos()), "delete(i.nicks, NickToLower(s.Nick))", "deleteSessionLocked does not remove the session from the nickname index on every path: the nickname stays taken by a dead session")
		// channel sweep: a range over i.channels whose body deletes from c.nicks and calls maybeDeleteChannelLocked
		channels := c.P.Field("ircserver", "IRCServer", "channels")
		okSweep, okMaybe := false, false
		ast.Inspect(dsl.Body(), func(n ast.Node) bool {
			rs, ok := n.(*ast.RangeStmt)
			if !ok {
				return true
			}
			sel, ok := ast.Unparen(rs.X).(*ast.SelectorExpr)
			if !ok {
				return true
			}
			// The walk is over every channel of the network, or over the session's own membership set
			// (s.Channels, equal to the set of channels that list the session as long as membership is
			// symmetric, which is what C14.M1/M2 establish) with the channel looked up in i.channels.
			own := false
			if f := astx.FieldSel(info, sel); f != nil && f == c.P.Field("ircserver", "Session", "Channels") {
				if id, ok := ast.Unparen(sel.X).(*ast.Ident); ok && astx.Obj(info, id) == sParam {
					own = true
				}
			}
			if astx.FieldSel(info, sel) != channels && !own {
				return true
			}
			for _, st := range rs.Body.List {
				if isDeleteOf(st, chNicks) {
					okSweep = true
				}
				if es, ok := st.(*ast.ExprStmt); ok {
					if call, ok := es.X.(*ast.CallExpr); ok {
						if fn := astx.Callee(info, call); fn != nil && fname(fn) == "maybeDeleteChannelLocked" {
							okMaybe = true
						}
					}
				}
			}
			// the loop itself must be on every path
			v := g.VertexOf(rs.X)
			if !(v >= 0 && g.PostDominatedBy(g.Entry, g.Exit, func(x *cfgx.Vertex) bool { return x.ID == v })) {
				okSweep = false
			}
			return true
		})
		r.Check(okSweep, "C17.Y4", dsl.Name(), "leaves every channel", c.P.Pos(dsl.Node().Pos()), "range i.channels { delete(c.nicks, NickToLower(s.Nick)) } unconditionally", "deleteSessionLocked does not remove the session from every channel's member list")
		r.Check(okMaybe, "C17.Y4", dsl.Name(), "drops channels that became empty", c.P.Pos(dsl.Node().Pos()), "maybeDeleteChannelLocked(c) in the sweep", "channels emptied by the deletion are not removed")
	}
	// removal from i.sessions only for sessions marked deleted, only in MaybeDeleteSession
	for _, fi := range c.P.FuncsIn("ircserver") {
		if fi.Body() == nil {
			continue
		}
		info := fi.Info()
		g := c.Graph(fi)
		for _, v := range g.Nodes() {
			es, ok := v.Node.(*ast.ExprStmt)
			if !ok {
				continue
			}
			call, ok := es.X.(*ast.CallExpr)
			if !ok || astx.Builtin(info, call) != "delete" || len(call.Args) != 2 {
				continue
			}
			sel, ok := ast.Unparen(call.Args[0]).(*ast.SelectorExpr)
			if !ok || astx.FieldSel(info, sel) != sessions {
				continue
			}
			okD := false
			for _, f := range g.FactsAt(v.ID) {
				if f.Tag == nil && f.Val {
					if s2, ok := ast.Unparen(f.Expr).(*ast.SelectorExpr); ok && astx.FieldSel(info, s2) == deleted {
						okD = true
					}
				}
			}
			r.Check(okD, "C17.Y4", fi.Name(), "removes only sessions marked deleted", c.P.Pos(call.Pos()), "dominated by <session>.deleted",
				"a session is removed from the session table without having gone through deleteSessionLocked (nick and memberships would dangle), or a live session is removed")
		}
	}
	// MaybeDeleteSession's sweep covers every role that can end somebody else's session
	if mds := c.MustFunc("ircserver.(*IRCServer).MaybeDeleteSession"); mds != nil {
		f := c.irc()
		needOper, needServer := false, false
		for _, fi := range c.P.FuncsIn("ircserver") {
			if fi.Body() == nil {
				continue
			}
			sp := f.sessionParam(fi)
			for _, dc := range callsIn(fi, func(fn *types.Func, _ *ast.CallExpr) bool { return fn == dsl.Obj }) {
				if len(dc.Args) == 0 {
					continue
				}
				if id, ok := ast.Unparen(dc.Args[0]).(*ast.Ident); ok && sp != nil && astx.Obj(fi.Info(), id) == sp {
					continue // ends the acting session itself
				}
				if f.CReach[fi] {
					needOper = true
				}
				if f.SReach[fi] {
					needServer = true
				}
			}
		}
		info := mds.Info()
		g := c.Graph(mds)
		// the sweep: a range over i.sessions deleting entries marked deleted
		var sweep *ast.RangeStmt
		ast.Inspect(mds.Body(), func(n ast.Node) bool {
			if rs, ok := n.(*ast.RangeStmt); ok {
				if se, ok := ast.Unparen(rs.X).(*ast.SelectorExpr); ok && astx.FieldSel(info, se) == sessions {
					sweep = rs
				}
			}
			return true
		})
		if sweep == nil {
			r.Fail("C17.Y4", mds.Name(), "sweep over all sessions", c.P.Pos(mds.Node().Pos()), "MaybeDeleteSession has no sweep over all sessions: sessions ended by somebody else (KILL, services) are never removed")
		} else {
			v := g.VertexOf(sweep.X)
			hasOper, hasServer, guarded := false, false, false
			for _, cl := range c.clausesAt(mds, g, v) {
				allRole := len(cl) > 0
				o, s2 := false, false
				for _, l := range cl {
					se, ok := ast.Unparen(l.E).(*ast.SelectorExpr)
					if !ok || !l.Pos {
						allRole = false
						break
					}
					switch se.Sel.Name {
					case "Operator":
						o = true
					case "Server":
						s2 = true
					default:
						allRole = false
					}
				}
				if allRole {
					guarded, hasOper, hasServer = true, o, s2
				}
			}
			// nothing else decides whether the sweep runs: in particular not whether the acting session itself is marked
			// deleted (a services link that quits ends its pseudo-clients and itself in one entry)
			extra := ""
			for _, cond := range g.CondsAt(v) {
				if cond.Tag != nil {
					extra = astx.Str(cond.Expr)
					continue
				}
				okCond := true
				ast.Inspect(cond.Expr, func(n ast.Node) bool {
					if se, ok := n.(*ast.SelectorExpr); ok {
						if _, isField := info.Selections[se]; isField && se.Sel.Name != "Operator" && se.Sel.Name != "Server" {
							okCond = false
						}
					}
					if call, ok := n.(*ast.CallExpr); ok && astx.Builtin(info, call) == "" {
						okCond = false
					}
					return true
				})
				if !okCond {
					extra = astx.Str(cond.Expr)
				}
			}
			r.Check(extra == "", "C17.Y4", mds.Name(), "the sweep depends only on the acting session's role", c.P.Pos(sweep.Pos()), "dominating conditions: look-up succeeded, s.Server || s.Operator",
				"whether sessions marked deleted are swept depends on a further condition ("+extra+"): e.g. when the acting services link is itself marked deleted the function returns before the sweep, and the pseudo-clients it ended stay in the session table and in snapshots")
			// every dominating condition holds in its positive sense: the look-up succeeded, the role test is true
			negated := ""
			for _, cl := range c.clausesAt(mds, g, v) {
				for _, l := range cl {
					if !l.Pos {
						negated = "!" + astx.Str(l.E)
					}
				}
			}
			r.Check(negated == "", "C17.Y4", mds.Name(), "the sweep runs when the look-up succeeded and the role test holds", c.P.Pos(sweep.Pos()), "no dominating condition is taken on its false edge",
				"the sweep of sessions marked deleted sits on the false edge of "+negated+": it runs for ordinary users and not for operators / services (or only when the acting session is unknown), so sessions ended by KILL or by services stay in the session table with a working secret")
			okCover := !guarded || ((!needOper || hasOper) && (!needServer || hasServer))
			r.Check(okCover, "C17.Y4", mds.Name(), "sweep runs for every role that can end another session", c.P.Pos(sweep.Pos()), "guard covers s.Operator (KILL) and s.Server (services)",
				"MaybeDeleteSession sweeps sessions marked deleted only for some of the roles that can end somebody else's session: a session killed by the uncovered role stays in the session table, keeps its secret valid and is written into snapshots")
		}
	}
	// the acting session itself leaves the table when it was marked deleted: MaybeDeleteSession removes the entry under its
	// own parameter on the edge <looked-up session>.deleted
	if mds := c.P.Func("ircserver.(*IRCServer).MaybeDeleteSession"); mds != nil && mds.Body() != nil {
		info := mds.Info()
		g := c.Graph(mds)
		var param types.Object
		for _, fld := range mds.FuncType().Params.List {
			for _, nm := range fld.Names {
				param = info.Defs[nm]
			}
		}
		okOwn := false
		for _, v := range g.Nodes() {
			for _, call := range astx.Calls(v.Node, false) {
				if astx.Builtin(info, call) != "delete" || len(call.Args) != 2 {
					continue
				}
				sel, ok := ast.Unparen(call.Args[0]).(*ast.SelectorExpr)
				if !ok || astx.FieldSel(info, sel) != sessions {
					continue
				}
				if id, ok := ast.Unparen(call.Args[1]).(*ast.Ident); ok && astx.Obj(info, id) == param {
					// under <s>.deleted (true) and the successful look-up, nothing negated
					pos := true
					for _, cl := range c.clausesAt(mds, g, v.ID) {
						for _, l := range cl {
							if !l.Pos {
								pos = false
							}
						}
					}
					if pos {
						okOwn = true
					}
				}
			}
		}
		r.Check(okOwn, "C17.Y4", mds.Name(), "the acting session is removed once it is marked deleted", c.P.Pos(mds.Node().Pos()), "delete(i.sessions, <parameter>) under <session>.deleted",
			"MaybeDeleteSession no longer removes the acting session when it was marked deleted (QUIT, ping timeout, DELETE request): the ended session stays in the session table, its secret keeps working and it is written into snapshots")
	}
	// Y2c: "no such session" and "not yet seen" are decided in one place (getSessionLocked, which compares the asked id with
	// the last processed one); no other function of the IRC server returns these errors by itself
	{
		n := 0
		for _, fi := range c.P.FuncsIn("ircserver") {
			if fi.Body() == nil {
				continue
			}
			info := fi.Info()
			for _, rv := range c.Graph(fi).Returns() {
				rs := rv.Node.(*ast.ReturnStmt)
				for _, res := range rs.Results {
					if refersTo(info, res, pathIrcsrv, "ErrNoSuchSession") || refersTo(info, res, pathIrcsrv, "ErrSessionNotYetSeen") {
						n++
						r.Check(fi.Name() == "ircserver.(*IRCServer).getSessionLocked", "C17.Y2", fi.Name(), "the verdict on an unknown session id is given by getSessionLocked only", c.P.Pos(rs.Pos()), "the one place that compares with lastProcessed",
							"a look-up answers 'no such session' by itself, without the comparison with the last processed id: a follower that has not applied the session's creation yet tells the client its live session is gone (404) instead of 'not yet seen'")
					}
				}
			}
		}
		if n < 2 {
			r.Break("C17.Y2: only %d returns of the session-lookup errors found", n)
		}
	}
	// a session that never registered can still be ended: QUIT (the line a DeleteSession entry is processed as) is among the
	// commands ProcessMessage lets through before registration
	{
		pre := c.preRegistrationCommands(c.irc())
		pos := "-"
		if f := c.irc(); f.PM != nil {
			pos = c.P.Pos(f.PM.Node().Pos())
		}
		if len(pre) >= 3 {
			r.Check(pre["QUIT"], "C17.Y4", "ircserver.(*IRCServer).ProcessMessage", "QUIT is processed for sessions that have not registered", pos, "QUIT among the pre-registration commands",
				"QUIT is refused with 'You have not registered' for a session that has not completed NICK/USER: a DELETE request, /kill or the expiry sweep for such a session is answered with success but the session stays in the table, its secret keeps working and the sweep proposes it again every round")
		} else {
			r.Break("C17.Y4: the pre-registration gate of ProcessMessage was not recognised (%d commands)", len(pre))
		}
	}
	// the "not yet seen" answer of GetSession compares the asked id with lastProcessed: SetLastProcessed stores its argument
	if slp := c.MustFunc("ircserver.(*IRCServer).SetLastProcessed"); slp != nil && slp.Body() != nil {
		info := slp.Info()
		lpF := c.P.Field("ircserver", "IRCServer", "lastProcessed")
		var param types.Object
		for _, fld := range slp.FuncType().Params.List {
			for _, nm := range fld.Names {
				param = info.Defs[nm]
			}
		}
		okSet := false
		ast.Inspect(slp.Body(), func(n ast.Node) bool {
			if as, ok := n.(*ast.AssignStmt); ok && len(as.Lhs) == 1 && len(as.Rhs) == 1 {
				if se, ok := ast.Unparen(as.Lhs[0]).(*ast.SelectorExpr); ok && lpF != nil && astx.FieldSel(info, se) == lpF {
					if id, ok := ast.Unparen(as.Rhs[0]).(*ast.Ident); ok && astx.Obj(info, id) == param {
						okSet = true
					}
				}
			}
			return true
		})
		r.Check(okSet, "C17.Y2", slp.Name(), "the last processed id is recorded", c.P.Pos(slp.Node().Pos()), "i.lastProcessed = <parameter>",
			"SetLastProcessed no longer stores the id: GetSession answers 'not yet seen' for every session id above the stale value for ever, so requests for ended sessions are proxied / retried instead of refused with 404")
	}
	// who ends sessions: listed for evidence
	var enders []string
	for _, fi := range c.P.AllFuncs {
		if len(callsIn(fi, func(fn *types.Func, _ *ast.CallExpr) bool { return fn == dsl.Obj })) > 0 {
			enders = append(enders, fi.Name())
		}
	}
	r.Extra["callers_of_deleteSessionLocked"] = enders

	// ---------- Y5
	for _, fi := range c.P.FuncsIn("ircserver") {
		calls := callsIn(fi, func(fn *types.Func, _ *ast.CallExpr) bool { return fn == dsl.Obj })
		if len(calls) == 0 || fi.Body() == nil {
			continue
		}
		info := fi.Info()
		g := c.Graph(fi)
		for _, dc := range calls {
			if len(dc.Args) < 1 {
				continue
			}
			dv := g.VertexOf(dc)
			for _, sc := range callsIn(fi, func(fn *types.Func, _ *ast.CallExpr) bool { return fname(fn) == "sendUser" }) {
				if len(sc.Args) < 3 || !astx.Same(info, sc.Args[0], dc.Args[0]) {
					continue
				}
				sv := g.VertexOf(sc)
				if sv == dv || !g.DominatedBy(sv, func(x *cfgx.Vertex) bool { return x.ID == dv }) {
					continue
				}
				cmd := ""
				var lit *ast.CompositeLit
				ast.Inspect(sc.Args[2], func(n ast.Node) bool {
					if cl, ok := n.(*ast.CompositeLit); ok && lit == nil {
						lit = cl
					}
					return lit == nil
				})
				if lit != nil {
					if cv := litField(lit, "Command"); cv != nil {
						if s, ok := astx.ConstString(info, cv); ok {
							cmd = s
						}
					}
				}
				ok := cmd == "ERROR" || cmd == "KILL"
				r.Check(ok, "C17.Y5", fi.Name(), "after deleteSessionLocked only ERROR/KILL goes to the closed session", c.P.Pos(sc.Pos()), "Command "+cmd,
					"a message other than the closing ERROR/KILL is addressed to a session after it was ended (command "+cmd+")")
			}
		}
	}
	// ---------- Y2b the two look-up errors are told apart by identity in the API: they arrive there as GetSession made them
	if k := c.errorIdentity("C17.Y2", []string{"api", "main", "ircserver"}, func(s string) bool {
		return strings.Contains(s, "ErrSessionNotYetSeen") || strings.Contains(s, "ErrNoSuchSession")
	},
		"'not yet seen' is then taken for 'no such session': a lagging follower answers 404 and the client gives its live session up"); k < 1 {
		r.Break("C17.Y2: only %d comparisons with the session look-up errors found", k)
	}
	// ---------- Y6 an end that is announced happens: a session whose QUIT is relayed to its peers, or that is sent the closing
	// ERROR line, is ended by deleteSessionLocked on every path through the announcement (before or after it)
	nAnn := 0
	for _, fi := range c.P.FuncsIn("ircserver") {
		if fi.Body() == nil || fi == dsl {
			continue
		}
		info := fi.Info()
		var g *cfgx.Graph
		for _, sc := range astx.Calls(fi.Body(), true) {
			fn := astx.Callee(info, sc)
			if fn == nil || (fname(fn) != "sendUser" && fname(fn) != "sendCommonChannels") || len(sc.Args) < 3 {
				continue
			}
			var lit *ast.CompositeLit
			ast.Inspect(sc.Args[2], func(n ast.Node) bool {
				if cl, ok := n.(*ast.CompositeLit); ok && lit == nil {
					lit = cl
				}
				return lit == nil
			})
			if lit == nil {
				continue
			}
			cmd := ""
			if cv := litField(lit, "Command"); cv != nil {
				cmd, _ = astx.ConstString(info, cv)
			}
			what := ""
			switch {
			case fname(fn) == "sendCommonChannels" && cmd == "QUIT":
				what = "QUIT relayed to the peers of " + astx.Str(sc.Args[0])
			case fname(fn) == "sendUser" && cmd == "ERROR":
				// the closing line (the password refusal of SERVER is an ERROR too, but does not close the link)
				closing := false
				ast.Inspect(lit, func(n ast.Node) bool {
					if e, ok := n.(ast.Expr); ok {
						if s, ok := astx.ConstString(info, e); ok && strings.Contains(s, "Closing Link") {
							closing = true
						}
					}
					return true
				})
				if !closing {
					continue
				}
				what = "closing ERROR sent to " + astx.Str(sc.Args[0])
			default:
				continue
			}
			if g == nil {
				g = c.Graph(fi)
			}
			sv := g.VertexOf(sc)
			if sv < 0 {
				continue
			}
			nAnn++
			isDel := func(x int) bool {
				if x == sv || g.V[x].Node == nil {
					return false
				}
				for _, dc := range astx.Calls(g.V[x].Node, false) {
					if astx.Callee(info, dc) == dsl.Obj && len(dc.Args) >= 1 && astx.Same(info, dc.Args[0], sc.Args[0]) {
						return true
					}
				}
				return false
			}
			// a path entry -> announcement -> exit that passes no deletion of that session
			before := false
			{
				seen := g.Reach(g.Entry, isDel, nil)
				before = !seen[sv]
			}
			after := !g.Reach(sv, isDel, nil)[g.Exit]
			r.Check(before || after, "C17.Y6", fi.Name(), what+": the session is ended on every path", c.P.Pos(sc.Pos()), "deleteSessionLocked(<same session>, …) before or after, on every path",
				"peers are told that the session quit (or the session is told that its link is closed) but the session is not ended on some path: it keeps its nickname and its channels and goes on receiving — ended for everybody else, alive in the state")
		}
	}
	// the QUIT handlers end the quitting session itself: cmdQuit always, server_QUIT when the line carries no prefix (with a
	// prefix it ends the one pseudo-client named, which the loop above covers)
	for _, name := range []string{"ircserver.(*IRCServer).cmdQuit", "ircserver.(*IRCServer).cmdServerQuit"} {
		fi := c.P.Func(name)
		if fi == nil || fi.Body() == nil {
			r.Break("C17.Y6: %s not found", name)
			continue
		}
		info := fi.Info()
		sp := c.irc().sessionParam(fi)
		g := c.Graph(fi)
		okOwn := false
		for _, dc := range callsIn(fi, func(fn *types.Func, _ *ast.CallExpr) bool { return fn == dsl.Obj }) {
			if len(dc.Args) < 1 {
				continue
			}
			id, isID := ast.Unparen(dc.Args[0]).(*ast.Ident)
			if !isID || sp == nil || astx.Obj(info, id) != sp {
				continue
			}
			only := true
			for _, f := range g.FactsAt(g.VertexOf(dc)) {
				x, isNil, ok := nilCompare(info, f)
				if !ok || !isNil {
					only = false
					continue
				}
				if se, ok := ast.Unparen(x).(*ast.SelectorExpr); !ok || se.Sel.Name != "Prefix" {
					only = false
				}
			}
			if only {
				okOwn = true
			}
		}
		r.Check(okOwn, "C17.Y6", fi.Name(), "QUIT ends the quitting session", c.P.Pos(fi.Node().Pos()), "deleteSessionLocked(<acting session>, …), at most under <msg>.Prefix == nil",
			"the QUIT handler does not end the session that quits (or only under a further condition): the session stays in the state after its QUIT")
	}
	// a session that ProcessMessage itself ended (ban, not registered in time) has its line dropped: the command handler is not
	// reachable from the deletion — a handler that runs for a session that is already out of the nickname index and the
	// channels re-enters it there (a NICK takes a nickname that is then never free again)
	if pm := c.P.Func("ircserver.(*IRCServer).ProcessMessage"); pm != nil && pm.Body() != nil {
		info := pm.Info()
		g := c.Graph(pm)
		// the dispatch: a call through a struct field of function type (cmd.Func(i, s, reply, msg))
		var dispatch []int
		for _, v := range g.Nodes() {
			for _, call := range astx.Calls(v.Node, false) {
				if se, ok := ast.Unparen(call.Fun).(*ast.SelectorExpr); ok {
					if fv := astx.FieldSel(info, se); fv != nil {
						if _, isFn := fv.Type().Underlying().(*types.Signature); isFn {
							dispatch = append(dispatch, v.ID)
						}
					}
				}
			}
		}
		if len(dispatch) == 0 {
			r.Break("C17.Y6: the command dispatch of ProcessMessage was not recognised")
		}
		for _, dc := range callsIn(pm, func(fn *types.Func, _ *ast.CallExpr) bool { return fn == dsl.Obj }) {
			dv := g.VertexOf(dc)
			if dv < 0 {
				continue
			}
			reach := g.Reach(dv, nil, nil)
			hit := false
			for _, x := range dispatch {
				if reach[x] && x != dv {
					hit = true
				}
			}
			r.Check(!hit, "C17.Y6", pm.Name(), "the line of a session that was just ended is not dispatched", c.P.Pos(dc.Pos()), "the command handler is not reachable from the deletion",
				"after ProcessMessage ended the session (ban, registration time-out) it still runs the command handler for it: the dead session takes a nickname / joins a channel again and stays there for ever")
		}
	}
	if nAnn < 7 {
		r.Break("C17.Y6: only %d end-of-session announcements found in package ircserver", nAnn)
	}
	_ = strings.ToUpper
	var _ = load.ModPath
}
