package rules

import (
	"go/ast"
	"go/token"
	"go/types"
	"sort"
	"strings"

	"verif/checker/internal/astx"
	"verif/checker/internal/cfgx"
	"verif/checker/internal/load"
)

func init() { register("C01", c01) }

// extClass classifies a callee outside the module: "pure", "sink", "nondet", "time", "lock", or "" (unclassified).
func extClass(fn *types.Func) string {
	if fn.Pkg() == nil {
		return "pure" // builtins / error.Error
	}
	p := fn.Pkg().Path()
	switch {
	case p == "time":
		return "time"
	case p == "sync":
		// (a Pool hands out whichever object another goroutine, or the garbage collector, left in it)
		if rn := astx.RecvNamed(fn); rn != nil && (rn.Obj().Name() == "Cond" || rn.Obj().Name() == "WaitGroup" || rn.Obj().Name() == "Once" || rn.Obj().Name() == "Pool" || rn.Obj().Name() == "Map") {
			return "nondet"
		}
		return "lock"
	case p == "net":
		// the address parsers and the value types of package net compute from their arguments alone; everything else
		// (resolvers, dialers, listeners, interfaces) asks the host
		if rn := astx.RecvNamed(fn); rn != nil {
			switch rn.Obj().Name() {
			case "IP", "IPNet", "IPMask", "HardwareAddr":
				return "pure"
			}
			return "nondet"
		}
		switch fn.Name() {
		case "ParseIP", "ParseCIDR", "ParseMAC", "JoinHostPort", "SplitHostPort", "IPv4", "CIDRMask", "IPv4Mask":
			return "pure"
		}
		return "nondet"
	case p == "net/netip":
		return "pure"
	case p == "sync/atomic", p == "math/rand", p == "math/rand/v2", p == "crypto/rand", p == "os", p == "os/exec", p == "os/signal", p == "os/user", p == "runtime", p == "net/http", p == "syscall", p == "io/ioutil", p == "context":
		return "nondet"
	case p == "log", strings.HasSuffix(p, "/glog"), strings.HasPrefix(p, "github.com/prometheus/"), p == "github.com/hashicorp/go-metrics":
		return "sink"
	case p == "strings", p == "strconv", p == "sort", p == "slices", p == "unicode", p == "unicode/utf8", p == "bytes", p == "fmt", p == "regexp", p == "errors", p == "math", p == "hash", p == "hash/fnv", p == "net/url",
		strings.HasPrefix(p, "encoding/"), p == "crypto/hmac", p == "crypto/sha256", p == "crypto/subtle",
		p == "gopkg.in/sorcix/irc.v2", strings.HasPrefix(p, "github.com/golang/protobuf"), strings.HasPrefix(p, "google.golang.org/protobuf"), p == "github.com/BurntSushi/toml":
		return "pure"
	case p == "maps":
		return "nondet" // maps.Keys/Values iterate in map order
	case strings.HasPrefix(p, "github.com/syndtr/goleveldb"):
		return "store"
	}
	return ""
}

// zone-dependent or clock-reading members of package time
var timeForbidden = map[string]bool{"Now": true, "Since": true, "Until": true, "After": false, "Tick": true, "NewTimer": true, "NewTicker": true, "Sleep": true, "AfterFunc": true, "Local": true, "LoadLocation": true}
var timeZoneDependent = map[string]bool{"Format": true, "String": true, "Date": true, "Clock": true, "Local": true, "Weekday": true, "Year": true, "Month": true, "Day": true, "Hour": true, "Minute": true, "YearDay": true, "ISOWeek": true, "Zone": true, "In": true, "AppendFormat": true, "GoString": true, "MarshalText": true, "MarshalJSON": true}

func c01(c *Ctx) {
	r := c.R
	f := c.irc()
	if len(r.Broken) > 0 {
		return
	}
	r.Explanation = "A sufficient static condition (non-interference): no source of nondeterminism is reachable from the state-machine step. Scope = call closure of FSM.applyRobustMessage including every registered command handler, restricted to the module. (R1) every range over a map in scope has an order-insensitive body by one of five recognised idioms (collect-then-sort, set building, per-iteration object, commutative flag, unique match by key) or is a listed exception with its reason; (R2) no callee reads a clock, randomness, the environment or the scheduler; zone-dependent time methods only on a UTC() receiver; every external callee is classified; (R3) package-level variables read in scope are written only by initialisers; (R4) reply ids are written only by ProcessMessage/send and the server creation time is read only for numeric 003; (R5) no goroutines, channels, select or atomics in scope; (R6) no pointer formatting. If every obligation is discharged two executions of the same entry sequence cannot differ, modulo the trusted classification of third-party callees."
	r.Rules = []string{"C01.R1 map order", "C01.R2 clock, zone, randomness, environment", "C01.R3 ambient state", "C01.R4 id derivation", "C01.R5 no concurrency in the step", "C01.R6 representation leaks"}

	arm := c.MustFunc("main.(*FSM).applyRobustMessage")
	if arm == nil {
		return
	}
	roots := []*load.FuncInfo{arm}
	for _, e := range f.Registry {
		if e.Handler != nil && !e.TestingOnly {
			roots = append(roots, e.Handler)
		}
	}
	all := c.closure(roots)
	scope := map[*load.FuncInfo]bool{}
	for fi := range all {
		switch load.ShortPkg(fi.Pkg.PkgPath) {
		case "ircserver", "robust", "config":
			scope[fi] = true
		case "main":
			if fi == arm || fi.Name() == "main.sendMessages" {
				scope[fi] = true
			}
		}
	}
	stepOnly := map[*load.FuncInfo]bool{}
	for fi := range scope {
		stepOnly[fi] = true
	}
	// state must be indistinguishable after save + load
	for _, n := range []string{"ircserver.(*IRCServer).Marshal", "ircserver.(*IRCServer).Unmarshal"} {
		if fi := c.P.Func(n); fi != nil {
			for x := range c.closure([]*load.FuncInfo{fi}) {
				if strings.HasPrefix(x.Pkg.PkgPath, load.ModPath) && load.ShortPkg(x.Pkg.PkgPath) != "proto" {
					scope[x] = true
				}
			}
		}
	}
	fns := sortedFuncs(scope)
	r.Functions = len(fns)
	var names []string
	for _, fi := range fns {
		names = append(names, fi.Name())
	}
	r.Extra["scope"] = names
	if len(fns) < 70 {
		r.Break("FSM-reachable scope has only %d functions (expected >= 70): call-graph closure is incomplete", len(fns))
	}

	// order-sensitive callees: functions whose closure reaches send() (appends to the reply and advances reply ids)
	// or appends to a slice-typed struct field
	sensitive := map[*load.FuncInfo]string{}
	for _, fi := range fns {
		if fi == f.send {
			sensitive[fi] = "appends to Replyctx.Messages and advances replyid"
		}
		if fi.Body() == nil {
			continue
		}
		info := fi.Info()
		ast.Inspect(fi.Body(), func(n ast.Node) bool {
			as, ok := n.(*ast.AssignStmt)
			if !ok || len(as.Lhs) != 1 || len(as.Rhs) != 1 {
				return true
			}
			if call, ok := ast.Unparen(as.Rhs[0]).(*ast.CallExpr); ok && astx.Builtin(info, call) == "append" {
				if se, ok := ast.Unparen(as.Lhs[0]).(*ast.SelectorExpr); ok && astx.FieldSel(info, se) != nil {
					if sensitive[fi] == "" {
						sensitive[fi] = "appends to field " + se.Sel.Name
					}
				}
			}
			return true
		})
	}
	for changed := true; changed; {
		changed = false
		for _, fi := range fns {
			if sensitive[fi] != "" {
				continue
			}
			for _, cal := range c.callees(fi) {
				if why := sensitive[cal]; why != "" {
					sensitive[fi] = "calls " + shortName(cal) + " (" + why + ")"
					changed = true
					break
				}
			}
		}
	}

	exceptionsR1 := map[string]string{
		"ircserver.(*IRCServer).cmdServerKill": "first match by a predicate on session.Nick; unique because nicknames are unique (C14), so at most one iteration acts",
		"ircserver.(*IRCServer).cmdServerQuit": "prefix branch: first match by a predicate on session.Nick; unique because nicknames are unique (C14)",
		"ircserver.(*IRCServer).Marshal":       "order of the snapshot's repeated fields reaches only Unmarshal, which inserts into maps (its loops are checked here as well)",
	}

	// ---------- R1
	for _, fi := range fns {
		if fi.Body() == nil {
			continue
		}
		info := fi.Info()
		g := c.Graph(fi)
		ast.Inspect(fi.Body(), func(n ast.Node) bool {
			rs, ok := n.(*ast.RangeStmt)
			if !ok {
				return true
			}
			tv, ok := info.Types[rs.X]
			if !ok {
				return true
			}
			if _, isMap := tv.Type.Underlying().(*types.Map); !isMap {
				return true
			}
			construct := "range over map " + astx.Str(rs.X)
			pos := c.P.Pos(rs.Pos())
			ok2, why, detail := c.orderInsensitive(fi, g, rs, sensitive)
			if ok2 {
				r.Ok("C01.R1", fi.Name(), construct, pos, why)
				return true
			}
			if reason, isExc := exceptionsR1[fi.Name()]; isExc && c.firstMatchLoop(fi, rs) {
				r.Except("C01.R1", fi.Name(), construct, pos, reason)
				return true
			}
			// the same exception wherever the loop lives (a look-up helper shared by the two handlers): a first-match loop over
			// sessions whose predicate pins the session's nickname to a loop-invariant value
			if c.firstMatchLoop(fi, rs) && matchesByNick(info, rs) {
				r.Except("C01.R1", fi.Name(), construct, pos, "first match by a predicate on the session's nickname; unique because nicknames are unique (C14), so at most one iteration acts")
				return true
			}
			if fi.Name() == "ircserver.(*IRCServer).Marshal" {
				r.Except("C01.R1", fi.Name(), construct, pos, exceptionsR1[fi.Name()])
				return true
			}
			r.Fail("C01.R1", fi.Name(), construct, pos, "the loop body has an effect that depends on Go's randomized map iteration order: "+detail+" — two replicas applying the same entry produce different output / state")
			return true
		})
	}
	r.Floor("C01.R1", 20)
	// order-carrying state fed from a map order: serverSessions is rebuilt in snapshot order -> all readers must be order-insensitive
	if ss := f.fServerSessions; ss != nil {
		for _, rd := range c.readersOf(ss) {
			switch rd.Name() {
			case "ircserver.(*IRCServer).sendServices", "ircserver.(*IRCServer).cmdServer", "ircserver.(*IRCServer).Unmarshal":
				r.Ok("C01.R1", rd.Name(), "reads serverSessions (order fed from snapshot order)", c.P.Pos(c.funcFlow(rd).readPos[ss]), "set building / append only")
			default:
				r.Fail("C01.R1", rd.Name(), "reads serverSessions (order fed from snapshot order)", c.P.Pos(c.funcFlow(rd).readPos[ss]), "serverSessions is rebuilt in map order on snapshot load; a reader that depends on its order makes restored replicas differ")
			}
		}
	}

	// ---------- R2 / R5 / R6
	unclassified := map[string]bool{}
	for _, fi := range fns {
		if fi.Body() == nil {
			continue
		}
		info := fi.Info()
		ast.Inspect(fi.Body(), func(n ast.Node) bool {
			switch x := n.(type) {
			case *ast.GoStmt:
				r.Fail("C01.R5", fi.Name(), "go statement", c.P.Pos(x.Pos()), "a goroutine is started inside the state-machine step: its effects are ordered by the scheduler")
			case *ast.SelectStmt:
				r.Fail("C01.R5", fi.Name(), "select statement", c.P.Pos(x.Pos()), "a select inside the state-machine step picks a ready case pseudo-randomly")
			case *ast.SendStmt:
				r.Fail("C01.R5", fi.Name(), "channel send", c.P.Pos(x.Pos()), "channel communication inside the state-machine step")
			case *ast.UnaryExpr:
				if x.Op == token.ARROW {
					r.Fail("C01.R5", fi.Name(), "channel receive", c.P.Pos(x.Pos()), "channel communication inside the state-machine step")
				}
			case *ast.CallExpr:
				fn := astx.Callee(info, x)
				if fn == nil || c.P.FuncOf(fn) != nil {
					return true
				}
				if fn.Pkg() != nil && strings.HasPrefix(fn.Pkg().Path(), load.ModPath) {
					return true // generated protobuf accessors etc.
				}
				cls := extClass(fn)
				name := load.FuncName(fn)
				if cls == "" && fn.Pkg() != nil && fn.Pkg().Path() == "io" {
					// hash.Hash embeds io.Writer: feeding bytes into a hash is pure
					if se, ok := ast.Unparen(x.Fun).(*ast.SelectorExpr); ok {
						if tv, ok := info.Types[se.X]; ok {
							if nt := astx.NamedOf(tv.Type); nt != nil && nt.Obj().Pkg() != nil && (nt.Obj().Pkg().Path() == "hash" || strings.HasPrefix(nt.Obj().Pkg().Path(), "crypto/")) {
								cls = "pure"
							}
						}
					}
				}
				switch cls {
				case "":
					unclassified[name] = true
					r.Fail("C01.R2", fi.Name(), "call of unclassified external function "+name, c.P.Pos(x.Pos()), "the callee is outside the classification table of DESIGN.md section 2; it has to be classified (pure / sink / nondeterministic) before the step can be called deterministic")
				case "nondet", "store":
					if fi.Name() == "main.sendMessages" && cls == "store" {
						return true
					}
					if cls == "nondet" && fn.Pkg().Path() == "os" && fi.Decl != nil && fi.Decl.Name.Name == "init" {
						return true
					}
					r.Fail("C01.R2", fi.Name(), "call of "+name, c.P.Pos(x.Pos()), "a nondeterministic source ("+fn.Pkg().Path()+") is called inside the state-machine step: the result differs between replicas / runs")
				case "time":
					nm := fname(fn)
					if astx.RecvNamed(fn) == nil {
						// package-level function
						if timeForbidden[nm] || nm == "After" {
							r.Fail("C01.R2", fi.Name(), "call of time."+nm, c.P.Pos(x.Pos()), "the wall clock / a timer is read inside the state-machine step: timestamps must derive from the entry (msg.Timestamp(), Session.LastActivity)")
							return true
						}
					} else if astx.RecvNamed(fn).Obj().Name() == "Time" && timeZoneDependent[nm] {
						okUTC := false
						if se, ok := ast.Unparen(x.Fun).(*ast.SelectorExpr); ok {
							if rc, ok := ast.Unparen(se.X).(*ast.CallExpr); ok {
								if rf := astx.Callee(info, rc); rf != nil && rf.Name() == "UTC" {
									okUTC = true
								}
							}
						}
						if !okUTC {
							r.Fail("C01.R2", fi.Name(), "zone-dependent time method "+nm, c.P.Pos(x.Pos()), "Time."+nm+" depends on the process's time zone unless applied to t.UTC(): replicas in different zones produce different bytes")
							return true
						}
					}
				}
				// R6: pointer / func / chan arguments to fmt
				if fn.Pkg() != nil && fn.Pkg().Path() == "fmt" {
					for _, a := range x.Args {
						if tv, ok := info.Types[a]; ok {
							switch tv.Type.Underlying().(type) {
							case *types.Pointer, *types.Chan, *types.Signature:
								if !astx.IsNamed(tv.Type, pathProto, "RaftLog") {
									r.Fail("C01.R6", fi.Name(), "fmt argument "+astx.Str(a)+" of pointer/func/chan type", c.P.Pos(a.Pos()), "formatting a pointer prints an address, which differs between processes")
								}
							}
						}
					}
					if len(x.Args) > 0 {
						if s, ok := astx.ConstString(info, x.Args[0]); ok && strings.Contains(s, "%p") {
							r.Fail("C01.R6", fi.Name(), "%p in a format string", c.P.Pos(x.Pos()), "formatting with %p prints an address")
						}
					}
				}
			}
			return true
		})
	}
	nCalls := 0
	for _, fi := range fns {
		if fi.Body() != nil {
			nCalls += len(astx.Calls(fi.Body(), true))
		}
	}
	r.Ok("C01.R2", "scope", "external callees classified", "-", itoa(nCalls)+" call sites in "+itoa(len(fns))+" functions inspected; no clock, randomness, environment or scheduler dependence")
	r.Ok("C01.R5", "scope", "no goroutines, channels, select", "-", itoa(len(fns))+" functions inspected")
	r.Ok("C01.R6", "scope", "no pointer formatting", "-", itoa(len(fns))+" functions inspected")

	// ---------- R3b node-local fields: a field of the replicated structs that is also written by code outside the step (the
	// HTTP handlers' throttling and activity bookkeeping) holds a value that differs between nodes; the step must not read it
	{
		inScope := map[*load.FuncInfo]bool{}
		for _, fi := range fns {
			inScope[fi] = true
		}
		// constructors and loaders run as part of (re)building the replicated state
		for _, n := range []string{"ircserver.NewIRCServer"} {
			if fi := c.P.Func(n); fi != nil {
				inScope[fi] = true
			}
		}
		type acc struct {
			fi  *load.FuncInfo
			pos token.Pos
		}
		writes := map[*types.Var][]acc{}
		reads := map[*types.Var][]acc{}
		owners := map[string]bool{"Session": true, "channel": true, "IRCServer": true}
		for _, fi := range c.P.FuncsIn("ircserver") {
			if fi.Body() == nil {
				continue
			}
			info := fi.Info()
			lhs := map[ast.Node]bool{}
			ast.Inspect(fi.Body(), func(n ast.Node) bool {
				switch x := n.(type) {
				case *ast.AssignStmt:
					for _, l := range x.Lhs {
						e := ast.Unparen(l)
						for {
							if ie, ok := e.(*ast.IndexExpr); ok {
								e = ast.Unparen(ie.X)
								continue
							}
							break
						}
						if se, ok := e.(*ast.SelectorExpr); ok {
							lhs[se] = true
							// a field of a local struct VALUE (copied := *session; copied.X = …) is not the shared field
							if xid, ok := ast.Unparen(se.X).(*ast.Ident); ok {
								if xv, ok := astx.Obj(info, xid).(*types.Var); ok && !xv.IsField() {
									if _, isPtr := xv.Type().Underlying().(*types.Pointer); !isPtr {
										if _, isStruct := xv.Type().Underlying().(*types.Struct); isStruct {
											continue
										}
									}
								}
							}
							if fv := astx.FieldSel(info, se); fv != nil {
								if x.Tok == token.ASSIGN || x.Tok == token.DEFINE {
									// plain assignment: a write only
								} else {
									lhs[se] = false // compound assignment reads as well
								}
								writes[fv] = append(writes[fv], acc{fi, se.Pos()})
							}
						}
					}
				case *ast.IncDecStmt:
					if se, ok := ast.Unparen(x.X).(*ast.SelectorExpr); ok {
						if fv := astx.FieldSel(info, se); fv != nil {
							writes[fv] = append(writes[fv], acc{fi, se.Pos()})
						}
					}
				}
				return true
			})
			ast.Inspect(fi.Body(), func(n ast.Node) bool {
				se, ok := n.(*ast.SelectorExpr)
				if !ok || lhs[se] {
					return true
				}
				if fv := astx.FieldSel(info, se); fv != nil {
					reads[fv] = append(reads[fv], acc{fi, se.Pos()})
				}
				return true
			})
		}
		var local []*types.Var
		for fv, ws := range writes {
			ownerName := ""
			for _, tn := range []string{"Session", "channel", "IRCServer"} {
				if nt := c.P.Named("ircserver", tn); nt != nil {
					for _, sf := range structFields(nt) {
						if sf == fv {
							ownerName = tn
						}
					}
				}
			}
			if !owners[ownerName] {
				continue
			}
			if _, isMutex := fv.Type().(*types.Pointer); isMutex && strings.Contains(fv.Type().String(), "sync.") {
				continue
			}
			outside := false
			for _, w := range ws {
				if !inScope[w.fi] {
					outside = true
				}
			}
			if outside {
				local = append(local, fv)
			}
		}
		sort.Slice(local, func(i, j int) bool { return local[i].Name() < local[j].Name() })
		var localNames []string
		for _, fv := range local {
			localNames = append(localNames, fv.Name())
			bad := token.NoPos
			where := ""
			for _, rd := range reads[fv] {
				if stepOnly[rd.fi] {
					bad, where = rd.pos, rd.fi.Name()
				}
			}
			pos := c.P.Pos(fv.Pos())
			if bad.IsValid() {
				pos = c.P.Pos(bad)
			}
			r.Check(!bad.IsValid(), "C01.R3", "scope", "field "+c.P.FieldName(fv)+" (also written outside the step) is not read by the step", pos, "no read in the FSM-reachable scope",
				"the step reads a field ("+where+") that code outside the state machine writes as well — the HTTP handlers update it on the node that receives a request, by that node's clock: its value differs between replicas, and so does the output computed from it")
		}
		r.Extra["node_local_fields"] = localNames
	}
	// ---------- R3 ambient state
	read := map[*types.Var]token.Pos{}
	for _, fi := range fns {
		if fi.Body() == nil {
			continue
		}
		info := fi.Info()
		ast.Inspect(fi.Body(), func(n ast.Node) bool {
			if id, ok := n.(*ast.Ident); ok {
				if v, ok := info.Uses[id].(*types.Var); ok && v.Pkg() != nil && v.Parent() == v.Pkg().Scope() && strings.HasPrefix(v.Pkg().Path(), load.ModPath) {
					if _, seen := read[v]; !seen {
						read[v] = id.Pos()
					}
				}
			}
			return true
		})
	}
	var gvars []*types.Var
	for v := range read {
		gvars = append(gvars, v)
	}
	sort.Slice(gvars, func(i, j int) bool { return gvars[i].Name() < gvars[j].Name() })
	for _, v := range gvars {
		name := load.ShortPkg(v.Pkg().Path()) + "." + v.Name()
		var writers []string
		for _, fi := range c.P.AllFuncs {
			if fi.Body() == nil || (fi.Decl != nil && fi.Decl.Name.Name == "init" && fi.Decl.Recv == nil) {
				continue
			}
			info := fi.Info()
			w := false
			ast.Inspect(fi.Body(), func(n ast.Node) bool {
				switch x := n.(type) {
				case *ast.AssignStmt:
					for _, l := range x.Lhs {
						if b := astx.BaseIdent(l); b != nil && info.Uses[b] == types.Object(v) {
							w = true
						}
					}
				case *ast.IncDecStmt:
					if b := astx.BaseIdent(x.X); b != nil && info.Uses[b] == types.Object(v) {
						w = true
					}
				case *ast.UnaryExpr:
					if x.Op == token.AND {
						if b := astx.BaseIdent(x.X); b != nil && info.Uses[b] == types.Object(v) {
							w = true
						}
					}
				}
				return true
			})
			if w {
				writers = append(writers, fi.Name())
			}
		}
		switch {
		case len(writers) == 0:
			r.Ok("C01.R3", "scope", "package variable "+name+" is written only by initialisers", c.P.Pos(v.Pos()), "no writer outside init")
		case name == "robust.MessageOffset":
			r.Except("C01.R3", "scope", "package variable "+name, c.P.Pos(v.Pos()), "set once from a flag before raft starts; equal network-wide by deployment ("+strings.Join(writers, ",")+")")
		case name == "main.ircServer" || name == "main.outputStream" || name == "main.ircStore":
			r.Fail("C01.R3", "scope", "package variable "+name+" read inside the step", c.P.Pos(read[v]), "the state-machine step reads a process-global that Restore replaces")
		default:
			// metrics objects: method calls on sinks are not reads of state
			if t := astx.NamedOf(v.Type()); t != nil && t.Obj().Pkg() != nil && strings.HasPrefix(t.Obj().Pkg().Path(), "github.com/prometheus/") {
				r.Ok("C01.R3", "scope", "package variable "+name+" is a metrics sink", c.P.Pos(v.Pos()), "written, never read back")
				continue
			}
			r.Fail("C01.R3", "scope", "package variable "+name+" has writers outside initialisers", c.P.Pos(read[v]), "ambient mutable state read by the step is written by "+strings.Join(writers, ", ")+": the result of an entry depends on more than the entries")
		}
	}

	// ---------- R4
	for _, fld := range []string{"msgid", "replyid"} {
		fv := c.P.Field("ircserver", "Replyctx", fld)
		if fv == nil {
			r.Break("Replyctx.%s not found", fld)
			continue
		}
		for _, w := range c.writersOf(fv) {
			ok := w.Name() == "ircserver.(*IRCServer).ProcessMessage" || w == f.send
			r.Check(ok, "C01.R4", w.Name(), "writes Replyctx."+fld, c.P.Pos(c.funcFlow(w).writePos[fv]), "ProcessMessage's literal / send()", "reply ids are written outside ProcessMessage/send: ids of the same output differ between code paths")
		}
	}
	if sc := c.P.Field("ircserver", "IRCServer", "ServerCreation"); sc != nil {
		for _, rd := range c.readersOf(sc) {
			if !scope[rd] {
				continue
			}
			ok := rd.Name() == "ircserver.(*IRCServer).maybeLogin"
			r.Check(ok, "C01.R4", rd.Name(), "reads ServerCreation", c.P.Pos(c.funcFlow(rd).readPos[sc]), "numeric 003 only (the tolerated difference)", "the per-process server creation time influences more than numeric 003")
		}
	}
	// ids and timestamps derive from the entry
	if pm := f.PM; pm != nil {
		info := pm.Info()
		ok := false
		for _, cl := range compositeLitsOf(info, pm.Body(), pathIrcsrv, "Replyctx") {
			if v := litField(cl, "msgid"); v != nil && strings.HasSuffix(astx.Str(v), ".Id.Id") {
				ok = true
			}
		}
		// reply numbers are dense: in send(), the counter is advanced only on paths that append a message (a batch is
		// numbered 1..n; the resume protocol slices a batch at Reply)
		if f.send != nil {
			si := f.send.Info()
			sg := c.Graph(f.send)
			rid := c.P.Field("ircserver", "Replyctx", "replyid")
			msgs := c.P.Field("ircserver", "Replyctx", "Messages")
			isAppend := func(x int) bool {
				as, ok := sg.V[x].Node.(*ast.AssignStmt)
				if !ok || len(as.Lhs) != 1 {
					return false
				}
				se, ok := ast.Unparen(as.Lhs[0]).(*ast.SelectorExpr)
				return ok && astx.FieldSel(si, se) == msgs && msgs != nil
			}
			nInc := 0
			for _, v := range sg.Nodes() {
				inc, ok := v.Node.(*ast.IncDecStmt)
				if !ok {
					continue
				}
				se, ok := ast.Unparen(inc.X).(*ast.SelectorExpr)
				if !ok || astx.FieldSel(si, se) != rid || rid == nil {
					continue
				}
				nInc++
				skips := false
				for _, e := range v.Succ {
					if sg.Reach(e.To, isAppend, nil)[sg.Exit] && !isAppend(e.To) {
						skips = true
					}
				}
				r.Check(!skips, "C01.R4", f.send.Name(), "the reply counter advances only when a message is appended", c.P.Pos(inc.Pos()), "replyid++ is followed by the append on every path",
					"send() advances the reply counter on a path that appends nothing (e.g. before the test for a repeated message): reply numbers inside a batch get holes, so the number of a message no longer is its position — clients that resume inside the batch lose messages")
			}
			r.Check(nInc == 1, "C01.R4", f.send.Name(), "one increment of the reply counter", c.P.Pos(f.send.Node().Pos()), itoa(nInc), "expected exactly one replyid++ in send()")
		}
		r.Check(ok, "C01.R4", pm.Name(), "reply ids derive from the entry's id", c.P.Pos(pm.Node().Pos()), "msgid: msg.Id.Id", "the reply context's msgid is not the entry's id")
	}
	var _ = cfgx.NoReturn
}

// firstMatchLoop: the loop acts on at most the first element satisfying a predicate (continue … ; act; break/return).
// lastOf: the statement a statement list ends in, looking into a trailing block (an expanded `return x` of a helper is
// `{ v = x; break L }`)
func lastOf(list []ast.Stmt) ast.Stmt {
	for len(list) > 0 {
		st := list[len(list)-1]
		if b, ok := st.(*ast.BlockStmt); ok {
			list = b.List
			continue
		}
		return st
	}
	return nil
}

func (c *Ctx) firstMatchLoop(fi *load.FuncInfo, rs *ast.RangeStmt) bool {
	// the same loop with the test the other way round: the whole body is `if <match> { …; break|return }`
	if len(rs.Body.List) == 1 {
		if ifs, ok := rs.Body.List[0].(*ast.IfStmt); ok && ifs.Else == nil && len(ifs.Body.List) >= 1 {
			switch x := lastOf(ifs.Body.List).(type) {
			case *ast.BranchStmt:
				return x.Tok == token.BREAK
			case *ast.ReturnStmt:
				return true
			}
		}
		return false
	}
	if len(rs.Body.List) < 2 {
		return false
	}
	if ifs, ok := rs.Body.List[0].(*ast.IfStmt); ok {
		if len(ifs.Body.List) == 1 {
			if b, ok := ifs.Body.List[0].(*ast.BranchStmt); ok && b.Tok == token.CONTINUE {
				switch x := lastOf(rs.Body.List).(type) {
				case *ast.BranchStmt:
					return x.Tok == token.BREAK
				case *ast.ReturnStmt:
					return true
				}
			}
		}
	}
	return false
}

// orderInsensitive decides whether the body of a range-over-map loop has only order-insensitive effects.
func (c *Ctx) orderInsensitive(fi *load.FuncInfo, g *cfgx.Graph, rs *ast.RangeStmt, sensitive map[*load.FuncInfo]string) (bool, string, string) {
	info := fi.Info()
	var keyObj, valObj types.Object
	if id, ok := rs.Key.(*ast.Ident); ok && rs.Key != nil {
		keyObj = astx.Obj(info, id)
	}
	if rs.Value != nil {
		if id, ok := rs.Value.(*ast.Ident); ok {
			valObj = astx.Obj(info, id)
		}
	}
	var collected []types.Object // local slices appended to
	idioms := map[string]bool{}
	constReturns := map[string]bool{}
	bad := ""
	localInBody := func(o types.Object) bool {
		return o != nil && o.Pos() >= rs.Body.Pos() && o.Pos() <= rs.Body.End()
	}
	// unique match by key: first statement `if <expr involving key> != <loop-invariant> { continue }`
	uniqueKey := false
	if len(rs.Body.List) > 0 {
		if ifs, ok := rs.Body.List[0].(*ast.IfStmt); ok && len(ifs.Body.List) == 1 {
			if b, ok := ifs.Body.List[0].(*ast.BranchStmt); ok && b.Tok == token.CONTINUE {
				if be, ok := ast.Unparen(ifs.Cond).(*ast.BinaryExpr); ok && be.Op == token.NEQ && keyObj != nil {
					isKey := func(e ast.Expr) bool {
						id, ok := ast.Unparen(e).(*ast.Ident)
						return ok && astx.Obj(info, id) == keyObj
					}
					if (isKey(be.X) && !astx.Mentions(info, be.Y, keyObj)) || (isKey(be.Y) && !astx.Mentions(info, be.X, keyObj)) {
						uniqueKey = true
					}
				}
			}
		}
	}
	if uniqueKey {
		return true, "unique match by key: the body is skipped unless the range key equals a loop-invariant value", ""
	}
	inlining := map[*ast.FuncLit]bool{}
	counters := map[types.Object]bool{}
	var walk func(n ast.Node)
	walk = func(n ast.Node) {
		ast.Inspect(n, func(m ast.Node) bool {
			if bad != "" {
				return false
			}
			switch x := m.(type) {
			case *ast.FuncLit:
				return false
			case *ast.ReturnStmt:
				// error exits (return …, err under err != nil) abort the whole operation; which error is reported first is not state
				if len(x.Results) > 0 {
					last := x.Results[len(x.Results)-1]
					if id, ok := ast.Unparen(last).(*ast.Ident); ok {
						if o := astx.Obj(info, id); o != nil && o.Type().String() == "error" {
							v := g.VertexOf(x)
							isErrEdge := false
							for _, fct := range g.FactsAt(v) {
								if e2, isNil, ok := nilCompare(info, fct); ok && !isNil {
									if eid, ok := ast.Unparen(e2).(*ast.Ident); ok && astx.Obj(info, eid) == o {
										isErrEdge = true
									}
								}
							}
							if isErrEdge {
								idioms["error exit"] = true
								return true
							}
						}
					}
				}
				// existential search: every result is a constant, so whichever element triggers the exit gives the same answer
				allConst := len(x.Results) > 0
				for _, res := range x.Results {
					if tv, ok := info.Types[res]; !ok || (tv.Value == nil && !tv.IsNil()) {
						allConst = false
					}
				}
				if allConst {
					var rs2 []string
					for _, res := range x.Results {
						rs2 = append(rs2, astx.Str(res))
					}
					constReturns[strings.Join(rs2, ",")] = true
					idioms["constant early exit"] = true
					return true
				}
				bad = "a return inside the loop makes the result depend on which element is visited first"
			case *ast.BranchStmt:
				if x.Tok == token.BREAK {
					// allowed only together with constant flag assignments (commutative reduction)
					idioms["break"] = true
				}
			case *ast.AssignStmt:
				for i, l := range x.Lhs {
					l = ast.Unparen(l)
					switch t := l.(type) {
					case *ast.Ident:
						o := astx.Obj(info, t)
						if localInBody(o) || x.Tok == token.DEFINE {
							continue
						}
						// append to an outer local slice: collect
						if len(x.Rhs) == len(x.Lhs) {
							if call, ok := ast.Unparen(x.Rhs[i]).(*ast.CallExpr); ok && astx.Builtin(info, call) == "append" {
								if a0, ok := ast.Unparen(call.Args[0]).(*ast.Ident); ok && astx.Obj(info, a0) == o {
									collected = append(collected, o)
									idioms["collect-then-sort"] = true
									continue
								}
							}
							// constant flag
							if tv, ok := info.Types[x.Rhs[i]]; ok && tv.Value != nil {
								idioms["commutative flag"] = true
								continue
							}
						}
						bad = "assignment to outer variable " + t.Name + " with an iteration-dependent value (last writer wins)"
					case *ast.IndexExpr:
						// map / slice element write: set building when the container is a map or the index is injective in the key
						if tv, ok := info.Types[t.X]; ok {
							switch tv.Type.Underlying().(type) {
							case *types.Map:
								idioms["set building"] = true
								continue
							case *types.Slice, *types.Array, *types.Pointer:
								idioms["per-iteration object"] = true
								continue
							}
						}
						bad = "write to " + astx.Str(l)
					case *ast.SelectorExpr:
						// field write through the range value or an object looked up per iteration
						b := astx.BaseIdent(t)
						if b != nil {
							o := astx.Obj(info, b)
							if o == valObj || localInBody(o) {
								idioms["per-iteration object"] = true
								continue
							}
						}
						bad = "write to " + astx.Str(l) + " (shared object, last writer wins)"
					}
				}
			case *ast.IncDecStmt:
				if b := astx.BaseIdent(x.X); b != nil && !localInBody(astx.Obj(info, b)) {
					// counting: an integer local of the function that the loop only increments or decrements (checked
					// after the walk: no other mention in the body) — integer addition does not care about the order
					if id, isID := ast.Unparen(x.X).(*ast.Ident); isID {
						if v, isVar := astx.Obj(info, id).(*types.Var); isVar && !v.IsField() && v.Parent() != nil && v.Parent() != v.Pkg().Scope() {
							if bt, isB := v.Type().Underlying().(*types.Basic); isB && bt.Info()&types.IsInteger != 0 {
								counters[v] = true
								idioms["counter"] = true
								return true
							}
						}
					}
					bad = "increment of " + astx.Str(x.X)
				}
			case *ast.CallExpr:
				if astx.Builtin(info, x) == "delete" {
					idioms["set building"] = true
					return true
				}
				// a local closure (flush := func() {…}) called in the loop: its body runs here
				if fid, ok := ast.Unparen(x.Fun).(*ast.Ident); ok {
					if d := uniqueDef(info, fi.Node(), fid); d != nil {
						if lit, ok := ast.Unparen(d).(*ast.FuncLit); ok && !inlining[lit] {
							inlining[lit] = true
							walk(lit.Body)
							delete(inlining, lit)
						}
					}
				}
				var cal *load.FuncInfo
				if fn := astx.Callee(info, x); fn != nil {
					cal = c.P.FuncOf(fn)
					if cal == nil && extClass(fn) == "sink" {
						return true
					}
				}
				if cal != nil {
					if why := sensitive[cal]; why != "" {
						bad = "the body calls " + shortName(cal) + ", which " + why
					}
				}
			}
			return true
		})
	}
	walk(rs.Body)
	if bad == "" && len(counters) > 0 {
		// a counter is only counted in the loop: reading it there exports how many elements came before this one
		ast.Inspect(rs.Body, func(m ast.Node) bool {
			if inc, ok := m.(*ast.IncDecStmt); ok {
				if id, isID := ast.Unparen(inc.X).(*ast.Ident); isID && counters[astx.Obj(info, id)] {
					return false
				}
			}
			if id, ok := m.(*ast.Ident); ok && counters[astx.Obj(info, id)] && bad == "" {
				bad = "the counter " + id.Name + " is read inside the loop: its value there depends on the visiting order"
			}
			return true
		})
	}
	if bad != "" {
		return false, "", bad
	}
	if idioms["constant early exit"] {
		if len(constReturns) > 1 {
			return false, "", "the loop returns different constants from different iterations: which one wins depends on the visiting order"
		}
		for k := range idioms {
			if k != "constant early exit" && k != "error exit" {
				return false, "", "an early exit combined with other effects (" + k + ") exports which elements were visited before the exit"
			}
		}
	}
	if idioms["break"] && !idioms["commutative flag"] && len(idioms) > 1 {
		return false, "", "break combined with other effects exports which element came first"
	}
	// collect-then-sort: every later use of the collected slice is dominated by a sort of it
	for _, o := range collected {
		var sortV []int
		for _, v := range g.Nodes() {
			if v.Node == nil || v.Node.Pos() < rs.End() {
				continue
			}
			for _, call := range astx.Calls(v.Node, false) {
				fn := astx.Callee(info, call)
				if fn == nil || fn.Pkg() == nil || (fn.Pkg().Path() != "sort" && fn.Pkg().Path() != "slices") || len(call.Args) < 1 {
					continue
				}
				if id, ok := ast.Unparen(call.Args[0]).(*ast.Ident); ok && astx.Obj(info, id) == o {
					sortV = append(sortV, v.ID)
				}
			}
		}
		// a comparator that orders only by a field which the collecting filter fixes to one value for all collected
		// elements does not order anything: the slice stays in map order
		{
			fixed := map[*types.Var]bool{}
			ast.Inspect(rs.Body, func(m ast.Node) bool {
				as, ok := m.(*ast.AssignStmt)
				if !ok || len(as.Lhs) != 1 {
					return true
				}
				id, ok := as.Lhs[0].(*ast.Ident)
				if !ok || astx.Obj(info, id) != o {
					return true
				}
				for _, fct := range g.FactsAt(g.VertexOf(as)) {
					be, ok := ast.Unparen(fct.Expr).(*ast.BinaryExpr)
					if !ok || fct.Tag != nil || !((be.Op == token.EQL && fct.Val) || (be.Op == token.NEQ && !fct.Val)) {
						continue
					}
					for _, side := range []ast.Expr{be.X, be.Y} {
						if se, ok := ast.Unparen(side).(*ast.SelectorExpr); ok {
							if fv := astx.FieldSel(info, se); fv != nil {
								b := astx.BaseIdent(se)
								if b != nil && (astx.Obj(info, b) == keyObj || astx.Obj(info, b) == valObj) {
									fixed[fv] = true
								}
							}
						}
					}
				}
				return true
			})
			for _, sv := range sortV {
				for _, call := range astx.Calls(g.V[sv].Node, false) {
					if len(call.Args) != 2 {
						continue
					}
					lit, ok := ast.Unparen(call.Args[1]).(*ast.FuncLit)
					if !ok {
						continue
					}
					// the comparator compares elements: both of its index parameters index the sorted slice
					if lit.Type.Params != nil {
						var ps []types.Object
						for _, f := range lit.Type.Params.List {
							for _, nm := range f.Names {
								ps = append(ps, info.Defs[nm])
							}
						}
						if len(ps) == 2 {
							used := map[types.Object]bool{}
							ast.Inspect(lit.Body, func(m ast.Node) bool {
								if ie, ok := m.(*ast.IndexExpr); ok {
									if xid, ok := ast.Unparen(ie.X).(*ast.Ident); ok && astx.Obj(info, xid) == o {
										if iid, ok := ast.Unparen(ie.Index).(*ast.Ident); ok {
											used[astx.Obj(info, iid)] = true
										}
									}
								}
								return true
							})
							if !used[ps[0]] || !used[ps[1]] {
								return false, "", "the comparator handed to the sort does not compare the elements at its two indices (it never reads " + o.Name() + "[" + ps[0].Name() + "] and " + o.Name() + "[" + ps[1].Name() + "]): nothing is ordered and the slice keeps the map's iteration order"
							}
						}
					}
					var compared []*types.Var
					ast.Inspect(lit.Body, func(m ast.Node) bool {
						be, ok := m.(*ast.BinaryExpr)
						if !ok || !(be.Op == token.LSS || be.Op == token.GTR || be.Op == token.LEQ || be.Op == token.GEQ) {
							return true
						}
						for _, side := range []ast.Expr{be.X, be.Y} {
							if se, ok := ast.Unparen(side).(*ast.SelectorExpr); ok {
								if fv := astx.FieldSel(info, se); fv != nil {
									compared = append(compared, fv)
								}
							}
						}
						return true
					})
					allFixed := len(compared) > 0
					for _, fv := range compared {
						if !fixed[fv] {
							allFixed = false
						}
					}
					if allFixed {
						return false, "", "the elements are sorted by " + compared[0].Name() + " only, which the collecting filter fixes to a single value: the sort does not order them and the slice keeps the map's iteration order"
					}
				}
			}
		}
		usedUnsorted := ""
		isSortV := func(v int) bool {
			for _, sv := range sortV {
				if sv == v {
					return true
				}
			}
			return false
		}
		loopHead := g.VertexOf(rs.X)
		reachUnsorted := g.Reach(loopHead, func(v int) bool { return isSortV(v) }, nil)
		for _, v := range g.Nodes() {
			if v.Node == nil || v.Node.Pos() < rs.End() || !astx.Mentions(info, v.Node, o) || isSortV(v.ID) {
				continue
			}
			// len(xs) only (capacity hints) is order-insensitive
			onlyLen := true
			ast.Inspect(v.Node, func(m ast.Node) bool {
				if call, ok := m.(*ast.CallExpr); ok && astx.Builtin(info, call) == "len" {
					return false
				}
				if id, ok := m.(*ast.Ident); ok && astx.Obj(info, id) == o {
					onlyLen = false
				}
				return true
			})
			if onlyLen {
				continue
			}
			if reachUnsorted[v.ID] {
				usedUnsorted = astx.Str(v.Node)
				break
			}
		}
		if usedUnsorted != "" {
			return false, "", "elements are collected into " + o.Name() + " in map order and used without sorting first (" + usedUnsorted + ")"
		}
	}
	var names []string
	for k := range idioms {
		names = append(names, k)
	}
	sort.Strings(names)
	if len(names) == 0 {
		names = []string{"no effect outside the iteration"}
	}
	return true, strings.Join(names, " + "), ""
}

// matchesByNick: the first statement of the loop body tests <value>.Nick (possibly through NickToLower) against something
// that does not mention the loop variables.
func matchesByNick(info *types.Info, rs *ast.RangeStmt) bool {
	if len(rs.Body.List) == 0 || rs.Value == nil {
		return false
	}
	vid, ok := rs.Value.(*ast.Ident)
	if !ok {
		return false
	}
	val := astx.Obj(info, vid)
	var key types.Object
	if kid, ok := rs.Key.(*ast.Ident); ok {
		key = astx.Obj(info, kid)
	}
	ifs, ok := rs.Body.List[0].(*ast.IfStmt)
	if !ok {
		return false
	}
	found := false
	ast.Inspect(ifs.Cond, func(n ast.Node) bool {
		be, ok := n.(*ast.BinaryExpr)
		if !ok || (be.Op != token.EQL && be.Op != token.NEQ) {
			return true
		}
		for _, pair := range [][2]ast.Expr{{be.X, be.Y}, {be.Y, be.X}} {
			nickSide, other := pair[0], pair[1]
			isNick := false
			ast.Inspect(nickSide, func(m ast.Node) bool {
				if se, ok := m.(*ast.SelectorExpr); ok && se.Sel.Name == "Nick" {
					if id, ok := ast.Unparen(se.X).(*ast.Ident); ok && astx.Obj(info, id) == val {
						isNick = true
					}
				}
				return true
			})
			if !isNick {
				continue
			}
			invariant := true
			ast.Inspect(other, func(m ast.Node) bool {
				if id, ok := m.(*ast.Ident); ok {
					if o := astx.Obj(info, id); o != nil && (o == val || o == key) {
						invariant = false
					}
				}
				return true
			})
			if invariant {
				found = true
			}
		}
		return true
	})
	return found
}
