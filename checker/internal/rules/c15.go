package rules

import (
	"go/ast"
	"go/constant"
	"go/token"
	"go/types"
	"sort"
	"strings"

	"verif/checker/internal/astx"
	"verif/checker/internal/load"
)

func init() { register("C15", c15) }

// removedSet describes which bytes a sanitising step removes from (cuts off) a string.
type removedSet map[byte]bool

func (s removedSet) has(bs ...byte) bool {
	for _, b := range bs {
		if !s[b] {
			return false
		}
	}
	return true
}

func (s removedSet) String() string {
	var out []string
	for b := range s {
		switch b {
		case '\n':
			out = append(out, `\n`)
		case '\r':
			out = append(out, `\r`)
		case 0:
			out = append(out, `\x00`)
		default:
			out = append(out, string(rune(b)))
		}
	}
	sort.Strings(out)
	return "{" + strings.Join(out, ",") + "}"
}

// cutSetOfIndexCall: strings.IndexByte(x, c) / IndexRune / IndexAny(x, chars) -> (x, set)
func cutSetOfIndexCall(info *types.Info, call *ast.CallExpr) (ast.Expr, removedSet) {
	fn := astx.Callee(info, call)
	if fn == nil || fn.Pkg() == nil || fn.Pkg().Path() != "strings" || len(call.Args) != 2 {
		return nil, nil
	}
	set := removedSet{}
	switch fname(fn) {
	case "IndexByte", "IndexRune":
		if v, ok := astx.ConstInt(info, call.Args[1]); ok && v >= 0 && v < 256 {
			set[byte(v)] = true
		}
	case "IndexAny":
		if s, ok := astx.ConstString(info, call.Args[1]); ok {
			for i := 0; i < len(s); i++ {
				set[s[i]] = true
			}
		}
	default:
		return nil, nil
	}
	return call.Args[0], set
}

// sanitiserOf: a module function func(s string) string that returns s cut at the first byte of a constant set.
func (c *Ctx) sanitiserOf(fi *load.FuncInfo) removedSet {
	if fi == nil || fi.Body() == nil {
		return nil
	}
	info := fi.Info()
	var param types.Object
	np := 0
	for _, fld := range fi.FuncType().Params.List {
		for _, nm := range fld.Names {
			np++
			param = info.Defs[nm]
		}
	}
	if np != 1 || param == nil {
		return nil
	}
	return c.cutSets(info, fi.Node(), param, func(e ast.Expr) bool {
		id, ok := ast.Unparen(e).(*ast.Ident)
		return ok && astx.Obj(info, id) == param
	}, true)
}

// cutSets collects the bytes at whose first occurrence the variable `v` is cut inside root:
//
//	if idx := strings.IndexX(v, C); idx > -1 { v = v[:idx] }        (in place)
//	if idx := strings.IndexX(v, C); idx > -1 { return v[:idx] }     (returning form, when returning is set)
func (c *Ctx) cutSets(info *types.Info, root ast.Node, v types.Object, isV func(ast.Expr) bool, returning bool) removedSet {
	out := removedSet{}
	ast.Inspect(root, func(n ast.Node) bool {
		ifs, ok := n.(*ast.IfStmt)
		if !ok || ifs.Init == nil {
			return true
		}
		as, ok := ifs.Init.(*ast.AssignStmt)
		if !ok || len(as.Lhs) != 1 || len(as.Rhs) != 1 {
			return true
		}
		call, ok := ast.Unparen(as.Rhs[0]).(*ast.CallExpr)
		if !ok {
			return true
		}
		x, set := cutSetOfIndexCall(info, call)
		if x == nil || !isV(x) {
			return true
		}
		idxID, ok := as.Lhs[0].(*ast.Ident)
		if !ok {
			return true
		}
		idxObj := astx.Obj(info, idxID)
		// condition: idx > -1 / idx >= 0 / idx != -1
		be, ok := ast.Unparen(ifs.Cond).(*ast.BinaryExpr)
		if !ok {
			return true
		}
		lid, ok := ast.Unparen(be.X).(*ast.Ident)
		if !ok || astx.Obj(info, lid) != idxObj {
			return true
		}
		k, isK := astx.ConstInt(info, be.Y)
		found := isK && ((be.Op == token.GTR && k == -1) || (be.Op == token.GEQ && k == 0) || (be.Op == token.NEQ && k == -1))
		if !found {
			return true
		}
		// body: v = v[:idx]   or   return v[:idx]
		isCut := func(e ast.Expr) bool {
			se, ok := ast.Unparen(e).(*ast.SliceExpr)
			if !ok || se.Low != nil || se.High == nil || !isV(se.X) {
				return false
			}
			hid, ok := ast.Unparen(se.High).(*ast.Ident)
			return ok && astx.Obj(info, hid) == idxObj
		}
		for _, st := range ifs.Body.List {
			switch y := st.(type) {
			case *ast.AssignStmt:
				if len(y.Lhs) == 1 && len(y.Rhs) == 1 && isV(y.Lhs[0]) && isCut(y.Rhs[0]) {
					for b := range set {
						out[b] = true
					}
				}
			case *ast.ReturnStmt:
				if returning && len(y.Results) == 1 && isCut(y.Results[0]) {
					for b := range set {
						out[b] = true
					}
				}
			}
		}
		return true
	})
	if returning {
		// every other return hands back the parameter itself
		ok := true
		ast.Inspect(root, func(n ast.Node) bool {
			if rs, isR := n.(*ast.ReturnStmt); isR && len(rs.Results) == 1 {
				if _, isSlice := ast.Unparen(rs.Results[0]).(*ast.SliceExpr); !isSlice && !isV(rs.Results[0]) {
					ok = false
				}
			}
			return true
		})
		if !ok {
			return removedSet{}
		}
	}
	return out
}

// sanitisedSet computes which bytes are provably cut from the value of expression e in function fi.
func (c *Ctx) sanitisedSet(fi *load.FuncInfo, e ast.Expr, depth int) removedSet {
	info := fi.Info()
	out := removedSet{}
	if depth > 4 {
		return out
	}
	e = ast.Unparen(e)
	switch x := e.(type) {
	case *ast.CallExpr:
		// call of a sanitiser function
		if fn := astx.Callee(info, x); fn != nil && len(x.Args) == 1 {
			if cal := c.P.FuncOf(fn); cal != nil {
				for b := range c.sanitiserOf(cal) {
					out[b] = true
				}
				for b := range c.sanitisedSet(fi, x.Args[0], depth+1) {
					out[b] = true
				}
			}
		}
		// constant-only calls (fmt.Sprintf of constants etc.) are judged by the caller
	case *ast.Ident:
		obj := astx.Obj(info, x)
		if obj == nil {
			return out
		}
		// in-place cuts of the variable
		for b := range c.cutSets(info, fi.Node(), obj, func(y ast.Expr) bool {
			id, ok := ast.Unparen(y).(*ast.Ident)
			return ok && astx.Obj(info, id) == obj
		}, false) {
			out[b] = true
		}
		// what every other definition of the variable already guarantees (intersection)
		var inter removedSet
		for _, d := range defsOf(info, fi.Node(), obj) {
			if d == nil {
				inter = removedSet{}
				continue
			}
			if se, ok := ast.Unparen(d).(*ast.SliceExpr); ok {
				if id, ok := ast.Unparen(se.X).(*ast.Ident); ok && astx.Obj(info, id) == obj {
					continue // the cut itself
				}
			}
			s := c.sanitisedSet(fi, d, depth+1)
			if inter == nil {
				inter = s
			} else {
				for b := range inter {
					if !s[b] {
						delete(inter, b)
					}
				}
			}
		}
		for b := range inter {
			out[b] = true
		}
	}
	return out
}

// isConstantText: e is built only from constants and non-string values (fmt.Sprintf("…", nonString), literals).
func isConstantText(info *types.Info, e ast.Expr) bool {
	e = ast.Unparen(e)
	if tv, ok := info.Types[e]; ok && tv.Value != nil {
		return true
	}
	switch x := e.(type) {
	case *ast.CallExpr:
		if fn := astx.Callee(info, x); fn != nil && fn.Pkg() != nil && fn.Pkg().Path() == "fmt" && strings.HasPrefix(fn.Name(), "Sprint") {
			for _, a := range x.Args {
				tv, ok := info.Types[a]
				if !ok {
					return false
				}
				if tv.Value != nil {
					continue
				}
				if b, ok := tv.Type.Underlying().(*types.Basic); ok && b.Info()&types.IsString != 0 {
					return false
				}
				if _, isNamed := tv.Type.(*types.Named); isNamed {
					// durations, ids: numeric
					if b, ok := tv.Type.Underlying().(*types.Basic); ok && b.Info()&types.IsNumeric != 0 {
						continue
					}
					return false
				}
			}
			return true
		}
		// the textual form of a number or duration: <numeric>.String(), strconv.Format*/Itoa/Quote* of numerics
		if fn := astx.Callee(info, x); fn != nil {
			if se, ok := ast.Unparen(x.Fun).(*ast.SelectorExpr); ok && fn.Name() == "String" && len(x.Args) == 0 {
				if tv, ok := info.Types[se.X]; ok {
					if b, ok := tv.Type.Underlying().(*types.Basic); ok && b.Info()&types.IsNumeric != 0 {
						return true
					}
				}
			}
			if fn.Pkg() != nil && fn.Pkg().Path() == "strconv" && (strings.HasPrefix(fn.Name(), "Format") || fn.Name() == "Itoa") {
				return true
			}
		}
	case *ast.BinaryExpr:
		return x.Op == token.ADD && isConstantText(info, x.X) && isConstantText(info, x.Y)
	}
	return false
}

func c15(c *Ctx) {
	r := c.R
	f := c.irc()
	if len(r.Broken) > 0 {
		return
	}
	r.Explanation = "Partial (a sufficient condition): (W1) everything delivered has one origin, send(), which takes the bytes from sorcix/irc's Message.Bytes() (truncating at its maxLength constant, asserted <= 510); the output store and the API hand those bytes on verbatim and nobody else builds an IRCToClient message; (W2) every client-controlled string that becomes the Data of a proposed IRCFromClient/DeleteSession entry passes a recognised sanitiser whose removed-byte set contains LF, CR and NUL; (W3) no string constant of the IRC server contains one of these bytes; (W4) every message handed to a send helper has a command that is a non-empty constant or the parsed command of the input. Third-party formatting of error texts echoed into replies is not decided."
	defer c.c15W5(f)
	r.Rules = []string{"C15.W1 single bounded producer", "C15.W2 tainted sources are sanitised", "C15.W3 no self-inflicted bytes", "C15.W4 every line has a command", "C15.W5 no line under an unregistered identity"}

	// ---------- W1
	if p := c.P.All[pathIRC]; p != nil {
		if k, ok := p.Types.Scope().Lookup("maxLength").(*types.Const); ok {
			v, _ := constant.Int64Val(constant.ToInt(k.Val()))
			r.Check(v > 0 && v <= 510, "C15.W1", "irc.(*Message).Bytes", "line length bound of the serializer", "-", "maxLength = "+itoa(int(v)), "sorcix/irc's maxLength is not <= 510")
		} else {
			r.Break("sorcix/irc maxLength constant not found")
		}
		truncates := false
		for _, file := range p.Syntax {
			for _, d := range file.Decls {
				fd, ok := d.(*ast.FuncDecl)
				if !ok || fd.Name.Name != "Bytes" || fd.Body == nil {
					continue
				}
				ast.Inspect(fd.Body, func(n ast.Node) bool {
					if call, ok := n.(*ast.CallExpr); ok {
						if se, ok := ast.Unparen(call.Fun).(*ast.SelectorExpr); ok && se.Sel.Name == "Truncate" && len(call.Args) == 1 {
							if id, ok := ast.Unparen(call.Args[0]).(*ast.Ident); ok && id.Name == "maxLength" {
								truncates = true
							}
						}
					}
					return true
				})
			}
		}
		r.Check(truncates, "C15.W1", "irc.(*Message).Bytes", "serializer truncates to the bound", "-", "buffer.Truncate(maxLength)", "Message.Bytes() of the vendored irc library no longer truncates to maxLength")
	}
	if f.send != nil {
		info := f.send.Info()
		ok := false
		for _, cl := range compositeLitsOf(info, f.send.Body(), pathRobust, "Message") {
			if d := litField(cl, "Data"); d != nil {
				// string(msg.Bytes()) or msg.String() (which is string(m.Bytes()) in the library)
				// … and nothing but type conversions around it: any further function applied to the bounded bytes
				// (re-encoding, escaping, padding) can lengthen the line again
				e := ast.Unparen(d)
				if dd := uniqueDef(info, f.send.Node(), e); dd != nil {
					e = ast.Unparen(dd)
				}
				for {
					call, isCall := e.(*ast.CallExpr)
					if !isCall {
						break
					}
					if tv, okT := info.Types[call.Fun]; okT && tv.IsType() && len(call.Args) == 1 {
						e = ast.Unparen(call.Args[0])
						continue
					}
					if fn := astx.Callee(info, call); fn != nil && (astx.Method(fn, pathIRC, "Message", "Bytes") || astx.Method(fn, pathIRC, "Message", "String")) {
						ok = true
					}
					break
				}
			}
		}
		r.Check(ok, "C15.W1", f.send.Name(), "output bytes come from the bounded serializer", c.P.Pos(f.send.Node().Pos()), "Data: string(msg.Bytes())", "send() does not take the output bytes directly (modulo type conversions) from irc.Message.Bytes(): either the 510 byte bound is not enforced or a function applied afterwards (e.g. a re-encoding that replaces bytes by longer sequences) can exceed it again")
	}
	dataField := c.P.Field("robust", "Message", "Data")
	osData := c.P.Field("outputstream", "Message", "Data")
	if dataField == nil || osData == nil {
		r.Break("Data fields not found")
		return
	}
	// who writes outputstream.Message.Data
	allowedOS := map[string]string{"main.sendMessages": "verbatim copy of the state machine's replies", "outputstream.unmarshalMessageBatch": "the store's own decoder"}
	for _, w := range c.writersOf(osData) {
		why, ok := allowedOS[w.Name()]
		r.Check(ok, "C15.W1", w.Name(), "writes outputstream.Message.Data", c.P.Pos(c.funcFlow(w).writePos[osData]), why, "output text is written into the output store by an unexpected function")
	}
	// who builds IRCToClient messages / writes robust.Message.Data inside ircserver
	for _, fi := range c.P.AllFuncs {
		if fi.Body() == nil || strings.Contains(fi.Pkg.PkgPath, "/cmd/") {
			continue
		}
		info := fi.Info()
		for _, cl := range compositeLitsOf(info, fi.Body(), pathRobust, "Message") {
			t := litField(cl, "Type")
			if t != nil && refersTo(info, t, pathRobust, "IRCToClient") {
				r.Check(fi.Name() == "api.outputToRobustMessages", "C15.W1", fi.Name(), "builds an IRCToClient message", c.P.Pos(cl.Pos()), "the API's verbatim conversion of stored batches", "a message of type IRCToClient is built outside outputToRobustMessages: its text did not come from send()")
			}
			// … also when the type is copied from another message (a "merged" message that takes the type of the last line):
			// outside the IRC server a message literal has a constant type, and its text is not put together from pieces
			if pk := load.ShortPkg(fi.Pkg.PkgPath); t != nil && (pk == "api" || pk == "outputstream" || pk == "main") { // the packages between the output store and the client
				if tv, ok := info.Types[t]; ok && tv.Value == nil && fi.Name() != "api.outputToRobustMessages" {
					r.Fail("C15.W1", fi.Name(), "builds a message whose type is not a constant", c.P.Pos(cl.Pos()), "a message is built outside the IRC server with a type taken from elsewhere ("+astx.Str(t)+"): it can be an IRCToClient message whose text did not come from send()")
				}
			}
			if d := litField(cl, "Data"); d != nil && load.ShortPkg(fi.Pkg.PkgPath) == "api" {
				ast.Inspect(d, func(m ast.Node) bool {
					if bl, ok := m.(*ast.BasicLit); ok && bl.Kind == token.STRING {
						if sv, ok := astx.ConstString(info, bl); ok && strings.ContainsAny(sv, "\r\n\x00") {
							r.Fail("C15.W3", fi.Name(), "message text built with "+bl.Value, c.P.Pos(bl.Pos()), "the API puts CR, LF or NUL into the text of a message: what a client receives as one message is more than one line")
						}
					}
					return true
				})
			}
			if fi.Pkg.PkgPath == pathIrcsrv && litField(cl, "Data") != nil && t == nil && fi != f.send {
				// ExpireSessions builds a DeleteSession proposal with constant text
				if tt := litField(cl, "Type"); tt == nil {
					r.Fail("C15.W1", fi.Name(), "builds a robust.Message with Data", c.P.Pos(cl.Pos()), "output text is produced outside send()")
				}
			}
		}
	}

	// ---------- W2
	amw := c.amwLike()
	nSinks := 0
	for _, fi := range c.P.AllFuncs {
		if fi.Body() == nil || strings.Contains(fi.Pkg.PkgPath, "/cmd/") || strings.HasSuffix(fi.Pkg.PkgPath, "/localnet") {
			continue
		}
		info := fi.Info()
		for _, cl := range compositeLitsOf(info, fi.Body(), pathRobust, "Message") {
			t := litField(cl, "Type")
			if t == nil || !(refersTo(info, t, pathRobust, "IRCFromClient") || refersTo(info, t, pathRobust, "DeleteSession")) {
				continue
			}
			d := litField(cl, "Data")
			if d == nil {
				continue
			}
			nSinks++
			pos := c.P.Pos(d.Pos())
			construct := "Data of proposed " + astx.Str(t)
			// (the text may be kept in a local that is computed once, e.g. in front of a loop)
			dd := astx.Expand(info, d)
			if id, isID := dd.(*ast.Ident); isID {
				if def := uniqueDef(info, fi.Node(), id); def != nil {
					dd = def
				}
			}
			if isConstantText(info, d) || isConstantText(info, dd) {
				r.Ok("C15.W2", fi.Name(), construct, pos, "constant text / numeric formatting only")
				continue
			}
			set := c.sanitisedSet(fi, d, 0)
			r.Check(set.has('\n', '\r', 0), "C15.W2", fi.Name(), construct+" is sanitised", pos, "cut at the first of "+set.String(),
				"client-controlled text becomes the Data of a log entry without LF, CR and NUL all being cut (recognised cut set: "+set.String()+"): another client receives a line with an embedded line break / a second protocol line")
		}
	}
	_ = amw
	r.Check(nSinks >= 4, "C15.W2", "module", "proposal sinks enumerated", "-", itoa(nSinks), "fewer IRCFromClient/DeleteSession proposals than expected")
	// the quit message becomes a line through "QUIT :"+data — the only place entry text is spliced into a line
	if arm := c.MustFunc("main.(*FSM).applyRobustMessage"); arm != nil {
		info := arm.Info()
		n := 0
		for _, call := range astx.Calls(arm.Body(), false) {
			fn := astx.Callee(info, call)
			if fn == nil || !isFunc(fn, pathIRC, "ParseMessage") || len(call.Args) != 1 {
				continue
			}
			n++
			a := ast.Unparen(call.Args[0])
			ok := false
			if se, isSel := a.(*ast.SelectorExpr); isSel && se.Sel.Name == "Data" {
				ok = true
			}
			if be, isBE := a.(*ast.BinaryExpr); isBE && be.Op == token.ADD {
				if s, isC := astx.ConstString(info, be.X); isC && !strings.ContainsAny(s, "\r\n\x00") {
					ok = true
				}
			}
			r.Check(ok, "C15.W2", arm.Name(), "entry text is parsed as exactly one line", c.P.Pos(call.Pos()), "ParseMessage(msg.Data) / ParseMessage(<const> + msg.Data)", "entry text is combined with other text before being parsed as an IRC line")
		}
		r.Check(n >= 2, "C15.W2", arm.Name(), "parse sites found", c.P.Pos(arm.Node().Pos()), itoa(n), "fewer ParseMessage sites than expected")
	}

	// ---------- W3
	nConst := 0
	if pkg := c.P.Pkg("ircserver"); pkg != nil {
		for _, file := range pkg.Syntax {
			ast.Inspect(file, func(n ast.Node) bool {
				lit, ok := n.(*ast.BasicLit)
				if !ok || lit.Kind != token.STRING {
					return true
				}
				tv, ok := pkg.TypesInfo.Types[lit]
				if !ok || tv.Value == nil || tv.Value.Kind() != constant.String {
					return true
				}
				nConst++
				s := constant.StringVal(tv.Value)
				if strings.ContainsAny(s, "\r\n\x00") {
					r.Fail("C15.W3", "ircserver", "string constant "+lit.Value, c.P.Pos(lit.Pos()), "a string constant of the IRC server contains CR, LF or NUL: replies built from it are not single lines")
				}
				return true
			})
		}
	}
	r.Check(nConst > 300, "C15.W3", "ircserver", "string constants scanned", "-", itoa(nConst)+" constants, none contains CR/LF/NUL", "fewer string constants than expected were scanned")

	// ---------- W4
	nCmd := 0
	for _, fi := range c.P.FuncsIn("ircserver") {
		if fi.Body() == nil || (fi.Obj != nil && f.sendHelpers[fi.Obj]) || fi == f.send {
			continue
		}
		info := fi.Info()
		mParam := f.msgParam(fi)
		for _, call := range astx.Calls(fi.Body(), true) {
			fn := astx.Callee(info, call)
			if fn == nil || !f.sendHelpers[fn] {
				continue
			}
			lit, _ := c.resolveMsgLit(fi, f, call.Args[len(call.Args)-1])
			if lit == nil {
				continue
			}
			cv := litField(lit, "Command")
			ok := false
			if cv != nil {
				if s, isC := astx.ConstString(info, cv); isC && s != "" && !strings.ContainsAny(s, " \r\n\x00:") {
					ok = true
				}
				if se, isSel := ast.Unparen(cv).(*ast.SelectorExpr); isSel && se.Sel.Name == "Command" {
					if id, isID := ast.Unparen(se.X).(*ast.Ident); isID && mParam != nil && astx.Obj(info, id) == mParam {
						ok = true
					}
				}
			}
			nCmd++
			if !ok {
				r.Fail("C15.W4", fi.Name(), "command of the message sent by "+fn.Name(), c.P.Pos(lit.Pos()), "the message has no constant non-empty command (nor the parsed command of the input): the delivered line does not start with a command")
			}
		}
	}
	r.Check(nCmd > 150, "C15.W4", "ircserver", "messages with a well-formed command", "-", itoa(nCmd)+" send sites checked", "fewer send sites than expected")
}

// c15W5: the commands ProcessMessage lets through before registration (NICK, USER, PASS, QUIT, …) run for sessions whose
// cached prefix is still empty. In their handlers a line carrying the acting session's own prefix is sent to *others*
// only under s.loggedIn: otherwise the relayed line starts with ":" and an empty source name.
func (c *Ctx) c15W5(f *ircFacts) {
	r := c.R
	pm := f.PM
	if pm == nil {
		return
	}
	pre := c.preRegistrationCommands(f)
	if len(pre) < 3 {
		r.Break("C15.W5: the pre-registration gate of ProcessMessage was not recognised (%d commands)", len(pre))
		return
	}
	n := 0
	for _, e := range f.Registry {
		if e.Handler == nil || strings.HasPrefix(e.Key, "server_") || !pre[e.Key] {
			continue
		}
		fi := e.Handler
		hinfo := fi.Info()
		sParam := f.sessionParam(fi)
		if sParam == nil || fi.Body() == nil {
			continue
		}
		g := c.Graph(fi)
		isS := func(x ast.Expr) bool {
			id, ok := ast.Unparen(x).(*ast.Ident)
			return ok && astx.Obj(hinfo, id) == sParam
		}
		for _, call := range astx.Calls(fi.Body(), true) {
			fn := astx.Callee(hinfo, call)
			if fn == nil || !f.sendHelpers[fn] {
				continue
			}
			helper := fname(fn)
			if helper == "sendUser" && len(call.Args) > 0 && isS(call.Args[0]) {
				continue // a reply to the acting session itself
			}
			lit, _ := c.resolveMsgLit(fi, f, call.Args[len(call.Args)-1])
			if lit == nil {
				continue
			}
			pv := litField(lit, "Prefix")
			u, ok := ast.Unparen(pv).(*ast.UnaryExpr)
			if pv == nil || !ok || u.Op != token.AND {
				continue
			}
			se, ok := ast.Unparen(u.X).(*ast.SelectorExpr)
			if !ok || se.Sel.Name != "ircPrefix" || !isS(se.X) {
				continue
			}
			n++
			v := g.VertexOf(call)
			okReg := false
			for _, fct := range append(g.FactsAt(v), g.CondsAt(v)...) {
				if fct.Tag != nil {
					continue
				}
				if s2, ok := ast.Unparen(fct.Expr).(*ast.SelectorExpr); ok && fct.Val && s2.Sel.Name == "loggedIn" && isS(s2.X) {
					okReg = true
				}
			}
			r.Check(okReg, "C15.W5", fi.Name(), helper+" of a line with the acting session's prefix", c.P.Pos(call.Pos()), "dominated by s.loggedIn",
				"a command that is accepted before registration relays a line carrying the acting session's own prefix without testing s.loggedIn: for a session that has not sent NICK/USER the line starts with an empty source (\":!user@host QUIT …\" or \": QUIT …\"), which is not a well-formed IRC line")
		}
	}
	r.Check(n >= 1, "C15.W5", "ircserver", "relays in pre-registration handlers found", "-", itoa(n), "no relay with the acting prefix in a pre-registration handler (vacuity guard)")
}

// preRegistrationCommands: the commands ProcessMessage lets through for a session that has not registered yet — the string
// constants compared with the command in the condition that mentions loggedIn, the constants of a boolean predicate of the
// module called there, or the keys of a package-level map literal indexed there.
func (c *Ctx) preRegistrationCommands(f *ircFacts) map[string]bool {
	pre := map[string]bool{}
	pm := f.PM
	if pm == nil {
		return pre
	}
	info := pm.Info()
	// on the graph: where "You have not registered" (451) is sent, the command is known to differ from each of the commands
	// that are allowed before registration — whatever shape the test has (a chain of !=, a switch with an early exit, a
	// predicate that was expanded here)
	{
		g := c.Graph(pm)
		for _, v := range g.Nodes() {
			is451 := false
			for _, call := range astx.Calls(v.Node, false) {
				ast.Inspect(call, func(m ast.Node) bool {
					if cl, ok := m.(*ast.CompositeLit); ok {
						if cv := litField(cl, "Command"); cv != nil {
							if s, ok := astx.ConstString(info, cv); ok && s == "451" {
								is451 = true
							}
						}
					}
					return true
				})
			}
			if !is451 {
				continue
			}
			for _, f := range g.FactsAt(v.ID) {
				if f.Tag != nil {
					if s, ok := astx.ConstString(info, f.Expr); ok && s != "" && !f.Val {
						pre[s] = true
					}
					continue
				}
				if be, ok := ast.Unparen(f.Expr).(*ast.BinaryExpr); ok {
					differs := (be.Op == token.NEQ && f.Val) || (be.Op == token.EQL && !f.Val)
					if !differs {
						continue
					}
					for _, side := range []ast.Expr{be.X, be.Y} {
						if s, ok := astx.ConstString(info, side); ok && s != "" {
							pre[s] = true
						}
					}
				}
			}
		}
		if len(pre) > 0 {
			return pre
		}
	}
	ast.Inspect(pm.Body(), func(n ast.Node) bool {
		ifs, ok := n.(*ast.IfStmt)
		if !ok {
			return true
		}
		mentionsLoggedIn := false
		ast.Inspect(ifs.Cond, func(m ast.Node) bool {
			if se, ok := m.(*ast.SelectorExpr); ok && se.Sel.Name == "loggedIn" {
				mentionsLoggedIn = true
			}
			return true
		})
		if !mentionsLoggedIn {
			return true
		}
		collect := func(inf *types.Info, root ast.Node) {
			ast.Inspect(root, func(m ast.Node) bool {
				switch x := m.(type) {
				case *ast.BinaryExpr:
					if x.Op == token.NEQ || x.Op == token.EQL {
						if s, ok := astx.ConstString(inf, x.Y); ok && s != "" {
							pre[s] = true
						}
					}
				case *ast.CaseClause:
					for _, e := range x.List {
						if s, ok := astx.ConstString(inf, e); ok && s != "" {
							pre[s] = true
						}
					}
				case *ast.IndexExpr:
					// <package-level map literal>[command]
					if id, ok := ast.Unparen(x.X).(*ast.Ident); ok {
						if v, ok := inf.Uses[id].(*types.Var); ok && v.Pkg() != nil && v.Parent() == v.Pkg().Scope() {
							for _, pkg := range c.P.Pkgs {
								for _, file := range pkg.Syntax {
									ast.Inspect(file, func(d ast.Node) bool {
										vs, ok := d.(*ast.ValueSpec)
										if !ok {
											return true
										}
										for k, nm := range vs.Names {
											if pkg.TypesInfo.Defs[nm] == types.Object(v) && k < len(vs.Values) {
												if cl, ok := ast.Unparen(vs.Values[k]).(*ast.CompositeLit); ok {
													for _, el := range cl.Elts {
														if kv, ok := el.(*ast.KeyValueExpr); ok {
															if s, ok := astx.ConstString(pkg.TypesInfo, kv.Key); ok && s != "" {
																pre[s] = true
															}
														}
													}
												}
											}
										}
										return true
									})
								}
							}
						}
					}
				}
				return true
			})
		}
		collect(info, ifs.Cond)
		for _, call := range astx.Calls(ifs.Cond, false) {
			if fn := astx.Callee(info, call); fn != nil {
				if h := c.P.FuncOf(fn); h != nil && h.Body() != nil && h.Obj != nil {
					if sig, ok := h.Obj.Type().(*types.Signature); ok && sig.Results().Len() == 1 && sig.Results().At(0).Type().String() == "bool" {
						collect(h.Info(), h.Body())
					}
				}
			}
		}
		return true
	})
	return pre
}
