package rules

import (
	"go/ast"
	"go/token"
	"go/types"
	"strings"

	"verif/checker/internal/astx"
	"verif/checker/internal/cfgx"
	"verif/checker/internal/load"
)

// callsIn lists calls in fi's body (function literals included) whose callee satisfies match.
func callsIn(fi *load.FuncInfo, match func(fn *types.Func, call *ast.CallExpr) bool) []*ast.CallExpr {
	var out []*ast.CallExpr
	if fi == nil || fi.Body() == nil {
		return nil
	}
	info := fi.Info()
	for _, call := range astx.Calls(fi.Body(), true) {
		fn := astx.Callee(info, call)
		if fn != nil && match(fn, call) {
			out = append(out, call)
		}
	}
	return out
}

// isFunc matches a callee by short package name and rendered name, e.g. ("api", "(*HTTP).applyMessageWait") or ("net/http", "Error").
func isFunc(fn *types.Func, pkg, name string) bool {
	if fn == nil || fn.Pkg() == nil {
		return false
	}
	full := load.FuncName(fn)
	return full == pkg+"."+name
}

// defsOf returns the right-hand sides assigned to obj anywhere in root
// (":=", "=", var decl). A multi-value call assigned to several variables
// yields the call for each of them.
func defsOf(info *types.Info, root ast.Node, obj types.Object) []ast.Expr {
	var out []ast.Expr
	ast.Inspect(root, func(n ast.Node) bool {
		switch x := n.(type) {
		case *ast.AssignStmt:
			for i, l := range x.Lhs {
				id, ok := l.(*ast.Ident)
				if !ok || astx.Obj(info, id) != obj {
					continue
				}
				if len(x.Lhs) == len(x.Rhs) {
					out = append(out, x.Rhs[i])
				} else if len(x.Rhs) == 1 {
					out = append(out, x.Rhs[0])
				}
			}
		case *ast.ValueSpec:
			for i, id := range x.Names {
				if info.Defs[id] != obj {
					continue
				}
				if len(x.Values) == len(x.Names) {
					out = append(out, x.Values[i])
				} else if len(x.Values) == 1 {
					out = append(out, x.Values[0])
				} else {
					out = append(out, nil) // zero value
				}
			}
		case *ast.RangeStmt:
			for _, e := range []ast.Expr{x.Key, x.Value} {
				if id, ok := e.(*ast.Ident); ok && astx.Obj(info, id) == obj {
					out = append(out, x.X)
				}
			}
		}
		return true
	})
	return out
}

// uniqueDef returns the single definition of the variable e refers to, if e is
// an identifier with exactly one definition in root.
func uniqueDef(info *types.Info, root ast.Node, e ast.Expr) ast.Expr {
	id, ok := ast.Unparen(e).(*ast.Ident)
	if !ok {
		return nil
	}
	obj := astx.Obj(info, id)
	if obj == nil {
		return nil
	}
	d := defsOf(info, root, obj)
	if len(d) == 1 {
		return d[0]
	}
	return nil
}

// isNilIdent reports whether e is the predeclared nil.
func isNilIdent(info *types.Info, e ast.Expr) bool {
	id, ok := ast.Unparen(e).(*ast.Ident)
	if !ok {
		return false
	}
	_, isNil := info.Uses[id].(*types.Nil)
	return isNil
}

// nilCompare decomposes `x == nil` / `x != nil` facts: returns x and whether the fact says x is nil.
func nilCompare(info *types.Info, f cfgx.Fact) (ast.Expr, bool, bool) {
	if f.Tag != nil {
		// switch x { case nil: … }: on the case edge x is nil; on the edges that exclude the case it is not
		if isNilIdent(info, f.Expr) {
			return f.Tag, f.Val, true
		}
		return nil, false, false
	}
	be, ok := ast.Unparen(f.Expr).(*ast.BinaryExpr)
	if !ok || (be.Op != token.EQL && be.Op != token.NEQ) {
		return nil, false, false
	}
	var x ast.Expr
	if isNilIdent(info, be.Y) {
		x = be.X
	} else if isNilIdent(info, be.X) {
		x = be.Y
	} else {
		return nil, false, false
	}
	isNil := (be.Op == token.EQL) == f.Val
	return x, isNil, true
}

// errNilAfterCall reports whether the facts at a site establish that the
// error returned by a call matching `match` is nil: a fact `e == nil` where
// e's definition reaching the test is such a call.
func (c *Ctx) errNilAfterCall(fi *load.FuncInfo, g *cfgx.Graph, site int, match func(fn *types.Func, call *ast.CallExpr) bool) (bool, string) {
	info := fi.Info()
	for _, f := range g.FactsAt(site) {
		x, isNil, ok := nilCompare(info, f)
		if !ok || !isNil {
			continue
		}
		id, ok := ast.Unparen(x).(*ast.Ident)
		if !ok {
			continue
		}
		obj := astx.Obj(info, id)
		if obj == nil {
			continue
		}
		defs := defsOf(info, fi.Node(), obj)
		var hits, others int
		for _, d := range defs {
			if call, ok := ast.Unparen(d).(*ast.CallExpr); ok {
				if fn := astx.Callee(info, call); fn != nil && match(fn, call) {
					hits++
					continue
				}
			}
			others++
		}
		if hits > 0 && others == 0 {
			return true, "dominated by " + astx.Str(f.Expr) + "=" + boolStr(f.Val) + " on the result of the call"
		}
		if hits > 0 {
			// the variable is reused: require the test to directly follow the matching assignment
			if c.testFollowsCall(fi, g, f.Expr, match) {
				return true, "dominated by " + astx.Str(f.Expr) + "=" + boolStr(f.Val) + " directly after the call"
			}
		}
	}
	return false, ""
}

func boolStr(b bool) string {
	if b {
		return "true"
	}
	return "false"
}

// testFollowsCall: the condition vertex is immediately preceded (same straight-line chain) by an assignment from a matching call.
func (c *Ctx) testFollowsCall(fi *load.FuncInfo, g *cfgx.Graph, cond ast.Expr, match func(fn *types.Func, call *ast.CallExpr) bool) bool {
	info := fi.Info()
	// locate the vertex whose node is (or contains) cond as a branch condition
	for _, v := range g.V {
		if v.Node == nil {
			continue
		}
		e, ok := v.Node.(ast.Expr)
		if !ok || !(e.Pos() <= cond.Pos() && cond.End() <= e.End()) {
			continue
		}
		if len(v.Pred) != 1 {
			continue
		}
		p := g.V[v.Pred[0].From]
		as, ok := p.Node.(*ast.AssignStmt)
		if !ok {
			continue
		}
		for _, r := range as.Rhs {
			if call, ok := ast.Unparen(r).(*ast.CallExpr); ok {
				if fn := astx.Callee(info, call); fn != nil && match(fn, call) {
					return true
				}
			}
		}
	}
	return false
}

// vertexContaining returns the CFG vertex containing n, or -1.
func vertexContaining(g *cfgx.Graph, n ast.Node) int { return g.VertexOf(n) }

// containsCall reports whether vertex v's node contains a call whose callee satisfies match (not descending into function literals).
func containsCall(info *types.Info, v *cfgx.Vertex, match func(fn *types.Func, call *ast.CallExpr) bool) bool {
	if v.Node == nil {
		return false
	}
	for _, call := range astx.Calls(v.Node, false) {
		if fn := astx.Callee(info, call); fn != nil && match(fn, call) {
			return true
		}
	}
	return false
}

// compositeLitsOf lists composite literals of the named type inside root.
func compositeLitsOf(info *types.Info, root ast.Node, pkgpath, name string) []*ast.CompositeLit {
	var out []*ast.CompositeLit
	ast.Inspect(root, func(n ast.Node) bool {
		if cl, ok := n.(*ast.CompositeLit); ok {
			if tv, ok := info.Types[cl]; ok && astx.IsNamed(tv.Type, pkgpath, name) {
				out = append(out, cl)
			}
		}
		return true
	})
	return out
}

// litField returns the value of key `field` in a keyed composite literal, or nil.
func litField(cl *ast.CompositeLit, field string) ast.Expr {
	for _, el := range cl.Elts {
		if kv, ok := el.(*ast.KeyValueExpr); ok {
			if id, ok := kv.Key.(*ast.Ident); ok {
				if id.Name == field {
					return kv.Value
				}
				// a renamed anchor field keeps the name the rules know it by
				if fv, ok := usesLookup(id).(*types.Var); ok && fv.IsField() && fieldCanon(fv) == field {
					return kv.Value
				}
			}
		}
	}
	return nil
}

// usesLookup resolves an identifier of any loaded module package (set per run).
var usesLookup = func(id *ast.Ident) types.Object { return nil }

// selectsConst reports whether e is a (possibly qualified) reference to the constant/var pkgpath.name.
func refersTo(info *types.Info, e ast.Expr, pkgpath, name string) bool {
	var id *ast.Ident
	switch x := ast.Unparen(e).(type) {
	case *ast.Ident:
		id = x
	case *ast.SelectorExpr:
		id = x.Sel
	default:
		return false
	}
	o := info.Uses[id]
	return o != nil && o.Pkg() != nil && o.Pkg().Path() == pkgpath && o.Name() == name
}

// mentionsField reports whether n contains a selector of field f.
func mentionsField(info *types.Info, n ast.Node, f *types.Var) bool {
	found := false
	ast.Inspect(n, func(m ast.Node) bool {
		if se, ok := m.(*ast.SelectorExpr); ok && astx.FieldSel(info, se) == f {
			found = true
		}
		return !found
	})
	return found
}

// funcLitsIn lists function literals directly inside root.
func funcLitsIn(root ast.Node) []*ast.FuncLit {
	var out []*ast.FuncLit
	ast.Inspect(root, func(n ast.Node) bool {
		if fl, ok := n.(*ast.FuncLit); ok {
			out = append(out, fl)
		}
		return true
	})
	return out
}

func shortName(fi *load.FuncInfo) string {
	n := fi.Name()
	if i := strings.LastIndex(n, "."); i >= 0 {
		return n[i+1:]
	}
	return n
}

// stmtsOfKind collects nodes of a given kind in root (not entering function literals unless deep).
func inspectNoLit(root ast.Node, f func(ast.Node) bool) {
	ast.Inspect(root, func(n ast.Node) bool {
		if _, ok := n.(*ast.FuncLit); ok && n != root {
			return false
		}
		if n == nil {
			return true
		}
		return f(n)
	})
}

// pureStringFuncs are module functions whose result depends only on their arguments.
var pureModuleFuncs = map[string]bool{"ChanToLower": true, "NickToLower": true}

var aliasesFor *load.Program

// computeAliases fills astx.Alias for the loaded program (see there).
func computeAliases(p *load.Program) {
	if aliasesFor == p {
		return
	}
	aliasesFor = p
	astx.Alias = map[types.Object]ast.Expr{}
	// fields written by each module function, directly and through its static callees (for aliases of field reads)
	direct := map[*load.FuncInfo]map[*types.Var]bool{}
	calls := map[*load.FuncInfo][]*load.FuncInfo{}
	for _, fi := range p.AllFuncs {
		if fi.Body() == nil {
			continue
		}
		info := fi.Info()
		w := map[*types.Var]bool{}
		note := func(l ast.Expr) {
			for {
				switch t := ast.Unparen(l).(type) {
				case *ast.SelectorExpr:
					if fv := astx.FieldSel(info, t); fv != nil {
						w[fv] = true
					}
					return
				case *ast.IndexExpr:
					l = t.X
					continue
				case *ast.StarExpr:
					l = t.X
					continue
				}
				return
			}
		}
		ast.Inspect(fi.Node(), func(n ast.Node) bool {
			switch x := n.(type) {
			case *ast.AssignStmt:
				for _, l := range x.Lhs {
					note(l)
				}
			case *ast.IncDecStmt:
				note(x.X)
			case *ast.CallExpr:
				if fn := astx.Callee(info, x); fn != nil {
					if cal := p.FuncOf(fn); cal != nil {
						calls[fi] = append(calls[fi], cal)
					}
				}
			}
			return true
		})
		direct[fi] = w
	}
	writes := map[*load.FuncInfo]map[*types.Var]bool{}
	for fi, w := range direct {
		m := map[*types.Var]bool{}
		for k := range w {
			m[k] = true
		}
		writes[fi] = m
	}
	for changed := true; changed; {
		changed = false
		for fi, cs := range calls {
			for _, cal := range cs {
				for k := range writes[cal] {
					if !writes[fi][k] {
						if writes[fi] == nil {
							writes[fi] = map[*types.Var]bool{}
						}
						writes[fi][k] = true
						changed = true
					}
				}
			}
		}
	}
	for _, fi := range p.AllFuncs {
		body := fi.Body()
		if body == nil {
			continue
		}
		info := fi.Info()
		fieldDeps := map[types.Object][]*types.Var{} // candidate alias -> mutable module fields its definition reads
		var curDeps []*types.Var
		otherDefs := map[types.Object]int{}
		defs := map[types.Object][]ast.Expr{} // := / var definitions with a 1:1 value
		unstable := map[types.Object]bool{}   // reassigned, inc/dec'd, address taken, multi-value defined
		rangeVar := map[types.Object]bool{}
		addrTaken := map[types.Object]bool{}         // &x somewhere, or captured and assigned in a function literal
		varDeps := map[types.Object][]types.Object{} // candidate alias -> reassigned locals its definition reads
		var curVarDeps []types.Object
		fieldWritten := map[types.Object]bool{} // fields assigned anywhere in the function
		elemWritten := map[types.Object]bool{}  // variables (or fields) whose elements are assigned
		noteWrite := func(l ast.Expr) {
			switch t := ast.Unparen(l).(type) {
			case *ast.Ident:
				if o := astx.Obj(info, t); o != nil {
					unstable[o] = true
				}
			case *ast.SelectorExpr:
				if fv := astx.FieldSel(info, t); fv != nil {
					fieldWritten[fv] = true
				}
			case *ast.IndexExpr:
				switch b := ast.Unparen(t.X).(type) {
				case *ast.Ident:
					if o := astx.Obj(info, b); o != nil {
						elemWritten[o] = true
					}
				case *ast.SelectorExpr:
					if fv := astx.FieldSel(info, b); fv != nil {
						elemWritten[fv] = true
					}
				}
			}
		}
		ast.Inspect(fi.Node(), func(n ast.Node) bool {
			switch x := n.(type) {
			case *ast.AssignStmt:
				for i, l := range x.Lhs {
					id, isID := l.(*ast.Ident)
					if x.Tok == token.DEFINE && isID && info.Defs[id] != nil {
						o := info.Defs[id]
						if len(x.Lhs) == len(x.Rhs) {
							defs[o] = append(defs[o], x.Rhs[i])
						} else {
							otherDefs[o]++ // one of several results (comma-ok, multi-value call): defined once, no 1:1 expression
						}
						continue
					}
					noteWrite(l)
				}
			case *ast.ValueSpec:
				for i, id := range x.Names {
					o := info.Defs[id]
					if o == nil {
						continue
					}
					if len(x.Values) == len(x.Names) {
						defs[o] = append(defs[o], x.Values[i])
					} else {
						unstable[o] = true // zero value or multi-value
					}
				}
			case *ast.IncDecStmt:
				noteWrite(x.X)
			case *ast.RangeStmt:
				for _, e := range []ast.Expr{x.Key, x.Value} {
					if id, ok := e.(*ast.Ident); ok {
						if x.Tok == token.DEFINE && info.Defs[id] != nil {
							rangeVar[info.Defs[id]] = true
						} else if o := astx.Obj(info, id); o != nil {
							unstable[o] = true
						}
					} else if e != nil {
						noteWrite(e)
					}
				}
			case *ast.UnaryExpr:
				if x.Op == token.AND {
					if id, ok := ast.Unparen(x.X).(*ast.Ident); ok {
						if o := astx.Obj(info, id); o != nil {
							unstable[o] = true
							addrTaken[o] = true
						}
					}
				}
			case *ast.FuncLit:
				// a variable assigned inside a literal can change whenever the literal runs
				ast.Inspect(x.Body, func(m ast.Node) bool {
					mark := func(l ast.Expr) {
						if id, ok := ast.Unparen(l).(*ast.Ident); ok {
							if o := astx.Obj(info, id); o != nil && o.Pos() < x.Pos() {
								addrTaken[o] = true
							}
						}
					}
					switch y := m.(type) {
					case *ast.AssignStmt:
						for _, l := range y.Lhs {
							mark(l)
						}
					case *ast.IncDecStmt:
						mark(y.X)
					}
					return true
				})
			}
			return true
		})
		isLocal := func(o types.Object) bool {
			v, ok := o.(*types.Var)
			return ok && !v.IsField() && v.Pkg() != nil && v.Parent() != v.Pkg().Scope()
		}
		stableVar := func(o types.Object) bool {
			if !isLocal(o) || unstable[o] {
				return false
			}
			if rangeVar[o] {
				return true
			}
			if d, ok := defs[o]; ok {
				return len(d) == 1 && otherDefs[o] == 0
			}
			if otherDefs[o] > 0 {
				return otherDefs[o] == 1
			}
			// parameter / receiver / named result: stable when never assigned (named results are assigned by returns: exclude)
			return o.Pos() < body.Pos()
		}
		isIrcMessageField := func(fv *types.Var) bool {
			return fv != nil && fv.Pkg() != nil && fv.Pkg().Path() == pathIRC
		}
		var stable func(e ast.Expr, depth int) bool
		stable = func(e ast.Expr, depth int) bool {
			e = ast.Unparen(e)
			if e == nil || depth > 12 {
				return false
			}
			if tv, ok := info.Types[e]; ok && tv.Value != nil {
				return true
			}
			switch x := e.(type) {
			case *ast.BasicLit:
				return true
			case *ast.Ident:
				o := astx.Obj(info, x)
				if o == nil {
					return false
				}
				if _, ok := o.(*types.Const); ok {
					return true
				}
				if stableVar(o) && !elemWritten[o] {
					return true
				}
				// a local that is assigned more than once (declared empty and filled under a condition, …) but whose address is
				// never taken: stable from the definition of the alias on if no assignment to it is reachable from there —
				// checked on the CFG below, recorded here
				if isLocal(o) && unstable[o] && !addrTaken[o] && !elemWritten[o] && !rangeVar[o] {
					if _, isBasic := o.Type().Underlying().(*types.Basic); isBasic {
						curVarDeps = append(curVarDeps, o)
						return true
					}
				}
				return false
			case *ast.SelectorExpr:
				if _, ok := info.Selections[x]; !ok {
					_, isConst := info.Uses[x.Sel].(*types.Const)
					return isConst
				}
				fv := astx.FieldSel(info, x)
				if isIrcMessageField(fv) {
					return !fieldWritten[fv] && !elemWritten[fv] && stable(x.X, depth+1)
				}
				// a scalar field of a module struct (s.Nick): stable only if nothing can write it between the definition
				// and any use — checked on the CFG below, recorded here
				if fv != nil && fv.Pkg() != nil && strings.HasPrefix(fv.Pkg().Path(), load.ModPath) {
					if _, isBasic := fv.Type().Underlying().(*types.Basic); isBasic && stable(x.X, depth+1) {
						curDeps = append(curDeps, fv)
						return true
					}
				}
				return false
			case *ast.IndexExpr:
				tv, ok := info.Types[x.X]
				if !ok {
					return false
				}
				switch tv.Type.Underlying().(type) {
				case *types.Slice, *types.Array, *types.Basic:
				default:
					return false
				}
				return stable(x.X, depth+1) && stable(x.Index, depth+1)
			case *ast.SliceExpr:
				for _, p := range []ast.Expr{x.Low, x.High, x.Max} {
					if p != nil && !stable(p, depth+1) {
						return false
					}
				}
				return stable(x.X, depth+1)
			case *ast.BinaryExpr:
				return stable(x.X, depth+1) && stable(x.Y, depth+1)
			case *ast.UnaryExpr:
				return (x.Op == token.NOT || x.Op == token.SUB || x.Op == token.ADD || x.Op == token.XOR) && stable(x.X, depth+1)
			case *ast.CallExpr:
				if tv, ok := info.Types[x.Fun]; ok && tv.IsType() {
					return len(x.Args) == 1 && stable(x.Args[0], depth+1)
				}
				fn := astx.Callee(info, x)
				if fn == nil || fn.Pkg() == nil {
					return false
				}
				if sig, ok := fn.Type().(*types.Signature); !ok || sig.Recv() != nil {
					return false
				}
				pure := fn.Pkg().Path() == "strings" || (strings.HasPrefix(fn.Pkg().Path(), load.ModPath) && pureModuleFuncs[fn.Name()])
				if !pure {
					return false
				}
				for _, a := range x.Args {
					if !stable(a, depth+1) {
						return false
					}
				}
				return true
			}
			return false
		}
		for o, d := range defs {
			if len(d) != 1 || unstable[o] || !isLocal(o) || d[0] == nil {
				continue
			}
			curDeps, curVarDeps = nil, nil
			if stable(d[0], 0) {
				astx.Alias[o] = d[0]
				if len(curDeps) > 0 {
					fieldDeps[o] = append([]*types.Var{}, curDeps...)
				}
				if len(curVarDeps) > 0 {
					varDeps[o] = append([]types.Object{}, curVarDeps...)
					if fieldDeps[o] == nil {
						fieldDeps[o] = []*types.Var{}
					}
				}
			}
		}
		if len(fieldDeps) == 0 {
			continue
		}
		// flow check: from the definition of the alias, no statement that can write one of the fields it reads is reachable
		g := cfgx.New(fi.Name(), body, info)
		writesField := func(n ast.Node, fv *types.Var) bool {
			hit := false
			ast.Inspect(n, func(m ast.Node) bool {
				switch x := m.(type) {
				case *ast.AssignStmt:
					for _, l := range x.Lhs {
						e := l
						for {
							switch t := ast.Unparen(e).(type) {
							case *ast.SelectorExpr:
								if astx.FieldSel(info, t) == fv {
									hit = true
								}
							case *ast.IndexExpr:
								e = t.X
								continue
							case *ast.StarExpr:
								e = t.X
								continue
							}
							break
						}
					}
				case *ast.IncDecStmt:
					if se, ok := ast.Unparen(x.X).(*ast.SelectorExpr); ok && astx.FieldSel(info, se) == fv {
						hit = true
					}
				case *ast.CallExpr:
					if fn := astx.Callee(info, x); fn != nil {
						if cal := p.FuncOf(fn); cal != nil && writes[cal][fv] {
							hit = true
						}
					} else if astx.Builtin(info, x) == "" {
						if tv, ok := info.Types[x.Fun]; !ok || !tv.IsType() {
							hit = true // a dynamic call: unknown effects
						}
					}
				case *ast.FuncLit:
					return false
				}
				return true
			})
			return hit
		}
		for o, deps := range fieldDeps {
			// the defining statement
			dv := -1
			for _, v := range g.Nodes() {
				switch x := v.Node.(type) {
				case *ast.AssignStmt:
					for _, l := range x.Lhs {
						if id, ok := l.(*ast.Ident); ok && info.Defs[id] == o {
							dv = v.ID
						}
					}
				case *ast.DeclStmt:
					ast.Inspect(x, func(m ast.Node) bool {
						if id, ok := m.(*ast.Ident); ok && info.Defs[id] == o {
							dv = v.ID
						}
						return true
					})
				}
			}
			ok := dv >= 0
			if ok {
				reach := map[int]bool{}
				for _, e := range g.V[dv].Succ {
					for k, b := range g.Reach(e.To, nil, nil) {
						if b {
							reach[k] = true
						}
					}
					reach[e.To] = true
				}
				for _, v := range g.Nodes() {
					if !reach[v.ID] || v.Node == nil {
						continue
					}
					for _, fv := range deps {
						if writesField(v.Node, fv) {
							ok = false
						}
					}
					for _, vo := range varDeps[o] {
						ast.Inspect(v.Node, func(m ast.Node) bool {
							switch y := m.(type) {
							case *ast.AssignStmt:
								for _, l := range y.Lhs {
									if id, isID := ast.Unparen(l).(*ast.Ident); isID && astx.Obj(info, id) == vo {
										ok = false
									}
								}
							case *ast.IncDecStmt:
								if id, isID := ast.Unparen(y.X).(*ast.Ident); isID && astx.Obj(info, id) == vo {
									ok = false
								}
							case *ast.RangeStmt:
								for _, e := range []ast.Expr{y.Key, y.Value} {
									if id, isID := e.(*ast.Ident); isID && astx.Obj(info, id) == vo {
										ok = false
									}
								}
							}
							return true
						})
					}
				}
			}
			if !ok {
				delete(astx.Alias, o)
			}
		}
	}
}

// fname is the short name the rules know a function by: its current name, or the recorded name when the function was
// re-identified after a rename (load/anchors.go).
func fname(fn *types.Func) string {
	if fn == nil {
		return ""
	}
	full := load.FuncName(fn)
	return full[strings.LastIndex(full, ".")+1:]
}

// extraAnchors: functions, constants and variables the rules recognise by name inside expressions (rather than looking
// them up once); listing them here records their structural description in anchors.json, so that they survive a rename.
var extraAnchors = []string{
	"ircserver.(*IRCServer).sendUser", "ircserver.(*IRCServer).sendAllUsers", "ircserver.(*IRCServer).sendCommonChannels",
	"ircserver.(*IRCServer).sendChannel", "ircserver.(*IRCServer).sendChannelButOne", "ircserver.(*IRCServer).sendServices",
	"ircserver.servicesPrefix", "ircserver.(*IRCServer).getSessionLocked", "ircserver.(*IRCServer).verifyCaptcha",
	"ircserver.(*IRCServer).maybeDeleteChannelLocked", "main.joinMaster", "main.writeLenPrefixed", "main.(*FSM).sessionExpiration",
	"ircserver.(*IRCServer).createSessionLocked", "ircserver.(*IRCServer).deleteSessionLocked", "ircserver.(*IRCServer).interestedIn",
	"api.(*HTTP).maybeProxyToLeader", "main.(*FSM).getSnapshotState", "ircserver.banned",
	// fields recognised by name in switch statements
	"ircserver.channel.modes", "ircserver.channel.key", "ircserver.channel.bans", "ircserver.channel.topic", "ircserver.channel.topicNick",
	"ircserver.channel.topicTime", "ircserver.channel.nicks", "ircserver.Session.modes", "ircserver.Session.svid", "ircserver.Session.invitedTo",
	"ircserver.Session.ircPrefix", "ircserver.Session.loggedIn", "ircserver.Session.deleted", "ircserver.Session.throttlingExponent",
	"ircserver.Session.lastSolvedCaptcha", "ircserver.Session.lastNonPing", "ircserver.Session.lastClientMessageId",
	// the lock table of C20 and the locks themselves
	"ircserver.IRCServer.sessions", "ircserver.IRCServer.nicks", "ircserver.IRCServer.channels", "ircserver.IRCServer.svsholds",
	"ircserver.IRCServer.serverSessions", "ircserver.IRCServer.lastProcessed", "ircserver.IRCServer.sessionsMu", "ircserver.IRCServer.lastProcessedMu",
	"outputstream.OutputStream.db", "outputstream.OutputStream.batch", "outputstream.OutputStream.lastseen", "outputstream.OutputStream.messagesCache",
	"outputstream.OutputStream.messagesMu", "outputstream.OutputStream.cacheMu", "outputstream.OutputStream.newMessage",
	"raftstore.LevelDBStore.db", "raftstore.LevelDBStore.mu",
	"api.HTTP.ircServerUnlocked", "api.HTTP.ircStoreUnlocked", "api.HTTP.outputUnlocked", "api.HTTP.mu", "api.HTTP.getMessagesRequests",
	"api.HTTP.getMessagesRequestsMu", "api.HTTP.lastWrongPassword", "api.HTTP.throttlingExponent", "api.HTTP.throttleMu",
	"main.FSM.sessionExpirationDur", "main.FSM.sessionExpirationMu", "main.FSM.ircstore", "main.FSM.store", "main.FSM.lastSnapshotState",
	"main.FSM.skipDeletionForCanary", "main.FSM.restoreMu",
}

// errorDiscipline checks, for every error value a call hands to a local variable in fi:
//
//	(E1) on every path the first thing that happens to the variable is a look at it (a nil test, another comparison,
//	     handing it on in a return or a call) — not a redefinition and not the end of the function ("dropped");
//	(E2) the variable is not returned as the function's result where the dominating tests say it is nil and none says
//	     it is not ("return err" on the success edge: the caller is told all is well although the work was not done).
//
// Both are contradiction rules in Engler's sense: the code that obtains an error value believes it can be non-nil.
// It returns the number of error definitions inspected.
func (c *Ctx) errorDiscipline(rule string, fi *load.FuncInfo, detail string) int {
	n := c.errorDisciplineOn(rule, fi.Name(), fi.Info(), c.Graph(fi), detail)
	for k, lit := range funcLitsIn(fi.Body()) {
		name := fi.Name() + "$lit"
		if k > 0 {
			name += itoa(k + 1)
		}
		n += c.errorDisciplineOn(rule, name, fi.Info(), c.LitGraph(name, lit, fi.Info()), detail)
	}
	return n
}

func (c *Ctx) errorDisciplineOn(rule, fname string, info *types.Info, g *cfgx.Graph, detail string) int {
	r := c.R
	errT := types.Universe.Lookup("error").Type()
	n := 0
	seenObj := map[types.Object]bool{}
	for _, v := range g.Nodes() {
		as, ok := v.Node.(*ast.AssignStmt)
		if !ok || len(as.Rhs) != 1 {
			continue
		}
		call, ok := ast.Unparen(as.Rhs[0]).(*ast.CallExpr)
		if !ok {
			continue
		}
		for _, l := range as.Lhs {
			id, ok := l.(*ast.Ident)
			if !ok || id.Name == "_" {
				continue
			}
			obj := astx.Obj(info, id)
			if obj == nil || !types.Identical(obj.Type(), errT) {
				continue
			}
			n++
			seenObj[obj] = true
			callee := astx.Str(call.Fun)
			// E1
			mentions := func(x int) bool { return x != v.ID && g.V[x].Node != nil && astx.Mentions(info, g.V[x].Node, obj) }
			reach := g.Reach(v.ID, mentions, nil)
			dropped := ""
			if reach[g.Exit] {
				dropped = "the function can end"
			}
			for u := range g.V {
				if !reach[u] {
					continue
				}
				for _, e := range g.V[u].Succ {
					w := e.To
					if !mentions(w) {
						continue
					}
					if as2, ok := g.V[w].Node.(*ast.AssignStmt); ok {
						inL, inR := false, false
						for _, l2 := range as2.Lhs {
							if id2, ok := l2.(*ast.Ident); ok && astx.Obj(info, id2) == obj {
								inL = true
							}
						}
						for _, r2 := range as2.Rhs {
							if astx.Mentions(info, r2, obj) {
								inR = true
							}
						}
						if inL && !inR {
							dropped = "it is overwritten at " + c.P.Pos(as2.Pos())
						}
					}
				}
			}
			r.Check(dropped == "", rule, fname, "error of "+callee+" is looked at on every path", c.P.Pos(call.Pos()), "first mention on every path is a test, a return or a use",
				"the error returned by "+callee+" is dropped on some path ("+dropped+" without the error having been examined): "+detail)
		}
	}
	// E2
	defVs := map[types.Object][]int{}
	for _, v := range g.Nodes() {
		if as, ok := v.Node.(*ast.AssignStmt); ok {
			for _, l := range as.Lhs {
				if id, ok := l.(*ast.Ident); ok {
					if o := astx.Obj(info, id); o != nil && seenObj[o] {
						defVs[o] = append(defVs[o], v.ID)
					}
				}
			}
		}
	}
	// sites that hand an error value on: return statements, and calls that get it as an argument (log, Fatal, Errorf, …)
	type site struct {
		v    int
		node ast.Node
		what string
	}
	var sites []site
	for _, v := range g.Nodes() {
		switch x := v.Node.(type) {
		case *ast.ReturnStmt:
			sites = append(sites, site{v.ID, x, "return"})
		case *ast.ExprStmt:
			if call, ok := x.X.(*ast.CallExpr); ok {
				sites = append(sites, site{v.ID, call, "call of " + astx.Str(call.Fun)})
			}
		}
	}
	effect := func(x int) bool {
		switch st := g.V[x].Node.(type) {
		case *ast.AssignStmt, *ast.IncDecStmt, *ast.GoStmt, *ast.SendStmt:
			return true
		case *ast.ExprStmt:
			if call, ok := st.X.(*ast.CallExpr); ok {
				if cfgx.NoReturn(info, call) {
					return false
				}
				if fn := astx.Callee(info, call); fn != nil && fn.Pkg() != nil {
					switch fn.Pkg().Path() {
					case "log", "fmt", "github.com/golang/glog", "github.com/stapelberg/glog":
						return false
					}
				}
				return true
			}
		}
		return false
	}
	for _, st := range sites {
		done := map[types.Object]bool{}
		var args []ast.Node
		switch x := st.node.(type) {
		case *ast.ReturnStmt:
			for _, res := range x.Results {
				args = append(args, res)
			}
		case *ast.CallExpr:
			for _, a := range x.Args {
				args = append(args, a)
			}
		}
		for _, res := range args {
			ast.Inspect(res, func(nd ast.Node) bool {
				if _, isLit := nd.(*ast.FuncLit); isLit {
					return false
				}
				id, ok := nd.(*ast.Ident)
				if !ok {
					return true
				}
				obj := astx.Obj(info, id)
				if obj == nil || !seenObj[obj] || done[obj] {
					return true
				}
				done[obj] = true
				sawNil, sawNonNil, unhandled := false, false, false
				for _, v := range g.V {
					if len(v.Succ) != 2 || v.Succ[0].Cond == nil || v.Succ[0].To == v.Succ[1].To {
						continue
					}
					for k, e := range v.Succ {
						if !g.EdgeDominates(e, st.v) {
							continue
						}
						// stale: the variable is redefined between this edge and the site
						stale := false
						notE := func(x *cfgx.Edge) bool { return x == e }
						fromE := g.Reach(e.To, nil, notE)
						for _, d := range defVs[obj] {
							if (fromE[d] || d == e.To) && g.Reach(d, nil, notE)[st.v] {
								stale = true
							}
						}
						if stale {
							continue
						}
						for _, f := range e.Facts() {
							x, isNil, ok := nilCompare(info, f)
							if !ok {
								continue
							}
							if xid, ok := ast.Unparen(x).(*ast.Ident); ok && astx.Obj(info, xid) == obj {
								if isNil {
									sawNil = true
									// is the other edge of this test — the one on which the error is set — dealt with? It is when every
									// path from it ends, before anything with an effect happens, in a return that mentions the
									// variable or in a no-return call. (`if err != nil { return nil, err }; …; return x, err` hands
									// back a nil err harmlessly.)
									sib := v.Succ[1-k]
									stop := func(x int) bool {
										if rs2, ok := g.V[x].Node.(*ast.ReturnStmt); ok && astx.Mentions(info, rs2, obj) {
											return true
										}
										return effect(x)
									}
									if effect(sib.To) {
										unhandled = true
									} else if rs2, ok := g.V[sib.To].Node.(*ast.ReturnStmt); !(ok && astx.Mentions(info, rs2, obj)) {
										reach := g.Reach(sib.To, stop, nil)
										if reach[g.Exit] {
											unhandled = true
										}
										for x := range g.V {
											if !reach[x] {
												continue
											}
											for _, e2 := range g.V[x].Succ {
												if effect(e2.To) {
													unhandled = true
												}
											}
										}
									}
								} else {
									sawNonNil = true
								}
							}
						}
					}
				}
				r.Check(!(sawNil && !sawNonNil && unhandled), rule, fname, "an error variable is handed on ("+st.what+") only where it can be non-nil", c.P.Pos(st.node.Pos()), "no current dominating test says it is nil",
					"the statement reports "+id.Name+" on the edge where the dominating test established "+id.Name+" == nil, and the edge on which it is set carries on with the normal work: the failure is taken for success (and success is reported as a failure with a nil cause): "+detail)
				return true
			})
		}
	}
	// E4: a value obtained together with an error is not used where the current tests say the error is set
	for _, v := range g.Nodes() {
		as, ok := v.Node.(*ast.AssignStmt)
		if !ok || len(as.Rhs) != 1 || len(as.Lhs) < 2 {
			continue
		}
		if _, isCall := ast.Unparen(as.Rhs[0]).(*ast.CallExpr); !isCall {
			continue
		}
		var errObj types.Object
		var vals []types.Object
		for _, l := range as.Lhs {
			id, ok := l.(*ast.Ident)
			if !ok || id.Name == "_" {
				continue
			}
			o := astx.Obj(info, id)
			if o == nil {
				continue
			}
			if types.Identical(o.Type(), errT) {
				errObj = o
			} else {
				vals = append(vals, o)
			}
		}
		if errObj == nil || len(vals) == 0 {
			continue
		}
		for _, val := range vals {
			redefined := func(x int) bool {
				as2, ok := g.V[x].Node.(*ast.AssignStmt)
				if !ok || x == v.ID {
					return false
				}
				for _, l := range as2.Lhs {
					if id, ok := l.(*ast.Ident); ok && astx.Obj(info, id) == val {
						return true
					}
				}
				return false
			}
			errRedef := func(x *cfgx.Vertex) bool {
				as2, ok := x.Node.(*ast.AssignStmt)
				if !ok || x.ID == v.ID {
					return false
				}
				for _, l := range as2.Lhs {
					if id, ok := l.(*ast.Ident); ok && astx.Obj(info, id) == errObj {
						return true
					}
				}
				return false
			}
			reach := g.Reach(v.ID, redefined, nil)
			var onErrEdge []*cfgx.Vertex
			elsewhere := false
			for _, u := range g.Nodes() {
				if !reach[u.ID] || u.ID == v.ID || !astx.Mentions(info, u.Node, val) {
					continue
				}
				if errRedef(u) || g.Between(v.ID, u.ID, errRedef) {
					elsewhere = true // the error variable has been re-used since: nothing is known about this result's error
					continue
				}
				sawNil, sawNonNil := false, false
				for _, cv := range g.V {
					if len(cv.Succ) != 2 || cv.Succ[0].Cond == nil {
						continue
					}
					for _, e := range cv.Succ {
						if e.Tag != nil || !reach[cv.ID] || !g.EdgeDominates(e, u.ID) {
							continue
						}
						for _, f := range cfgx.ExpandCond(e.Cond, e.Val) {
							x, isNil, ok := nilCompare(info, f)
							if !ok {
								continue
							}
							if xid, ok := ast.Unparen(x).(*ast.Ident); ok && astx.Obj(info, xid) == errObj {
								if isNil {
									sawNil = true
								} else {
									sawNonNil = true
								}
							}
						}
					}
				}
				if sawNonNil && !sawNil {
					onErrEdge = append(onErrEdge, u)
				} else {
					elsewhere = true
				}
			}
			// `return n, err` on the error edge of a Write-like call is idiomatic; a value that is used ONLY where the error is
			// set is the inverted test
			if len(onErrEdge) > 0 && !elsewhere {
				u := onErrEdge[0]
				r.Fail(rule, fname, "a result is not used only on the edge where its error is set", c.P.Pos(u.Node.Pos()),
					"the value "+val.Name()+" returned together with an error is used exclusively where the dominating test established that the error is not nil: the test is inverted — the failed result is stored or parsed, the good one is dropped: "+detail)
			}
		}
	}
	// E3: an error test with an empty branch — both edges of the test lead to the same statement
	skipTails := func(x int) int {
		for k := 0; k < 8; k++ {
			vx := g.V[x]
			if vx.Node == nil && vx.Kind == "tail" && len(vx.Succ) == 1 && vx.Succ[0].Cond == nil && vx.Succ[0].Range == nil {
				x = vx.Succ[0].To
				continue
			}
			break
		}
		return x
	}
	for _, v := range g.V {
		if len(v.Succ) != 2 || v.Succ[0].Cond == nil || skipTails(v.Succ[0].To) != skipTails(v.Succ[1].To) {
			continue
		}
		for _, f := range cfgx.ExpandCond(v.Succ[0].Cond, v.Succ[0].Val) {
			x, _, ok := nilCompare(info, f)
			if !ok {
				continue
			}
			if xid, ok := ast.Unparen(x).(*ast.Ident); ok && seenObj[astx.Obj(info, xid)] {
				r.Fail(rule, fname, "a tested error has a consequence", c.P.Pos(v.Succ[0].Cond.Pos()),
					"the error is compared with nil but both outcomes continue with the same statement (empty branch): the failure is ignored: "+detail)
			}
		}
	}
	return n
}

// iteratorBuffers: rule (v) of the iterator discipline, also for functions the discipline is not otherwise applied to.
func (c *Ctx) iteratorBuffers(rule string, fi *load.FuncInfo) {
	r := c.R
	info := fi.Info()
	iterCall := func(call *ast.CallExpr, names ...string) bool {
		se, ok := ast.Unparen(call.Fun).(*ast.SelectorExpr)
		if !ok {
			return false
		}
		fn := astx.Callee(info, call)
		if fn == nil || fn.Pkg() == nil || !strings.HasSuffix(fn.Pkg().Path(), "goleveldb/leveldb/iterator") {
			return false
		}
		for _, nm := range names {
			if se.Sel.Name == nm {
				return true
			}
		}
		return false
	}
	// (v) what Key() / Value() return belongs to the iterator and is overwritten by the next move: it is used on the spot
	// (written, put into a batch, decoded, copied), not kept — not sent on a channel, appended as an element, or stored in a
	// field, an element or a composite literal as it is. (Function literals included: a reader goroutine that queues values.)
	{
		isBuf := func(e ast.Expr) *ast.CallExpr {
			call, ok := ast.Unparen(e).(*ast.CallExpr)
			if ok && iterCall(call, "Key", "Value") {
				return call
			}
			return nil
		}
		keep := func(call *ast.CallExpr, how string) {
			r.Fail(rule, fi.Name(), "the iterator's buffer is not kept beyond the step", c.P.Pos(call.Pos()),
				"the slice returned by "+astx.Str(call.Fun)+"() is "+how+" without a copy: goleveldb reuses that buffer when the iterator moves, so what was kept turns into a later entry's bytes — records are duplicated, lost or torn")
		}
		ast.Inspect(fi.Body(), func(n ast.Node) bool {
			switch x := n.(type) {
			case *ast.SendStmt:
				if call := isBuf(x.Value); call != nil {
					keep(call, "sent on a channel")
				}
			case *ast.CallExpr:
				if astx.Builtin(info, x) == "append" && !x.Ellipsis.IsValid() {
					for _, a := range x.Args[1:] {
						if call := isBuf(a); call != nil {
							keep(call, "appended to a slice")
						}
					}
				}
			case *ast.CompositeLit:
				for _, el := range x.Elts {
					v := el
					if kv, ok := el.(*ast.KeyValueExpr); ok {
						v = kv.Value
					}
					if call := isBuf(v); call != nil {
						keep(call, "stored in a composite literal")
					}
				}
			case *ast.AssignStmt:
				if len(x.Lhs) == len(x.Rhs) {
					for i, rh := range x.Rhs {
						call := isBuf(rh)
						if call == nil {
							continue
						}
						switch ast.Unparen(x.Lhs[i]).(type) {
						case *ast.SelectorExpr, *ast.IndexExpr:
							keep(call, "stored in "+astx.Str(x.Lhs[i]))
						}
					}
				}
			}
			return true
		})
	}
}

// iteratorDiscipline: LevelDB iterators are only read where they are positioned on an entry.
//
//	(i)   the boolean result of First/Last/Next/Prev/Seek is not discarded;
//	(ii)  on the edge where that result is false (directly, negated, or through a flag that is only ever assigned such
//	      results) no Key()/Value() is reachable before the iterator is positioned again;
//	(iii) every Key()/Value() has a positioning call on every path from the function entry (iterators received as a
//	      parameter or from a call of another function of the module are the caller's business and are skipped).
//
// Returns the number of positioning calls inspected.
func (c *Ctx) iteratorDiscipline(rule string, fi *load.FuncInfo) int {
	r := c.R
	info := fi.Info()
	g := c.Graph(fi)
	iterCall := func(call *ast.CallExpr, names ...string) bool {
		se, ok := ast.Unparen(call.Fun).(*ast.SelectorExpr)
		if !ok {
			return false
		}
		fn := astx.Callee(info, call)
		if fn == nil || fn.Pkg() == nil || !strings.HasSuffix(fn.Pkg().Path(), "goleveldb/leveldb/iterator") {
			return false
		}
		for _, nm := range names {
			if se.Sel.Name == nm {
				return true
			}
		}
		return false
	}
	posNames := []string{"First", "Last", "Next", "Prev", "Seek"}
	hasCall := func(n ast.Node, names ...string) *ast.CallExpr {
		if n == nil {
			return nil
		}
		for _, call := range astx.Calls(n, false) {
			if iterCall(call, names...) {
				return call
			}
		}
		return nil
	}
	isPos := func(x int) bool { return hasCall(g.V[x].Node, posNames...) != nil }
	nPos := 0
	for _, v := range g.Nodes() {
		call := hasCall(v.Node, posNames...)
		if call == nil {
			continue
		}
		nPos++
		if es, ok := v.Node.(*ast.ExprStmt); ok && ast.Unparen(es.X) == ast.Expr(call) {
			r.Fail(rule, fi.Name(), "the result of positioning the iterator is looked at", c.P.Pos(call.Pos()),
				"the boolean result of "+astx.Str(call.Fun)+" is discarded: whether the iterator stands on an entry is unknown at the following Key()/Value()")
		}
	}
	c.iteratorBuffers(rule, fi)
	if nPos == 0 {
		return 0
	}
	flagOfPos := func(e ast.Expr) bool {
		switch x := ast.Unparen(e).(type) {
		case *ast.CallExpr:
			return iterCall(x, posNames...) || iterCall(x, "Valid")
		case *ast.Ident:
			obj := astx.Obj(info, x)
			if obj == nil {
				return false
			}
			defs := defsOf(info, fi.Node(), obj)
			if len(defs) == 0 {
				return false
			}
			for _, d := range defs {
				if d == nil {
					return false
				}
				call, ok := ast.Unparen(d).(*ast.CallExpr)
				if !ok || !iterCall(call, posNames...) {
					return false
				}
			}
			return true
		}
		return false
	}
	// (ii)
	for _, v := range g.V {
		for _, e := range v.Succ {
			if e.Cond == nil {
				continue
			}
			exhausted := false
			for _, cl := range c.clausesOf(info, fi.Node(), e.Cond, e.Val, 0) {
				if len(cl) == 1 && !cl[0].Pos && flagOfPos(cl[0].E) {
					exhausted = true
				}
			}
			if !exhausted {
				continue
			}
			reach := g.Reach(e.To, isPos, nil)
			bad := token.NoPos
			for x := range g.V {
				if (reach[x] || x == e.To) && !isPos(x) {
					if call := hasCall(g.V[x].Node, "Key", "Value"); call != nil {
						bad = call.Pos()
					}
				}
			}
			pos := e.Cond.Pos()
			if bad.IsValid() {
				pos = bad
			}
			r.Check(!bad.IsValid(), rule, fi.Name(), "an exhausted iterator is not read", c.P.Pos(pos), "no Key()/Value() reachable from the edge where the positioning call returned false",
				"Key()/Value() is evaluated on a path where the last positioning call reported that there is no entry (an empty database, or the end of the key space): the nil key is taken for a log key — the first/last index is garbage or the conversion fails and the store does not open")
		}
	}
	// (iii) the first entry is not passed over: between First() and the next Next() on the same iterator there is a read of
	// the entry (Key / Value) on every path. (`if !it.First() { … }; for it.Next() { … }` copies all entries but the first.
	// Last() followed by Prev() — "the one before the newest" — is a different idiom and is not judged.)
	for _, v := range g.Nodes() {
		first := hasCall(v.Node, "First")
		if first == nil {
			continue
		}
		recv := ast.Unparen(first.Fun).(*ast.SelectorExpr).X
		sameIt := func(call *ast.CallExpr) bool {
			se, ok := ast.Unparen(call.Fun).(*ast.SelectorExpr)
			return ok && astx.Same(info, se.X, recv)
		}
		reads := func(x int) bool {
			call := hasCall(g.V[x].Node, "Key", "Value")
			return call != nil && sameIt(call) && x != v.ID
		}
		reach := g.Reach(v.ID, reads, nil)
		bad := token.NoPos
		for x := range g.V {
			if !reach[x] || x == v.ID {
				continue
			}
			if call := hasCall(g.V[x].Node, "Next"); call != nil && sameIt(call) && !reads(x) {
				bad = call.Pos()
			}
		}
		pos := first.Pos()
		if bad.IsValid() {
			pos = bad
		}
		r.Check(!bad.IsValid(), rule, fi.Name(), "the first entry is read before the iterator moves on", c.P.Pos(pos), "every path from First() to a Next() passes Key() / Value()",
			"the iterator is advanced right after First() without the entry having been read: the oldest entry of the range is skipped — it is missing from the copy (snapshot, conversion, deletion) that the loop makes")
	}
	// (iv) a loop that runs while the iterator has entries moves the iterator on every way back to its head
	ast.Inspect(fi.Body(), func(n ast.Node) bool {
		fs, ok := n.(*ast.ForStmt)
		if !ok || fs.Cond == nil || len(fs.Body.List) == 0 {
			return true
		}
		ctl := false
		for _, cl := range c.clausesOf(info, fi.Node(), fs.Cond, true, 0) {
			for _, l := range cl {
				if l.Pos && flagOfPos(l.E) {
					ctl = true
				}
			}
		}
		if !ctl {
			return true
		}
		if _, isCall := ast.Unparen(fs.Cond).(*ast.CallExpr); isCall {
			return true // `for it.Next() {` advances in its condition
		}
		start := g.VertexOf(fs.Body.List[0])
		head := g.VertexAt(fs.Cond.Pos(), fs.Cond.End())
		if start < 0 || head < 0 {
			return true
		}
		adv := func(x int) bool { return hasCall(g.V[x].Node, "Next", "Prev", "Seek") != nil }
		spin := false
		reach := g.Reach(start, func(x int) bool { return adv(x) || x == head }, nil)
		for x := range g.V {
			if !(reach[x] || x == start) || adv(x) {
				continue
			}
			for _, e := range g.V[x].Succ {
				if e.To == head {
					spin = true
				}
			}
		}
		if fs.Post != nil {
			if pv := g.VertexOf(fs.Post); pv >= 0 && adv(pv) {
				spin = false
			}
		}
		r.Check(!spin, rule, fi.Name(), "the iteration loop advances the iterator on every way round", c.P.Pos(fs.Pos()), "Next() on every path from the body back to the loop condition",
			"the loop can start its next round without having moved the iterator: the same entry is processed again and again (folded twice, written twice) and the loop never ends")
		return true
	})
	// (iii)
	for _, v := range g.Nodes() {
		call := hasCall(v.Node, "Key", "Value")
		if call == nil || isPos(v.ID) {
			continue
		}
		se := ast.Unparen(call.Fun).(*ast.SelectorExpr)
		id, ok := ast.Unparen(se.X).(*ast.Ident)
		if !ok {
			continue
		}
		local := false
		for _, d := range defsOf(info, fi.Node(), astx.Obj(info, id)) {
			if dc, ok := ast.Unparen(d).(*ast.CallExpr); d != nil && ok {
				if fn := astx.Callee(info, dc); fn != nil && fn.Pkg() != nil && strings.Contains(fn.Pkg().Path(), "goleveldb") {
					local = true
				}
			}
		}
		if !local {
			continue
		}
		r.Check(g.DominatedBy(v.ID, func(x *cfgx.Vertex) bool { return isPos(x.ID) }), rule, fi.Name(), "the iterator is positioned before it is read", c.P.Pos(call.Pos()), "First/Last/Next/Prev/Seek on every path from the entry",
			"Key()/Value() is evaluated on an iterator that was never positioned on some path: it yields nil")
	}
	return nPos
}

// attribName names the function an obligation is attributed to: fi itself, or — when fi is an unexported function with
// exactly one static call site in its package — (transitively) its only caller. A block that a maintainer extracts into a
// private helper keeps its obligation keys, so a recorded known finding still matches the same defect there.
func (c *Ctx) attribName(fi *load.FuncInfo) string {
	cur := fi
	for k := 0; k < 3; k++ {
		if cur.Obj == nil || cur.Obj.Exported() || c.P.IsAnchor(cur.Name()) {
			break
		}
		var callers []*load.FuncInfo
		nSites := 0
		for _, other := range c.P.AllFuncs {
			if other.Body() == nil || other == cur || other.Obj == nil || other.Obj.Pkg() != cur.Obj.Pkg() {
				continue
			}
			for _, call := range astx.Calls(other.Body(), true) {
				if astx.Callee(other.Info(), call) == cur.Obj {
					nSites++
					callers = append(callers, other)
				}
			}
		}
		if nSites != 1 {
			break
		}
		cur = callers[0]
	}
	return cur.Name()
}

func derefType(t types.Type) types.Type {
	if p, ok := t.(*types.Pointer); ok {
		return p.Elem()
	}
	return t
}

// readOnlyAlias: `p := &<expr>` where every other mention of p in fi selects a field of it in read position (never on the
// left of an assignment, never the operand of ++/--, & or a call argument as such).
func (c *Ctx) readOnlyAlias(fi *load.FuncInfo, addr *ast.UnaryExpr) bool {
	info := fi.Info()
	var local types.Object
	ast.Inspect(fi.Body(), func(n ast.Node) bool {
		if as, ok := n.(*ast.AssignStmt); ok && len(as.Lhs) == 1 && len(as.Rhs) == 1 && ast.Unparen(as.Rhs[0]) == ast.Expr(addr) {
			if id, ok := as.Lhs[0].(*ast.Ident); ok {
				local = astx.Obj(info, id)
			}
		}
		return true
	})
	if local == nil {
		return false
	}
	ok := true
	parents := map[ast.Node]ast.Node{}
	var stack []ast.Node
	ast.Inspect(fi.Body(), func(n ast.Node) bool {
		if n == nil {
			stack = stack[:len(stack)-1]
			return true
		}
		if len(stack) > 0 {
			parents[n] = stack[len(stack)-1]
		}
		stack = append(stack, n)
		return true
	})
	ast.Inspect(fi.Body(), func(n ast.Node) bool {
		id, isID := n.(*ast.Ident)
		if !isID || astx.Obj(info, id) != local {
			return true
		}
		p := parents[id]
		if as, isAs := p.(*ast.AssignStmt); isAs {
			for _, l := range as.Lhs {
				if l == ast.Expr(id) {
					return true // the defining assignment
				}
			}
		}
		se, isSel := p.(*ast.SelectorExpr)
		if !isSel || se.X != ast.Expr(id) {
			ok = false
			return true
		}
		// climb: selector / index chains; then the chain must not be written
		var top ast.Node = se
		for {
			pp := parents[top]
			switch x := pp.(type) {
			case *ast.SelectorExpr:
				if x.X == top {
					top = x
					continue
				}
			case *ast.IndexExpr:
				if x.X == top {
					top = x
					continue
				}
			case *ast.ParenExpr:
				top = x
				continue
			}
			break
		}
		switch x := parents[top].(type) {
		case *ast.AssignStmt:
			for _, l := range x.Lhs {
				if l == top {
					ok = false
				}
			}
		case *ast.IncDecStmt:
			ok = false
		case *ast.UnaryExpr:
			if x.Op == token.AND {
				ok = false
			}
		case *ast.CallExpr:
			if b := astx.Builtin(info, x); b == "delete" || b == "append" && len(x.Args) > 0 && x.Args[0] == top {
				ok = false
			}
		}
		return true
	})
	return ok
}

// lengthDiscipline: a slice that is created with a length (`x := make([]T, n)`, n not the constant 0) is filled by index; a
// slice that is appended to starts empty (`make([]T, 0, n)`, `nil`, `[]T{}`). `make([]T, n)` followed by `x = append(x, …)`
// leaves n zero values in front of the data — in a decoder or a restore that is n phantom records (an operator without a
// name, a service with the empty password, a recipient 0). only, when not nil, restricts the rule to slices it accepts.
// It returns the number of created slices it looked at.
func (c *Ctx) lengthDiscipline(rule string, fi *load.FuncInfo, only func(t *types.Slice) bool, detail string) int {
	if fi == nil || fi.Body() == nil {
		return 0
	}
	info := fi.Info()
	r := c.R
	n := 0
	ast.Inspect(fi.Body(), func(m ast.Node) bool {
		var lhs []ast.Expr
		var rhs []ast.Expr
		switch x := m.(type) {
		case *ast.AssignStmt:
			lhs, rhs = x.Lhs, x.Rhs
		case *ast.ValueSpec:
			for _, nm := range x.Names {
				lhs = append(lhs, nm)
			}
			rhs = x.Values
		default:
			return true
		}
		if len(lhs) != len(rhs) {
			return true
		}
		for i, rh := range rhs {
			call, ok := ast.Unparen(rh).(*ast.CallExpr)
			if !ok || astx.Builtin(info, call) != "make" || len(call.Args) != 2 {
				continue
			}
			st, ok := info.TypeOf(call).Underlying().(*types.Slice)
			if !ok || (only != nil && !only(st)) {
				continue
			}
			if v, isConst := astx.ConstInt(info, call.Args[1]); isConst && v == 0 {
				continue
			}
			id, ok := lhs[i].(*ast.Ident)
			if !ok || id.Name == "_" {
				continue
			}
			obj := astx.Obj(info, id)
			if obj == nil {
				continue
			}
			n++
			appended, indexed := false, false
			ast.Inspect(fi.Body(), func(k ast.Node) bool {
				switch y := k.(type) {
				case *ast.AssignStmt:
					for j, l := range y.Lhs {
						if ie, ok := ast.Unparen(l).(*ast.IndexExpr); ok {
							if xid, ok := ast.Unparen(ie.X).(*ast.Ident); ok && astx.Obj(info, xid) == obj {
								indexed = true
							}
						}
						if lid, ok := l.(*ast.Ident); ok && astx.Obj(info, lid) == obj && len(y.Lhs) == len(y.Rhs) {
							if ac, ok := ast.Unparen(y.Rhs[j]).(*ast.CallExpr); ok && astx.Builtin(info, ac) == "append" && len(ac.Args) >= 1 {
								if aid, ok := ast.Unparen(ac.Args[0]).(*ast.Ident); ok && astx.Obj(info, aid) == obj {
									appended = true
								}
							}
						}
					}
				case *ast.CallExpr:
					// copy(x, …), io.ReadFull(r, x), binary.Read…: filled as a whole
					for _, a := range y.Args {
						if aid, ok := ast.Unparen(a).(*ast.Ident); ok && astx.Obj(info, aid) == obj && astx.Builtin(info, y) != "append" && astx.Builtin(info, y) != "len" && astx.Builtin(info, y) != "cap" {
							indexed = true
						}
					}
				case *ast.RangeStmt:
					// for i := range x { x[i] = … } is covered by the index write
				}
				return true
			})
			r.Check(!appended || indexed, rule, c.attribName(fi), "slice "+id.Name+" created with a length is not appended to", c.P.Pos(call.Pos()), "filled by index, or created empty",
				"make([]T, n) followed by append leaves n zero values in front of the data: "+detail)
		}
		return true
	})
	return n
}

// errorIdentity: an error that is compared by identity (== / != / switch case against a package-level error value) or by a
// type assertion arrives the way it was made: the function that handed it to the comparing function — and, two levels down,
// the module functions that one got it from — returns errors as they are, not inside a new error built from them
// (fmt.Errorf("…", err), errors.Join, a wrapping helper). Where the comparison uses errors.Is / errors.As nothing is asked.
// It returns the number of comparisons looked at.
func (c *Ctx) errorIdentity(rule string, pkgs []string, only func(sentinel string) bool, detail string) int {
	r := c.R
	errT := types.Universe.Lookup("error").Type()
	isErr := func(t types.Type) bool { return t != nil && types.Identical(t, errT) }
	// wrapsAt: the position where fn (a module function) returns an error built from another error, or ""
	type wkey struct {
		fi  *load.FuncInfo
		pkg string
	}
	seen := map[wkey]string{}
	// family: the first three elements of an import path ("github.com/syndtr/goleveldb")
	family := func(p string) string {
		parts := strings.Split(p, "/")
		if len(parts) > 3 {
			parts = parts[:3]
		}
		return strings.Join(parts, "/")
	}
	var wrapsAt func(fi *load.FuncInfo, depth int, spkg string) string
	wrapsAt = func(fi *load.FuncInfo, depth int, spkg string) string {
		if fi == nil || fi.Body() == nil || depth > 2 {
			return ""
		}
		if w, ok := seen[wkey{fi, spkg}]; ok {
			return w
		}
		seen[wkey{fi, spkg}] = ""
		info := fi.Info()
		res := ""
		// couldCarry: the error expression may be (or contain) an error of the sentinel's package: it comes from a module
		// function, from a function of that package family, or from somewhere that cannot be told
		var couldCarry func(e ast.Expr, d int) bool
		couldCarry = func(e ast.Expr, d int) bool {
			e = ast.Unparen(e)
			if d > 3 {
				return true
			}
			switch x := e.(type) {
			case *ast.CallExpr:
				fn := astx.Callee(info, x)
				if fn == nil || fn.Pkg() == nil {
					return true
				}
				if c.P.FuncOf(fn) != nil {
					return true
				}
				return family(fn.Pkg().Path()) == family(spkg)
			case *ast.Ident:
				o, ok := astx.Obj(info, x).(*types.Var)
				if !ok || o.IsField() {
					return true
				}
				defs := defsOf(info, fi.Node(), o)
				if len(defs) == 0 {
					return true // a parameter
				}
				// `v, err := f(); if err != nil { return wrap(err) }`: the definition that reaches the use is the nearest one
				// before it (error variables are re-used down a function; loops that carry an error around are not the idiom)
				var nearest ast.Expr
				for _, dd := range defs {
					if dd != nil && dd.Pos() < x.Pos() && (nearest == nil || dd.Pos() > nearest.Pos()) {
						nearest = dd
					}
				}
				if nearest != nil {
					return ast.Unparen(nearest) != ast.Expr(x) && couldCarry(nearest, d+1)
				}
				for _, dd := range defs {
					if dd != nil && ast.Unparen(dd) != ast.Expr(x) && couldCarry(dd, d+1) {
						return true
					}
				}
				return false
			}
			return true
		}
		isWrap := func(e ast.Expr) bool {
			call, ok := ast.Unparen(e).(*ast.CallExpr)
			if !ok {
				return false
			}
			fn := astx.Callee(info, call)
			if fn == nil || fn.Pkg() == nil {
				return false
			}
			p := fn.Pkg().Path()
			if !(p == "fmt" && fn.Name() == "Errorf") && !(p == "errors" && (fn.Name() == "Join" || strings.HasPrefix(fn.Name(), "Wrap"))) && !strings.HasSuffix(p, "pkg/errors") {
				return false
			}
			for _, a := range call.Args {
				if isErr(info.TypeOf(a)) && couldCarry(a, 0) {
					return true
				}
			}
			return false
		}
		var check func(e ast.Expr, d int)
		check = func(e ast.Expr, d int) {
			if e == nil || d > 3 || res != "" {
				return
			}
			e = ast.Unparen(e)
			if isWrap(e) {
				res = c.P.Pos(e.Pos()) + " (" + shortName(fi) + ")"
				return
			}
			switch x := e.(type) {
			case *ast.Ident:
				if o, ok := astx.Obj(info, x).(*types.Var); ok && !o.IsField() && o.Pkg() != nil && o.Parent() != o.Pkg().Scope() {
					for _, dd := range defsOf(info, fi.Node(), o) {
						if dd != nil && ast.Unparen(dd) != ast.Expr(x) {
							check(dd, d+1)
						}
					}
				}
			case *ast.CallExpr:
				if cal := c.P.FuncOf(astx.Callee(info, x)); cal != nil && cal != fi {
					if w := wrapsAt(cal, depth+1, spkg); w != "" {
						res = w
					}
				}
			}
		}
		ast.Inspect(fi.Body(), func(n ast.Node) bool {
			if _, isLit := n.(*ast.FuncLit); isLit {
				return false
			}
			rs, ok := n.(*ast.ReturnStmt)
			if !ok {
				return true
			}
			for _, e := range rs.Results {
				if isErr(info.TypeOf(e)) {
					check(e, 0)
				} else if call, isCall := ast.Unparen(e).(*ast.CallExpr); isCall && len(rs.Results) == 1 {
					check(call, 0) // return f(…) of a tuple
				}
			}
			return true
		})
		seen[wkey{fi, spkg}] = res
		return res
	}
	n := 0
	for _, pk := range pkgs {
		for _, fi := range c.P.FuncsIn(pk) {
			if fi.Body() == nil {
				continue
			}
			info := fi.Info()
			sentinelPkg := ""
			sentinelOf := func(e ast.Expr) string {
				var id *ast.Ident
				switch x := ast.Unparen(e).(type) {
				case *ast.Ident:
					id = x
				case *ast.SelectorExpr:
					id = x.Sel
				}
				if id == nil {
					return ""
				}
				v, ok := info.Uses[id].(*types.Var)
				if !ok || v.IsField() || v.Pkg() == nil || v.Parent() != v.Pkg().Scope() || !isErr(v.Type()) {
					return ""
				}
				sentinelPkg = v.Pkg().Path()
				return v.Pkg().Name() + "." + v.Name()
			}
			judge := func(errExpr ast.Expr, sentinel string, at ast.Node) {
				spkg := sentinelPkg
				if only != nil && !only(sentinel) {
					return
				}
				id, ok := ast.Unparen(errExpr).(*ast.Ident)
				if !ok {
					return
				}
				obj := astx.Obj(info, id)
				if obj == nil {
					return
				}
				for _, d := range defsOf(info, fi.Node(), obj) {
					call, ok := ast.Unparen(d).(*ast.CallExpr)
					if d == nil || !ok {
						continue
					}
					// built from another error right here (a helper that wrapped it was expanded into this function)
					if fn := astx.Callee(info, call); fn != nil && fn.Pkg() != nil && fn.Pkg().Path() == "fmt" && fn.Name() == "Errorf" {
						for _, a := range call.Args {
							if isErr(info.TypeOf(a)) {
								n++
								r.Fail(rule, c.attribName(fi), "the error compared with "+sentinel+" arrives unwrapped", c.P.Pos(at.Pos()),
									"the error that is compared by identity here was put inside a new error at "+c.P.Pos(call.Pos())+": the comparison never holds again — "+detail)
							}
						}
						continue
					}
					cal := c.P.FuncOf(astx.Callee(info, call))
					if cal == nil {
						continue
					}
					n++
					w := wrapsAt(cal, 0, spkg)
					r.Check(w == "", rule, c.attribName(fi), "the error compared with "+sentinel+" arrives unwrapped from "+shortName(cal), c.P.Pos(at.Pos()), "the callee returns errors as it got them",
						"the error is compared by identity here, but "+shortName(cal)+" (or what it calls) hands it on inside a new error built at "+w+": the comparison never holds again — "+detail)
				}
			}
			ast.Inspect(fi.Body(), func(nd ast.Node) bool {
				switch x := nd.(type) {
				case *ast.BinaryExpr:
					if x.Op != token.EQL && x.Op != token.NEQ {
						return true
					}
					if s := sentinelOf(x.Y); s != "" && isErr(info.TypeOf(x.X)) {
						judge(x.X, s, x)
					} else if s := sentinelOf(x.X); s != "" && isErr(info.TypeOf(x.Y)) {
						judge(x.Y, s, x)
					}
				case *ast.SwitchStmt:
					if x.Tag != nil && isErr(info.TypeOf(x.Tag)) {
						for _, cl := range x.Body.List {
							for _, ce := range cl.(*ast.CaseClause).List {
								if s := sentinelOf(ce); s != "" {
									judge(x.Tag, s, ce)
								}
							}
						}
					}
				case *ast.TypeAssertExpr:
					if x.Type != nil && isErr(info.TypeOf(x.X)) {
						if n := astx.NamedOf(info.TypeOf(x.Type)); n != nil && n.Obj().Pkg() != nil {
							sentinelPkg = n.Obj().Pkg().Path()
							judge(x.X, "type "+astx.Str(x.Type), x)
						}
					}
				}
				return true
			})
		}
	}
	return n
}

// noOwnErrors: every error the function returns was handed to it by something it called (or extracted from a value by a type
// assertion): it makes no error of its own (errors.New, fmt.Errorf, a package-level error value, an error literal). For a
// function whose callers act on "it failed" — refuse a configuration, answer 5xx, stop the node — a new way to fail is a new
// refusal the callers were not written for.
func (c *Ctx) noOwnErrors(rule string, fi *load.FuncInfo, detail string) int {
	if fi == nil || fi.Body() == nil {
		return 0
	}
	r := c.R
	info := fi.Info()
	errT := types.Universe.Lookup("error").Type()
	isErr := func(t types.Type) bool { return t != nil && types.Identical(t, errT) }
	n := 0
	var own func(e ast.Expr, depth int, seen map[types.Object]bool) string
	own = func(e ast.Expr, depth int, seen map[types.Object]bool) string {
		e = ast.Unparen(e)
		if e == nil || depth > 5 {
			return ""
		}
		switch x := e.(type) {
		case *ast.CallExpr:
			fn := astx.Callee(info, x)
			if fn != nil && fn.Pkg() != nil {
				p := fn.Pkg().Path()
				if (p == "fmt" && fn.Name() == "Errorf") || (p == "errors" && (fn.Name() == "New" || fn.Name() == "Join")) {
					// wrapping an error it was handed is still "handed on" (judged by errorIdentity); a fresh one is not
					for _, a := range x.Args {
						if isErr(info.TypeOf(a)) {
							return own(a, depth+1, seen)
						}
					}
					return "a new error made at " + c.P.Pos(x.Pos())
				}
			}
			return ""
		case *ast.Ident:
			if x.Name == "nil" {
				return ""
			}
			o := astx.Obj(info, x)
			if o == nil {
				return ""
			}
			if v, ok := o.(*types.Var); ok && !v.IsField() && v.Pkg() != nil && v.Parent() == v.Pkg().Scope() {
				return "the package-level error value " + v.Name()
			}
			if seen[o] {
				return ""
			}
			seen[o] = true
			for _, d := range defsOf(info, fi.Node(), o) {
				if d == nil || ast.Unparen(d) == ast.Expr(x) {
					continue
				}
				if w := own(d, depth+1, seen); w != "" {
					return w
				}
			}
			return ""
		case *ast.SelectorExpr:
			if v, ok := info.Uses[x.Sel].(*types.Var); ok && !v.IsField() && v.Pkg() != nil && v.Parent() == v.Pkg().Scope() {
				return "the package-level error value " + astx.Str(x)
			}
			return ""
		case *ast.CompositeLit, *ast.UnaryExpr:
			return "an error value built at " + c.P.Pos(x.Pos())
		}
		return ""
	}
	ast.Inspect(fi.Body(), func(nd ast.Node) bool {
		if _, isLit := nd.(*ast.FuncLit); isLit {
			return false
		}
		rs, ok := nd.(*ast.ReturnStmt)
		if !ok {
			return true
		}
		for _, e := range rs.Results {
			if !isErr(info.TypeOf(e)) {
				continue
			}
			n++
			w := own(e, 0, map[types.Object]bool{})
			r.Check(w == "", rule, c.attribName(fi), "fails only when something it calls fails", c.P.Pos(rs.Pos()), "the returned error was handed to it",
				"the function now fails for a reason of its own ("+w+"): "+detail)
		}
		return true
	})
	return n
}

// noRetryAfterError: a call that may have had a partial effect when it fails (a Write on a stream: some bytes may be out) is
// not made again for the same data after it failed: from an edge on which its error is known to be set, the call is not
// reachable. (A loop that writes one record per iteration leaves through `return err`; a retry loop comes back.)
func (c *Ctx) noRetryAfterError(rule string, fi *load.FuncInfo, match func(info *types.Info, call *ast.CallExpr) bool, detail string) int {
	if fi == nil || fi.Body() == nil {
		return 0
	}
	r := c.R
	n := 0
	errT := types.Universe.Lookup("error").Type()
	one := func(info *types.Info, g *cfgx.Graph) {
		for _, v := range g.Nodes() {
			as, ok := v.Node.(*ast.AssignStmt)
			if !ok || len(as.Rhs) != 1 {
				continue
			}
			call, ok := ast.Unparen(as.Rhs[0]).(*ast.CallExpr)
			if !ok || !match(info, call) {
				continue
			}
			var obj types.Object
			for _, l := range as.Lhs {
				if id, ok := l.(*ast.Ident); ok && id.Name != "_" {
					if o := astx.Obj(info, id); o != nil && types.Identical(o.Type(), errT) {
						obj = o
					}
				}
			}
			if obj == nil {
				continue
			}
			n++
			again := false
			for _, u := range g.V {
				for _, e := range u.Succ {
					if e.Cond == nil {
						continue
					}
					for _, f := range e.Facts() {
						x, isNil, ok := nilCompare(info, f)
						if !ok || isNil {
							continue
						}
						if xid, ok := ast.Unparen(x).(*ast.Ident); ok && astx.Obj(info, xid) == obj {
							// the error of this call? only if the test is reached from the call without another definition
							if g.Reach(v.ID, nil, nil)[u.ID] && (e.To == v.ID || g.Reach(e.To, nil, nil)[v.ID]) {
								again = true
							}
						}
					}
				}
			}
			r.Check(!again, rule, c.attribName(fi), "a failed "+astx.Str(call.Fun)+" is not repeated", c.P.Pos(call.Pos()), "the call is not reachable from the edge on which its error is set",
				"after "+astx.Str(call.Fun)+" failed it is called again with the same data: what the failed call already put out is put out twice — "+detail)
		}
	}
	one(fi.Info(), c.Graph(fi))
	for k, lit := range funcLitsIn(fi.Body()) {
		one(fi.Info(), c.LitGraph(fi.Name()+"$retrylit"+itoa(k), lit, fi.Info()))
	}
	return n
}

// delegate: fi itself when has(fi) holds; otherwise the one unexported function of fi's package that fi mentions (calls, or
// takes as a function / method value), directly or through one more such function, for which has holds. A rule anchored in
// an exported function follows its body when a commit moves it into a private function and keeps the exported one as a
// wrapper. fi is returned unchanged when there is no such function or more than one.
func (c *Ctx) delegate(fi *load.FuncInfo, has func(*load.FuncInfo) bool) *load.FuncInfo {
	if fi == nil || fi.Body() == nil || has(fi) {
		return fi
	}
	seen := map[*load.FuncInfo]bool{fi: true}
	level := []*load.FuncInfo{fi}
	for depth := 0; depth < 2; depth++ {
		var next, hits []*load.FuncInfo
		for _, f := range level {
			info := f.Info()
			ast.Inspect(f.Body(), func(n ast.Node) bool {
				id, ok := n.(*ast.Ident)
				if !ok {
					return true
				}
				fn, ok := info.Uses[id].(*types.Func)
				if !ok || fn.Exported() || fn.Pkg() == nil || fn.Pkg() != fi.Obj.Pkg() {
					return true
				}
				g := c.P.FuncOf(fn)
				if g == nil || g.Body() == nil || seen[g] {
					return true
				}
				seen[g] = true
				next = append(next, g)
				if has(g) {
					hits = append(hits, g)
				}
				return true
			})
		}
		if len(hits) == 1 {
			return hits[0]
		}
		if len(hits) > 1 {
			return fi
		}
		level = next
	}
	return fi
}

// succeedsOnlyByWriting: a writer of the store reports success only after it has handed the data to LevelDB. Every return
// of fi returns the result of a database write (Put / Write on *leveldb.DB) directly, or is dominated by one, or is an error
// exit (a non-nil error: built on the spot, or a variable known to be set). A "nothing to do" fast path — skip the write
// when the value looks unchanged, unset or already there — makes the caller believe something is durable that is not.
// It returns the number of returns looked at.
func (c *Ctx) succeedsOnlyByWriting(rule string, fi *load.FuncInfo, detail string) int {
	if fi == nil || fi.Body() == nil {
		return 0
	}
	r := c.R
	info := fi.Info()
	g := c.Graph(fi)
	isDBWrite := func(call *ast.CallExpr) bool {
		fn := astx.Callee(info, call)
		if fn == nil || fn.Pkg() == nil || !strings.HasPrefix(fn.Pkg().Path(), pathLevelDB) {
			return false
		}
		rn := astx.RecvNamed(fn)
		return rn != nil && rn.Obj().Name() == "DB" && (fn.Name() == "Put" || fn.Name() == "Write")
	}
	writes := func(v *cfgx.Vertex) bool {
		if v.Node == nil {
			return false
		}
		for _, call := range astx.Calls(v.Node, false) {
			if isDBWrite(call) {
				return true
			}
		}
		return false
	}
	n := 0
	for _, rv := range g.Returns() {
		rs := rv.Node.(*ast.ReturnStmt)
		if len(rs.Results) == 0 {
			continue
		}
		n++
		last := ast.Unparen(rs.Results[len(rs.Results)-1])
		ok, why := false, ""
		switch x := last.(type) {
		case *ast.CallExpr:
			if isDBWrite(x) {
				ok, why = true, "returns the result of the database write"
			} else if t := info.TypeOf(x); t != nil && types.Identical(t, types.Universe.Lookup("error").Type()) {
				if fn := astx.Callee(info, x); fn != nil && (fn.Pkg() != nil && (fn.Pkg().Path() == "fmt" || fn.Pkg().Path() == "errors")) {
					ok, why = true, "an error built on the spot"
				}
			}
		case *ast.Ident:
			if !isNilIdent(info, x) {
				for _, f := range g.FactsAt(rv.ID) {
					if e2, isNil, isCmp := nilCompare(info, f); isCmp && !isNil {
						if id, isID := ast.Unparen(e2).(*ast.Ident); isID && astx.Obj(info, id) == astx.Obj(info, x) {
							ok, why = true, "error exit"
						}
					}
				}
				if !ok {
					// the variable holds the result of the write
					for _, d := range defsOf(info, fi.Node(), astx.Obj(info, x)) {
						if call, isCall := ast.Unparen(d).(*ast.CallExpr); isCall && isDBWrite(call) {
							ok, why = true, "returns the result of the database write"
						}
					}
				}
			}
		}
		if !ok && g.DominatedBy(rv.ID, writes) {
			ok, why = true, "dominated by the database write"
		}
		r.Check(ok, rule, fi.Name(), "success is reported only after the write", c.P.Pos(rs.Pos()), why, detail)
	}
	return n
}

// pEncoder: fn is a function of the module with results ([]byte, error) that encodes the way the stores do — every return
// is (append([]byte{'p'}, v...), nil) with v the result of a Marshal call, or (nil, <that Marshal's error>). A writer that
// stores what such a function returns stores 'p' + protobuf, and can fail with it only when the encoder does.
func (c *Ctx) pEncoder(fn *types.Func) bool {
	fi := c.P.FuncOf(fn)
	if fi == nil || fi.Body() == nil {
		return false
	}
	sig := fn.Type().(*types.Signature)
	if sig.Results().Len() != 2 || !types.Identical(sig.Results().At(1).Type(), types.Universe.Lookup("error").Type()) {
		return false
	}
	info := fi.Info()
	isMarshal := func(e ast.Expr) bool {
		call, ok := ast.Unparen(e).(*ast.CallExpr)
		if !ok {
			return false
		}
		f := astx.Callee(info, call)
		return f != nil && f.Name() == "Marshal" && f.Pkg() != nil && (strings.HasSuffix(f.Pkg().Path(), "/proto") || strings.Contains(f.Pkg().Path(), "protobuf"))
	}
	fromMarshal := func(e ast.Expr) bool {
		id, ok := ast.Unparen(e).(*ast.Ident)
		if !ok {
			return false
		}
		ds := defsOf(info, fi.Node(), astx.Obj(info, id))
		if len(ds) == 0 {
			return false
		}
		for _, d := range ds {
			if d == nil || !isMarshal(d) {
				return false
			}
		}
		return true
	}
	n := 0
	ok := true
	ast.Inspect(fi.Body(), func(m ast.Node) bool {
		if _, isLit := m.(*ast.FuncLit); isLit {
			return false
		}
		rs, isRet := m.(*ast.ReturnStmt)
		if !isRet {
			return true
		}
		n++
		if len(rs.Results) != 2 {
			ok = false
			return true
		}
		if isNilIdent(info, rs.Results[1]) {
			ap, isCall := ast.Unparen(rs.Results[0]).(*ast.CallExpr)
			if !isCall || astx.Builtin(info, ap) != "append" || len(ap.Args) != 2 || !ap.Ellipsis.IsValid() || !fromMarshal(ap.Args[1]) {
				ok = false
				return true
			}
			cl, isCL := ast.Unparen(ap.Args[0]).(*ast.CompositeLit)
			if !isCL || len(cl.Elts) != 1 {
				ok = false
				return true
			}
			if k, isC := astx.ConstInt(info, cl.Elts[0]); !isC || k != 'p' {
				ok = false
			}
			return true
		}
		if !isNilIdent(info, rs.Results[0]) || !fromMarshal(rs.Results[1]) {
			ok = false
		}
		return true
	})
	return ok && n >= 2
}
