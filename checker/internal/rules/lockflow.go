package rules

import (
	"go/ast"
	"go/token"
	"go/types"
	"sort"

	"verif/checker/internal/astx"
	"verif/checker/internal/cfgx"
	"verif/checker/internal/load"
)

// lockOp is a Lock/RLock/Unlock/RUnlock call on a sync.Mutex / sync.RWMutex valued field.
type lockOp struct {
	lock  string // "<OwnerType>.<field>" (type-level identity)
	op    string // Lock | RLock | Unlock | RUnlock
	field *types.Var
	recv  ast.Expr // expression owning the mutex field (i in i.sessionsMu)
}

// lockOpOf recognises x.mu.Lock() etc.
func lockOpOf(info *types.Info, call *ast.CallExpr) *lockOp {
	se, ok := ast.Unparen(call.Fun).(*ast.SelectorExpr)
	if !ok {
		return nil
	}
	switch se.Sel.Name {
	case "Lock", "RLock", "Unlock", "RUnlock":
	default:
		return nil
	}
	fn := astx.Callee(info, call)
	if fn == nil || fn.Pkg() == nil || fn.Pkg().Path() != "sync" {
		return nil
	}
	ms, ok := ast.Unparen(se.X).(*ast.SelectorExpr)
	if !ok {
		return nil
	}
	f := astx.FieldSel(info, ms)
	if f == nil {
		return nil
	}
	owner := "?"
	if tv, ok := info.Types[ms.X]; ok {
		if n := astx.NamedOf(tv.Type); n != nil {
			owner = n.Obj().Name()
		}
	}
	if o := fieldOwnerCanon(f); o != "" {
		owner = o // a lock that was moved (with what it guards) into a struct of its own keeps the name the table knows
	}
	return &lockOp{lock: owner + "." + fieldCanon(f), op: se.Sel.Name, field: f, recv: ms.X}
}

// lockSet maps lock name -> mode ("R" or "W").
type lockSet map[string]string

func (s lockSet) clone() lockSet {
	o := lockSet{}
	for k, v := range s {
		o[k] = v
	}
	return o
}

func (s lockSet) String() string {
	var ks []string
	for k, v := range s {
		ks = append(ks, k+"("+v+")")
	}
	sort.Strings(ks)
	out := ""
	for i, k := range ks {
		if i > 0 {
			out += ","
		}
		out += k
	}
	if out == "" {
		return "∅"
	}
	return out
}

// lockFlowResult holds, per CFG vertex, the locks that are held on every path (must) and on some path (may)
// BEFORE the vertex executes; deferred lists locks whose release is deferred to function exit.
type lockFlowResult struct {
	must, may []lockSet
	deferred  map[string]bool
}

// lockFlow runs a forward data-flow over the function's statement-level CFG, starting from `entry` locks held.
func (c *Ctx) lockFlow(fi *load.FuncInfo, g *cfgx.Graph, entry lockSet) *lockFlowResult {
	info := fi.Info()
	n := len(g.V)
	res := &lockFlowResult{must: make([]lockSet, n), may: make([]lockSet, n), deferred: map[string]bool{}}
	visited := make([]bool, n)
	// transfer of one vertex
	transfer := func(v *cfgx.Vertex, in lockSet, isMay bool) lockSet {
		out := in.clone()
		if v.Node == nil {
			return out
		}
		apply := func(call *ast.CallExpr, deferred bool) {
			op := lockOpOf(info, call)
			if op == nil {
				return
			}
			switch op.op {
			case "Lock":
				out[op.lock] = "W"
			case "RLock":
				if out[op.lock] != "W" {
					out[op.lock] = "R"
				}
			case "Unlock", "RUnlock":
				if deferred {
					res.deferred[op.lock] = true
				} else {
					delete(out, op.lock)
				}
			}
		}
		switch x := v.Node.(type) {
		case *ast.DeferStmt:
			apply(x.Call, true)
		case *ast.ExprStmt:
			if call, ok := x.X.(*ast.CallExpr); ok {
				apply(call, false)
			}
		}
		return out
	}
	meet := func(a, b lockSet, union bool) lockSet {
		out := lockSet{}
		if union {
			for k, v := range a {
				out[k] = v
			}
			for k, v := range b {
				if out[k] != "W" {
					out[k] = v
				}
			}
			return out
		}
		for k, v := range a {
			if w, ok := b[k]; ok {
				if v == "W" && w == "W" {
					out[k] = "W"
				} else {
					out[k] = "R"
				}
			}
		}
		return out
	}
	equal := func(a, b lockSet) bool {
		if len(a) != len(b) {
			return false
		}
		for k, v := range a {
			if b[k] != v {
				return false
			}
		}
		return true
	}
	res.must[g.Entry], res.may[g.Entry] = entry.clone(), entry.clone()
	visited[g.Entry] = true
	work := []int{g.Entry}
	for len(work) > 0 {
		u := work[0]
		work = work[1:]
		outMust := transfer(g.V[u], res.must[u], false)
		outMay := transfer(g.V[u], res.may[u], true)
		for _, e := range g.V[u].Succ {
			w := e.To
			if !visited[w] {
				visited[w] = true
				res.must[w], res.may[w] = outMust.clone(), outMay.clone()
				work = append(work, w)
				continue
			}
			nm, ny := meet(res.must[w], outMust, false), meet(res.may[w], outMay, true)
			if !equal(nm, res.must[w]) || !equal(ny, res.may[w]) {
				res.must[w], res.may[w] = nm, ny
				work = append(work, w)
			}
		}
	}
	for i := range res.must {
		if res.must[i] == nil {
			res.must[i] = lockSet{}
		}
		if res.may[i] == nil {
			res.may[i] = lockSet{}
		}
	}
	return res
}

// lockHygiene: for the given methods of one lock-owning type — every return releases what the function acquired (deferred
// releases count), no acquisition of a lock that may already be held, Unlock/RUnlock only of what is held in that mode, and
// no call, with a lock held, of a sibling that acquires the same lock (sync.RWMutex is not re-entrant).
func (c *Ctx) lockHygiene(rule string, methods []*load.FuncInfo, blocked, after string) {
	r := c.R
	// which locks does a method acquire, itself or through the package's own functions it calls?
	acquires := map[*types.Func]map[string]bool{}
	byObj := map[*types.Func]*load.FuncInfo{}
	for _, fi := range methods {
		byObj[fi.Obj] = fi
	}
	var acq func(fi *load.FuncInfo, seen map[*load.FuncInfo]bool) map[string]bool
	acq = func(fi *load.FuncInfo, seen map[*load.FuncInfo]bool) map[string]bool {
		if a, ok := acquires[fi.Obj]; ok {
			return a
		}
		out := map[string]bool{}
		if seen[fi] || fi.Body() == nil {
			return out
		}
		seen[fi] = true
		for _, call := range astx.Calls(fi.Body(), false) {
			if op := lockOpOf(fi.Info(), call); op != nil {
				if op.op == "Lock" || op.op == "RLock" {
					out[op.lock] = true
				}
				continue
			}
			if fn := astx.Callee(fi.Info(), call); fn != nil {
				if cal := byObj[fn]; cal != nil {
					for k := range acq(cal, seen) {
						out[k] = true
					}
				}
			}
		}
		acquires[fi.Obj] = out
		return out
	}
	for _, fi := range methods {
		acq(fi, map[*load.FuncInfo]bool{})
	}
	for _, fi := range methods {
		info := fi.Info()
		g := c.Graph(fi)
		lf := c.lockFlow(fi, g, lockSet{})
		// no call, with a lock held, to a method that acquires the same lock (sync.RWMutex is not re-entrant; even a
		// nested RLock deadlocks as soon as a writer queues between the two)
		for _, v := range g.Nodes() {
			if v.Node == nil || len(lf.may[v.ID]) == 0 {
				continue
			}
			for _, call := range astx.Calls(v.Node, false) {
				fn := astx.Callee(info, call)
				if fn == nil || byObj[fn] == nil {
					continue
				}
				for lk := range lf.may[v.ID] {
					r.Check(!acquires[fn][lk], rule, fi.Name(), "no call to "+fname(fn)+" (acquires "+lk+") while "+lk+" is held", c.P.Pos(call.Pos()), "lockset before: "+lf.may[v.ID].String(),
						"a method that acquires "+lk+" is called while this goroutine already holds it: sync.RWMutex is not re-entrant — a nested Lock deadlocks at once, a nested RLock as soon as a writer queues between the two acquisitions, "+after)
				}
			}
		}
		hasOps := false
		for _, call := range astx.Calls(fi.Body(), false) {
			if lockOpOf(info, call) != nil {
				hasOps = true
			}
		}
		if !hasOps {
			continue
		}
		// at every return (and at the fall-off exit): nothing held except deferred releases
		check := func(v int, pos token.Pos, what string) {
			var held []string
			for k := range lf.may[v] {
				if !lf.deferred[k] {
					held = append(held, k)
				}
			}
			r.Check(len(held) == 0, rule, fi.Name(), what+" releases every lock", c.P.Pos(pos), "lockset at exit: "+lf.may[v].String()+" (deferred releases excluded)",
				"a path returns while still holding a lock: "+blocked)
		}
		for _, rv := range g.Returns() {
			check(rv.ID, rv.Node.Pos(), "return")
		}
		// a deferred release needs the lock to be held where the defer statement runs
		for _, v := range g.Nodes() {
			ds, ok := v.Node.(*ast.DeferStmt)
			if !ok {
				continue
			}
			op := lockOpOf(info, ds.Call)
			if op == nil {
				continue
			}
			switch op.op {
			case "Unlock":
				r.Check(lf.must[v.ID][op.lock] == "W", rule, fi.Name(), "deferred Unlock of "+op.lock+" held in write mode", c.P.Pos(ds.Pos()), "lockset at the defer: "+lf.must[v.ID].String(),
					"Unlock is deferred on a path where the lock is not held in write mode: the function exits with a runtime fatal error (unlock of unlocked RWMutex)")
			case "RUnlock":
				r.Check(lf.must[v.ID][op.lock] == "R", rule, fi.Name(), "deferred RUnlock of "+op.lock+" held in read mode", c.P.Pos(ds.Pos()), "lockset at the defer: "+lf.must[v.ID].String(),
					"RUnlock is deferred on a path where the lock is not held in read mode: the function exits with a runtime fatal error")
			}
		}
		// upgrades and double acquisition
		for _, v := range g.Nodes() {
			es, ok := v.Node.(*ast.ExprStmt)
			if !ok {
				continue
			}
			call, ok := es.X.(*ast.CallExpr)
			if !ok {
				continue
			}
			op := lockOpOf(info, call)
			if op == nil {
				continue
			}
			switch op.op {
			case "Lock", "RLock":
				r.Check(lf.may[v.ID][op.lock] == "", rule, fi.Name(), op.op+" of "+op.lock+" when not already held", c.P.Pos(call.Pos()), "lockset before: "+lf.may[v.ID].String(),
					"the lock is acquired on a path where this goroutine may already hold it (read-to-write upgrade or re-entry): self-deadlock")
			case "Unlock":
				r.Check(lf.must[v.ID][op.lock] == "W", rule, fi.Name(), "Unlock of "+op.lock+" held in write mode", c.P.Pos(call.Pos()), "lockset before: "+lf.must[v.ID].String(),
					"Unlock on a path where the lock is not held in write mode (runtime fatal error)")
			case "RUnlock":
				r.Check(lf.must[v.ID][op.lock] == "R", rule, fi.Name(), "RUnlock of "+op.lock+" held in read mode", c.P.Pos(call.Pos()), "lockset before: "+lf.must[v.ID].String(),
					"RUnlock on a path where the lock is not held in read mode (runtime fatal error)")
			}
		}
	}
}
