package rules

import (
	"go/ast"
	"go/types"
	"sort"

	"verif/checker/internal/astx"
	"verif/checker/internal/cfgx"
	"verif/checker/internal/load"
)

// lockOp is a Lock/RLock/Unlock/RUnlock call on a sync.Mutex / sync.RWMutex valued field.
type lockOp struct {
	lock  string // "<OwnerType>.<field>" (type-level identity)
	op    string // Lock | RLock | Unlock | RUnlock
	field *types.Var
	recv  ast.Expr // expression owning the mutex field (i in i.sessionsMu)
}

// lockOpOf recognises x.mu.Lock() etc.
func lockOpOf(info *types.Info, call *ast.CallExpr) *lockOp {
	se, ok := ast.Unparen(call.Fun).(*ast.SelectorExpr)
	if !ok {
		return nil
	}
	switch se.Sel.Name {
	case "Lock", "RLock", "Unlock", "RUnlock":
	default:
		return nil
	}
	fn := astx.Callee(info, call)
	if fn == nil || fn.Pkg() == nil || fn.Pkg().Path() != "sync" {
		return nil
	}
	ms, ok := ast.Unparen(se.X).(*ast.SelectorExpr)
	if !ok {
		return nil
	}
	f := astx.FieldSel(info, ms)
	if f == nil {
		return nil
	}
	owner := "?"
	if tv, ok := info.Types[ms.X]; ok {
		if n := astx.NamedOf(tv.Type); n != nil {
			owner = n.Obj().Name()
		}
	}
	return &lockOp{lock: owner + "." + fieldCanon(f), op: se.Sel.Name, field: f, recv: ms.X}
}

// lockSet maps lock name -> mode ("R" or "W").
type lockSet map[string]string

func (s lockSet) clone() lockSet {
	o := lockSet{}
	for k, v := range s {
		o[k] = v
	}
	return o
}

func (s lockSet) String() string {
	var ks []string
	for k, v := range s {
		ks = append(ks, k+"("+v+")")
	}
	sort.Strings(ks)
	out := ""
	for i, k := range ks {
		if i > 0 {
			out += ","
		}
		out += k
	}
	if out == "" {
		return "∅"
	}
	return out
}

// lockFlowResult holds, per CFG vertex, the locks that are held on every path (must) and on some path (may)
// BEFORE the vertex executes; deferred lists locks whose release is deferred to function exit.
type lockFlowResult struct {
	must, may []lockSet
	deferred  map[string]bool
}

// lockFlow runs a forward data-flow over the function's statement-level CFG, starting from `entry` locks held.
func (c *Ctx) lockFlow(fi *load.FuncInfo, g *cfgx.Graph, entry lockSet) *lockFlowResult {
	info := fi.Info()
	n := len(g.V)
	res := &lockFlowResult{must: make([]lockSet, n), may: make([]lockSet, n), deferred: map[string]bool{}}
	visited := make([]bool, n)
	// transfer of one vertex
	transfer := func(v *cfgx.Vertex, in lockSet, isMay bool) lockSet {
		out := in.clone()
		if v.Node == nil {
			return out
		}
		apply := func(call *ast.CallExpr, deferred bool) {
			op := lockOpOf(info, call)
			if op == nil {
				return
			}
			switch op.op {
			case "Lock":
				out[op.lock] = "W"
			case "RLock":
				if out[op.lock] != "W" {
					out[op.lock] = "R"
				}
			case "Unlock", "RUnlock":
				if deferred {
					res.deferred[op.lock] = true
				} else {
					delete(out, op.lock)
				}
			}
		}
		switch x := v.Node.(type) {
		case *ast.DeferStmt:
			apply(x.Call, true)
		case *ast.ExprStmt:
			if call, ok := x.X.(*ast.CallExpr); ok {
				apply(call, false)
			}
		}
		return out
	}
	meet := func(a, b lockSet, union bool) lockSet {
		out := lockSet{}
		if union {
			for k, v := range a {
				out[k] = v
			}
			for k, v := range b {
				if out[k] != "W" {
					out[k] = v
				}
			}
			return out
		}
		for k, v := range a {
			if w, ok := b[k]; ok {
				if v == "W" && w == "W" {
					out[k] = "W"
				} else {
					out[k] = "R"
				}
			}
		}
		return out
	}
	equal := func(a, b lockSet) bool {
		if len(a) != len(b) {
			return false
		}
		for k, v := range a {
			if b[k] != v {
				return false
			}
		}
		return true
	}
	res.must[g.Entry], res.may[g.Entry] = entry.clone(), entry.clone()
	visited[g.Entry] = true
	work := []int{g.Entry}
	for len(work) > 0 {
		u := work[0]
		work = work[1:]
		outMust := transfer(g.V[u], res.must[u], false)
		outMay := transfer(g.V[u], res.may[u], true)
		for _, e := range g.V[u].Succ {
			w := e.To
			if !visited[w] {
				visited[w] = true
				res.must[w], res.may[w] = outMust.clone(), outMay.clone()
				work = append(work, w)
				continue
			}
			nm, ny := meet(res.must[w], outMust, false), meet(res.may[w], outMay, true)
			if !equal(nm, res.must[w]) || !equal(ny, res.may[w]) {
				res.must[w], res.may[w] = nm, ny
				work = append(work, w)
			}
		}
	}
	for i := range res.must {
		if res.must[i] == nil {
			res.must[i] = lockSet{}
		}
		if res.may[i] == nil {
			res.may[i] = lockSet{}
		}
	}
	return res
}
