package rules

import (
	"go/ast"
	"go/constant"
	"go/token"
	"go/types"
	"sort"
	"strings"
	"verif/checker/internal/cfgx"

	"verif/checker/internal/astx"
	"verif/checker/internal/flowx"
	"verif/checker/internal/load"
)

const (
	pathIRC      = "gopkg.in/sorcix/irc.v2"
	pathProto    = load.ModPath + "/internal/proto"
	pathIrcsrv   = load.ModPath + "/internal/ircserver"
	pathRobust   = load.ModPath + "/internal/robust"
	pathConfig   = load.ModPath + "/internal/config"
	pathAPI      = load.ModPath + "/internal/api"
	pathOutput   = load.ModPath + "/internal/outputstream"
	pathStore    = load.ModPath + "/internal/raftstore"
	pathRaftlog  = load.ModPath + "/internal/raftlog"
	pathTimesafe = load.ModPath + "/internal/timesafeguard"
	pathRaft     = "github.com/hashicorp/raft"
)

func init() { register("C03", c03) }

// moduleCallees returns fi plus the module functions it (transitively) calls, by AST resolution.
func (c *Ctx) moduleCallees(root *load.FuncInfo, samePkgOnly bool) []*load.FuncInfo {
	seen := map[*load.FuncInfo]bool{}
	var order []*load.FuncInfo
	var visit func(fi *load.FuncInfo)
	visit = func(fi *load.FuncInfo) {
		if fi == nil || seen[fi] || fi.Body() == nil {
			return
		}
		seen[fi] = true
		order = append(order, fi)
		for _, call := range astx.Calls(fi.Body(), true) {
			fn := astx.Callee(fi.Pkg.TypesInfo, call)
			if fn == nil {
				continue
			}
			callee := c.P.FuncOf(fn)
			if callee == nil {
				continue
			}
			if samePkgOnly && callee.Pkg != root.Pkg {
				continue
			}
			visit(callee)
		}
	}
	visit(root)
	return order
}

func c03(c *Ctx) {
	r := c.R
	r.Explanation = "Structural completeness of IRCServer.Marshal/Unmarshal: every field of every replicated Go struct (closure of IRCServer's field types) is read by the writer and written by the reader, every exported field of every snapshot protobuf message is set by the writer and read by the reader, each Go field travels through a protobuf field that the reader maps back to the same Go field, converter calls come in listed inverse pairs, and the indexes rebuilt on load (nicks, serverSessions) are rebuilt under the guards used in live operation. Decides the shape of the codec, not behavioural equality of the loaded instance."
	r.Rules = []string{"C03.K1 go-field coverage", "C03.K2 pb-field coverage", "C03.K3 correspondence + inverse converters", "C03.K4 index rebuild guards", "C03.K5 mode-array loops", "C03.K8 error discipline of the snapshot codec", "C03.K9 a restored record is what the snapshot says", "C03.K10 nothing restored comes from defaults", "C03.K11 every record has slices of its own"}
	r.Assumptions = []string{"protobuf wire encoding itself is lossless for the generated types", "time values lie in the UnixNano range"}

	marshal := c.MustFunc("ircserver.(*IRCServer).Marshal")
	unmarshal := c.MustFunc("ircserver.(*IRCServer).Unmarshal")
	ircServer := c.P.Named("ircserver", "IRCServer")
	snapshot := c.P.Named("proto", "Snapshot")
	if marshal == nil || unmarshal == nil || ircServer == nil || snapshot == nil {
		r.Break("C03 anchors missing (Marshal/Unmarshal/IRCServer/pb.Snapshot)")
		return
	}
	writers := c.moduleCallees(marshal, false)
	readers := c.moduleCallees(unmarshal, false)
	r.Functions = len(writers) + len(readers)
	W := flowOfFuncs(writers)
	R := flowOfFuncs(readers)

	goTypes := structClosure(ircServer, func(n *types.Named) bool {
		p := n.Obj().Pkg()
		if p == nil {
			return false
		}
		return strings.HasPrefix(p.Path(), load.ModPath) && p.Path() != pathProto || (p.Path() == pathIRC && n.Obj().Name() == "Prefix")
	})
	pbTypes := structClosure(snapshot, func(n *types.Named) bool {
		return n.Obj().Pkg() != nil && n.Obj().Pkg().Path() == pathProto
	})
	goOwner := map[*types.Var]*types.Named{}
	for _, n := range goTypes {
		for _, f := range structFields(n) {
			goOwner[f] = n
		}
	}
	pbOwner := map[*types.Var]*types.Named{}
	for _, n := range pbTypes {
		for _, f := range structFields(n) {
			if f.Exported() {
				pbOwner[f] = n
			}
		}
	}
	r.Extra["go_struct_types"] = namedNames(goTypes)
	r.Extra["pb_message_types"] = namedNames(pbTypes)

	wName, rName := marshal.Name(), unmarshal.Name()

	// frozen exceptions: one named field, one reason
	notState := map[string]string{
		"ircserver.IRCServer.ServerPrefix":   "constructor parameter (network name), not replicated state",
		"ircserver.IRCServer.ServerCreation": "constructor parameter; the one tolerated difference (numeric 003)",
		"ircserver.Session.deleted":          "transient within one entry: MaybeDeleteSession removes every session marked deleted before the step ends (checked by C17.Y4)",
		"ircserver.Session.Id":               "serialized through the key of IRCServer.sessions (sessions[k].Id == k; checked below as K1b)",
	}
	derived := map[string]string{
		"ircserver.IRCServer.nicks":          "index derived from sessions; must be rebuilt by the reader",
		"ircserver.IRCServer.serverSessions": "index derived from Session.Server; must be rebuilt by the reader",
	}

	// K1 + K3
	for _, n := range goTypes {
		for _, f := range structFields(n) {
			name := fieldName(n, f)
			pos := c.P.Pos(f.Pos())
			if isMutexType(f.Type()) {
				r.Except("C03.K1", wName, "field "+name, pos, "sync primitive, not state")
				continue
			}
			if why, ok := notState[name]; ok {
				r.Except("C03.K1", wName, "field "+name, pos, why)
				continue
			}
			_, isDerived := derived[name]
			if !isDerived {
				r.Check(W.reads[f], "C03.K1", wName, "reads field "+name, pos, "selector on the field in Marshal or a helper",
					"field "+name+" is never read by the snapshot writer: its value is lost on save")
			}
			_, written := R.writes[f]
			r.Check(written, "C03.K1", rName, "writes field "+name, pos, "composite-literal key / assignment in Unmarshal or a helper",
				"field "+name+" is never written by the snapshot reader: its value is lost on load")
			if isDerived || !W.reads[f] || !written {
				continue
			}
			// correspondence: some pb field P with F -> P in the writer and P -> F in the reader
			var via []string
			var candidates []string
			for p, deps := range W.writes {
				if _, ok := pbOwner[p]; !ok || !deps[f] {
					continue
				}
				candidates = append(candidates, fieldName(pbOwner[p], p))
				if R.writes[f][p] {
					via = append(via, fieldName(pbOwner[p], p))
				}
			}
			sort.Strings(via)
			sort.Strings(candidates)
			if len(via) > 0 {
				r.Ok("C03.K3", rName, "round trip of "+name, pos, "via "+strings.Join(via, ","))
			} else {
				r.Fail("C03.K3", rName, "round trip of "+name, pos,
					"no protobuf field carries "+name+" in both directions: writer stores it into {"+strings.Join(candidates, ",")+"} but the reader fills "+name+" from other fields")
			}
		}
	}
	// K2
	for _, n := range pbTypes {
		for _, f := range structFields(n) {
			if !f.Exported() {
				continue
			}
			name := fieldName(n, f)
			pos := c.P.Pos(f.Pos())
			_, set := W.writes[f]
			r.Check(set, "C03.K2", wName, "sets "+name, pos, "composite-literal key / assignment in the writer",
				"snapshot message field "+name+" is never set by Marshal")
			r.Check(R.reads[f], "C03.K2", rName, "reads "+name, pos, "selector in the reader",
				"snapshot message field "+name+" is never read by Unmarshal")
		}
	}
	r.Floor("C03.K1", 60)
	r.Floor("C03.K2", 50)
	r.Floor("C03.K3", 40)

	// K3c: the module's own writer-side converters encode the whole value: every return of config.(HexString).String and
	// config.(Duration).String is one encoding call applied to the receiver itself (not to a part of it)
	for _, name := range []string{"config.(HexString).String", "config.(Duration).String"} {
		fi := c.P.Func(name)
		if fi == nil || fi.Body() == nil || fi.Decl == nil || fi.Decl.Recv == nil || len(fi.Decl.Recv.List) == 0 || len(fi.Decl.Recv.List[0].Names) == 0 {
			continue
		}
		info := fi.Info()
		recv := info.Defs[fi.Decl.Recv.List[0].Names[0]]
		okAll, n := true, 0
		for _, rv := range c.Graph(fi).Returns() {
			rs := rv.Node.(*ast.ReturnStmt)
			if len(rs.Results) != 1 {
				continue
			}
			n++
			whole := false
			if call, ok := ast.Unparen(rs.Results[0]).(*ast.CallExpr); ok {
				cands := append([]ast.Expr{}, call.Args...)
				if se, isSel := ast.Unparen(call.Fun).(*ast.SelectorExpr); isSel {
					if _, isMethod := info.Selections[se]; isMethod {
						cands = append(cands, se.X) // time.Duration(d).String(): the receiver of the encoding method
					}
				}
				for _, a := range cands {
					a = ast.Unparen(a)
					// the receiver, possibly through type conversions
					for {
						cv, isCall := a.(*ast.CallExpr)
						if !isCall || len(cv.Args) != 1 {
							break
						}
						if tv, okT := info.Types[cv.Fun]; !okT || !tv.IsType() {
							break
						}
						a = ast.Unparen(cv.Args[0])
					}
					if id, isID := a.(*ast.Ident); isID && astx.Obj(info, id) == recv {
						whole = true
					}
				}
			}
			if !whole {
				okAll = false
			}
		}
		r.Check(okAll && n >= 1, "C03.K3", fi.Name(), "encodes the whole value on every return", c.P.Pos(fi.Node().Pos()), "return <encoder>(<receiver>)",
			"the converter the snapshot writer uses returns an encoding of only a part of the value on some path (or no direct encoding of the receiver): the value read back differs from the one saved")
	}
	// K3d: timestampToTime returns the zero time only for nil or the IsZero marker the writer sets (not for any value of the
	// payload field: the Unix epoch is a legitimate time, e.g. a topic time set by services)
	if tt := c.P.Func("ircserver.timestampToTime"); tt != nil && tt.Body() != nil {
		info := tt.Info()
		g := c.Graph(tt)
		okAll, n := true, 0
		for _, rv := range g.Returns() {
			rs := rv.Node.(*ast.ReturnStmt)
			if len(rs.Results) != 1 {
				continue
			}
			if _, isLit := ast.Unparen(rs.Results[0]).(*ast.CompositeLit); !isLit {
				continue
			}
			n++
			// every condition on the way mentions only nil tests and the IsZero field
			for _, v := range g.V {
				for _, e := range v.Succ {
					if e.Cond == nil || !(e.To == rv.ID || g.Reach(e.To, nil, nil)[rv.ID]) {
						continue
					}
					ast.Inspect(e.Cond, func(m ast.Node) bool {
						if se, ok := m.(*ast.SelectorExpr); ok {
							if fv := astx.FieldSel(info, se); fv != nil && fv.Name() != "IsZero" {
								okAll = false
							}
						}
						return true
					})
				}
			}
		}
		r.Check(okAll && n >= 1, "C03.K3", tt.Name(), "the zero time is restored only for the writer's IsZero marker", c.P.Pos(tt.Node().Pos()), "return time.Time{} under t == nil || t.IsZero",
			"the timestamp reader maps some stored payload values (e.g. UnixNano == 0) to the zero time although the writer marked them as set: such a time differs after save + load")
	}
	// K1c: identifiers are copied whole: every robust.Id / pb.RobustId literal in the snapshot writer and reader sets Id and Reply
	for _, fi := range []*load.FuncInfo{marshal, unmarshal} {
		info := fi.Info()
		n := 0
		ast.Inspect(fi.Body(), func(nd ast.Node) bool {
			cl, ok := nd.(*ast.CompositeLit)
			if !ok {
				return true
			}
			tv, ok := info.Types[cl]
			if !ok {
				return true
			}
			nm := astx.NamedOf(tv.Type)
			if nm == nil || !(nm.Obj().Name() == "Id" && nm.Obj().Pkg().Path() == pathRobust || nm.Obj().Name() == "RobustId" && nm.Obj().Pkg().Path() == pathProto) {
				return true
			}
			if len(cl.Elts) == 0 {
				return true
			}
			n++
			r.Check(litField(cl, "Id") != nil && litField(cl, "Reply") != nil, "C03.K1", fi.Name(), "identifier literal "+astx.Str(cl.Type)+" carries Id and Reply", c.P.Pos(cl.Pos()), "both components set",
				"an identifier is copied without its Reply (or Id) component: services pseudo-clients, which differ only in Reply, collapse onto one key after save + load")
			return true
		})
		r.Check(n >= 1, "C03.K1", fi.Name(), "identifier literals found", c.P.Pos(fi.Node().Pos()), itoa(n), "no robust.Id / pb.RobustId literal in the snapshot code (vacuity guard)")
	}
	// K3e: what Marshal writes for a field is the field on every path: a local that carries the value has no definition that
	// is a constant (e.g. "" for some sessions)
	{
		info := marshal.Info()
		n := 0
		for _, cl := range compositeLitsOfAny(info, marshal.Body(), pathProto) {
			for _, el := range cl.Elts {
				kv, ok := el.(*ast.KeyValueExpr)
				if !ok {
					continue
				}
				vid, ok := ast.Unparen(kv.Value).(*ast.Ident)
				if !ok {
					continue
				}
				o, isVar := astx.Obj(info, vid).(*types.Var)
				if !isVar || o.IsField() || o.Parent() == o.Pkg().Scope() {
					continue
				}
				defs := defsOf(info, marshal.Node(), o)
				if len(defs) < 2 {
					continue
				}
				fromField, constant := false, ""
				for _, d := range defs {
					if d == nil {
						continue
					}
					if tv, ok := info.Types[d]; ok && tv.Value != nil {
						constant = astx.Str(d)
						continue
					}
					ast.Inspect(d, func(m ast.Node) bool {
						if se, ok := m.(*ast.SelectorExpr); ok {
							if fv := astx.FieldSel(info, se); fv != nil && fv.Pkg() != nil && strings.HasPrefix(fv.Pkg().Path(), load.ModPath) && fv.Pkg().Path() != pathProto {
								fromField = true
							}
						}
						return true
					})
				}
				if !fromField {
					continue
				}
				// tri-state encodings (Bool_TRUE / Bool_FALSE for a bool field) are constants by design: only string / numeric carriers
				if b, ok := o.Type().Underlying().(*types.Basic); !ok || b.Info()&(types.IsString|types.IsNumeric) == 0 || astx.NamedOf(o.Type()) != nil {
					continue
				}
				n++
				key, _ := kv.Key.(*ast.Ident)
				kn := "?"
				if key != nil {
					kn = key.Name
				}
				r.Check(constant == "", "C03.K3", marshal.Name(), "the value written for "+kn+" is the state's value on every path", c.P.Pos(kv.Pos()), "no constant definition of the carrier variable",
					"the snapshot writer replaces the value of "+kn+" by the constant "+constant+" on some path: the field is lost for those objects on save + load")
			}
		}
		_ = n
	}
	// K3b inverse converter pairs
	type conv struct{ w, r string }
	table := []conv{
		{"ircserver.timeToTimestamp", "ircserver.timestampToTime"},
		{"config.(Duration).String", "time.ParseDuration"},
		{"config.(HexString).String", "encoding/hex.DecodeString"},
		{"regexp.(*Regexp).String", "regexp.Compile"},
		{"time.(Duration).String", "time.ParseDuration"},
	}
	fname := func(fn *types.Func) string {
		if fn.Pkg() != nil && strings.HasPrefix(fn.Pkg().Path(), load.ModPath) {
			return load.FuncName(fn)
		}
		n := load.FuncName(fn)
		return n
	}
	for _, n := range goTypes {
		for _, f := range structFields(n) {
			if _, ok := R.writes[f]; !ok || !W.reads[f] {
				continue
			}
			name := fieldName(n, f)
			// converters applied on the writer side to values depending on f
			wconv := map[string]bool{}
			for p, deps := range W.writes {
				if _, ok := pbOwner[p]; !ok || !deps[f] || !R.writes[f][p] {
					continue
				}
				for _, fn := range funcsIn(deps) {
					wconv[fname(fn)] = true
				}
			}
			rconv := map[string]bool{}
			for _, fn := range funcsIn(R.writes[f]) {
				rconv[fname(fn)] = true
			}
			for _, t := range table {
				// only fields whose own type makes the converter applicable
				if wconv[t.w] && converterApplies(f.Type(), t.w) {
					r.Check(rconv[t.r], "C03.K3", rName, "inverse of "+t.w+" for "+name, c.P.Pos(f.Pos()), "reader applies "+t.r,
						"writer encodes "+name+" with "+t.w+" but the reader does not apply "+t.r)
				}
			}
		}
	}
	for _, fi := range []*load.FuncInfo{marshal, unmarshal} {
		if fi != nil && fi.Body() != nil {
			c.errorDiscipline("C03.K8", fi, "a snapshot that could not be encoded / decoded is reported as good")
		}
	}
	c.c03TimeCodec(marshal, unmarshal)
	c.c03SessionKey()
	c.c03NickIndex()
	c.c03ServerSessions()
	c.c03ModeLoops(marshal, unmarshal)
	c.c03TriState(marshal, unmarshal)
	c.c03NoFilter(marshal, unmarshal)
	c.c03Restore(unmarshal)
	c.c03OwnSlices(marshal)
	// K10 nothing that is restored comes from defaults: Unmarshal, and what it calls in the module, does not read the
	// package-level default configuration. A decoder that "falls back to the default when the snapshot has none" restores
	// 10m for a stored 0 (throttling and expiry differ between the replica that restored and the ones that did not)
	if unmarshal != nil {
		nU := 0
		for _, fi := range c.moduleCallees(unmarshal, false) {
			if fi.Body() == nil {
				continue
			}
			nU++
			fin := fi.Info()
			ast.Inspect(fi.Body(), func(n ast.Node) bool {
				id, ok := n.(*ast.Ident)
				if !ok {
					return true
				}
				v, ok := fin.Uses[id].(*types.Var)
				if !ok || v.IsField() || v.Pkg() == nil || v.Parent() != v.Pkg().Scope() || load.ShortPkg(v.Pkg().Path()) != "config" {
					return true
				}
				r.Fail("C03.K10", fi.Name(), "reads the package-level "+v.Name()+" while restoring", c.P.Pos(id.Pos()),
					"the restore consults config."+v.Name()+": a value that was stored is replaced by (or mixed with) a default — the restored state is not the saved one")
				return true
			})
		}
		r.Check(nU > 0, "C03.K10", unmarshal.Name(), "restore takes nothing from the default configuration", c.P.Pos(unmarshal.Node().Pos()), itoa(nU)+" function(s) inspected", "Unmarshal not found")
	}
}

// c03TriState (K6): where the reader special-cases an enum's zero value (legacy "unset" inference), the writer never emits it.
func (c *Ctx) c03TriState(marshal, unmarshal *load.FuncInfo) {
	r := c.R
	wi, ri := marshal.Info(), unmarshal.Info()
	// enum-typed pb fields switched on in the reader with a case for the zero constant
	special := map[*types.Var]bool{}
	ast.Inspect(unmarshal.Body(), func(n ast.Node) bool {
		sw, ok := n.(*ast.SwitchStmt)
		if !ok || sw.Tag == nil {
			return true
		}
		se, ok := ast.Unparen(sw.Tag).(*ast.SelectorExpr)
		if !ok {
			return true
		}
		f := astx.FieldSel(ri, se)
		if f == nil || f.Pkg() == nil || f.Pkg().Path() != pathProto {
			return true
		}
		for _, cl := range sw.Body.List {
			for _, e := range cl.(*ast.CaseClause).List {
				if v, ok := astx.ConstInt(ri, e); ok && v == 0 {
					special[f] = true
				}
			}
		}
		return true
	})
	n := 0
	for _, cl := range compositeLitsOfAny(wi, marshal.Body(), pathProto) {
		for _, el := range cl.Elts {
			kv, ok := el.(*ast.KeyValueExpr)
			if !ok {
				continue
			}
			id, ok := kv.Key.(*ast.Ident)
			if !ok {
				continue
			}
			f, _ := wi.Uses[id].(*types.Var)
			if f == nil || !special[f] {
				continue
			}
			n++
			// every definition of the written value is a non-zero constant
			okAll := true
			defs := []ast.Expr{kv.Value}
			if vid, ok := ast.Unparen(kv.Value).(*ast.Ident); ok {
				if o := astx.Obj(wi, vid); o != nil {
					if _, isConst := o.(*types.Const); !isConst {
						defs = defsOf(wi, marshal.Node(), o)
					}
				}
			}
			for _, d := range defs {
				if d == nil {
					okAll = false // zero-value declaration
					continue
				}
				v, ok := astx.ConstInt(wi, d)
				if !ok || v == 0 {
					okAll = false
				}
			}
			r.Check(okAll && len(defs) > 0, "C03.K6", marshal.Name(), "never writes the legacy 'unset' value of "+f.Name(), c.P.Pos(kv.Pos()), "all definitions are non-zero constants",
				"the writer can emit the zero ('unset') value of "+f.Name()+", for which the reader falls back to a legacy inference: the loaded value differs from the saved one (e.g. a session that is not logged in yet is restored as logged in)")
		}
	}
	if len(special) > 0 {
		r.Check(n > 0, "C03.K6", marshal.Name(), "tri-state fields written", c.P.Pos(marshal.Node().Pos()), "found", "a field the reader special-cases for its zero value is not written by a literal key")
	}
	c.c03TriStateReader(unmarshal)
}

// c03TriStateReader (K6b): the reader decodes each value the writer emits for a pb enum field to a constant of its own — for
// pb.Bool: TRUE to true and FALSE to false — whatever it does for the legacy zero value. Decided on the graph: with the edges
// that contradict <field> == <value> removed, every definition of the decoded variable that can be the last one before the
// variable is used is the same boolean constant, and the constants for two different values differ.
func (c *Ctx) c03TriStateReader(unmarshal *load.FuncInfo) {
	r := c.R
	info := unmarshal.Info()
	g := c.Graph(unmarshal)
	pbPkg := c.P.Pkg("proto")
	if pbPkg == nil {
		return
	}
	// factOn returns (field, constant value, holds) when the fact compares a pb enum field with a constant
	factOn := func(f cfgx.Fact) (*types.Var, int64, bool, bool) {
		var fieldE, constE ast.Expr
		val := f.Val
		if f.Tag != nil {
			fieldE, constE = f.Tag, f.Expr
		} else if be, ok := ast.Unparen(f.Expr).(*ast.BinaryExpr); ok && (be.Op == token.EQL || be.Op == token.NEQ) {
			fieldE, constE = be.X, be.Y
			if _, ok := astx.ConstInt(info, fieldE); ok {
				fieldE, constE = constE, fieldE
			}
			if be.Op == token.NEQ {
				val = !val
			}
		} else {
			return nil, 0, false, false
		}
		se, ok := ast.Unparen(fieldE).(*ast.SelectorExpr)
		if !ok {
			return nil, 0, false, false
		}
		fv := astx.FieldSel(info, se)
		if fv == nil || fv.Pkg() == nil || fv.Pkg().Path() != pathProto {
			return nil, 0, false, false
		}
		if n := astx.NamedOf(fv.Type()); n == nil || n.Obj().Pkg() == nil || n.Obj().Pkg().Path() != pathProto {
			return nil, 0, false, false
		}
		k, ok := astx.ConstInt(info, constE)
		if !ok {
			return nil, 0, false, false
		}
		return fv, k, val, true
	}
	// variables with a definition under a fact about such a field
	type target struct {
		field *types.Var
		v     types.Object
	}
	seen := map[target]bool{}
	var targets []target
	for _, vx := range g.Nodes() {
		as, ok := vx.Node.(*ast.AssignStmt)
		if !ok {
			continue
		}
		for _, f := range g.FactsAt(vx.ID) {
			fv, _, _, ok := factOn(f)
			if !ok {
				continue
			}
			for _, l := range as.Lhs {
				if id, ok := l.(*ast.Ident); ok && id.Name != "_" {
					if o := astx.Obj(info, id); o != nil {
						if b, ok := o.Type().Underlying().(*types.Basic); ok && b.Kind() == types.Bool && !seen[target{fv, o}] {
							seen[target{fv, o}] = true
							targets = append(targets, target{fv, o})
						}
					}
				}
			}
		}
	}
	for _, tg := range targets {
		// the non-zero constants of the field's type: what the writer emits (K6)
		named := astx.NamedOf(tg.field.Type())
		var vals []int64
		names := map[int64]string{}
		for _, nm := range pbPkg.Types.Scope().Names() {
			if cst, ok := pbPkg.Types.Scope().Lookup(nm).(*types.Const); ok && types.Identical(cst.Type(), named) {
				if k, ok := constantInt(cst); ok && k != 0 {
					vals = append(vals, k)
					names[k] = nm
				}
			}
		}
		sort.Slice(vals, func(i, j int) bool { return vals[i] < vals[j] })
		isDef := func(x int) (ast.Expr, bool) {
			if g.V[x].Node == nil {
				return nil, false
			}
			switch st := g.V[x].Node.(type) {
			case *ast.AssignStmt:
				for i, l := range st.Lhs {
					if id, ok := l.(*ast.Ident); ok && astx.Obj(info, id) == tg.v {
						if len(st.Lhs) == len(st.Rhs) {
							return st.Rhs[i], true
						}
						return nil, true
					}
				}
			case *ast.DeclStmt:
				if astx.Mentions(info, st, tg.v) {
					found := false
					var val ast.Expr
					ast.Inspect(st, func(n ast.Node) bool {
						if vs, ok := n.(*ast.ValueSpec); ok {
							for i, nm := range vs.Names {
								if info.Defs[nm] == tg.v {
									found = true
									if i < len(vs.Values) {
										val = vs.Values[i]
									}
								}
							}
						}
						return true
					})
					if found {
						if val == nil {
							return &ast.Ident{Name: "false"}, true // zero value
						}
						return val, true
					}
				}
			}
			return nil, false
		}
		decoded := map[int64]string{}
		for _, k := range vals {
			contradicts := func(e *cfgx.Edge) bool {
				for _, f := range e.Facts() {
					fv, kk, holds, ok := factOn(f)
					if !ok || fv != tg.field {
						continue
					}
					if (holds && kk != k) || (!holds && kk == k) {
						return true
					}
				}
				return false
			}
			live := g.Reach(g.Entry, nil, contradicts)
			result := ""
			for x := range g.V {
				if !live[x] {
					continue
				}
				rhs, ok := isDef(x)
				if !ok {
					continue
				}
				// can this definition be the last one before a use?
				after := g.Reach(x, func(y int) bool { _, d := isDef(y); return d && y != x }, contradicts)
				final := false
				for y := range g.V {
					if after[y] && y != x && g.V[y].Node != nil && astx.Mentions(info, g.V[y].Node, tg.v) {
						if _, d := isDef(y); !d {
							final = true
						}
					}
				}
				if !final {
					continue
				}
				val := "?"
				if rhs != nil {
					if id, ok := ast.Unparen(rhs).(*ast.Ident); ok && (id.Name == "true" || id.Name == "false") {
						val = id.Name
					} else {
						val = "computed: " + astx.Str(rhs)
					}
				}
				if result == "" {
					result = val
				} else if result != val {
					result = result + " | " + val
				}
			}
			decoded[k] = result
			okConst := result == "true" || result == "false"
			r.Check(okConst, "C03.K6", unmarshal.Name(), "stored value "+names[k]+" of "+tg.field.Name()+" decodes to one constant", c.P.Pos(unmarshal.Node().Pos()), result,
				"for the stored value "+names[k]+" of "+tg.field.Name()+" the reader does not set "+tg.v.Name()+" to a constant ("+result+"): the value the writer recorded is replaced by an inference (e.g. a session that is not logged in yet comes back as logged in)")
		}
		if len(vals) == 2 && (decoded[vals[0]] == "true" || decoded[vals[0]] == "false") {
			r.Check(decoded[vals[0]] != decoded[vals[1]], "C03.K6", unmarshal.Name(), "the two stored values of "+tg.field.Name()+" decode differently", c.P.Pos(unmarshal.Node().Pos()), decoded[vals[0]]+" / "+decoded[vals[1]],
				"both stored values of "+tg.field.Name()+" decode to the same value")
		}
	}
	if len(targets) == 0 {
		r.Break("C03.K6: no variable of Unmarshal is decoded from a pb enum field (LoggedIn)")
	}
}

func constantInt(cst *types.Const) (int64, bool) {
	return constant.Int64Val(constant.ToInt(cst.Val()))
}

func compositeLitsOfAny(info *types.Info, root ast.Node, pkgpath string) []*ast.CompositeLit {
	var out []*ast.CompositeLit
	ast.Inspect(root, func(n ast.Node) bool {
		if cl, ok := n.(*ast.CompositeLit); ok {
			if tv, ok := info.Types[cl]; ok {
				if nn := astx.NamedOf(tv.Type); nn != nil && nn.Obj().Pkg() != nil && nn.Obj().Pkg().Path() == pkgpath {
					out = append(out, cl)
				}
			}
		}
		return true
	})
	return out
}

// c03NoFilter (K7): loops that copy a state collection copy every element: no continue/break, and the element is
// emitted unconditionally (or under a condition that is the element's own boolean value).
func (c *Ctx) c03NoFilter(marshal, unmarshal *load.FuncInfo) {
	r := c.R
	derived := map[string]bool{"nicks": true, "serverSessions": true}
	for _, fi := range []*load.FuncInfo{marshal, unmarshal} {
		info := fi.Info()
		ast.Inspect(fi.Body(), func(n ast.Node) bool {
			rs, ok := n.(*ast.RangeStmt)
			if !ok {
				return true
			}
			// only loops over struct fields (state or snapshot collections)
			if _, isSel := ast.Unparen(rs.X).(*ast.SelectorExpr); !isSel {
				return true
			}
			what := "copy loop over " + astx.Str(rs.X)
			pos := c.P.Pos(rs.Pos())
			// every element is emitted: the emitting statement is reached on every path through the loop body, i.e. no
			// condition established inside the body (a guard, a continue, a break, an early exit of an expanded helper)
			// lies on the way to it — except the test of a boolean element itself
			bad := ""
			emits := 0
			g := c.Graph(fi)
			var emitStmts []*ast.AssignStmt
			ast.Inspect(rs.Body, func(k ast.Node) bool {
				switch x := k.(type) {
				case *ast.RangeStmt, *ast.ForStmt, *ast.FuncLit:
					return false // nested loops are judged on their own
				case *ast.AssignStmt:
					emit := false
					for i, l := range x.Lhs {
						// out = append(out, …)  /  out[k] = …  /  i.field[k] = …
						if len(x.Rhs) == len(x.Lhs) {
							if call, ok := ast.Unparen(x.Rhs[i]).(*ast.CallExpr); ok && astx.Builtin(info, call) == "append" {
								emit = true
								if se, ok := ast.Unparen(l).(*ast.SelectorExpr); ok && derived[c.P.FieldName(astx.FieldSel(info, se))] {
									emit = false
								}
							}
						}
						if ie, ok := ast.Unparen(l).(*ast.IndexExpr); ok {
							if _, isArr := info.TypeOf(ie.X).Underlying().(*types.Array); !isArr {
								emit = true
								if se, ok := ast.Unparen(ie.X).(*ast.SelectorExpr); ok && derived[c.P.FieldName(astx.FieldSel(info, se))] {
									emit = false
								}
							}
						}
					}
					if emit {
						emitStmts = append(emitStmts, x)
					}
				}
				return true
			})
			// the loop in the graph: the vertex whose outgoing edges carry the range statement
			head, bodyEntry, loopExit := -1, -1, -1
			for _, hv := range g.V {
				for _, e := range hv.Succ {
					if e.Range == rs {
						head = hv.ID
						if e.Val {
							bodyEntry = e.To
						} else {
							loopExit = e.To
						}
					}
				}
			}
			for _, x := range emitStmts {
				emits++
				v := g.VertexOf(x)
				if v < 0 || head < 0 || bodyEntry < 0 {
					continue
				}
				// can an iteration end — go on to the next element, or leave the loop — without emitting? (a return or a
				// fatal call that abandons the whole copy is not an iteration that ends)
				skip := false
				if bodyEntry != v {
					cont := g.Reach(bodyEntry, func(y int) bool { return y == v }, nil)
					if cont[head] {
						skip = true
					}
					brk := g.Reach(bodyEntry, func(y int) bool { return y == v || y == head }, nil)
					if loopExit >= 0 && brk[loopExit] {
						skip = true
					}
				}
				if !skip {
					continue
				}
				onlyElement := true
				why := "a path through the loop body passes it by"
				for _, f := range g.FactsAt(v) {
					if f.Expr == nil || f.Expr.Pos() < rs.Body.Pos() || f.Expr.End() > rs.Body.End() {
						continue // established before the loop
					}
					// allowed: the condition is the range value itself (a boolean element)
					if id, ok := ast.Unparen(f.Expr).(*ast.Ident); ok && rs.Value != nil && f.Tag == nil && f.Val {
						if vid, ok := rs.Value.(*ast.Ident); ok && astx.Obj(info, id) == astx.Obj(info, vid) {
							continue
						}
					}
					onlyElement = false
					pol := ""
					if !f.Val {
						pol = "not "
					}
					why = "the element is emitted only under " + pol + astx.Str(f.Expr)
				}
				if !onlyElement || len(g.FactsAt(v)) == 0 {
					bad = why
				}
			}
			if emits == 0 {
				return true
			}
			r.Check(bad == "", "C03.K7", fi.Name(), what+" copies every element", pos, "no continue/break, unconditional emit",
				"the "+what+" filters elements ("+bad+"): part of the state is missing after save + load")
			return true
		})
	}
	r.Floor("C03.K7", 10)
}

func converterApplies(t types.Type, w string) bool {
	n := astx.NamedOf(t)
	switch w {
	case "ircserver.timeToTimestamp":
		return n != nil && n.Obj().Name() == "Time" && n.Obj().Pkg().Path() == "time"
	case "config.(Duration).String":
		return n != nil && n.Obj().Name() == "Duration" && n.Obj().Pkg().Path() == pathConfig
	case "time.(Duration).String":
		return n != nil && n.Obj().Name() == "Duration" && n.Obj().Pkg().Path() == "time"
	case "config.(HexString).String":
		return n != nil && n.Obj().Name() == "HexString"
	case "regexp.(*Regexp).String":
		return n != nil && n.Obj().Name() == "Regexp"
	}
	return false
}

func namedNames(ns []*types.Named) []string {
	var out []string
	for _, n := range ns {
		out = append(out, n.Obj().Pkg().Name()+"."+n.Obj().Name())
	}
	return out
}

// c03TimeCodec: the two timestamp helpers must use matching time encodings.
func (c *Ctx) c03TimeCodec(marshal, unmarshal *load.FuncInfo) {
	r := c.R
	enc := c.P.Func("ircserver.timeToTimestamp")
	dec := c.P.Func("ircserver.timestampToTime")
	if enc == nil || dec == nil {
		r.Observe("C03.K3", marshal.Name(), "timestamp helpers", "-", "timeToTimestamp/timestampToTime not found; time fields are covered by the correspondence rule only")
		return
	}
	// encoder: the time that is encoded is the parameter itself (no rounding, truncation or zone conversion first): the
	// restored value must compare like the live one (expiry thresholds, hold durations)
	{
		info := enc.Pkg.TypesInfo
		var param types.Object
		for _, f := range enc.FuncType().Params.List {
			for _, nm := range f.Names {
				param = info.Defs[nm]
			}
		}
		for _, call := range astx.Calls(enc.Body(), false) {
			fn := astx.Callee(info, call)
			if fn == nil || astx.RecvNamed(fn) == nil || astx.RecvNamed(fn).Obj().Pkg().Path() != "time" {
				continue
			}
			se, ok := ast.Unparen(call.Fun).(*ast.SelectorExpr)
			if !ok {
				continue
			}
			switch fn.Name() {
			case "UnixNano", "Unix", "IsZero", "UnixMilli", "UnixMicro":
				id, isID := ast.Unparen(se.X).(*ast.Ident)
				r.Check(isID && param != nil && astx.Obj(info, id) == param, "C03.K3", enc.Name(), "encodes the time it was given ("+fn.Name()+")", c.P.Pos(call.Pos()), "called on the parameter itself",
					"the snapshot stores a time derived from the field (rounded, truncated, converted) instead of the field: a restored node compares a different LastActivity / hold time than the nodes that applied the log")
			}
		}
	}
	// encoder: which time.Time method produces UnixNano field
	encMethods := map[string]bool{}
	for _, call := range astx.Calls(enc.Body(), false) {
		if fn := astx.Callee(enc.Pkg.TypesInfo, call); fn != nil && astx.RecvNamed(fn) != nil && astx.RecvNamed(fn).Obj().Pkg().Path() == "time" {
			encMethods[fn.Name()] = true
		}
	}
	decShape := ""
	for _, call := range astx.Calls(dec.Body(), false) {
		fn := astx.Callee(dec.Pkg.TypesInfo, call)
		if fn == nil || fn.Pkg() == nil || fn.Pkg().Path() != "time" {
			continue
		}
		switch fn.Name() {
		case "Unix":
			if len(call.Args) == 2 {
				a0, ok0 := astx.ConstInt(dec.Pkg.TypesInfo, call.Args[0])
				a1, ok1 := astx.ConstInt(dec.Pkg.TypesInfo, call.Args[1])
				if ok0 && a0 == 0 && !ok1 {
					decShape = "UnixNano"
				} else if ok1 && a1 == 0 && !ok0 {
					decShape = "Unix"
				} else {
					decShape = "Unix(?,?)"
				}
			}
		case "UnixMilli":
			decShape = "UnixMilli"
		case "UnixMicro":
			decShape = "UnixMicro"
		}
	}
	pos := c.P.Pos(dec.Node().Pos())
	r.Check(decShape != "" && encMethods[decShape], "C03.K3", dec.Name(), "time encoding matches timeToTimestamp", pos,
		"encoder calls Time."+decShape+"(), decoder rebuilds with the matching constructor",
		"timeToTimestamp and timestampToTime disagree on the time encoding (decoder shape "+decShape+")")
	// the zero-time flag must be honoured: decoder tests IsZero before building the time
	info := dec.Pkg.TypesInfo
	isZeroTested := false
	ast.Inspect(dec.Body(), func(n ast.Node) bool {
		if ifs, ok := n.(*ast.IfStmt); ok {
			ast.Inspect(ifs.Cond, func(m ast.Node) bool {
				if se, ok := m.(*ast.SelectorExpr); ok {
					if f := astx.FieldSel(info, se); f != nil && f.Name() == "IsZero" {
						isZeroTested = true
					}
				}
				return true
			})
		}
		return true
	})
	r.Check(isZeroTested, "C03.K3", dec.Name(), "zero time flag honoured", pos, "decoder branches on Timestamp.IsZero",
		"timestampToTime does not branch on IsZero: a zero time would load as 1970-01-01")
	encZero := encMethods["IsZero"]
	r.Check(encZero, "C03.K3", enc.Name(), "zero time flag recorded", c.P.Pos(enc.Node().Pos()), "encoder stores t.IsZero()",
		"timeToTimestamp does not record t.IsZero()")
}

// c03SessionKey (K1b): every insertion into IRCServer.sessions uses the session's own Id as key.
func (c *Ctx) c03SessionKey() {
	r := c.R
	sessions := c.P.Field("ircserver", "IRCServer", "sessions")
	idField := c.P.Field("ircserver", "Session", "Id")
	if sessions == nil || idField == nil {
		r.Break("C03.K1b anchors missing")
		return
	}
	count := 0
	for _, fi := range c.P.FuncsIn("ircserver") {
		if fi.Body() == nil {
			continue
		}
		info := fi.Pkg.TypesInfo
		ast.Inspect(fi.Body(), func(n ast.Node) bool {
			as, ok := n.(*ast.AssignStmt)
			if !ok || len(as.Lhs) != 1 || len(as.Rhs) != 1 {
				return true
			}
			ie, ok := ast.Unparen(as.Lhs[0]).(*ast.IndexExpr)
			if !ok {
				return true
			}
			se, ok := ast.Unparen(ie.X).(*ast.SelectorExpr)
			if !ok || astx.FieldSel(info, se) != sessions {
				return true
			}
			count++
			key := ie.Index
			ok2 := false
			why := ""
			// value is &Session{Id: key} or a variable v with key v.Id
			rhs := ast.Unparen(as.Rhs[0])
			if u, ok := rhs.(*ast.UnaryExpr); ok && u.Op == token.AND {
				rhs = u.X
			}
			if cl, ok := rhs.(*ast.CompositeLit); ok {
				for _, el := range cl.Elts {
					if kv, ok := el.(*ast.KeyValueExpr); ok {
						if id, ok := kv.Key.(*ast.Ident); ok && info.Uses[id] == idField && astx.Same(info, kv.Value, key) {
							ok2, why = true, "literal Id equals the map key"
						}
					}
				}
			} else if ks, ok := ast.Unparen(key).(*ast.SelectorExpr); ok && astx.FieldSel(info, ks) == idField && astx.Same(info, ks.X, rhs) {
				ok2, why = true, "key is value.Id"
			}
			r.Check(ok2, "C03.K1b", fi.Name(), "sessions["+astx.Str(key)+"] = "+astx.Str(as.Rhs[0]), c.P.Pos(as.Pos()), why,
				"a session is filed under a key that is not provably its own Id; the snapshot writer serializes the key, not Session.Id")
			return true
		})
	}
	r.Floor("C03.K1b", 2)
	_ = count
}

// nonEmptyProof reports whether facts prove string expression e non-empty:
// IsValidNickname(e) true, e != "" true, e == "" false, len(e) > 0.
func nonEmptyProof(info *types.Info, facts []factT, e ast.Expr) (bool, string) {
	for _, f := range facts {
		if f.Tag != nil {
			continue
		}
		x := ast.Unparen(f.Expr)
		if call, ok := x.(*ast.CallExpr); ok && f.Val {
			if fn := astx.Callee(info, call); fn != nil && fname(fn) == "IsValidNickname" && len(call.Args) == 1 && astx.Same(info, call.Args[0], e) {
				return true, "IsValidNickname(" + astx.Str(e) + ") holds"
			}
		}
		if be, ok := x.(*ast.BinaryExpr); ok {
			isEmpty := func(y ast.Expr) bool { s, ok := astx.ConstString(info, y); return ok && s == "" }
			var other ast.Expr
			if isEmpty(be.Y) {
				other = be.X
			} else if isEmpty(be.X) {
				other = be.Y
			}
			if other != nil && astx.Same(info, other, e) {
				if (be.Op == token.NEQ && f.Val) || (be.Op == token.EQL && !f.Val) {
					return true, astx.Str(e) + ` != "" holds`
				}
			}
		}
	}
	return false, ""
}

// c03NickIndex (K4): every insertion into IRCServer.nicks is dominated by a
// proof that the nickname is non-empty.
func (c *Ctx) c03NickIndex() {
	r := c.R
	nicks := c.P.Field("ircserver", "IRCServer", "nicks")
	nickField := c.P.Field("ircserver", "Session", "Nick")
	if nicks == nil || nickField == nil {
		r.Break("C03.K4 anchors missing")
		return
	}
	exceptions := map[string]string{
		"ircserver.(*IRCServer).cmdServerNick": "services introduce their own clients; protocol-conforming input is a stated assumption of C06",
	}
	for _, fi := range c.P.FuncsIn("ircserver") {
		if fi.Body() == nil {
			continue
		}
		info := fi.Pkg.TypesInfo
		var sites []*ast.AssignStmt
		ast.Inspect(fi.Body(), func(n ast.Node) bool {
			if as, ok := n.(*ast.AssignStmt); ok && len(as.Lhs) == 1 {
				if ie, ok := ast.Unparen(as.Lhs[0]).(*ast.IndexExpr); ok {
					if se, ok := ast.Unparen(ie.X).(*ast.SelectorExpr); ok && astx.FieldSel(info, se) == nicks {
						sites = append(sites, as)
					}
				}
			}
			return true
		})
		if len(sites) == 0 {
			continue
		}
		g := c.Graph(fi)
		for _, as := range sites {
			ie := ast.Unparen(as.Lhs[0]).(*ast.IndexExpr)
			construct := "nicks[" + astx.Str(ie.Index) + "] = " + astx.Str(as.Rhs[0])
			pos := c.P.Pos(as.Pos())
			if why, ok := exceptions[fi.Name()]; ok {
				r.Except("C03.K4", fi.Name(), construct, pos, why)
				continue
			}
			v := g.VertexOf(as)
			facts := g.FactsAt(v)
			// key must be NickToLower(E)
			var e ast.Expr
			if call, ok := astx.Expand(info, ie.Index).(*ast.CallExpr); ok && len(call.Args) == 1 {
				if fn := astx.Callee(info, call); fn != nil && fname(fn) == "NickToLower" {
					e = call.Args[0]
				}
			}
			if e == nil {
				r.Fail("C03.K4", fi.Name(), construct, pos, "index key is not NickToLower(<nick>)")
				continue
			}
			ok, why := nonEmptyProof(info, facts, e)
			if !ok {
				// e is x.Nick assigned from V by a dominating assignment
				if se, isSel := ast.Unparen(e).(*ast.SelectorExpr); isSel && astx.FieldSel(info, se) == nickField {
					for _, vtx := range g.Nodes() {
						a2, isAs := vtx.Node.(*ast.AssignStmt)
						if !isAs || len(a2.Lhs) != 1 || len(a2.Rhs) != 1 || !astx.Same(info, a2.Lhs[0], e) {
							continue
						}
						if !g.DominatedBy(v, func(x *cfgxVertex) bool { return x.ID == vtx.ID }) {
							continue
						}
						if ok2, why2 := nonEmptyProof(info, facts, a2.Rhs[0]); ok2 {
							ok, why = true, astx.Str(e)+" = "+astx.Str(a2.Rhs[0])+" and "+why2
						}
					}
				}
			}
			if fi.Name() == "ircserver.(*IRCServer).Unmarshal" {
				extra := ""
				for _, cond := range g.CondsAt(v) {
					if cond.Tag != nil {
						continue
					}
					ast.Inspect(cond.Expr, func(n ast.Node) bool {
						if se2, isSel := n.(*ast.SelectorExpr); isSel {
							if fv := astx.FieldSel(info, se2); fv != nil && fv != nickField && fv.Pkg() != nil && fv.Pkg().Path() == pathIrcsrv {
								extra = astx.Str(cond.Expr)
							}
						}
						// a predicate stronger than "non-empty" (IsValidNickname rejects names that services may use)
						if call, isCall := n.(*ast.CallExpr); isCall && astx.Builtin(info, call) == "" {
							if tv, okT := info.Types[call.Fun]; !okT || !tv.IsType() {
								extra = astx.Str(cond.Expr)
							}
						}
						return true
					})
				}
				r.Check(extra == "", "C03.K4", fi.Name(), "every restored session with a nickname is indexed", pos, "the rebuild is guarded by the nickname only",
					"whether a restored session enters the nickname index depends on something else than its nickname ("+extra+"): live code indexes a session as soon as it has a nickname, so after a restore such a session is unreachable by name and its nickname can be taken by somebody else")
			}
			r.Check(ok, "C03.K4", fi.Name(), construct, pos, why,
				"insertion into the nickname index is not dominated by a proof that the nickname is non-empty (live code guards it with IsValidNickname / != \"\"): a session without nickname is indexed under \"\" and WHOIS/PRIVMSG answer differently after a restore")
		}
	}
	r.Floor("C03.K4", 3)
}

// c03ServerSessions (K4b): every append to serverSessions happens for a session that is a server link.
func (c *Ctx) c03ServerSessions() {
	r := c.R
	ss := c.P.Field("ircserver", "IRCServer", "serverSessions")
	serverField := c.P.Field("ircserver", "Session", "Server")
	if ss == nil || serverField == nil {
		r.Break("C03.K4b anchors missing")
		return
	}
	for _, fi := range c.P.FuncsIn("ircserver") {
		if fi.Body() == nil {
			continue
		}
		info := fi.Pkg.TypesInfo
		ast.Inspect(fi.Body(), func(n ast.Node) bool {
			as, ok := n.(*ast.AssignStmt)
			if !ok || len(as.Lhs) != 1 {
				return true
			}
			se, ok := ast.Unparen(as.Lhs[0]).(*ast.SelectorExpr)
			if !ok || astx.FieldSel(info, se) != ss {
				return true
			}
			g := c.Graph(fi)
			v := g.VertexOf(as)
			okk, why := false, ""
			for _, f := range g.FactsAt(v) {
				if f.Tag != nil || !f.Val {
					continue
				}
				if s2, ok := ast.Unparen(f.Expr).(*ast.SelectorExpr); ok {
					if fv := astx.FieldSel(info, s2); fv != nil && fv.Name() == "Server" {
						okk, why = true, "dominated by "+astx.Str(f.Expr)
					}
				}
			}
			if !okk {
				// same function sets X.Server = true on a path that dominates the append
				for _, vtx := range g.Nodes() {
					a2, isAs := vtx.Node.(*ast.AssignStmt)
					if !isAs || len(a2.Lhs) != 1 || len(a2.Rhs) != 1 {
						continue
					}
					if s2, ok := ast.Unparen(a2.Lhs[0]).(*ast.SelectorExpr); ok && astx.FieldSel(info, s2) == serverField {
						if id, ok := ast.Unparen(a2.Rhs[0]).(*ast.Ident); ok && id.Name == "true" {
							if vtx.ID == v || g.DominatedBy(v, func(x *cfgxVertex) bool { return x.ID == vtx.ID }) || g.PostDominatedBy(v, g.Exit, func(x *cfgxVertex) bool { return x.ID == vtx.ID }) {
								okk, why = true, "paired with "+astx.Str(a2)
							}
						}
					}
				}
			}
			r.Check(okk, "C03.K4b", fi.Name(), "append to serverSessions", c.P.Pos(as.Pos()), why,
				"serverSessions grows for a session that is not provably a server link (live code appends exactly when Session.Server is set)")
			return true
		})
	}
	r.Floor("C03.K4b", 2)
}

// c03ModeLoops (K5): loops that serialize the ['z']bool mode arrays by index
// must cover the whole array: start at or below 'A' and run to the array length.
func (c *Ctx) c03ModeLoops(fns ...*load.FuncInfo) {
	r := c.R
	for _, fi := range fns {
		info := fi.Pkg.TypesInfo
		ast.Inspect(fi.Body(), func(n ast.Node) bool {
			fs, ok := n.(*ast.ForStmt)
			if !ok || fs.Cond == nil || fs.Init == nil {
				return true
			}
			// does the body index an array-typed field with the loop variable?
			as, ok := fs.Init.(*ast.AssignStmt)
			if !ok || len(as.Lhs) != 1 {
				return true
			}
			lv, ok := as.Lhs[0].(*ast.Ident)
			if !ok {
				return true
			}
			lobj := info.Defs[lv]
			var arrLen int64 = -1
			var arrExpr ast.Expr
			ast.Inspect(fs.Body, func(m ast.Node) bool {
				if ie, ok := m.(*ast.IndexExpr); ok {
					if id, ok := ast.Unparen(ie.Index).(*ast.Ident); ok && info.Uses[id] == lobj {
						if tv, ok := info.Types[ie.X]; ok {
							if at, ok := tv.Type.Underlying().(*types.Array); ok {
								arrLen = at.Len()
								arrExpr = ie.X
							}
						}
					}
				}
				return true
			})
			if arrLen < 0 {
				return true
			}
			lo, okLo := astx.ConstInt(info, as.Rhs[0])
			be, okBe := ast.Unparen(fs.Cond).(*ast.BinaryExpr)
			var hi int64
			okHi := false
			if okBe && (be.Op == token.LSS || be.Op == token.LEQ) {
				if h, ok := astx.ConstInt(info, be.Y); ok {
					hi = h
					if be.Op == token.LEQ {
						hi++
					}
					okHi = true
				}
			}
			good := okLo && okHi && lo <= 'A' && hi == arrLen
			r.Check(good, "C03.K5", fi.Name(), "index loop over "+astx.Str(arrExpr), c.P.Pos(fs.Pos()),
				"loop covers ['A', len(array))", "the loop serializing "+astx.Str(arrExpr)+" does not cover the mode letters 'A'..len-1: set modes outside the range are lost")
			return true
		})
	}
	r.Floor("C03.K5", 2)
	// K5b: a set of flags is written as the list of its TRUE members: in the writer, a letter / status number is appended to
	// the list only on the edge where the flag it stands for is set
	if len(fns) > 0 && fns[0] != nil && fns[0].Body() != nil {
		fi := fns[0]
		info := fi.Info()
		g := c.Graph(fi)
		nApp := 0
		for _, v := range g.Nodes() {
			as, ok := v.Node.(*ast.AssignStmt)
			if !ok || len(as.Lhs) != 1 || len(as.Rhs) != 1 {
				continue
			}
			app, ok := ast.Unparen(as.Rhs[0]).(*ast.CallExpr)
			if !ok || astx.Builtin(info, app) != "append" || len(app.Args) != 2 {
				continue
			}
			// string(<loop variable>) / string(rune(<loop variable>))
			e := ast.Unparen(app.Args[1])
			var lv types.Object
			for k := 0; k < 3; k++ {
				cc, ok := e.(*ast.CallExpr)
				if !ok || !astx.IsConversion(info, cc) || len(cc.Args) != 1 {
					break
				}
				e = ast.Unparen(cc.Args[0])
			}
			if id, ok := e.(*ast.Ident); ok && e != ast.Unparen(app.Args[1]) {
				lv = astx.Obj(info, id)
			}
			if lv == nil {
				continue
			}
			// the loop that declares lv: for lv := …  or  for lv, val := range <bool array>
			var rangeVal types.Object
			isLoopVar := false
			ast.Inspect(fi.Body(), func(n ast.Node) bool {
				switch x := n.(type) {
				case *ast.ForStmt:
					if ia, ok := x.Init.(*ast.AssignStmt); ok && len(ia.Lhs) == 1 {
						if id, ok := ia.Lhs[0].(*ast.Ident); ok && info.Defs[id] == lv {
							isLoopVar = true
						}
					}
				case *ast.RangeStmt:
					if id, ok := x.Key.(*ast.Ident); ok && x.Key != nil && info.Defs[id] == lv && info.Defs[id] != nil {
						// only arrays / slices of flags (a map used as a set lists its keys, which are all members)
						switch info.TypeOf(x.X).Underlying().(type) {
						case *types.Array, *types.Slice, *types.Pointer:
						default:
							return true
						}
						if vid, ok := x.Value.(*ast.Ident); ok && x.Value != nil && info.Defs[vid] != nil {
							if b, ok := info.Defs[vid].Type().Underlying().(*types.Basic); ok && b.Kind() == types.Bool {
								isLoopVar = true
								rangeVal = info.Defs[vid]
							}
						}
					}
				}
				return true
			})
			if !isLoopVar {
				continue
			}
			nApp++
			okSet := false
			for _, f := range g.FactsAt(v.ID) {
				if f.Tag != nil || !f.Val {
					continue
				}
				switch x := ast.Unparen(f.Expr).(type) {
				case *ast.IndexExpr:
					if id, ok := ast.Unparen(x.Index).(*ast.Ident); ok && astx.Obj(info, id) == lv {
						okSet = true
					}
				case *ast.Ident:
					if rangeVal != nil && astx.Obj(info, x) == rangeVal {
						okSet = true
					}
				}
			}
			r.Check(okSet, "C03.K5", fi.Name(), "a flag is listed only when it is set", c.P.Pos(as.Pos()), "append dominated by <flags>[<loop variable>] (or the range value) being true",
				"the writer lists a mode letter / member status on the edge where the flag is NOT set (test inverted): a restored session or channel has exactly the complementary modes — +i channels become open, operators lose their status and everybody else gains it")
		}
		if nApp < 3 {
			r.Break("C03.K5: only %d flag-list appends found in the snapshot writer", nApp)
		}
	}
}

// keep flowx import used
var _ = flowx.Set{}

// c03Restore (K9): what Unmarshal builds from a snapshot record is not touched up afterwards, and lists keep their length.
//   - a session / channel value built from a snapshot record is handed only to functions that write no field of it (a
//     derived write — recomputing the prefix, "normalising" a flag — makes the restored node differ from the one that
//     was never serialized, for the records for which the derivation does not hold: server links, legacy data);
//   - a slice created with a length is filled by index, not appended to (lengthDiscipline).
func (c *Ctx) c03Restore(unmarshal *load.FuncInfo) {
	r := c.R
	if unmarshal == nil || unmarshal.Body() == nil {
		return
	}
	info := unmarshal.Info()
	sess := c.P.Named("ircserver", "Session")
	ch := c.P.Named("ircserver", "channel")
	ofRecord := func(t types.Type) *types.Named {
		if p, ok := t.(*types.Pointer); ok {
			t = p.Elem()
		}
		n, _ := t.(*types.Named)
		if n != nil && (n == sess || n == ch) {
			return n
		}
		return nil
	}
	writesFieldsOf := func(fi *load.FuncInfo, n *types.Named, depth int) string {
		st, _ := n.Underlying().(*types.Struct)
		var visit func(fi *load.FuncInfo, depth int, seen map[*load.FuncInfo]bool) string
		visit = func(fi *load.FuncInfo, depth int, seen map[*load.FuncInfo]bool) string {
			if fi == nil || seen[fi] || depth > 3 || st == nil {
				return ""
			}
			seen[fi] = true
			ff := c.funcFlow(fi)
			for k := 0; k < st.NumFields(); k++ {
				if _, ok := ff.writes[st.Field(k)]; ok {
					return st.Field(k).Name() + " (in " + shortName(fi) + ")"
				}
			}
			for _, cal := range c.callees(fi) {
				if w := visit(cal, depth+1, seen); w != "" {
					return w
				}
			}
			return ""
		}
		return visit(fi, depth, map[*load.FuncInfo]bool{})
	}
	nCalls := 0
	for _, call := range astx.Calls(unmarshal.Body(), true) {
		fn := astx.Callee(info, call)
		cal := c.P.FuncOf(fn)
		if cal == nil || cal.Body() == nil {
			continue
		}
		var operands []ast.Expr
		if se, ok := ast.Unparen(call.Fun).(*ast.SelectorExpr); ok {
			if sel := info.Selections[se]; sel != nil && sel.Kind() == types.MethodVal {
				operands = append(operands, se.X)
			}
		}
		operands = append(operands, call.Args...)
		for _, op := range operands {
			t := info.TypeOf(op)
			if t == nil {
				continue
			}
			n := ofRecord(t)
			if n == nil {
				continue
			}
			nCalls++
			w := writesFieldsOf(cal, n, 0)
			r.Check(w == "", "C03.K9", unmarshal.Name(), "restored "+n.Obj().Name()+" handed to "+shortName(cal), c.P.Pos(call.Pos()), "the callee writes no field of it",
				"a record restored from the snapshot is modified afterwards (field "+w+"): the restored instance differs from the one that was never serialized wherever the derived value is not the stored one")
		}
	}
	c.lengthDiscipline("C03.K9", unmarshal, nil, "after save + load the state holds phantom records (an operator without a name, a service with the empty password, an empty ban)")
	r.Extra["restore_calls_on_records"] = nCalls
}

// c03OwnSlices (K11): every record of the snapshot gets slices of its own. The pb records are only encoded when the whole
// message is marshalled, after all loops: a scratch slice that is re-sliced to length zero and filled again for the next
// session makes all records share one backing array, and every session is saved with the last one's channels, invitations
// and modes. A slice-valued variable that is stored into a pb record inside a loop is declared inside that loop — and if it
// is a copy of another variable, so is that one.
func (c *Ctx) c03OwnSlices(marshal *load.FuncInfo) {
	if marshal == nil || marshal.Body() == nil {
		return
	}
	r := c.R
	info := marshal.Info()
	var loops []ast.Stmt
	n := 0
	isPB := func(t types.Type) bool {
		nm := astx.NamedOf(t)
		return nm != nil && nm.Obj().Pkg() != nil && nm.Obj().Pkg().Path() == pathProto
	}
	fresh := func(e ast.Expr, loop ast.Stmt) (bool, string) {
		for depth := 0; depth < 3; depth++ {
			id, ok := ast.Unparen(e).(*ast.Ident)
			if !ok {
				return true, "" // a call result, a literal, a field of the state
			}
			o := astx.Obj(info, id)
			if o == nil {
				return true, ""
			}
			if !(loop.Pos() <= o.Pos() && o.Pos() <= loop.End()) {
				return false, id.Name
			}
			// declared in the loop: as a copy of another variable?
			next := ast.Expr(nil)
			for _, d := range defsOf(info, loop, o) {
				if d == nil {
					continue
				}
				if did, isID := ast.Unparen(d).(*ast.Ident); isID {
					if _, isSl := info.TypeOf(did).Underlying().(*types.Slice); isSl {
						next = did
					}
				}
			}
			if next == nil {
				return true, ""
			}
			e = next
		}
		return true, ""
	}
	var walk func(nd ast.Node)
	walk = func(nd ast.Node) {
		ast.Inspect(nd, func(m ast.Node) bool {
			switch x := m.(type) {
			case *ast.FuncLit:
				return false
			case *ast.ForStmt:
				loops = append(loops, x)
				walk(x.Body)
				loops = loops[:len(loops)-1]
				return false
			case *ast.RangeStmt:
				loops = append(loops, x)
				walk(x.Body)
				loops = loops[:len(loops)-1]
				return false
			case *ast.CompositeLit:
				if len(loops) == 0 || !isPB(info.TypeOf(x)) {
					return true
				}
				for _, el := range x.Elts {
					kv, ok := el.(*ast.KeyValueExpr)
					if !ok {
						continue
					}
					if _, isSl := info.TypeOf(kv.Value).Underlying().(*types.Slice); !isSl {
						continue
					}
					if _, isID := ast.Unparen(kv.Value).(*ast.Ident); !isID {
						continue
					}
					n++
					ok2, outer := fresh(kv.Value, loops[len(loops)-1])
					r.Check(ok2, "C03.K11", marshal.Name(), "record field "+astx.Str(kv.Key)+" gets a slice of its own", c.P.Pos(kv.Pos()), "the slice variable is declared inside the loop that builds the record",
						"the slice stored in "+astx.Str(kv.Key)+" is (a copy of) the variable "+outer+", which is declared outside the loop and refilled for every record: all records share one backing array until the message is encoded, and every one of them is saved with the contents of the last")
				}
			}
			return true
		})
	}
	walk(marshal.Body())
	r.Floor("C03.K11", 3)
	_ = n
}
