package rules

import (
	"go/ast"
	"go/token"
	"go/types"
	"strings"

	"verif/checker/internal/astx"
	"verif/checker/internal/cfgx"
	"verif/checker/internal/flowx"
	"verif/checker/internal/load"
)

func init() { register("C02", c02) }

// errorEdgeFatal reports whether the error result of the call in vertex v is
// tested and its non-nil edge cannot reach a normal return.
func (c *Ctx) errorEdgeFatal(fi *load.FuncInfo, g *cfgx.Graph, call *ast.CallExpr) bool {
	info := fi.Info()
	for _, v := range g.V {
		for _, e := range v.Succ {
			if e.Cond == nil {
				continue
			}
			for _, f := range cfgx.ExpandCond(e.Cond, e.Val) {
				x, isNil, ok := nilCompare(info, f)
				if !ok || isNil {
					continue
				}
				id, ok := ast.Unparen(x).(*ast.Ident)
				if !ok {
					continue
				}
				callV := g.VertexOf(call)
				for _, d := range defsOf(info, fi.Node(), astx.Obj(info, id)) {
					if d == ast.Expr(call) || (d != nil && d.Pos() == call.Pos()) {
						// the value assigned by this call must reach the test: either the call dominates the test, or every
						// path from the call passes the test before the exit and before any other assignment of the variable
						// (the variable may be reused for other calls, and the test may be shared by two branches)
						if !g.DominatedBy(e.From, func(x *cfgx.Vertex) bool { return x.ID == callV }) {
							avoid := g.Reach(callV, func(v int) bool { return v == e.From }, nil)
							bad := avoid[g.Exit]
							ast.Inspect(fi.Node(), func(n ast.Node) bool {
								as, ok := n.(*ast.AssignStmt)
								if !ok {
									return true
								}
								for _, l := range as.Lhs {
									if lid, ok := l.(*ast.Ident); ok && astx.Obj(info, lid) == astx.Obj(info, id) {
										if v2 := g.VertexOf(as); v2 >= 0 && v2 != callV && avoid[v2] {
											bad = true
										}
									}
								}
								return true
							})
							if bad {
								continue
							}
						}
						reach := g.Reach(e.To, nil, nil)
						if !reach[g.Exit] {
							return true
						}
					}
				}
			}
		}
	}
	return false
}

func c02(c *Ctx) {
	r := c.R
	r.Explanation = "Partial: six structural clauses of FSM.Snapshot/Apply/Restore and robustSnapshot.Persist, each a necessary condition for compaction not to lose or duplicate entries. (N1) every removal from the log copy or the output store happens inside the compaction loop, after the same iteration's entry was folded into the snapshot state, only for entries not newer than the horizon, and names exactly that entry; (N2) the index under which the folded state is serialized and filed is (re)defined after the last fold on every path; (N3) Apply persists a command entry into the irclog store (fatal on error) before applying it; (N4) Restore closes and wipes the old log copy, creates fresh store/server/output and publishes them before decoding, and the decoders load the state record and apply+store every other record; (N5) Persist and decodeProtobuf agree on the stream container; (N6) the horizon depends on the session expiration, the sweep interval and the canary override. Equality of states over histories is not decided."
	r.Rules = []string{"C02.N1 fold-before-drop", "C02.N2 fresh index after fold", "C02.N3 persist-before-apply", "C02.N4 wipe-before-load", "C02.N5 stream agreement", "C02.N6 horizon dependence", "C02.N7 error and iterator discipline", "C02.N8 lock hygiene and key buffers", "C02.N9 decisive errors stay decisive"}

	snap := c.MustFunc("main.(*FSM).Snapshot")
	arm := c.MustFunc("main.(*FSM).applyRobustMessage")
	if snap == nil || arm == nil {
		return
	}
	info := snap.Info()
	g := c.Graph(snap)
	name := snap.Name()
	r.Functions = 7

	isFold := func(fn *types.Func, _ *ast.CallExpr) bool { return fn == arm.Obj }
	isDeleter := func(fn *types.Func, _ *ast.CallExpr) bool {
		return isFunc(fn, "outputstream", "(*OutputStream).Delete") || isFunc(fn, "raftstore", "(*LevelDBStore).DeleteRange") ||
			(fn.Pkg() != nil && fn.Pkg().Path() == pathLevelDB && fname(fn) == "Delete")
	}
	folds := callsIn(snap, isFold)
	r.Check(len(folds) == 1, "C02.N1", name, "one fold call", c.P.Pos(snap.Node().Pos()), "applyRobustMessage on the temporary server", "expected exactly one fold call (applyRobustMessage) in Snapshot")
	if len(folds) != 1 {
		return
	}
	fold := folds[0]
	foldV := g.VertexOf(fold)
	// the server the entries are folded into is made for this snapshot: a server kept from the previous snapshot (to save the
	// Unmarshal of the base state) has not seen what a Restore in between installed, and a live one is the wrong thing to fold
	// into altogether
	if len(fold.Args) >= 2 {
		if sid, ok := ast.Unparen(fold.Args[1]).(*ast.Ident); ok {
			// every value the variable can hold is a server made here (through copies of locals — a helper that builds the base
			// state was expanded — and nil on an error path)
			fresh, nDef := true, 0
			seenV := map[types.Object]bool{}
			var made func(e ast.Expr, depth int) bool
			made = func(e ast.Expr, depth int) bool {
				if e == nil || isNilIdent(info, e) {
					return true
				}
				switch x := ast.Unparen(e).(type) {
				case *ast.CallExpr:
					if fn := astx.Callee(info, x); fn != nil && isFunc(fn, "ircserver", "NewIRCServer") {
						nDef++
						return true
					}
					return false
				case *ast.Ident:
					o := astx.Obj(info, x)
					if o == nil || depth > 4 {
						return false
					}
					if seenV[o] {
						return true
					}
					seenV[o] = true
					if v, isVar := o.(*types.Var); !isVar || v.IsField() || !(snap.Body().Pos() <= v.Pos() && v.Pos() <= snap.Body().End()) {
						return false
					}
					ds := defsOf(info, snap.Node(), o)
					for _, d := range ds {
						if d != nil && !made(d, depth+1) {
							return false
						}
					}
					return true
				}
				return false
			}
			fresh = made(sid, 0)
			r.Check(fresh && nDef > 0, "C02.N1", name, "folds into a fresh server", c.P.Pos(fold.Pos()), "every definition of "+sid.Name+" is ircserver.NewIRCServer(…)",
				"the server that the compacted entries are folded into is not created for this snapshot (it is taken from a field or kept between calls): after a Restore, or after a snapshot that failed half-way, it no longer is the state at the base index and the filed snapshot state is wrong")
		}
	}
	// the loop containing the fold
	var loop *ast.ForStmt
	ast.Inspect(snap.Body(), func(n ast.Node) bool {
		if fs, ok := n.(*ast.ForStmt); ok && fs.Body.Pos() <= fold.Pos() && fold.End() <= fs.Body.End() {
			loop = fs
		}
		return true
	})
	if loop == nil || len(loop.Body.List) == 0 {
		r.Fail("C02.N1", name, "compaction loop", c.P.Pos(fold.Pos()), "the fold is not inside a for loop")
		return
	}
	bodyStart := g.VertexOf(loop.Body.List[0])
	// fold target: temporary server, nil output, and the folded message variable
	var foldedObj types.Object
	if len(fold.Args) == 3 {
		if u, ok := ast.Unparen(fold.Args[0]).(*ast.UnaryExpr); ok && u.Op == token.AND {
			if id, ok := ast.Unparen(u.X).(*ast.Ident); ok {
				foldedObj = astx.Obj(info, id)
			}
		}
		okT := isNilIdent(info, fold.Args[2]) && !mentionsGlobal(info, fold.Args[1], "ircServer")
		r.Check(okT, "C02.N1", name, "fold goes into the temporary server without output", c.P.Pos(fold.Pos()), "applyRobustMessage(&parsed, tmpServer, nil)",
			"the fold is applied to the live server or produces output: compaction changes what clients see")
	}
	// per-iteration index variable: defined from iterator.Key() inside the loop
	var idxObj types.Object
	ast.Inspect(loop.Body, func(n ast.Node) bool {
		as, ok := n.(*ast.AssignStmt)
		if !ok || len(as.Lhs) != 1 || len(as.Rhs) != 1 {
			return true
		}
		for _, call := range astx.Calls(as.Rhs[0], false) {
			if se, ok := ast.Unparen(call.Fun).(*ast.SelectorExpr); ok && se.Sel.Name == "Key" {
				if id, ok := as.Lhs[0].(*ast.Ident); ok {
					idxObj = astx.Obj(info, id)
				}
			}
		}
		return true
	})
	// horizon test: parsed.Timestamp().After(compactionEnd)
	isHorizon := func(e ast.Expr) bool {
		call, ok := ast.Unparen(e).(*ast.CallExpr)
		if !ok || len(call.Args) != 1 {
			return false
		}
		fn := astx.Callee(info, call)
		if fn == nil || fname(fn) != "After" {
			return false
		}
		se, ok := ast.Unparen(call.Fun).(*ast.SelectorExpr)
		if !ok {
			return false
		}
		ts, ok := ast.Unparen(se.X).(*ast.CallExpr)
		if !ok {
			return false
		}
		tf := astx.Callee(info, ts)
		return tf != nil && tf.Name() == "Timestamp"
	}
	hasHorizonFalse := func(v int) bool {
		for _, f := range g.FactsAt(v) {
			if f.Tag == nil && !f.Val && isHorizon(f.Expr) {
				return true
			}
		}
		return false
	}
	r.Check(hasHorizonFalse(foldV), "C02.N1", name, "only entries not newer than the horizon are folded", c.P.Pos(fold.Pos()), "dominated by !parsed.Timestamp().After(compactionEnd)",
		"entries newer than the compaction horizon are folded into the snapshot state (and dropped): resumable output disappears")
	deleters := callsIn(snap, isDeleter)
	for _, dc := range deleters {
		dv := g.VertexOf(dc)
		construct := "removal " + astx.Str(dc.Fun)
		pos := c.P.Pos(dc.Pos())
		inLoop := loop.Body.Pos() <= dc.Pos() && dc.End() <= loop.Body.End()
		if !inLoop {
			r.Fail("C02.N1", name, construct, pos, "an entry is removed outside the compaction loop: nothing guarantees it was folded")
			continue
		}
		reach := g.Reach(bodyStart, func(v int) bool { return v == foldV }, nil)
		okFold := !reach[dv] && bodyStart != dv
		r.Check(okFold, "C02.N1", name, construct+" after this iteration's fold", pos, "every path from the top of the loop body to the removal passes the fold",
			"within one loop iteration the removal can be reached without the entry having been folded (e.g. on a skip/decode-error branch or before the horizon test): an un-folded entry is dropped")
		r.Check(hasHorizonFalse(dv), "C02.N1", name, construct+" only below the horizon", pos, "dominated by the false edge of the horizon test",
			"the removal is not dominated by the horizon test: entries newer than the horizon are dropped")
		// names this iteration's entry
		okArg := true
		why := ""
		switch {
		case isFunc(astx.Callee(info, dc), "outputstream", "(*OutputStream).Delete"):
			okArg = false
			if len(dc.Args) == 1 {
				if se, ok := ast.Unparen(dc.Args[0]).(*ast.SelectorExpr); ok && se.Sel.Name == "Id" {
					if id, ok := ast.Unparen(se.X).(*ast.Ident); ok && astx.Obj(info, id) == foldedObj && foldedObj != nil {
						okArg, why = true, "the folded message's Id"
					}
				}
			}
		case isFunc(astx.Callee(info, dc), "raftstore", "(*LevelDBStore).DeleteRange"):
			okArg = false
			if len(dc.Args) == 2 && idxObj != nil {
				a, okA := ast.Unparen(dc.Args[0]).(*ast.Ident)
				b, okB := ast.Unparen(dc.Args[1]).(*ast.Ident)
				if okA && okB && astx.Obj(info, a) == idxObj && astx.Obj(info, b) == idxObj {
					okArg, why = true, "[i, i] for this iteration's key"
				}
			}
		}
		r.Check(okArg, "C02.N1", name, construct+" names the folded entry", pos, why, "the removal does not name exactly the entry folded in this iteration (a wider range drops un-folded entries)")
	}
	// N1b: once an entry has been decoded as a message and found not newer than the horizon, the iteration folds it:
	// no path from the false edge of the horizon test back to the loop head avoids the fold (a `continue` for some
	// message types would leave those entries in the log copy forever and out of the snapshot state)
	{
		var hv []*cfgx.Edge
		for _, v := range g.V {
			for _, e := range v.Succ {
				// the edge on which "newer than the horizon" is false, however the test is negated or wrapped
				if e.Cond != nil && e.Tag == nil {
					for _, f := range e.Facts() {
						if f.Tag == nil && !f.Val && isHorizon(f.Expr) {
							hv = append(hv, e)
							break
						}
					}
				}
			}
		}
		headV := g.VertexOf(loop.Cond)
		if loop.Cond == nil {
			headV = bodyStart
		}
		for _, e := range hv {
			skip := g.Reach(e.To, func(v int) bool { return v == foldV }, nil)
			r.Check(!skip[headV] && !skip[bodyStart] || e.To == foldV, "C02.N1", name, "every entry below the horizon is folded", c.P.Pos(e.Cond.Pos()), "every path from the horizon test's pass edge to the next iteration passes the fold",
				"some entries that are not newer than the horizon are skipped without being folded into the snapshot state (for example by a `continue` for one message type): their effect — for a message of death the tombstone and the session's duplicate-detection marker — is missing from the snapshot, and the entry stays in the log copy")
		}
		r.Check(len(hv) >= 1, "C02.N1", name, "horizon test found in the loop", c.P.Pos(loop.Pos()), "found", "no horizon test in the compaction loop")
	}
	r.Floor("C02.N1", 8)

	// N2 fresh index
	marshalField := func(fn *types.Func, _ *ast.CallExpr) bool { return isFunc(fn, "ircserver", "(*IRCServer).Marshal") }
	deps := flowx.Compute(info, snap.Node())
	type idxUse struct {
		what string
		expr ast.Expr
		node ast.Node
	}
	var uses []idxUse
	for _, mc := range callsIn(snap, marshalField) {
		if len(mc.Args) == 1 {
			uses = append(uses, idxUse{"index passed to IRCServer.Marshal", mc.Args[0], mc})
		}
	}
	lss := c.P.Field("main", "FSM", "lastSnapshotState")
	ast.Inspect(snap.Body(), func(n ast.Node) bool {
		if as, ok := n.(*ast.AssignStmt); ok && len(as.Lhs) == 1 {
			if ie, ok := ast.Unparen(as.Lhs[0]).(*ast.IndexExpr); ok {
				if se, ok := ast.Unparen(ie.X).(*ast.SelectorExpr); ok && astx.FieldSel(info, se) == lss {
					uses = append(uses, idxUse{"key of lastSnapshotState", ie.Index, as})
				}
			}
		}
		return true
	})
	// N2e: Snapshot itself records the folded state before it hands the snapshot to raft: every return of a non-nil snapshot
	// is dominated by a store into lastSnapshotState that is not inside a function literal (a store postponed to a callback
	// runs — if at all — after the folded entries have already been deleted from the log copy)
	{
		inLit := func(n ast.Node) bool {
			found := false
			ast.Inspect(snap.Body(), func(m ast.Node) bool {
				if fl, ok := m.(*ast.FuncLit); ok && fl.Pos() <= n.Pos() && n.End() <= fl.End() {
					found = true
				}
				return true
			})
			return found
		}
		isStore := func(x *cfgx.Vertex) bool {
			as, ok := x.Node.(*ast.AssignStmt)
			if !ok || len(as.Lhs) != 1 || inLit(as) {
				return false
			}
			ie, ok := ast.Unparen(as.Lhs[0]).(*ast.IndexExpr)
			if !ok {
				return false
			}
			se, ok := ast.Unparen(ie.X).(*ast.SelectorExpr)
			return ok && astx.FieldSel(info, se) == lss
		}
		nRet := 0
		for _, rv := range g.Returns() {
			rsn := rv.Node.(*ast.ReturnStmt)
			if len(rsn.Results) != 2 || isNilIdent(info, rsn.Results[0]) || inLit(rsn) {
				continue
			}
			nRet++
			r.Check(g.DominatedBy(rv.ID, isStore), "C02.N2", name, "the folded state is recorded before the snapshot is handed out", c.P.Pos(rsn.Pos()), "lastSnapshotState[…] = state dominates the return (outside function literals)",
				"Snapshot returns a snapshot without having recorded the folded state as the base of the next compaction (or records it only in a callback): the folded entries are already gone from the log copy, so the next snapshot starts from an older state and loses them")
		}
		r.Check(nRet >= 1, "C02.N2", name, "snapshot-returning exits found", c.P.Pos(snap.Node().Pos()), itoa(nRet), "Snapshot has no return of a non-nil snapshot")
	}
	// N2d: the clean-up of older recorded states happens before the new state is recorded: no delete(lastSnapshotState, …)
	// is reachable after the store, and none is deferred (a deferred clean-up runs after the store and removes the entry
	// just recorded, so the next snapshot starts from a stale base state)
	{
		var storeVs []int
		var storeNode ast.Node
		for _, v := range g.Nodes() {
			if as, ok := v.Node.(*ast.AssignStmt); ok && len(as.Lhs) == 1 {
				if ie, ok := ast.Unparen(as.Lhs[0]).(*ast.IndexExpr); ok {
					if se, ok := ast.Unparen(ie.X).(*ast.SelectorExpr); ok && astx.FieldSel(info, se) == lss {
						storeVs = append(storeVs, v.ID)
						storeNode = as
					}
				}
			}
		}
		bad := ""
		ast.Inspect(snap.Body(), func(n ast.Node) bool {
			call, ok := n.(*ast.CallExpr)
			if !ok || astx.Builtin(info, call) != "delete" || len(call.Args) != 2 {
				return true
			}
			se, ok := ast.Unparen(call.Args[0]).(*ast.SelectorExpr)
			if !ok || astx.FieldSel(info, se) != lss {
				return true
			}
			dv := g.VertexOf(call)
			// inside a deferred function literal?
			inDefer := false
			ast.Inspect(snap.Body(), func(m ast.Node) bool {
				if ds, ok := m.(*ast.DeferStmt); ok && ds.Pos() <= call.Pos() && call.End() <= ds.End() {
					inDefer = true
				}
				return true
			})
			if inDefer {
				bad = "the clean-up is deferred"
			}
			for _, sv := range storeVs {
				if dv >= 0 && g.Reach(sv, nil, nil)[dv] {
					bad = "a clean-up delete is reachable after the store"
				}
			}
			return true
		})
		if storeNode != nil {
			r.Check(bad == "", "C02.N2", name, "older recorded states are dropped before the new one is recorded", c.P.Pos(storeNode.Pos()), "no delete(lastSnapshotState, …) after the store, none deferred",
				"entries of lastSnapshotState are deleted after the new state was recorded ("+bad+"): the state just recorded is removed and the next compaction starts from a stale base state, losing what this one folded")
		}
	}
	for _, cl := range compositeLitsOf(info, snap.Body(), load.ModPath, "robustSnapshot") {
		if v := litField(cl, "firstIndex"); v != nil {
			uses = append(uses, idxUse{"robustSnapshot.firstIndex", v, cl})
		}
	}
	for _, u := range uses {
		uv := g.VertexOf(u.node)
		// local variables the expression depends on directly
		vars := map[types.Object]bool{}
		ast.Inspect(u.expr, func(n ast.Node) bool {
			if id, ok := n.(*ast.Ident); ok {
				if o := astx.Obj(info, id); o != nil && deps.IsLocal(o) {
					vars[o] = true
				}
			}
			return true
		})
		hasLateCall := false
		for _, call := range astx.Calls(u.expr, false) {
			if astx.Builtin(info, call) == "" && !astx.IsConversion(info, call) {
				hasLateCall = true
			}
		}
		assignsVar := func(v int) bool {
			n := g.V[v].Node
			if n == nil {
				return false
			}
			for _, l := range astx.Assigned(info, n) {
				if id, ok := ast.Unparen(l).(*ast.Ident); ok && vars[astx.Obj(info, id)] {
					return true
				}
			}
			return false
		}
		reach := g.Reach(foldV, func(v int) bool { return assignsVar(v) }, nil)
		stale := reach[uv] && !hasLateCall
		detail := "after a fold there is a path to this use on which none of the variables it depends on is reassigned (loop exhaustion: every stored entry is older than the horizon): the state is serialized/filed under the pre-loop index, the next snapshot finds no base state and starts from an empty server"
		r.Check(!stale, "C02.N2", name, u.what+" is fresh after the last fold", c.P.Pos(u.expr.Pos()), "redefined after the fold on every path", detail)
	}
	r.Floor("C02.N2", 3)
	// N2b: the base state of the next snapshot cannot be looked up under an exact key computed from
	// FirstIndex(): raft-internal entries leave index gaps, so after a snapshot that folded everything the
	// next first index is not (last folded)+1.
	{
		var firstObj types.Object
		for _, v := range g.Nodes() {
			if as, ok := v.Node.(*ast.AssignStmt); ok && len(as.Rhs) == 1 {
				if call, ok := ast.Unparen(as.Rhs[0]).(*ast.CallExpr); ok {
					if fn := astx.Callee(info, call); fn != nil && fname(fn) == "FirstIndex" {
						if id, ok := as.Lhs[0].(*ast.Ident); ok {
							firstObj = astx.Obj(info, id)
						}
					}
				}
			}
		}
		exact := 0
		ast.Inspect(snap.Body(), func(n ast.Node) bool {
			// reads only: v, ok := m[k] / m[k] on a right-hand side, before the loop
			ie, ok := n.(*ast.IndexExpr)
			if !ok || ie.Pos() > loop.Pos() {
				return true
			}
			se, ok := ast.Unparen(ie.X).(*ast.SelectorExpr)
			if !ok || astx.FieldSel(info, se) != lss {
				return true
			}
			if _, isArith := ast.Unparen(ie.Index).(*ast.BinaryExpr); isArith && firstObj != nil && astx.Mentions(info, ie.Index, firstObj) {
				exact++
				r.Fail("C02.N2", name, "base state looked up under an exact key derived from FirstIndex()", c.P.Pos(ie.Pos()),
					"the previous snapshot's state is looked up under "+astx.Str(ie.Index)+": after a snapshot that folded every entry (or across raft-internal index gaps) no state has that key, the next snapshot starts from an empty server")
			}
			return true
		})
		if exact == 0 {
			r.Ok("C02.N2", name, "base state look-up tolerates index gaps", c.P.Pos(snap.Node().Pos()), "no exact-key look-up of lastSnapshotState derived from FirstIndex()")
		}
	}

	c.c02Apply()
	c.c02Restore()
	c.c02Stream(snap)
	c.c02Sweep(snap)
	// ---------- N8 lock hygiene and key buffers of package main
	{
		var ms []*load.FuncInfo
		nKeys := 0
		for _, fi := range c.P.FuncsIn("main") {
			if fi.Body() == nil || fi.Obj == nil {
				continue
			}
			ms = append(ms, fi)
			nKeys += c.keyedWrites("C02.N8", fi)
		}
		c.lockHygiene("C02.N8", ms, "the next Apply / Restore / Snapshot blocks forever", "after which the state machine blocks forever")
		r.Ok("C02.N8", "main", "uses of key buffers inspected", "-", itoa(nKeys))
	}
	// ---------- N9 errors that are decisive today stay decisive
	c.errorDispositions("C02.N9", []string{"main"}, func(fn string) bool {
		for _, nm := range []string{"main.(*FSM).Snapshot", "main.(*FSM).Restore", "main.(*FSM).decodeProtobuf", "main.(*FSM).decodeJson", "main.(*robustSnapshot).Persist", "main.(*robustSnapshot).persistJSON", "main.writeLenPrefixed", "main.(*FSM).Apply", "main.(*FSM).applyProto", "main.sendMessages"} {
			if fn == nm {
				return true
			}
		}
		return false
	}, "an entry is applied without having been persisted, a snapshot is reported written or loaded although a step failed, or replies are taken for stored")
	// ---------- N7 error and iterator discipline of the functions that fold, write and load snapshots
	{
		nErr, nPos := 0, 0
		namedN7 := map[*load.FuncInfo]bool{}
		defer func() {
			// … and any other function of package main that handles a LevelDB iterator (a reader goroutine, a copy helper)
			for _, fi := range c.P.FuncsIn("main") {
				if fi.Body() == nil || namedN7[fi] {
					continue
				}
				uses := false
				ast.Inspect(fi.Body(), func(n ast.Node) bool {
					if e, ok := n.(ast.Expr); ok && !uses {
						if t := fi.Info().TypeOf(e); t != nil && strings.HasSuffix(t.String(), "leveldb/iterator.Iterator") {
							uses = true
						}
					}
					return !uses
				})
				if uses {
					c.iteratorBuffers("C02.N7", fi)
				}
			}
		}()
		for _, name := range []string{"main.(*FSM).Snapshot", "main.(*FSM).Restore", "main.(*FSM).decodeProtobuf", "main.(*FSM).decodeJson", "main.(*robustSnapshot).Persist", "main.(*robustSnapshot).persistJSON", "main.writeLenPrefixed", "main.(*FSM).Apply", "main.(*FSM).applyProto"} {
			fi := c.MustFunc(name)
			if fi == nil || fi.Body() == nil {
				continue
			}
			nErr += c.errorDiscipline("C02.N7", fi, "a snapshot (or the log copy it is folded from) is reported as written / loaded although a step failed")
			nPos += c.iteratorDiscipline("C02.N7", fi)
			namedN7[fi] = true
		}
		r.Ok("C02.N7", "main", "error definitions and iterator positioning calls inspected", "-", itoa(nErr)+" / "+itoa(nPos))
		if nErr < 10 || nPos < 4 {
			r.Break("C02.N7: only %d error definitions / %d positioning calls found in the snapshot functions", nErr, nPos)
		}
	}
	// ---------- N7b what goes to the snapshot sink is written once: a Write that failed may have put out part of its buffer;
	// writing the same buffer again leaves a torn record in front of the full one, and Persist reports success
	{
		isSinkWrite := func(info *types.Info, call *ast.CallExpr) bool {
			se, ok := ast.Unparen(call.Fun).(*ast.SelectorExpr)
			if !ok || se.Sel.Name != "Write" || len(call.Args) != 1 {
				return false
			}
			// a method Write([]byte) (int, error): an io.Writer, the snapshot sink, a bufio.Writer
			sig, ok := info.TypeOf(call.Fun).(*types.Signature)
			return ok && sig.Params().Len() == 1 && sig.Results().Len() == 2
		}
		// … directly, or through a function of the file that writes (a record writer called from a retry loop)
		writers := map[*types.Func]bool{}
		for changed := true; changed; {
			changed = false
			for _, fi := range c.P.FuncsIn("main") {
				if fi.Body() == nil || fi.Obj == nil || writers[fi.Obj] || !strings.HasPrefix(c.P.Pos(fi.Node().Pos()), "compaction.go") {
					continue
				}
				for _, call := range astx.Calls(fi.Body(), true) {
					if isSinkWrite(fi.Info(), call) || writers[astx.Callee(fi.Info(), call)] {
						writers[fi.Obj] = true
						changed = true
						break
					}
				}
			}
		}
		isWrite := func(info *types.Info, call *ast.CallExpr) bool {
			return isSinkWrite(info, call) || writers[astx.Callee(info, call)]
		}
		nW := 0
		for _, fi := range c.P.FuncsIn("main") {
			if fi.Body() == nil {
				continue
			}
			pos := c.P.Pos(fi.Node().Pos())
			if !strings.HasPrefix(pos, "compaction.go") {
				continue
			}
			nW += c.noRetryAfterError("C02.N7", fi, isWrite, "the snapshot that raft finalises does not decode: the node that restores from it has already wiped its state")
		}
		if nW < 1 {
			r.Break("C02.N7: no Write to the snapshot sink found in compaction.go")
		}
	}
	c.c02BaseState(snap, lss)
	c.c02SinkErrors()
	c.c02NoLiveGlobals(arm)

	// N6 horizon dependence
	{
		var ceObj types.Object
		ast.Inspect(snap.Body(), func(n ast.Node) bool {
			if as, ok := n.(*ast.AssignStmt); ok {
				for _, l := range as.Lhs {
					if id, ok := l.(*ast.Ident); ok && id.Name == "compactionEnd" {
						ceObj = astx.Obj(info, id)
					}
				}
			}
			return true
		})
		// robust to renaming: the argument of the horizon test
		ast.Inspect(snap.Body(), func(n ast.Node) bool {
			if call, ok := n.(*ast.CallExpr); ok && isHorizon(call) {
				if id, ok := ast.Unparen(call.Args[0]).(*ast.Ident); ok {
					ceObj = astx.Obj(info, id)
				}
			}
			return true
		})
		if ceObj == nil {
			r.Fail("C02.N6", name, "horizon variable", c.P.Pos(snap.Node().Pos()), "no horizon (argument of Timestamp().After(...)) found")
		} else {
			d := deps.OfObj(ceObj)
			has := func(pred func(o types.Object) bool) bool {
				for o := range d {
					if pred(o) {
						return true
					}
				}
				return false
			}
			r.Check(has(func(o types.Object) bool { f, ok := o.(*types.Func); return ok && f.Name() == "sessionExpiration" }), "C02.N6", name, "horizon depends on the session expiration", c.P.Pos(snap.Node().Pos()), "fsm.sessionExpiration()", "the compaction horizon does not depend on the configured session expiration")
			r.Check(has(func(o types.Object) bool {
				k, ok := o.(*types.Const)
				return ok && k.Name() == "expireSessionsInterval"
			}), "C02.N6", name, "horizon includes the sweep interval", c.P.Pos(snap.Node().Pos()), "+ expireSessionsInterval", "the compaction horizon does not include expireSessionsInterval (session expiration + 10s)")
			r.Check(has(func(o types.Object) bool { v, ok := o.(*types.Var); return ok && v.Name() == "canaryCompactionStart" }), "C02.N6", name, "horizon honours -canary_compaction_start", c.P.Pos(snap.Node().Pos()), "override present", "the canary compaction start override no longer feeds the horizon")
			r.Check(has(func(o types.Object) bool { f, ok := o.(*types.Func); return ok && f.FullName() == "time.Now" }), "C02.N6", name, "horizon is relative to the compaction start time", c.P.Pos(snap.Node().Pos()), "time.Now()", "the horizon is not relative to the time the compaction started")
			// the expiration is subtracted: compactionStart.Add(-1 * exp)
			neg := false
			for _, dx := range defsOf(info, snap.Node(), ceObj) {
				if dx == nil {
					continue
				}
				ast.Inspect(dx, func(n ast.Node) bool {
					switch x := n.(type) {
					case *ast.UnaryExpr:
						if x.Op == token.SUB {
							neg = true
						}
					case *ast.BinaryExpr:
						if x.Op == token.MUL {
							if v, ok := astx.ConstInt(info, x.X); ok && v < 0 {
								neg = true
							}
							if v, ok := astx.ConstInt(info, x.Y); ok && v < 0 {
								neg = true
							}
						}
					case *ast.CallExpr:
						if fn := astx.Callee(info, x); fn != nil && fname(fn) == "Sub" {
							neg = true
						}
					}
					return true
				})
			}
			// the sweep interval is added on every path: a statement mentioning the constant dominates the horizon's definition
			// (or the definition mentions it itself)
			{
				mentionsK := func(n ast.Node) bool {
					found := false
					ast.Inspect(n, func(m ast.Node) bool {
						if id, ok := m.(*ast.Ident); ok {
							if k, ok := info.Uses[id].(*types.Const); ok && k.Name() == "expireSessionsInterval" {
								found = true
							}
						}
						return true
					})
					return found
				}
				okAll := false
				for _, v := range g.Nodes() {
					as, isAs := v.Node.(*ast.AssignStmt)
					if !isAs {
						continue
					}
					for _, l := range as.Lhs {
						if id, ok := l.(*ast.Ident); ok && astx.Obj(info, id) == ceObj {
							// this is a definition of the horizon
							if mentionsK(as) || g.DominatedBy(v.ID, func(x *cfgx.Vertex) bool {
								a2, ok := x.Node.(*ast.AssignStmt)
								return ok && x.ID != v.ID && mentionsK(a2)
							}) {
								okAll = true
							}
						}
					}
				}
				r.Check(okAll, "C02.N6", name, "the sweep interval is added on every path", c.P.Pos(snap.Node().Pos()), "an assignment adding expireSessionsInterval dominates the horizon's definition",
					"expireSessionsInterval is added to the expiration only on some paths (e.g. only in the fallback for an unset SessionExpiration): with a configured expiration, entries younger than expiration + sweep interval are folded and dropped while their session can still be resumed")
			}
			r.Check(neg, "C02.N6", name, "horizon lies in the past", c.P.Pos(snap.Node().Pos()), "start.Add(-exp)", "the horizon is not compaction start MINUS the expiration")
		}
	}
}

func (c *Ctx) c02Apply() {
	r := c.R
	ap := c.MustFunc("main.(*FSM).Apply")
	if ap == nil {
		return
	}
	info := ap.Info()
	g := c.Graph(ap)
	ircstore := c.P.Field("main", "FSM", "ircstore")
	isStore := func(fn *types.Func, call *ast.CallExpr) bool {
		if !(isFunc(fn, "raftstore", "(*LevelDBStore).StoreLogProto") || isFunc(fn, "raftstore", "(*LevelDBStore).StoreLog") || isFunc(fn, "raftstore", "(*LevelDBStore).StoreLogs")) {
			return false
		}
		se, ok := ast.Unparen(call.Fun).(*ast.SelectorExpr)
		if !ok {
			return false
		}
		rs, ok := ast.Unparen(se.X).(*ast.SelectorExpr)
		return ok && astx.FieldSel(info, rs) == ircstore
	}
	isApplyProto := func(fn *types.Func, _ *ast.CallExpr) bool { return isFunc(fn, "main", "(*FSM).applyProto") }
	n := 0
	for _, call := range callsIn(ap, isApplyProto) {
		n++
		v := g.VertexOf(call)
		ok := g.DominatedBy(v, func(x *cfgx.Vertex) bool { return containsCall(info, x, isStore) })
		r.Check(ok, "C02.N3", ap.Name(), "entry stored in the irclog before it is applied", c.P.Pos(call.Pos()), "fsm.ircstore.StoreLog*(…) dominates applyProto",
			"an entry can be applied without having been written to the irclog store first: it can never be folded into a snapshot (and is missing after a restore)")
	}
	r.Check(n > 0, "C02.N3", ap.Name(), "applies through applyProto", c.P.Pos(ap.Node().Pos()), "found", "Apply does not call applyProto")
	for _, sc := range callsIn(ap, isStore) {
		r.Check(c.errorEdgeFatal(ap, g, sc), "C02.N3", ap.Name(), "store error is fatal ("+astx.Str(sc.Fun)+")", c.P.Pos(sc.Pos()), "error edge never returns",
			"a failed write to the irclog store is ignored and the entry is applied anyway")
	}
	// only command entries, and the stored record is the entry being applied
	skip := false
	for _, rv := range g.Returns() {
		for _, f := range g.FactsAt(rv.ID) {
			if be, ok := ast.Unparen(f.Expr).(*ast.BinaryExpr); ok && f.Tag == nil && f.Val && be.Op == token.NEQ && refersTo(info, be.Y, pathRaft, "LogCommand") {
				skip = true
			}
		}
	}
	r.Check(skip, "C02.N3", ap.Name(), "raft-internal entries are skipped", c.P.Pos(ap.Node().Pos()), "early return on l.Type != raft.LogCommand", "Apply no longer skips non-command entries")
}

func (c *Ctx) c02Restore() {
	r := c.R
	rs := c.MustFunc("main.(*FSM).Restore")
	if rs == nil {
		return
	}
	info := rs.Info()
	g := c.Graph(rs)
	ircstore := c.P.Field("main", "FSM", "ircstore")
	isDecode := func(fn *types.Func, _ *ast.CallExpr) bool {
		return isFunc(fn, "main", "(*FSM).decodeProtobuf") || isFunc(fn, "main", "(*FSM).decodeJson")
	}
	type step struct {
		what string
		pred func(v *cfgx.Vertex) bool
		why  string
	}
	callNamed := func(pkg, nm string) func(v *cfgx.Vertex) bool {
		return func(v *cfgx.Vertex) bool {
			return containsCall(info, v, func(fn *types.Func, _ *ast.CallExpr) bool { return isFunc(fn, pkg, nm) })
		}
	}
	// a constructor is known by what it makes, not by its name: an exported function of the package whose first result is a
	// pointer to the type (NewOutputStream, a NewOutputStreamWithOptions next to it)
	ctorType := map[string]string{"NewLevelDBStore": "LevelDBStore", "NewIRCServer": "IRCServer", "NewOutputStream": "OutputStream"}
	callNamedExact := callNamed
	callNamed = func(pkg, nm string) func(v *cfgx.Vertex) bool {
		typ, isCtor := ctorType[nm]
		if !isCtor {
			return callNamedExact(pkg, nm)
		}
		return func(v *cfgx.Vertex) bool {
			return containsCall(info, v, func(fn *types.Func, _ *ast.CallExpr) bool {
				if fn.Pkg() == nil || load.ShortPkg(fn.Pkg().Path()) != pkg || !fn.Exported() {
					return false
				}
				sig := fn.Type().(*types.Signature)
				if sig.Recv() != nil || sig.Results().Len() == 0 {
					return false
				}
				pt, isPtr := sig.Results().At(0).Type().(*types.Pointer)
				if !isPtr {
					return false
				}
				n := astx.NamedOf(pt.Elem())
				return n != nil && n.Obj().Name() == typ && n.Obj().Pkg() == fn.Pkg()
			})
		}
	}
	assignsGlobalFrom := func(global string, pkg, nm string) func(v *cfgx.Vertex) bool {
		return func(v *cfgx.Vertex) bool {
			as, ok := v.Node.(*ast.AssignStmt)
			if !ok {
				return false
			}
			hit := false
			for _, l := range as.Lhs {
				if id, ok := l.(*ast.Ident); ok && id.Name == global {
					if vv, ok := astx.Obj(info, id).(*types.Var); ok && vv.Parent() == vv.Pkg().Scope() {
						hit = true
					}
				}
			}
			return hit && callNamed(pkg, nm)(v)
		}
	}
	steps := []step{
		{"old irclog store closed", func(v *cfgx.Vertex) bool {
			return containsCall(info, v, func(fn *types.Func, call *ast.CallExpr) bool {
				if !isFunc(fn, "raftstore", "(*LevelDBStore).Close") {
					return false
				}
				se, _ := ast.Unparen(call.Fun).(*ast.SelectorExpr)
				if se == nil {
					return false
				}
				r2, ok := ast.Unparen(se.X).(*ast.SelectorExpr)
				return ok && astx.FieldSel(info, r2) == ircstore
			})
		}, "the old log copy is not closed before being replaced"},
		{"old irclog directory removed", callNamed("os", "RemoveAll"), "the old log copy is not wiped: entries older than the snapshot survive the restore and are folded twice"},
		{"fresh irclog store created", assignsGlobalFrom("ircStore", "raftstore", "NewLevelDBStore"), "no fresh irclog store is created"},
		{"fsm.ircstore points at the fresh store", func(v *cfgx.Vertex) bool {
			as, ok := v.Node.(*ast.AssignStmt)
			if !ok || len(as.Lhs) != 1 {
				return false
			}
			f, _ := lhsField(info, as.Lhs[0])
			return f == ircstore
		}, "fsm.ircstore keeps pointing at the closed store"},
		{"fresh IRC server created", assignsGlobalFrom("ircServer", "ircserver", "NewIRCServer"), "the snapshot is loaded on top of the old server state instead of a fresh server"},
		{"fresh output stream created", assignsGlobalFrom("outputStream", "outputstream", "NewOutputStream"), "the output stream is not recreated: old output survives the restore"},
		{"new state published to the API", func(v *cfgx.Vertex) bool {
			// a deferred ReplaceState(ircServer, …) evaluates its arguments where the defer statement stands — before the
			// fresh objects exist — and publishes the OLD (closed) ones at the end: only a plain call counts, and only one
			// that comes after the three creations
			if _, isDefer := v.Node.(*ast.DeferStmt); isDefer {
				return false
			}
			for _, mk := range [][2]string{{"raftstore", "NewLevelDBStore"}, {"ircserver", "NewIRCServer"}, {"outputstream", "NewOutputStream"}} {
				mk := mk
				if !g.DominatedBy(v.ID, func(x *cfgx.Vertex) bool { return x.Node != nil && x.ID != v.ID && callNamed(mk[0], mk[1])(x) }) {
					return false
				}
			}
			for _, call := range astx.Calls(v.Node, false) {
				if se, ok := ast.Unparen(call.Fun).(*ast.SelectorExpr); ok && se.Sel.Name == "ReplaceState" {
					return true
				}
			}
			return false
		}, "the API keeps serving the replaced objects"},
	}
	decs := callsIn(rs, isDecode)
	r.Check(len(decs) >= 1, "C02.N4", rs.Name(), "decoders called", c.P.Pos(rs.Node().Pos()), "found", "Restore calls neither decodeProtobuf nor decodeJson")
	for _, dc := range decs {
		v := g.VertexOf(dc)
		for _, st := range steps {
			ok := g.DominatedBy(v, func(x *cfgx.Vertex) bool { return x.Node != nil && st.pred(x) })
			r.Check(ok, "C02.N4", rs.Name(), st.what+" before "+astx.Str(dc.Fun), c.P.Pos(dc.Pos()), "dominates the decode call", st.why)
		}
	}
	// decodeProtobuf: state record vs. other records
	dp := c.MustFunc("main.(*FSM).decodeProtobuf")
	if dp == nil {
		return
	}
	di := dp.Info()
	dg := c.Graph(dp)
	lss := c.P.Field("main", "FSM", "lastSnapshotState")
	typeField := c.P.Field("robust", "Message", "Type")
	isStateFact := func(f cfgx.Fact) (bool, bool) {
		if f.Tag != nil {
			return false, false
		}
		if isTypeEq(di, f.Expr, typeField, "State") {
			return true, f.Val
		}
		return false, false
	}
	inState := func(v int) (known bool, val bool) {
		for _, f := range dg.FactsAt(v) {
			if ok, val := isStateFact(f); ok {
				return true, val
			}
		}
		return false, false
	}
	isUnmarshal := func(fn *types.Func, _ *ast.CallExpr) bool { return isFunc(fn, "ircserver", "(*IRCServer).Unmarshal") }
	var stateHelpers []*load.FuncInfo
	isApplyProto := func(fn *types.Func, _ *ast.CallExpr) bool { return isFunc(fn, "main", "(*FSM).applyProto") }
	nU := 0
	// the state record may be handled by a helper of package main that is called under msg.Type == robust.State: the
	// helper's body is then judged like the inlined code, the call site supplies the State fact
	type loadSite struct {
		host *load.FuncInfo // function containing the Unmarshal call
		uc   *ast.CallExpr
		at   int // vertex in dp at which the State fact must hold
	}
	var loadSites []loadSite
	for _, uc := range callsIn(dp, isUnmarshal) {
		loadSites = append(loadSites, loadSite{dp, uc, dg.VertexOf(uc)})
	}
	for _, call := range astx.Calls(dp.Body(), true) {
		fn := astx.Callee(di, call)
		if fn == nil {
			continue
		}
		h := c.P.FuncOf(fn)
		if h == nil || h == dp || h.Body() == nil || load.ShortPkg(h.Pkg.PkgPath) != "main" {
			continue
		}
		for _, uc := range callsIn(h, isUnmarshal) {
			loadSites = append(loadSites, loadSite{h, uc, dg.VertexOf(call)})
			stateHelpers = append(stateHelpers, h)
		}
	}
	for _, ls := range loadSites {
		uc := ls.uc
		nU++
		known, val := inState(ls.at)
		okRecv := false
		if se, ok := ast.Unparen(uc.Fun).(*ast.SelectorExpr); ok {
			okRecv = mentionsGlobal(ls.host.Info(), se.X, "ircServer")
		}
		r.Check(known && val && okRecv, "C02.N4", dp.Name(), "state record loaded into the live server", c.P.Pos(uc.Pos()), "ircServer.Unmarshal under msg.Type == robust.State",
			"the state record is not loaded into the (fresh) live server")
		// filed under the returned index
		hg := c.Graph(ls.host)
		hdi := ls.host.Info()
		as, _ := hg.V[maxInt(hg.VertexOf(uc), 0)].Node.(*ast.AssignStmt)
		var idxObj types.Object
		if as != nil && len(as.Lhs) >= 1 {
			if id, ok := as.Lhs[0].(*ast.Ident); ok {
				idxObj = astx.Obj(hdi, id)
			}
		}
		filed := false
		di := hdi
		ast.Inspect(ls.host.Body(), func(n ast.Node) bool {
			if a2, ok := n.(*ast.AssignStmt); ok && len(a2.Lhs) == 1 {
				if ie, ok := ast.Unparen(a2.Lhs[0]).(*ast.IndexExpr); ok {
					if se, ok := ast.Unparen(ie.X).(*ast.SelectorExpr); ok && astx.FieldSel(di, se) == lss {
						if id, ok := ast.Unparen(ie.Index).(*ast.Ident); ok && idxObj != nil && astx.Obj(di, id) == idxObj {
							filed = true
						}
					}
				}
			}
			return true
		})
		r.Check(filed, "C02.N4", dp.Name(), "loaded state filed under the index Unmarshal returned", c.P.Pos(uc.Pos()), "lastSnapshotState[lastIncludedIndex] = state",
			"the restored state is not remembered under its last included index: the next snapshot has no base state")
	}
	r.Check(nU > 0, "C02.N4", dp.Name(), "state record handled", c.P.Pos(dp.Node().Pos()), "found", "decodeProtobuf never loads the state record")
	nA := 0
	for _, ac := range callsIn(dp, isApplyProto) {
		nA++
		v := dg.VertexOf(ac)
		known, val := inState(v)
		r.Check(known && !val, "C02.N4", dp.Name(), "ordinary records are applied, the state record is not", c.P.Pos(ac.Pos()), "applyProto on the false edge of msg.Type == robust.State",
			"applyProto is not restricted to non-state records")
		// and stored: a batch.Put dominates
		okPut := dg.DominatedBy(v, func(x *cfgx.Vertex) bool {
			if x.Node == nil {
				return false
			}
			for _, call := range astx.Calls(x.Node, false) {
				if fn := astx.Callee(di, call); fn != nil && fname(fn) == "Put" && fn.Pkg() != nil && fn.Pkg().Path() == pathLevelDB {
					k, _ := inState(x.ID)
					_ = k
					return true
				}
			}
			return false
		})
		r.Check(okPut, "C02.N4", dp.Name(), "ordinary records are written to the fresh irclog", c.P.Pos(ac.Pos()), "batch.Put dominates applyProto", "restored entries are applied but not written to the log copy: the next snapshot cannot fold them")
	}
	r.Check(nA > 0, "C02.N4", dp.Name(), "records applied", c.P.Pos(dp.Node().Pos()), "found", "decodeProtobuf never applies the retained entries")
	// the final batch is flushed on the success path
	isWB := func(fn *types.Func, _ *ast.CallExpr) bool {
		return isFunc(fn, "raftstore", "(*LevelDBStore).WriteBatch")
	}
	for _, rv := range dg.Returns() {
		rsn := rv.Node.(*ast.ReturnStmt)
		if len(rsn.Results) == 1 && isNilIdent(di, rsn.Results[0]) {
			ok := dg.DominatedBy(rv.ID, func(x *cfgx.Vertex) bool {
				if !containsCall(di, x, isWB) {
					return false
				}
				// the flush after the loop: not inside the for body
				inLoop := false
				ast.Inspect(dp.Body(), func(n ast.Node) bool {
					if fs, ok := n.(*ast.ForStmt); ok && x.Node != nil && fs.Body.Pos() <= x.Node.Pos() && x.Node.End() <= fs.Body.End() {
						inLoop = true
					}
					return true
				})
				return !inLoop
			})
			r.Check(ok, "C02.N4", dp.Name(), "last batch flushed before success", c.P.Pos(rsn.Pos()), "WriteBatch after the loop dominates return nil", "the remaining (<100) restored entries are never written to the log copy")
		}
	}
}

func (c *Ctx) c02Stream(snap *load.FuncInfo) {
	r := c.R
	ps := c.MustFunc("main.(*robustSnapshot).Persist")
	dp := c.MustFunc("main.(*FSM).decodeProtobuf")
	wl := c.MustFunc("main.writeLenPrefixed")
	if ps == nil || dp == nil || wl == nil {
		return
	}
	// the function that writes the protobuf stream: Persist itself, or the private function of the package it hands the sink
	// to (Persist kept as a wrapper that counts, times or picks the encoding)
	ps = c.delegate(ps, func(f *load.FuncInfo) bool {
		return len(callsIn(f, func(fn *types.Func, _ *ast.CallExpr) bool { return fn == wl.Obj })) > 0
	})
	pi, di, wi := ps.Info(), dp.Info(), wl.Info()
	endian := func(info *types.Info, body ast.Node, method string) (string, bool) {
		found := ""
		ast.Inspect(body, func(n ast.Node) bool {
			call, ok := n.(*ast.CallExpr)
			if !ok {
				return true
			}
			se, ok := ast.Unparen(call.Fun).(*ast.SelectorExpr)
			if !ok || se.Sel.Name != method {
				return true
			}
			if in, ok := ast.Unparen(se.X).(*ast.SelectorExpr); ok {
				if o := info.Uses[in.Sel]; o != nil && o.Pkg() != nil && o.Pkg().Path() == "encoding/binary" {
					found = o.Name()
				}
			}
			return true
		})
		return found, found != ""
	}
	we, ok1 := endian(wi, wl.Body(), "PutUint64")
	re, ok2 := endian(di, dp.Body(), "Uint64")
	r.Check(ok1 && ok2 && we == re, "C02.N5", dp.Name(), "length prefix byte order agrees", c.P.Pos(dp.Node().Pos()), "writer "+we+" / reader "+re,
		"writeLenPrefixed and decodeProtobuf use different byte orders for the record length ("+we+" vs "+re+")")
	arrLen := func(info *types.Info, body ast.Node) int64 {
		var n int64 = -1
		ast.Inspect(body, func(m ast.Node) bool {
			if vs, ok := m.(*ast.ValueSpec); ok {
				for _, nm := range vs.Names {
					if o := info.Defs[nm]; o != nil {
						if at, ok := o.Type().Underlying().(*types.Array); ok {
							if b, ok := at.Elem().Underlying().(*types.Basic); ok && b.Kind() == types.Byte && strings.Contains(strings.ToLower(nm.Name), "len") {
								n = at.Len()
							}
						}
					}
				}
			}
			return true
		})
		return n
	}
	wn, rn := arrLen(wi, wl.Body()), arrLen(di, dp.Body())
	r.Check(wn == 8 && rn == 8, "C02.N5", dp.Name(), "length prefix width agrees (8 bytes)", c.P.Pos(dp.Node().Pos()), "both use [8]byte", "the record length prefix does not have the same width on both sides")
	// the reader accepts every length the writer can produce: the value read from the prefix only sizes the buffer
	{
		nLen := 0
		var lenVars []types.Object
		ast.Inspect(dp.Body(), func(n ast.Node) bool {
			as, ok := n.(*ast.AssignStmt)
			if ok && len(as.Lhs) == 1 && len(as.Rhs) == 1 {
				if call := firstCall(as.Rhs[0]); call != nil {
					if se, ok := ast.Unparen(call.Fun).(*ast.SelectorExpr); ok && se.Sel.Name == "Uint64" {
						if in, ok := ast.Unparen(se.X).(*ast.SelectorExpr); ok {
							if o := di.Uses[in.Sel]; o != nil && o.Pkg() != nil && o.Pkg().Path() == "encoding/binary" {
								if id, ok := ast.Unparen(as.Lhs[0]).(*ast.Ident); ok {
									if o := astx.Obj(di, id); o != nil {
										if _, isBasic := o.Type().Underlying().(*types.Basic); isBasic {
											lenVars = append(lenVars, o)
										}
									}
								}
							}
						}
					}
				}
			}
			return true
		})
		bad := token.NoPos
		ast.Inspect(dp.Body(), func(n ast.Node) bool {
			be, ok := n.(*ast.BinaryExpr)
			if !ok {
				return true
			}
			switch be.Op {
			case token.LSS, token.GTR, token.LEQ, token.GEQ, token.EQL, token.NEQ:
			default:
				return true
			}
			for _, side := range []ast.Expr{be.X, be.Y} {
				ast.Inspect(side, func(m ast.Node) bool {
					if id, ok := m.(*ast.Ident); ok {
						for _, lv := range lenVars {
							if astx.Obj(di, id) == lv {
								bad = be.Pos()
							}
						}
					}
					if call, ok := m.(*ast.CallExpr); ok {
						if se, ok := ast.Unparen(call.Fun).(*ast.SelectorExpr); ok && se.Sel.Name == "Uint64" {
							bad = be.Pos()
						}
					}
					return true
				})
			}
			return true
		})
		for _, call := range astx.Calls(dp.Body(), false) {
			if se, ok := ast.Unparen(call.Fun).(*ast.SelectorExpr); ok && se.Sel.Name == "Uint64" {
				nLen++
			}
		}
		pos := dp.Node().Pos()
		if bad.IsValid() {
			pos = bad
		}
		r.Check(!bad.IsValid() && nLen > 0, "C02.N5", dp.Name(), "the record length read from the prefix is not tested against a limit", c.P.Pos(pos), "it only sizes the buffer; writeLenPrefixed writes records of any size",
			"decodeProtobuf rejects (or treats specially) records by their length while Persist writes records of any size: the state record of a large network exceeds any fixed limit, and Restore then refuses a snapshot its own process wrote — the node cannot restart and the compacted entries are lost to it")
	}
	// leading byte
	firstWriteOK := false
	pg := c.Graph(ps)
	for _, v := range pg.Nodes() {
		for _, call := range astx.Calls(v.Node, false) {
			se, ok := ast.Unparen(call.Fun).(*ast.SelectorExpr)
			if !ok || se.Sel.Name != "Write" || len(call.Args) != 1 {
				continue
			}
			if cl, ok := ast.Unparen(call.Args[0]).(*ast.CompositeLit); ok && len(cl.Elts) == 1 {
				if val, ok := astx.ConstInt(pi, cl.Elts[0]); ok && val == 'p' {
					// must precede every other sink write on the protobuf path
					firstWriteOK = true
					for _, v2 := range pg.Nodes() {
						if v2.ID == v.ID {
							continue
						}
						wr := containsCall(pi, v2, func(fn *types.Func, c2 *ast.CallExpr) bool { return fn == wl.Obj })
						if wr && !pg.DominatedBy(v2.ID, func(x *cfgx.Vertex) bool { return x.ID == v.ID }) {
							firstWriteOK = false
						}
					}
				}
			}
		}
	}
	r.Check(firstWriteOK, "C02.N5", ps.Name(), "stream starts with the 'p' marker", c.P.Pos(ps.Node().Pos()), "sink.Write([]byte{'p'}) dominates every record", "Persist does not start the protobuf stream with the 'p' marker Restore peeks for")
	readsMarker := false
	for _, call := range astx.Calls(dp.Body(), false) {
		if se, ok := ast.Unparen(call.Fun).(*ast.SelectorExpr); ok && se.Sel.Name == "ReadByte" {
			readsMarker = true
		}
	}
	r.Check(readsMarker, "C02.N5", dp.Name(), "reader discards the marker byte", c.P.Pos(dp.Node().Pos()), "b.ReadByte()", "decodeProtobuf does not skip the leading marker byte")
	// state record: type State, base64 std both ways
	b64 := func(info *types.Info, body ast.Node, method string) bool {
		ok := false
		ast.Inspect(body, func(n ast.Node) bool {
			if call, isC := n.(*ast.CallExpr); isC {
				if fn := astx.Callee(info, call); fn != nil && fn.Name() == method {
					if se, ok2 := ast.Unparen(call.Fun).(*ast.SelectorExpr); ok2 {
						if in, ok3 := ast.Unparen(se.X).(*ast.SelectorExpr); ok3 && in.Sel.Name == "StdEncoding" {
							ok = true
						}
					}
				}
			}
			return true
		})
		return ok
	}
	okState := false
	for _, cl := range compositeLitsOf(pi, ps.Body(), pathRobust, "Message") {
		if t := litField(cl, "Type"); t != nil && refersTo(pi, t, pathRobust, "State") {
			okState = true
		}
	}
	decodes := b64(di, dp.Body(), "DecodeString")
	if !decodes {
		// the state record may be decoded in a helper of package main called from the decoder
		for _, call := range astx.Calls(dp.Body(), true) {
			if fn := astx.Callee(di, call); fn != nil {
				if h := c.P.FuncOf(fn); h != nil && h != dp && h.Body() != nil && load.ShortPkg(h.Pkg.PkgPath) == "main" {
					if len(callsIn(h, func(f2 *types.Func, _ *ast.CallExpr) bool { return isFunc(f2, "ircserver", "(*IRCServer).Unmarshal") })) > 0 && b64(h.Info(), h.Body(), "DecodeString") {
						decodes = true
					}
				}
			}
		}
	}
	r.Check(okState && b64(pi, ps.Body(), "EncodeToString") && decodes, "C02.N5", ps.Name(), "state record encoding agrees", c.P.Pos(ps.Node().Pos()), "robust.State + base64.StdEncoding both ways",
		"Persist and decodeProtobuf disagree on how the state record is typed/encoded")
	// every entry the iterator yields is written to the sink: no path from the top of the copy loop's body back to the loop
	// header avoids writeLenPrefixed(sink, …) (a filter here drops entries that are neither in the folded state nor in the log)
	if wl != nil {
		ast.Inspect(ps.Body(), func(n ast.Node) bool {
			fs, ok := n.(*ast.ForStmt)
			if !ok || len(fs.Body.List) == 0 {
				return true
			}
			writes := false
			for _, call := range astx.Calls(fs.Body, false) {
				if fn := astx.Callee(pi, call); fn == wl.Obj {
					writes = true
				}
			}
			if !writes {
				return true
			}
			bodyStart := pg.VertexOf(fs.Body.List[0])
			isWrite := func(x int) bool {
				return containsCall(pi, pg.V[x], func(fn *types.Func, _ *ast.CallExpr) bool { return fn == wl.Obj })
			}
			skipped := false
			if bodyStart >= 0 && !isWrite(bodyStart) {
				avoid := pg.Reach(bodyStart, isWrite, nil)
				for _, v := range pg.V {
					for _, e := range v.Succ {
						if e.To == bodyStart && avoid[v.ID] {
							skipped = true
						}
					}
				}
			}
			r.Check(!skipped, "C02.N5", ps.Name(), "every retained entry is written to the snapshot", c.P.Pos(fs.Pos()), "no path through the copy loop avoids writeLenPrefixed",
				"Persist can skip entries of the retained range (a filter or `continue` in the copy loop): such an entry is in neither the folded state nor the restored log, its effect and its output are lost on every node that restores the snapshot")
			return true
		})
	}
	// retained range
	first := c.P.Field("main", "robustSnapshot", "firstIndex")
	last := c.P.Field("main", "robustSnapshot", "lastIndex")
	for _, call := range astx.Calls(ps.Body(), false) {
		fn := astx.Callee(pi, call)
		if fn == nil || !isFunc(fn, "raftstore", "(*LevelDBStore).GetBulkIterator") || len(call.Args) != 2 {
			continue
		}
		okR := mentionsField(pi, call.Args[0], first) && !mentionsField(pi, call.Args[0], last)
		be, isBE := ast.Unparen(call.Args[1]).(*ast.BinaryExpr)
		okL := false
		if isBE && be.Op == token.ADD && mentionsField(pi, be.X, last) {
			if v, ok := astx.ConstInt(pi, be.Y); ok && v == 1 {
				okL = true
			}
		}
		r.Check(okR && okL, "C02.N5", ps.Name(), "retained range is [firstIndex, lastIndex+1)", c.P.Pos(call.Pos()), "GetBulkIterator(s.firstIndex, s.lastIndex+1)",
			"Persist does not copy exactly the retained range [firstIndex, lastIndex] into the snapshot")
	}
	// Snapshot hands over first/last
	si := snap.Info()
	for _, cl := range compositeLitsOf(si, snap.Body(), load.ModPath, "robustSnapshot") {
		li := litField(cl, "lastIndex")
		okLast := false
		if li != nil {
			if d := uniqueDef(si, snap.Node(), li); d != nil {
				if call, ok := ast.Unparen(d).(*ast.CallExpr); ok {
					if fn := astx.Callee(si, call); fn != nil && fname(fn) == "LastIndex" {
						okLast = true
					}
				}
			}
		}
		r.Check(okLast, "C02.N5", snap.Name(), "snapshot covers up to the store's last index", c.P.Pos(cl.Pos()), "lastIndex: result of ircstore.LastIndex()", "the snapshot's lastIndex is not the store's LastIndex()")
		st := litField(cl, "store")
		r.Check(st != nil && mentionsField(si, st, c.P.Field("main", "FSM", "ircstore")), "C02.N5", snap.Name(), "snapshot reads the irclog store", c.P.Pos(cl.Pos()), "store: fsm.ircstore", "the snapshot does not read the retained entries from fsm.ircstore")
		sv := litField(cl, "state")
		okSt := false
		if sv != nil {
			if d := uniqueDef(si, snap.Node(), sv); d != nil {
				if call, ok := ast.Unparen(d).(*ast.CallExpr); ok {
					if fn := astx.Callee(si, call); fn != nil && isFunc(fn, "ircserver", "(*IRCServer).Marshal") {
						if se, ok := ast.Unparen(call.Fun).(*ast.SelectorExpr); ok && !mentionsGlobal(si, se.X, "ircServer") {
							okSt = true
						}
					}
				}
			}
		}
		r.Check(okSt, "C02.N5", snap.Name(), "snapshot state is the folded temporary server", c.P.Pos(cl.Pos()), "state: tmpServer.Marshal(...)", "the persisted state is not the serialization of the folded temporary server")
	}
}

// c02BaseState (N2c): the state the fold starts from is the newest filed state older than the first retained index.
func (c *Ctx) c02BaseState(snap *load.FuncInfo, lss *types.Var) {
	r := c.R
	info := snap.Info()
	g := c.Graph(snap)
	name := snap.Name()
	var firstObj types.Object
	for _, v := range g.Nodes() {
		if as, ok := v.Node.(*ast.AssignStmt); ok && len(as.Rhs) == 1 {
			if call, ok := ast.Unparen(as.Rhs[0]).(*ast.CallExpr); ok {
				if fn := astx.Callee(info, call); fn != nil && fname(fn) == "FirstIndex" {
					if id, ok := as.Lhs[0].(*ast.Ident); ok {
						firstObj = astx.Obj(info, id)
					}
				}
			}
		}
	}
	// the first index that selects the base state is the one the store reported: nothing else is assigned to the variable (an
	// "empty store" special case that sets it to 1 makes the look-up below find no state, and an empty server is filed as
	// the newest snapshot)
	if firstObj != nil {
		// where the selection compares a key with it
		selV := -1
		ast.Inspect(snap.Body(), func(n ast.Node) bool {
			be, ok := n.(*ast.BinaryExpr)
			if !ok || selV >= 0 {
				return true
			}
			isFirst := func(e ast.Expr) bool {
				id, ok := ast.Unparen(e).(*ast.Ident)
				return ok && astx.Obj(info, id) == firstObj
			}
			if (be.Op == token.LSS && isFirst(be.Y)) || (be.Op == token.GTR && isFirst(be.X)) {
				selV = g.VertexOf(be)
			}
			return true
		})
		for _, d := range defsOf(info, snap.Node(), firstObj) {
			if d == nil {
				continue
			}
			// only definitions that can reach the selection (the fold loop re-uses the variable afterwards)
			if dv := g.VertexOf(d); selV >= 0 && dv >= 0 && !g.Reach(dv, nil, nil)[selV] {
				continue
			}
			call, isCall := ast.Unparen(d).(*ast.CallExpr)
			fromStore := false
			if isCall {
				if fn := astx.Callee(info, call); fn != nil && fname(fn) == "FirstIndex" {
					fromStore = true
				}
			}
			r.Check(fromStore, "C02.N2", name, "the first retained index is what the store reports", c.P.Pos(d.Pos()), "defined by ircstore.FirstIndex() only",
				"the variable that selects the base state (key < first) is also assigned "+astx.Str(d)+": for that value the look-up finds an older state or none at all, the fold starts from the wrong base and the snapshot loses what was compacted before")
		}
	}
	for _, call := range callsIn(snap, func(fn *types.Func, _ *ast.CallExpr) bool { return isFunc(fn, "ircserver", "(*IRCServer).Unmarshal") }) {
		if len(call.Args) != 1 {
			continue
		}
		pos := c.P.Pos(call.Pos())
		arg := call.Args[0]
		if d := uniqueDef(info, snap.Node(), arg); d != nil {
			arg = d
		}
		ie, ok := ast.Unparen(arg).(*ast.IndexExpr)
		if !ok {
			r.Observe("C02.N2", name, "base state source", pos, "the base state is not read by indexing lastSnapshotState; selection shape not analysed")
			continue
		}
		se, ok := ast.Unparen(ie.X).(*ast.SelectorExpr)
		if !ok || astx.FieldSel(info, se) != lss {
			continue
		}
		kid, ok := ast.Unparen(ie.Index).(*ast.Ident)
		if !ok {
			continue // exact-key arithmetic is judged by the look-up rule above
		}
		kobj := astx.Obj(info, kid)
		// assignments to the selected key inside a range over lastSnapshotState
		nSel, okOlder, okNewest := 0, true, true
		for _, v := range g.Nodes() {
			as, ok := v.Node.(*ast.AssignStmt)
			if !ok {
				continue
			}
			hit := false
			for _, l := range as.Lhs {
				if id, ok := l.(*ast.Ident); ok && astx.Obj(info, id) == kobj && as.Tok != token.DEFINE {
					hit = true
				}
			}
			if !hit {
				continue
			}
			var rng *ast.RangeStmt
			ast.Inspect(snap.Body(), func(n ast.Node) bool {
				if rs, ok := n.(*ast.RangeStmt); ok && rs.Body.Pos() <= as.Pos() && as.End() <= rs.Body.End() {
					if s2, ok := ast.Unparen(rs.X).(*ast.SelectorExpr); ok && astx.FieldSel(info, s2) == lss {
						rng = rs
					}
				}
				return true
			})
			if rng == nil || rng.Key == nil {
				continue
			}
			nSel++
			keyVar := astx.Obj(info, rng.Key.(*ast.Ident))
			isKey := func(e ast.Expr) bool {
				id, ok := ast.Unparen(e).(*ast.Ident)
				return ok && astx.Obj(info, id) == keyVar
			}
			isFirst := func(e ast.Expr) bool {
				id, ok := ast.Unparen(e).(*ast.Ident)
				return ok && firstObj != nil && astx.Obj(info, id) == firstObj
			}
			isSel := func(e ast.Expr) bool { id, ok := ast.Unparen(e).(*ast.Ident); return ok && astx.Obj(info, id) == kobj }
			older, newest := false, false
			for _, cl := range c.clausesAt(snap, g, v.ID) {
				// unit clause key < first
				if len(cl) == 1 {
					if gtFact(cfgx.Fact{Expr: cl[0].E, Val: cl[0].Pos}, isFirst, isKey) == 1 {
						older = true
					}
				}
				// clause ⊆ {!found, key > selected}
				okAll := len(cl) > 0
				hasGt := false
				for _, l := range cl {
					if gtFact(cfgx.Fact{Expr: l.E, Val: l.Pos}, isKey, isSel) == 1 {
						hasGt = true
						continue
					}
					if _, isID := ast.Unparen(l.E).(*ast.Ident); isID && !l.Pos {
						continue // the not-yet-found flag
					}
					okAll = false
				}
				if okAll && hasGt {
					newest = true
				}
			}
			okOlder = okOlder && older
			okNewest = okNewest && newest
		}
		if nSel == 0 {
			r.Observe("C02.N2", name, "base state selection", pos, "no selection loop over lastSnapshotState found; selection shape not analysed")
			continue
		}
		r.Check(okOlder, "C02.N2", name, "base state is older than the first retained entry", pos, "selected under key < first (first = ircstore.FirstIndex())",
			"the state the fold starts from is not restricted to states older than the first retained entry: entries still in the log copy are folded on top of a state that already contains them")
		r.Check(okNewest, "C02.N2", name, "base state is the newest such state", pos, "selected under !found || key > selected",
			"the fold does not start from the newest earlier state: entries folded between two snapshots are lost")
	}
}

// c02SinkErrors (N5b): an error from the snapshot sink is propagated by Persist and its helpers.
func (c *Ctx) c02SinkErrors() {
	r := c.R
	n := 0
	for _, fi := range c.P.FuncsIn("main") {
		if fi.Body() == nil {
			continue
		}
		info := fi.Info()
		g := c.Graph(fi)
		// named results
		named := map[types.Object]bool{}
		if fi.FuncType().Results != nil {
			for _, fld := range fi.FuncType().Results.List {
				for _, nm := range fld.Names {
					named[info.Defs[nm]] = true
				}
			}
		}
		for _, call := range astx.Calls(fi.Body(), false) {
			se, ok := ast.Unparen(call.Fun).(*ast.SelectorExpr)
			isSinkWrite := ok && se.Sel.Name == "Write" && astx.IsNamed(info.TypeOf(se.X), pathRaft, "SnapshotSink")
			fn := astx.Callee(info, call)
			isHelper := fn != nil && isFunc(fn, "main", "writeLenPrefixed")
			if !isSinkWrite && !isHelper {
				continue
			}
			n++
			pos := c.P.Pos(call.Pos())
			v := g.VertexOf(call)
			as, isAs := g.V[v].Node.(*ast.AssignStmt)
			var errObj types.Object
			if isAs && len(as.Lhs) == 2 {
				if id, ok := as.Lhs[1].(*ast.Ident); ok && id.Name != "_" {
					errObj = astx.Obj(info, id)
				}
			}
			if errObj == nil {
				r.Fail("C02.N5", fi.Name(), "error of "+astx.Str(call.Fun)+" is kept", pos, "the error of a write to the snapshot sink is discarded: a failed snapshot write is reported as success and raft keeps a truncated snapshot")
				continue
			}
			// on the paths on which the error may be set the function ends with that error (returned — also after it was copied
			// into another error variable or wrapped — or fatal); no normal continuation, no return of a different/nil error
			bad := ""
			ok, _ = c.errDecisive(info, g, v, errObj)
			if !ok {
				bad = "a path on which the error may be set reaches the end of the function, or overwrites the error, without returning it"
			}
			r.Check(ok && bad == "", "C02.N5", fi.Name(), "error of "+astx.Str(call.Fun)+" is propagated", pos, "err != nil edge returns that error",
				"a failed write to the snapshot sink is not propagated ("+bad+"): Persist reports success, raft closes instead of cancelling the sink and a truncated snapshot becomes the latest one")
		}
	}
	r.Check(n >= 4, "C02.N5", "main", "snapshot sink writes found", "-", itoa(n), "fewer sink writes than expected")
}

// c02NoLiveGlobals: applyRobustMessage works on the server/output it is given; it is also the fold.
func (c *Ctx) c02NoLiveGlobals(arm *load.FuncInfo) {
	r := c.R
	info := arm.Info()
	bad := 0
	ast.Inspect(arm.Body(), func(n ast.Node) bool {
		id, ok := n.(*ast.Ident)
		if !ok {
			return true
		}
		if v, ok := info.Uses[id].(*types.Var); ok && v.Parent() == v.Pkg().Scope() {
			switch v.Name() {
			case "ircServer", "outputStream", "ircStore":
				bad++
				r.Fail("C02.N1", arm.Name(), "uses live global "+v.Name(), c.P.Pos(id.Pos()),
					"applyRobustMessage touches the live "+v.Name()+" instead of the instance it was given: when it is used as the fold during compaction the effect lands on the live state and is missing from the snapshot state")
			}
		}
		return true
	})
	if bad == 0 {
		r.Ok("C02.N1", arm.Name(), "works only on the server and output it is given", c.P.Pos(arm.Node().Pos()), "no reference to ircServer/outputStream/ircStore")
	}
}
