package rules

import (
	"go/ast"
	"go/token"
	"go/types"
	"strings"

	"verif/checker/internal/astx"
	"verif/checker/internal/cfgx"
	"verif/checker/internal/load"
)

func init() { register("C14", c14) }

// mapWrite describes one insertion into / deletion from a state map.
type mapWrite struct {
	fi     *load.FuncInfo
	node   ast.Node // the statement
	field  *types.Var
	recv   ast.Expr // expression whose field is the map (c in c.nicks)
	key    ast.Expr
	val    ast.Expr // nil for delete
	delete bool
}

// stateMapWrites enumerates index assignments and delete() calls on the given map fields in package ircserver.
func (c *Ctx) stateMapWrites(fields ...*types.Var) []mapWrite {
	want := map[*types.Var]bool{}
	for _, f := range fields {
		want[f] = true
	}
	var out []mapWrite
	for _, fi := range c.P.FuncsIn("ircserver") {
		if fi.Body() == nil {
			continue
		}
		info := fi.Info()
		ast.Inspect(fi.Body(), func(n ast.Node) bool {
			switch x := n.(type) {
			case *ast.AssignStmt:
				for i, l := range x.Lhs {
					ie, ok := ast.Unparen(l).(*ast.IndexExpr)
					if !ok {
						continue
					}
					se, ok := ast.Unparen(ie.X).(*ast.SelectorExpr)
					if !ok {
						continue
					}
					if f := astx.FieldSel(info, se); f != nil && want[f] {
						var val ast.Expr
						if len(x.Rhs) == len(x.Lhs) {
							val = x.Rhs[i]
						}
						out = append(out, mapWrite{fi: fi, node: x, field: f, recv: se.X, key: astx.Expand(fi.Info(), ie.Index), val: val})
					}
				}
			case *ast.IncDecStmt:
				// m[k]++ assigns into the map as well
				if ie, ok := ast.Unparen(x.X).(*ast.IndexExpr); ok {
					if se, ok := ast.Unparen(ie.X).(*ast.SelectorExpr); ok {
						if f := astx.FieldSel(info, se); f != nil && want[f] {
							out = append(out, mapWrite{fi: fi, node: x, field: f, recv: se.X, key: astx.Expand(fi.Info(), ie.Index)})
						}
					}
				}
			case *ast.ExprStmt:
				call, ok := x.X.(*ast.CallExpr)
				if !ok || astx.Builtin(info, call) != "delete" || len(call.Args) != 2 {
					return true
				}
				se, ok := ast.Unparen(call.Args[0]).(*ast.SelectorExpr)
				if !ok {
					return true
				}
				if f := astx.FieldSel(info, se); f != nil && want[f] {
					out = append(out, mapWrite{fi: fi, node: x, field: f, recv: se.X, key: astx.Expand(fi.Info(), call.Args[1]), delete: true})
				}
			}
			return true
		})
	}
	return out
}

func c14(c *Ctx) {
	r := c.R
	f := c.irc()
	if len(r.Broken) > 0 {
		return
	}
	r.Explanation = "Partial (the inductive step of the state invariants): every function that changes one side of a two-sided relation changes the other side on every path before it returns. (M1) channel membership: an insertion into channel.nicks is followed by the session's Channels entry, a removal by the Channels removal and maybeDeleteChannelLocked; a created channel always receives a member; a channel is dropped only when empty; (M2) the nickname index: assigning Session.Nick is followed by the index insertion, the old key is removed only when it differs from the new one, together with the rename loop over all channels and updateIrcPrefix; (M4) insertions into the indexes are dominated by validity and not-in-use tests; (M5) sessions and channels are created only after the configured limit was compared; (M6) explicit lcNick/lcChan conversions only wrap values that came out of the same map. The same rules are applied to every sibling implementation (client and services variants), which is the sibling-agreement check. Invariants that depend on values and SVS* commands onto occupied targets are not decided."
	r.Rules = []string{"C14.M1 membership is two-sided", "C14.M2 nick index is two-sided", "C14.M4 validity and uniqueness at the door", "C14.M5 limits at the door", "C14.M6 key types"}

	dsl := c.P.Func("ircserver.(*IRCServer).deleteSessionLocked")
	unm := c.P.Func("ircserver.(*IRCServer).Unmarshal")
	mdc := c.P.Func("ircserver.(*IRCServer).maybeDeleteChannelLocked")
	if dsl == nil || unm == nil || mdc == nil {
		r.Break("C14 anchors missing (deleteSessionLocked / Unmarshal / maybeDeleteChannelLocked)")
		return
	}

	isStmt := func(v *cfgx.Vertex, pred func(n ast.Node) bool) bool { return v.Node != nil && pred(v.Node) }

	// ---------- M1 (snapshot loader): the member map is built in a local and stored into the channel literal
	if unm != nil && unm.Body() != nil {
		info := unm.Info()
		locals := map[types.Object]bool{}
		ast.Inspect(unm.Body(), func(n ast.Node) bool {
			kv, ok := n.(*ast.KeyValueExpr)
			if !ok {
				return true
			}
			if kid, ok := kv.Key.(*ast.Ident); ok {
				if fv, ok := info.Uses[kid].(*types.Var); ok && fv == f.fCNicks {
					if vid, ok := ast.Unparen(kv.Value).(*ast.Ident); ok {
						locals[astx.Obj(info, vid)] = true
					}
				}
			}
			return true
		})
		nIns := 0
		ast.Inspect(unm.Body(), func(n ast.Node) bool {
			as, ok := n.(*ast.AssignStmt)
			if !ok || len(as.Lhs) != 1 || len(as.Rhs) != 1 {
				return true
			}
			ie, ok := ast.Unparen(as.Lhs[0]).(*ast.IndexExpr)
			if !ok {
				return true
			}
			bid, ok := ast.Unparen(ie.X).(*ast.Ident)
			if !ok || !locals[astx.Obj(info, bid)] {
				return true
			}
			nIns++
			okFresh := false
			if u, ok := ast.Unparen(as.Rhs[0]).(*ast.UnaryExpr); ok && u.Op == token.AND {
				switch x := ast.Unparen(u.X).(type) {
				case *ast.CompositeLit:
					okFresh = true
				case *ast.Ident:
					o := astx.Obj(info, x)
					var inner ast.Node
					ast.Inspect(unm.Body(), func(m ast.Node) bool {
						switch l := m.(type) {
						case *ast.RangeStmt:
							if l.Body.Pos() <= as.Pos() && as.End() <= l.Body.End() {
								inner = l.Body
							}
						case *ast.ForStmt:
							if l.Body.Pos() <= as.Pos() && as.End() <= l.Body.End() {
								inner = l.Body
							}
						}
						return true
					})
					okFresh = o != nil && inner != nil && inner.Pos() <= o.Pos() && o.Pos() <= inner.End()
				}
			} else if call, ok := ast.Unparen(as.Rhs[0]).(*ast.CallExpr); ok && astx.Builtin(info, call) == "new" {
				okFresh = true
			}
			r.Check(okFresh, "C14.M1", unm.Name(), "restored member entry "+astx.Str(ie.Index)+" is a fresh status array", c.P.Pos(as.Pos()), "&<array declared in the member loop>",
				"the snapshot loader gives several members of a channel the same status array (declared outside the member loop): after a restore every member of a channel with an operator is an operator, and +o/-o on one changes all")
			return true
		})
		r.Check(nIns >= 1, "C14.M1", unm.Name(), "restored member entries found (fresh status array)", c.P.Pos(unm.Node().Pos()), itoa(nIns), "the snapshot loader no longer builds the member map in a local stored as channel.nicks: shape not recognised")
	}
	// ---------- M1
	for _, w := range c.stateMapWrites(f.fCNicks) {
		fi := w.fi
		if fi == unm {
			// the snapshot loader: every member gets its own status array (allocated in the iteration that inserts it)
			if w.delete || w.val == nil {
				continue
			}
			info := fi.Info()
			okFresh := false
			if u, ok := ast.Unparen(w.val).(*ast.UnaryExpr); ok && u.Op == token.AND {
				switch x := ast.Unparen(u.X).(type) {
				case *ast.CompositeLit:
					okFresh = true
				case *ast.Ident:
					// &local: the local must be declared inside the innermost loop around the insert
					o := astx.Obj(info, x)
					var loops []ast.Node
					ast.Inspect(fi.Body(), func(n ast.Node) bool {
						switch l := n.(type) {
						case *ast.RangeStmt:
							if l.Body.Pos() <= w.node.Pos() && w.node.End() <= l.Body.End() {
								loops = append(loops, l.Body)
							}
						case *ast.ForStmt:
							if l.Body.Pos() <= w.node.Pos() && w.node.End() <= l.Body.End() {
								loops = append(loops, l.Body)
							}
						}
						return true
					})
					if o != nil && len(loops) > 0 {
						inner := loops[len(loops)-1]
						okFresh = inner.Pos() <= o.Pos() && o.Pos() <= inner.End()
					}
				}
			} else if call, ok := ast.Unparen(w.val).(*ast.CallExpr); ok && astx.Builtin(info, call) == "new" {
				okFresh = true
			}
			r.Check(okFresh, "C14.M1", fi.Name(), "restored member entry "+astx.Str(w.key)+" is a fresh status array", c.P.Pos(w.node.Pos()), "&<array declared in the member loop>",
				"the snapshot loader gives several members of a channel the same status array (declared outside the member loop): after a restore every member of a channel with an operator is an operator, and +o/-o on one changes all")
			continue
		}
		info := fi.Info()
		g := c.Graph(fi)
		v := g.VertexOf(w.node)
		pos := c.P.Pos(w.node.Pos())
		gc := &gateCtx{c: c, f: f, fi: fi, info: info, s: f.sessionParam(fi)}
		name := fi.Name()
		// ownerOK: the session expression whose Channels set is changed owns the member key w.key:
		// key is NickToLower(X.Nick) with X that session, or X was looked up in i.nicks under the very same key
		// (or under NickToLower(E) with key = NickToLower(E)).
		ownerOK := func(sess ast.Expr) bool {
			key := w.key
			if d := uniqueDef(info, fi.Node(), key); d != nil {
				key = d
			}
			if call, ok := ast.Unparen(key).(*ast.CallExpr); ok && len(call.Args) == 1 {
				if se, ok := ast.Unparen(call.Args[0]).(*ast.SelectorExpr); ok && se.Sel.Name == "Nick" && astx.Same(info, se.X, sess) {
					return true
				}
			}
			id, ok := ast.Unparen(sess).(*ast.Ident)
			if !ok {
				return false
			}
			for _, d := range defsOf(info, fi.Node(), astx.Obj(info, id)) {
				ie, ok := ast.Unparen(d).(*ast.IndexExpr)
				if d == nil || !ok {
					continue
				}
				se, ok := ast.Unparen(ie.X).(*ast.SelectorExpr)
				if !ok || astx.FieldSel(info, se) != f.fNicks {
					continue
				}
				k2 := ie.Index
				if d2 := uniqueDef(info, fi.Node(), k2); d2 != nil {
					k2 = d2
				}
				if astx.Same(info, ie.Index, w.key) || astx.Same(info, k2, key) {
					return true
				}
			}
			return false
		}
		isChannelsWrite := func(del bool) func(x *cfgx.Vertex) bool {
			return func(x *cfgx.Vertex) bool {
				return isStmt(x, func(n ast.Node) bool {
					for _, w2 := range c.mapWritesIn(fi, n, f.fSChannels) {
						if w2.delete == del && !ownerOK(w2.recv) {
							continue
						}
						if w2.delete == del {
							// same channel: key equals the key under which the channel was looked up / created
							if k := gc.chanKey(w.recv); k == nil || astx.Same(info, w2.key, k) {
								return true
							}
						}
					}
					return false
				})
			}
		}
		if w.delete {
			if fi == dsl {
				r.Ok("C14.M1", name, "member removal in the session-ending sweep", pos, "deleteSessionLocked marks the session deleted; Channels dies with the session (C17.Y4)")
				continue
			}
			if isRenameDelete(gc, fi, w.node.(*ast.ExprStmt).X.(*ast.CallExpr)) {
				// second half of a rename: insert under the new key in the same loop body, guarded by presence of the old key
				okIns := false
				ast.Inspect(fi.Body(), func(n ast.Node) bool {
					if as, ok := n.(*ast.AssignStmt); ok && isRenameInsert(gc, as) {
						okIns = true
					}
					return true
				})
				r.Check(okIns, "C14.M1", name, "rename of a member key", pos, "insert under the new key (value looked up under the old key) + delete of the old key", "a member entry is deleted during a nick change without being re-inserted under the new key")
				continue
			}
			// the two removals may come in either order (nothing reads the sets in between): on every path through this
			// one, the other is executed before or after it
			okCh := g.PostDominatedBy(v, g.Exit, isChannelsWrite(true)) || g.DominatedBy(v, isChannelsWrite(true))
			okMaybe := g.PostDominatedBy(v, g.Exit, func(x *cfgx.Vertex) bool {
				return containsCall(info, x, func(fn *types.Func, call *ast.CallExpr) bool {
					return fn == mdc.Obj && len(call.Args) == 1 && astx.Same(info, call.Args[0], w.recv)
				})
			})
			r.Check(okCh, "C14.M1", name, "member removal "+astx.Str(w.key)+" paired with Channels removal", pos, "delete(session.Channels, <same channel>) on every path to the return",
				"the session removed from the channel's member list does not drop the channel from its own Channels set (missing, or done on a different session): it keeps listing a channel that does not list it and keeps receiving its NICK/QUIT traffic")
			r.Check(okMaybe, "C14.M1", name, "member removal "+astx.Str(w.key)+" followed by maybeDeleteChannelLocked", pos, "maybeDeleteChannelLocked(<same channel>) on every path to the return",
				"after removing a member the channel is not dropped when it became empty: a channel without members stays around")
			continue
		}
		// insertion
		if as, ok := w.node.(*ast.AssignStmt); ok && isRenameInsert(gc, as) {
			continue
		}
		if _, inner := ast.Unparen(w.recv).(*ast.IndexExpr); inner {
			continue
		}
		okCh := g.PostDominatedBy(v, g.Exit, isChannelsWrite(false)) || g.DominatedBy(v, isChannelsWrite(false))
		r.Check(okCh, "C14.M1", name, "member insert "+astx.Str(w.key)+" paired with Channels insert", pos, "session.Channels[<same channel>] = true on every path to the return",
			"the session added to the channel's member list does not get the channel in its own Channels set (missing, or done on a different session)")
		// the value is a fresh, non-nil status entry
		okVal := false
		val := w.val
		// … possibly through a local that is defined once, right there, in the same block as the insert (so: once per
		// insert) — `perms := &[…]bool{}; c.nicks[nick] = perms`
		if id, isID := ast.Unparen(val).(*ast.Ident); val != nil && isID {
			if d := uniqueDef(info, fi.Node(), id); d != nil {
				if o := astx.Obj(info, id); o != nil {
					// the innermost block around the insert declares the local: one definition per execution of the insert
					var innermost *ast.BlockStmt
					ast.Inspect(fi.Body(), func(n ast.Node) bool {
						if b, ok := n.(*ast.BlockStmt); ok && b.Pos() <= w.node.Pos() && w.node.End() <= b.End() {
							innermost = b
						}
						return true
					})
					sameBlock := innermost != nil && innermost.Pos() <= o.Pos() && o.Pos() <= innermost.End()
					if sameBlock {
						val = d
					}
				}
			}
		}
		if u, ok := ast.Unparen(val).(*ast.UnaryExpr); val != nil && ok && u.Op == token.AND {
			if _, ok := ast.Unparen(u.X).(*ast.CompositeLit); ok {
				okVal = true
			}
		}
		r.Check(okVal, "C14.M1", name, "member entry "+astx.Str(w.key)+" is a fresh status array", pos, "&[maxChanMemberStatus]bool{}", "a member entry is inserted that is not a freshly allocated status array (nil or shared entries break operator status)")
	}
	// the reverse direction: Channels writes are paired with member writes
	for _, w := range c.stateMapWrites(f.fSChannels) {
		fi := w.fi
		if fi == unm {
			continue
		}
		// a local Session value (struct copy with freshly allocated maps, e.g. GetSessions) is not state
		if id, ok := ast.Unparen(w.recv).(*ast.Ident); ok {
			if v, ok := astx.Obj(fi.Info(), id).(*types.Var); ok {
				if _, isStruct := v.Type().Underlying().(*types.Struct); isStruct {
					continue
				}
			}
		}
		info := fi.Info()
		g := c.Graph(fi)
		v := g.VertexOf(w.node)
		memberWrite := func(x *cfgx.Vertex) bool {
			return isStmt(x, func(n ast.Node) bool {
				for _, w2 := range c.mapWritesIn(fi, n, f.fCNicks) {
					if w2.delete == w.delete {
						return true
					}
				}
				return false
			})
		}
		ok := g.DominatedBy(v, memberWrite) || g.PostDominatedBy(v, g.Exit, memberWrite)
		what := "Channels insert"
		if w.delete {
			what = "Channels removal"
		}
		r.Check(ok, "C14.M1", fi.Name(), what+" "+astx.Str(w.key)+" paired with the member list", c.P.Pos(w.node.Pos()), "the matching write to channel.nicks on every path through it (before or after)",
			"a session's Channels set is changed without the matching change of the channel's member list")
		_ = info
	}
	// channel creation / removal
	for _, w := range c.stateMapWrites(f.fChannels) {
		fi := w.fi
		if fi == unm {
			continue
		}
		info := fi.Info()
		g := c.Graph(fi)
		v := g.VertexOf(w.node)
		pos := c.P.Pos(w.node.Pos())
		if w.delete {
			ok := false
			for _, fct := range g.FactsAt(v) {
				if be, isBE := ast.Unparen(fct.Expr).(*ast.BinaryExpr); isBE && fct.Tag == nil {
					if call, isCall := ast.Unparen(be.X).(*ast.CallExpr); isCall && astx.Builtin(info, call) == "len" {
						if se, isSel := ast.Unparen(call.Args[0]).(*ast.SelectorExpr); isSel && astx.FieldSel(info, se) == f.fCNicks {
							z, _ := astx.ConstInt(info, be.Y)
							if (be.Op == token.GTR && !fct.Val && z == 0) || (be.Op == token.EQL && fct.Val && z == 0) {
								ok = true
							}
						}
					}
				}
			}
			r.Check(ok, "C14.M1", fi.Name(), "channel dropped only when empty", pos, "dominated by len(c.nicks) == 0", "a channel is removed while it still has members: they keep listing a channel that no longer exists")
			// invitations for the dropped channel are cleared
			okInv := g.PostDominatedBy(v, g.Exit, func(x *cfgx.Vertex) bool {
				if x.Node == nil {
					return false
				}
				hit := false
				ast.Inspect(x.Node, func(n ast.Node) bool {
					if call, ok := n.(*ast.CallExpr); ok && astx.Builtin(info, call) == "delete" && len(call.Args) == 2 {
						if se, ok := ast.Unparen(call.Args[0]).(*ast.SelectorExpr); ok && astx.FieldSel(info, se) == f.fSInvited {
							hit = true
						}
					}
					return !hit
				})
				return hit
			}) || c.loopDeletes(fi, w.node, f.fSInvited)
			r.Check(okInv, "C14.M1", fi.Name(), "invitations to a dropped channel are cleared", pos, "delete(s.invitedTo, lc) for every session", "invitations survive the channel they were for: a re-created channel of the same name inherits them")
			continue
		}
		// creation: followed by a member insert for this channel (skip edges are only the member-already-present edges)
		ok := !g.Reach(v, func(x int) bool {
			n := g.V[x].Node
			if n == nil || x == v {
				return false
			}
			for _, w2 := range c.mapWritesIn(fi, n, f.fCNicks) {
				if !w2.delete {
					return true
				}
			}
			return false
		}, func(e *cfgx.Edge) bool {
			// infeasible for a fresh channel: "already a member" edges
			if e.Cond == nil || !e.Val {
				return false
			}
			id, isID := ast.Unparen(e.Cond).(*ast.Ident)
			if !isID {
				return false
			}
			for _, d := range defsOf(info, fi.Node(), astx.Obj(info, id)) {
				if ie, ok := ast.Unparen(d).(*ast.IndexExpr); d != nil && ok {
					if se, ok := ast.Unparen(ie.X).(*ast.SelectorExpr); ok && astx.FieldSel(info, se) == f.fCNicks {
						return true
					}
				}
			}
			return false
		})[g.Exit]
		r.Check(ok, "C14.M1", fi.Name(), "created channel "+astx.Str(w.key)+" receives a member", pos, "a member insert on every path to the return", "a channel can be created and left without any member")
	}
	r.Floor("C14.M1", 25)

	// ---------- M2 / M4 nickname index
	nickField := c.P.Field("ircserver", "Session", "Nick")
	upd := c.P.Func("ircserver.(*Session).updateIrcPrefix")
	exemptInUse := map[string]string{
		"ircserver.(*IRCServer).cmdServerSvsnick": "the property's quantifier restricts SVSNICK to free nicknames",
	}
	exemptValid := map[string]string{
		"ircserver.(*IRCServer).cmdServerNick": "services introduce their own clients (protocol-conforming input is assumed for services links)",
	}
	for _, fi := range c.P.FuncsIn("ircserver") {
		if fi.Body() == nil || fi == unm {
			continue
		}
		info := fi.Info()
		var nickAssigns []*ast.AssignStmt
		ast.Inspect(fi.Body(), func(n ast.Node) bool {
			if as, ok := n.(*ast.AssignStmt); ok && len(as.Lhs) == 1 {
				if se, ok := ast.Unparen(as.Lhs[0]).(*ast.SelectorExpr); ok && astx.FieldSel(info, se) == nickField {
					nickAssigns = append(nickAssigns, as)
				}
			}
			return true
		})
		if len(nickAssigns) == 0 {
			continue
		}
		r.Functions++
		g := c.Graph(fi)
		name := fi.Name()
		for _, as := range nickAssigns {
			v := g.VertexOf(as)
			pos := c.P.Pos(as.Pos())
			sess := ast.Unparen(as.Lhs[0]).(*ast.SelectorExpr).X
			newNick := as.Rhs[0]
			// index insertion under lc(new nick) of the same session
			var insV = -1
			var insKey ast.Expr
			okIns := g.PostDominatedBy(v, g.Exit, func(x *cfgx.Vertex) bool {
				if x.Node == nil {
					return false
				}
				for _, w := range c.mapWritesIn(fi, x.Node, f.fNicks) {
					if !w.delete && w.val != nil && astx.Same(info, w.val, sess) {
						if call, ok := ast.Unparen(w.key).(*ast.CallExpr); ok && len(call.Args) == 1 {
							if fn := astx.Callee(info, call); fn != nil && fname(fn) == "NickToLower" && (astx.Same(info, call.Args[0], as.Lhs[0]) || astx.Same(info, call.Args[0], newNick)) {
								insV, insKey = x.ID, w.key
								return true
							}
						}
					}
				}
				return false
			})
			r.Check(okIns, "C14.M2", name, "assigning "+astx.Str(as.Lhs[0])+" is followed by the index insertion", pos, "i.nicks[NickToLower(new)] = session on every path to the return",
				"a session's nickname changes without the nickname index pointing at it under the new name: the session is unreachable by its current nickname")
			okUpd := upd != nil && g.PostDominatedBy(v, g.Exit, func(x *cfgx.Vertex) bool {
				return containsCall(info, x, func(fn *types.Func, call *ast.CallExpr) bool {
					if fn != upd.Obj {
						return false
					}
					se, ok := ast.Unparen(call.Fun).(*ast.SelectorExpr)
					return ok && astx.Same(info, se.X, sess)
				})
			})
			r.Check(okUpd, "C14.M2", name, "assigning "+astx.Str(as.Lhs[0])+" is followed by updateIrcPrefix", pos, "session.updateIrcPrefix() on every path to the return",
				"the cached prefix is not refreshed after a nickname change: relayed lines carry the old nickname")
			// where the old key is captured (old := NickToLower(<session>.Nick) before the assignment) there can be an old entry:
			// it must be removed somewhere behind the assignment
			{
				capturesOld := false
				for _, x := range g.Nodes() {
					if x.ID == v || !g.DominatedBy(v, func(y *cfgx.Vertex) bool { return y.ID == x.ID }) {
						continue
					}
					for _, call := range astx.Calls(x.Node, false) {
						if fn := astx.Callee(info, call); fn != nil && fname(fn) == "NickToLower" && len(call.Args) == 1 && astx.Same(info, call.Args[0], as.Lhs[0]) {
							capturesOld = true
						}
					}
				}
				if capturesOld {
					nDel := 0
					for _, w := range c.mapWritesIn(fi, fi.Body(), f.fNicks) {
						if w.delete && g.DominatedBy(g.VertexOf(w.node), func(x *cfgx.Vertex) bool { return x.ID == v }) {
							nDel++
						}
					}
					r.Check(nDel >= 1, "C14.M2", name, "the old index entry is removed after a nickname change", pos, "delete(i.nicks, <old key>) behind the assignment",
						"a session that already had a nickname gets a new one and the index keeps the old entry as well: the old nickname stays taken for ever and private messages to it reach this session")
				}
			}
			// old key removal (only when there can be an old key: the nick had a value before)
			for _, w := range c.mapWritesIn(fi, fi.Body(), f.fNicks) {
				if !w.delete {
					continue
				}
				dv := g.VertexOf(w.node)
				if !g.DominatedBy(dv, func(x *cfgx.Vertex) bool { return x.ID == v }) {
					continue
				}
				// the deleted key was captured before the assignment
				okOld := false
				if d := uniqueDef(info, fi.Node(), w.key); d != nil {
					dvv := g.VertexOf(d)
					if dvv >= 0 && g.DominatedBy(v, func(x *cfgx.Vertex) bool { return x.ID == dvv }) {
						okOld = true
					}
				}
				// … or the key does not depend on the nickname field at all: it is computed from the incoming line (a stable
				// alias of NickToLower(msg.Params[i]) reads the same whenever it is evaluated)
				if !okOld {
					if ex := astx.Expand(info, w.key); ex != nil {
						dependsOnNick := false
						ast.Inspect(ex, func(m ast.Node) bool {
							switch y := m.(type) {
							case *ast.SelectorExpr:
								if fv := astx.FieldSel(info, y); fv != nil && fv.Pkg() != nil && strings.HasPrefix(fv.Pkg().Path(), load.ModPath) {
									dependsOnNick = true // any field of the module's own state
								}
							case *ast.Ident:
								if o := astx.Obj(info, y); o != nil {
									if vv, isVar := o.(*types.Var); isVar && !vv.IsField() && o.Pos() >= fi.Body().Pos() {
										if _, isAlias := astx.Alias[o]; !isAlias {
											dependsOnNick = true // a local that is not a stable alias
										}
									}
								}
							}
							return true
						})
						if _, isCall := ex.(*ast.CallExpr); isCall && !dependsOnNick {
							okOld = true
						}
					}
				}
				r.Check(okOld, "C14.M2", name, "old index key captured before the nickname is overwritten", c.P.Pos(w.node.Pos()), "old := NickToLower(<old nick>) before the assignment",
					"the key removed from the nickname index is computed after the nickname was overwritten: the new entry is removed")
				// guard: keys differ
				cl := c.clausesAt(fi, g, dv)
				okGuard := implied(cl, func(l lit) bool {
					// literal "old != new"
					if be, ok := ast.Unparen(l.E).(*ast.BinaryExpr); ok {
						ne := (be.Op == token.NEQ && l.Pos) || (be.Op == token.EQL && !l.Pos)
						if ne && insKey != nil && ((astx.Same(info, be.X, w.key) && astx.Same(info, be.Y, insKey)) || (astx.Same(info, be.Y, w.key) && astx.Same(info, be.X, insKey))) {
							return true
						}
					}
					// negative literal of a flag defined as NickToLower(a) == NickToLower(b)
					if id, ok := ast.Unparen(l.E).(*ast.Ident); ok && !l.Pos {
						for _, d := range defsOf(info, fi.Node(), astx.Obj(info, id)) {
							if be, ok := ast.Unparen(d).(*ast.BinaryExpr); d != nil && ok && be.Op == token.EQL {
								isLc := func(e ast.Expr) bool {
									call, ok := astx.Expand(info, e).(*ast.CallExpr)
									if !ok {
										return false
									}
									fn := astx.Callee(info, call)
									return fn != nil && fname(fn) == "NickToLower"
								}
								if isLc(be.X) && isLc(be.Y) {
									return true
								}
							}
						}
					}
					return false
				})
				// … and on every such path: no other condition may stand between the assignment and the removal
				atAssign := map[string]bool{}
				for _, cl := range c.clausesAt(fi, g, v) {
					for _, l := range cl {
						atAssign[astx.Str(l.E)] = true
					}
				}
				var extra []string
				for _, cl := range c.clausesAt(fi, g, dv) {
					for _, l := range cl {
						if atAssign[astx.Str(l.E)] {
							continue
						}
						okLit := false
						// old != ""  /  old != new  /  !caseOnlyFlag
						if be, ok := ast.Unparen(l.E).(*ast.BinaryExpr); ok && (be.Op == token.NEQ || be.Op == token.EQL) {
							if astx.Same(info, be.X, w.key) || astx.Same(info, be.Y, w.key) {
								okLit = true
							}
						}
						if id, ok := ast.Unparen(l.E).(*ast.Ident); ok && !l.Pos {
							for _, d := range defsOf(info, fi.Node(), astx.Obj(info, id)) {
								if be, ok := ast.Unparen(d).(*ast.BinaryExpr); d != nil && ok && be.Op == token.EQL {
									okLit = true
								}
							}
						}
						if !okLit {
							extra = append(extra, astx.Str(l.E))
						}
					}
				}
				r.Check(len(extra) == 0, "C14.M2", name, "old index key removed whenever it exists and differs", c.P.Pos(w.node.Pos()), "guarded only by old != \"\" and the keys differing",
					"the removal of the old nickname from the index (and the re-keying of the channels) additionally depends on "+strings.Join(extra, ", ")+": on the other paths the old nickname stays registered to the session, is never free again and private messages to it reach the wrong session")
				r.Check(okGuard, "C14.M2", name, "old index key removed only when it differs from the new key", c.P.Pos(w.node.Pos()), "dominated by old != new (or the case-only flag being false)",
					"after inserting the session under its new key the old key is deleted unconditionally: a nickname change that only changes capitalization removes the session from the index (and from its channels)")
				// rename loop over all channels under the same guard
				okLoop := false
				ast.Inspect(fi.Body(), func(n ast.Node) bool {
					rs, ok := n.(*ast.RangeStmt)
					if !ok {
						return true
					}
					se, ok := ast.Unparen(rs.X).(*ast.SelectorExpr)
					if !ok {
						return true
					}
					// every channel of the network, or the membership set of the session that is being
					// re-registered (the value stored into i.nicks in this function): equal to the set of
					// channels listing the session as long as membership is symmetric (M1).
					own := false
					if astx.FieldSel(info, se) == f.fSChannels {
						if id, ok := ast.Unparen(se.X).(*ast.Ident); ok {
							ast.Inspect(fi.Body(), func(m ast.Node) bool {
								as, ok := m.(*ast.AssignStmt)
								if !ok || len(as.Lhs) != 1 || len(as.Rhs) != 1 {
									return true
								}
								ie, ok := ast.Unparen(as.Lhs[0]).(*ast.IndexExpr)
								if !ok {
									return true
								}
								ms, ok := ast.Unparen(ie.X).(*ast.SelectorExpr)
								if !ok || astx.FieldSel(info, ms) != f.fNicks {
									return true
								}
								if vid, ok := ast.Unparen(as.Rhs[0]).(*ast.Ident); ok && astx.Obj(info, vid) != nil && astx.Obj(info, vid) == astx.Obj(info, id) {
									own = true
								}
								return true
							})
						}
					}
					if astx.FieldSel(info, se) != f.fChannels && !own {
						return true
					}
					ins, del := false, false
					for _, w2 := range c.mapWritesIn(fi, rs.Body, f.fCNicks) {
						if w2.delete && astx.Same(info, w2.key, w.key) {
							del = true
						}
						if !w2.delete {
							ins = true
						}
					}
					if ins && del {
						lv := g.VertexOf(rs.X)
						if g.DominatedBy(lv, func(x *cfgx.Vertex) bool { return x.ID == v }) {
							okLoop = true
						}
					}
					return true
				})
				r.Check(okLoop, "C14.M2", name, "member keys renamed in every channel", c.P.Pos(w.node.Pos()), "range i.channels { c.nicks[new] = c.nicks[old]; delete(c.nicks, old) }",
					"the nickname index is updated but the channels' member lists keep the old key: members are no longer reachable by their current nickname")
			}
			_ = insV
		}
		// door checks at the insertion
		for _, w := range c.mapWritesIn(fi, fi.Body(), f.fNicks) {
			if w.delete {
				continue
			}
			wv := g.VertexOf(w.node)
			pos := c.P.Pos(w.node.Pos())
			var arg ast.Expr
			if call, ok := ast.Unparen(w.key).(*ast.CallExpr); ok && len(call.Args) == 1 {
				arg = call.Args[0]
			}
			// validity
			if why, ok := exemptValid[name]; ok {
				r.Except("C14.M4", name, "validity of "+astx.Str(w.key), pos, why)
			} else {
				okValid := false
				cands := []ast.Expr{arg}
				for _, as := range nickAssigns {
					if arg != nil && astx.Same(info, arg, as.Lhs[0]) {
						cands = append(cands, as.Rhs[0])
					}
				}
				for _, fct := range g.FactsAt(wv) {
					if call, ok := ast.Unparen(fct.Expr).(*ast.CallExpr); ok && fct.Val && fct.Tag == nil {
						if fn := astx.Callee(info, call); fn != nil && fname(fn) == "IsValidNickname" && len(call.Args) == 1 {
							for _, cnd := range cands {
								if cnd != nil && astx.Same(info, call.Args[0], cnd) {
									okValid = true
								}
							}
						}
					}
				}
				r.Check(okValid, "C14.M4", name, "only valid nicknames enter the index ("+astx.Str(w.key)+")", pos, "dominated by IsValidNickname(<new nick>)",
					"a nickname enters the index without IsValidNickname having accepted it")
			}
			// not in use
			if why, ok := exemptInUse[name]; ok {
				r.Except("C14.M4", name, "uniqueness of "+astx.Str(w.key), pos, why)
			} else {
				okFree := false
				// a comma-ok look-up in i.nicks under lc(new nick) whose "taken" edge does not reach the insert
				ast.Inspect(fi.Body(), func(n ast.Node) bool {
					as, ok := n.(*ast.AssignStmt)
					if !ok || len(as.Lhs) != 2 || len(as.Rhs) != 1 {
						return true
					}
					ie, ok := ast.Unparen(as.Rhs[0]).(*ast.IndexExpr)
					if !ok {
						return true
					}
					se, ok := ast.Unparen(ie.X).(*ast.SelectorExpr)
					if !ok || astx.FieldSel(info, se) != f.fNicks {
						return true
					}
					okID, isID := as.Lhs[1].(*ast.Ident)
					if !isID {
						return true
					}
					okObj := astx.Obj(info, okID)
					// facts at the insert: a clause ⊆ {!ok, caseOnlyFlag}
					for _, cl := range c.clausesAt(fi, g, wv) {
						good := len(cl) > 0
						hasNotOK := false
						for _, l := range cl {
							if id, isI := ast.Unparen(l.E).(*ast.Ident); isI && astx.Obj(info, id) == okObj && !l.Pos {
								hasNotOK = true
								continue
							}
							if id, isI := ast.Unparen(l.E).(*ast.Ident); isI && l.Pos {
								// the session's own key: flag defined as lc(a) == lc(b)
								isFlag := false
								for _, d := range defsOf(info, fi.Node(), astx.Obj(info, id)) {
									if be, ok := ast.Unparen(d).(*ast.BinaryExpr); d != nil && ok && be.Op == token.EQL {
										isFlag = true
									}
								}
								if isFlag {
									continue
								}
							}
							if call, isC := ast.Unparen(l.E).(*ast.CallExpr); isC && !l.Pos {
								if fn := astx.Callee(info, call); fn != nil && fname(fn) == "IsServicesNickname" {
									continue
								}
							}
							good = false
						}
						if good && hasNotOK {
							okFree = true
						}
					}
					return true
				})
				r.Check(okFree, "C14.M4", name, "only free nicknames enter the index ("+astx.Str(w.key)+")", pos, "dominated by the failed look-up of the new key (or the key being the session's own)",
					"a session is filed under a nickname without the index having been checked for an existing owner: two sessions own the same nickname and one becomes unreachable")
			}
		}
	}
	r.Floor("C14.M2", 8)
	r.Floor("C14.M4", 5)

	// channel names are validated at the door
	for _, w := range c.stateMapWrites(f.fChannels) {
		if w.delete || w.fi == unm {
			continue
		}
		fi := w.fi
		info := fi.Info()
		g := c.Graph(fi)
		v := g.VertexOf(w.node)
		okValid := false
		var arg ast.Expr
		if call, ok := astx.Expand(info, w.key).(*ast.CallExpr); ok && len(call.Args) == 1 {
			arg = call.Args[0]
		}
		for _, fct := range g.FactsAt(v) {
			if call, ok := ast.Unparen(fct.Expr).(*ast.CallExpr); ok && fct.Val && fct.Tag == nil {
				if fn := astx.Callee(info, call); fn != nil && fname(fn) == "IsValidChannel" && len(call.Args) == 1 && arg != nil && astx.Same(info, call.Args[0], arg) {
					okValid = true
				}
			}
		}
		r.Check(okValid, "C14.M4", fi.Name(), "only valid channel names are created ("+astx.Str(w.key)+")", c.P.Pos(w.node.Pos()), "dominated by IsValidChannel(<name>)",
			"a channel is created without IsValidChannel having accepted its name")
		// M5 channel limit
		okLimit := false
		for _, fct := range g.FactsAt(v) {
			found := false
			ast.Inspect(fct.Expr, func(n ast.Node) bool {
				if id, ok := n.(*ast.Ident); ok {
					for _, d := range defsOf(info, fi.Node(), astx.Obj(info, id)) {
						if call, ok := ast.Unparen(d).(*ast.CallExpr); d != nil && ok {
							if fn := astx.Callee(info, call); fn != nil && fname(fn) == "ChannelLimit" {
								found = true
							}
						}
					}
				}
				if call, ok := n.(*ast.CallExpr); ok {
					if fn := astx.Callee(info, call); fn != nil && fname(fn) == "ChannelLimit" {
						found = true
					}
				}
				return !found
			})
			if found {
				okLimit = true
			}
		}
		// the number of channels compared must be current: read inside the innermost loop that contains the creation
		var loop ast.Node
		ast.Inspect(fi.Body(), func(n ast.Node) bool {
			switch x := n.(type) {
			case *ast.RangeStmt:
				if x.Body.Pos() <= w.node.Pos() && w.node.End() <= x.Body.End() {
					loop = x.Body
				}
			case *ast.ForStmt:
				if x.Body.Pos() <= w.node.Pos() && w.node.End() <= x.Body.End() {
					loop = x.Body
				}
			}
			return true
		})
		if loop != nil && okLimit {
			fresh := false
			ast.Inspect(loop, func(n ast.Node) bool {
				if call, ok := n.(*ast.CallExpr); ok && astx.Builtin(info, call) == "len" && len(call.Args) == 1 {
					if se, ok := ast.Unparen(call.Args[0]).(*ast.SelectorExpr); ok && astx.FieldSel(info, se) == f.fChannels && call.Pos() < w.node.Pos() {
						fresh = true
					}
				}
				return true
			})
			r.Check(fresh, "C14.M5", fi.Name(), "channel count is re-read for every channel of the request ("+astx.Str(w.key)+")", c.P.Pos(w.node.Pos()), "len(i.channels) evaluated inside the loop",
				"the number of channels compared with the limit is read once before the loop over the requested channels: one request naming several new channels creates all of them and exceeds the configured maximum")
		}
		r.Check(okLimit, "C14.M5", fi.Name(), "channel created only below the configured limit ("+astx.Str(w.key)+")", c.P.Pos(w.node.Pos()), "dominated by the ChannelLimit comparison",
			"a channel is created without comparing the number of channels to Config.MaxChannels: the configured maximum can be exceeded")
	}
	// M5 session limit
	for _, w := range c.stateMapWrites(f.fSessions) {
		if w.delete || w.fi == unm {
			continue
		}
		fi := w.fi
		info := fi.Info()
		g := c.Graph(fi)
		v := g.VertexOf(w.node)
		okLimit := false
		for _, fct := range g.FactsAt(v) {
			found := false
			ast.Inspect(fct.Expr, func(n ast.Node) bool {
				if id, ok := n.(*ast.Ident); ok {
					for _, d := range defsOf(info, fi.Node(), astx.Obj(info, id)) {
						if call, ok := ast.Unparen(d).(*ast.CallExpr); d != nil && ok {
							if fn := astx.Callee(info, call); fn != nil && fname(fn) == "SessionLimit" {
								found = true
							}
						}
					}
				}
				return !found
			})
			if found {
				okLimit = true
			}
		}
		r.Check(okLimit && fi.Name() == "ircserver.(*IRCServer).createSessionLocked", "C14.M5", fi.Name(), "session created only below the configured limit", c.P.Pos(w.node.Pos()), "createSessionLocked, dominated by the SessionLimit comparison",
			"a session is created without comparing the number of sessions to Config.MaxSessions (or outside createSessionLocked)")
	}
	r.Floor("C14.M5", 3)

	c.c14KeyTypes(f)
}

// mapWritesIn lists writes to the given map field inside node n of function fi.
func (c *Ctx) mapWritesIn(fi *load.FuncInfo, n ast.Node, field *types.Var) []mapWrite {
	var out []mapWrite
	info := fi.Info()
	ast.Inspect(n, func(m ast.Node) bool {
		switch x := m.(type) {
		case *ast.FuncLit:
			return false
		case *ast.AssignStmt:
			for i, l := range x.Lhs {
				ie, ok := ast.Unparen(l).(*ast.IndexExpr)
				if !ok {
					continue
				}
				se, ok := ast.Unparen(ie.X).(*ast.SelectorExpr)
				if !ok || astx.FieldSel(info, se) != field {
					continue
				}
				var val ast.Expr
				if len(x.Rhs) == len(x.Lhs) {
					val = x.Rhs[i]
				}
				out = append(out, mapWrite{fi: fi, node: x, field: field, recv: se.X, key: astx.Expand(fi.Info(), ie.Index), val: val})
			}
		case *ast.ExprStmt:
			if call, ok := x.X.(*ast.CallExpr); ok && astx.Builtin(info, call) == "delete" && len(call.Args) == 2 {
				if se, ok := ast.Unparen(call.Args[0]).(*ast.SelectorExpr); ok && astx.FieldSel(info, se) == field {
					out = append(out, mapWrite{fi: fi, node: x, field: field, recv: se.X, key: astx.Expand(fi.Info(), call.Args[1]), delete: true})
				}
			}
		}
		return true
	})
	return out
}

// loopDeletes: a range loop after `after` in fi deletes from the given map field (e.g. clearing invitations for every session).
func (c *Ctx) loopDeletes(fi *load.FuncInfo, after ast.Node, field *types.Var) bool {
	ok := false
	g := c.Graph(fi)
	av := g.VertexOf(after)
	ast.Inspect(fi.Body(), func(n ast.Node) bool {
		if rs, isR := n.(*ast.RangeStmt); isR && rs.Pos() > after.Pos() {
			for _, w := range c.mapWritesIn(fi, rs.Body, field) {
				if w.delete {
					// the sweep is reached on every path from the removal to the function's end (no early return in between)
					hv := g.VertexOf(rs.X)
					if av < 0 || hv < 0 || g.PostDominatedBy(av, g.Exit, func(x *cfgx.Vertex) bool { return x.ID == hv }) {
						ok = true
					}
				}
			}
		}
		return true
	})
	return ok
}

// c14KeyTypes (M6): explicit conversions to lcNick / lcChan wrap values that came out of the same kind of map key.
func (c *Ctx) c14KeyTypes(f *ircFacts) {
	r := c.R
	for _, fi := range c.P.FuncsIn("ircserver") {
		if fi.Body() == nil {
			continue
		}
		nm := shortName(fi)
		if nm == "NickToLower" || nm == "ChanToLower" {
			continue
		}
		info := fi.Info()
		ast.Inspect(fi.Body(), func(n ast.Node) bool {
			call, ok := n.(*ast.CallExpr)
			if !ok || !astx.IsConversion(info, call) || len(call.Args) != 1 {
				return true
			}
			tn := astx.NamedOf(info.TypeOf(call.Fun))
			if tn == nil || tn.Obj().Pkg() == nil || tn.Obj().Pkg().Path() != pathIrcsrv || (tn.Obj().Name() != "lcNick" && tn.Obj().Name() != "lcChan") {
				return true
			}
			ok2, why := c.lowerProvenance(fi, call.Args[0], tn)
			r.Check(ok2, "C14.M6", fi.Name(), "conversion "+astx.Str(call), c.P.Pos(call.Pos()), why,
				"a string is converted to "+tn.Obj().Name()+" without having come from a key of that type or from the lower-casing function: look-ups with it can miss (or create) differently-cased entries")
			return true
		})
	}
	r.Floor("C14.M6", 3)
	// the nickname case-mapping table maps single characters to single characters (RFC 2812: {}| are the lower case of []\):
	// an entry whose key is longer than one byte (e.g. a raw-string `\\`) never matches, so that character is not folded
	if pkg := c.P.Pkg("ircserver"); pkg != nil {
		n := 0
		for _, file := range pkg.Syntax {
			ast.Inspect(file, func(nd ast.Node) bool {
				vs, ok := nd.(*ast.ValueSpec)
				if !ok {
					return true
				}
				for _, val := range vs.Values {
					call, ok := ast.Unparen(val).(*ast.CallExpr)
					if !ok {
						continue
					}
					fn := astx.Callee(pkg.TypesInfo, call)
					if fn == nil || fn.FullName() != "strings.NewReplacer" {
						continue
					}
					used := false
					// only the replacer NickToLower / ChanToLower use
					for _, name := range vs.Names {
						obj := pkg.TypesInfo.Defs[name]
						for _, fi := range c.P.FuncsIn("ircserver") {
							if nm := shortName(fi); (nm == "NickToLower" || nm == "ChanToLower") && fi.Body() != nil && astx.Mentions(fi.Info(), fi.Body(), obj) {
								used = true
							}
						}
					}
					if !used {
						continue
					}
					n++
					okAll := len(call.Args) > 0 && len(call.Args)%2 == 0
					for _, a := range call.Args {
						if s, ok := astx.ConstString(pkg.TypesInfo, a); !ok || len(s) != 1 {
							okAll = false
						}
					}
					r.Check(okAll, "C14.M6", "ircserver."+vs.Names[0].Name, "case mapping maps single characters", c.P.Pos(call.Pos()), "every argument of strings.NewReplacer is a one-byte constant",
						"the nickname case-mapping table contains an entry that is not a single character: that character is no longer folded, so two sessions can own nicknames that are equal under IRC case mapping")
				}
				return true
			})
		}
		r.Check(n >= 1, "C14.M6", "ircserver", "case-mapping table found", "-", itoa(n), "NickToLower no longer uses a strings.Replacer table: shape not recognised")
	}
}

// lowerProvenance: e is (a range variable over a slice whose elements are) string(k) with k of the lower-case key type, or <X>ToLower(...).
func (c *Ctx) lowerProvenance(fi *load.FuncInfo, e ast.Expr, keyType *types.Named) (bool, string) {
	info := fi.Info()
	isLowered := func(x ast.Expr) bool {
		x = ast.Unparen(x)
		call, ok := x.(*ast.CallExpr)
		if !ok || len(call.Args) != 1 {
			return false
		}
		if astx.IsConversion(info, call) {
			// string(k) with k of the key type
			if tv, ok := info.Types[call.Args[0]]; ok && astx.NamedOf(tv.Type) == keyType {
				return true
			}
			return false
		}
		if fn := astx.Callee(info, call); fn != nil && strings.HasSuffix(fn.Name(), "ToLower") && fn.Pkg() != nil && fn.Pkg().Path() == pathIrcsrv {
			return true
		}
		return false
	}
	if isLowered(e) {
		return true, "value is string(<key>) / *ToLower(...)"
	}
	id, ok := ast.Unparen(e).(*ast.Ident)
	if !ok {
		return false, ""
	}
	obj := astx.Obj(info, id)
	// range variable over a local slice
	var slice types.Object
	ast.Inspect(fi.Body(), func(n ast.Node) bool {
		if rs, ok := n.(*ast.RangeStmt); ok && rs.Value != nil {
			if vid, ok := rs.Value.(*ast.Ident); ok && astx.Obj(info, vid) == obj {
				if sid, ok := ast.Unparen(rs.X).(*ast.Ident); ok {
					slice = astx.Obj(info, sid)
				}
			}
		}
		return true
	})
	if slice == nil {
		return false, ""
	}
	apps, good := 0, 0
	ast.Inspect(fi.Body(), func(n ast.Node) bool {
		as, ok := n.(*ast.AssignStmt)
		if !ok || len(as.Lhs) != 1 || len(as.Rhs) != 1 {
			return true
		}
		l, ok := as.Lhs[0].(*ast.Ident)
		if !ok || astx.Obj(info, l) != slice {
			return true
		}
		call, ok := ast.Unparen(as.Rhs[0]).(*ast.CallExpr)
		if !ok {
			return true
		}
		switch astx.Builtin(info, call) {
		case "append":
			for _, a := range call.Args[1:] {
				apps++
				if isLowered(a) {
					good++
				}
			}
		case "make":
		default:
			apps++ // unknown producer
		}
		return true
	})
	if apps > 0 && apps == good {
		return true, "range variable over a slice filled only with string(<key>) / *ToLower(...) values"
	}
	return false, ""
}
