package rules

import (
	"go/ast"
	"go/constant"
	"go/token"
	"go/types"
	"strconv"
	"strings"

	"verif/checker/internal/astx"
	"verif/checker/internal/cfgx"
	"verif/checker/internal/load"
)

func init() { register("C13", c13) }

// gateCtx classifies atomic conditions relative to one function, its acting session and one channel expression.
type gateCtx struct {
	c    *Ctx
	f    *ircFacts
	fi   *load.FuncInfo
	info *types.Info
	s    types.Object // acting session parameter
}

func (gc *gateCtx) isS(e ast.Expr) bool {
	id, ok := ast.Unparen(e).(*ast.Ident)
	return ok && gc.s != nil && astx.Obj(gc.info, id) == gc.s
}

// lcOfSNick: NickToLower(s.Nick)
func (gc *gateCtx) lcOfSNick(e ast.Expr) bool {
	call, ok := astx.Expand(gc.info, e).(*ast.CallExpr)
	if !ok || len(call.Args) != 1 {
		return false
	}
	fn := astx.Callee(gc.info, call)
	if fn == nil || fname(fn) != "NickToLower" {
		return false
	}
	se, ok := ast.Unparen(call.Args[0]).(*ast.SelectorExpr)
	return ok && se.Sel.Name == "Nick" && gc.isS(se.X)
}

// memberLookup: ch.nicks[NickToLower(s.Nick)]
func (gc *gateCtx) memberLookup(e ast.Expr, ch ast.Expr) bool {
	ie, ok := ast.Unparen(e).(*ast.IndexExpr)
	if !ok {
		return false
	}
	se, ok := ast.Unparen(ie.X).(*ast.SelectorExpr)
	if !ok || astx.FieldSel(gc.info, se) != gc.f.fCNicks || !astx.Same(gc.info, se.X, ch) {
		return false
	}
	return gc.lcOfSNick(ie.Index)
}

func (gc *gateCtx) isChanopConst(e ast.Expr) bool {
	v, ok := astx.ConstInt(gc.info, e)
	if !ok || v != 0 {
		return false
	}
	id, isID := ast.Unparen(e).(*ast.Ident)
	if !isID {
		return false
	}
	k, isConst := astx.Obj(gc.info, id).(*types.Const)
	return isConst && k.Pkg() != nil && k.Pkg().Path() == pathIrcsrv
}

// chanop: ch.nicks[lc(s.Nick)][chanop] or perms[chanop] with perms := ch.nicks[lc(s.Nick)]
func (gc *gateCtx) isChanop(e ast.Expr, ch ast.Expr) bool {
	ie, ok := ast.Unparen(e).(*ast.IndexExpr)
	if !ok || !gc.isChanopConst(ie.Index) {
		return false
	}
	if gc.memberLookup(ie.X, ch) {
		return true
	}
	if d := uniqueDef(gc.info, gc.fi.Node(), ie.X); d != nil && gc.memberLookup(d, ch) {
		return true
	}
	return false
}

func (gc *gateCtx) isOper(e ast.Expr) bool {
	se, ok := ast.Unparen(e).(*ast.SelectorExpr)
	return ok && se.Sel.Name == "Operator" && gc.isS(se.X)
}

// chanKey returns K when ch is (defined as) i.channels[K].
func (gc *gateCtx) chanKey(ch ast.Expr) ast.Expr {
	look := func(e ast.Expr) ast.Expr {
		ie, ok := ast.Unparen(e).(*ast.IndexExpr)
		if !ok {
			return nil
		}
		se, ok := ast.Unparen(ie.X).(*ast.SelectorExpr)
		if !ok || astx.FieldSel(gc.info, se) != gc.f.fChannels {
			return nil
		}
		return ie.Index
	}
	if k := look(ch); k != nil {
		return k
	}
	if id, ok := ast.Unparen(ch).(*ast.Ident); ok {
		for _, d := range defsOf(gc.info, gc.fi.Node(), astx.Obj(gc.info, id)) {
			if d == nil {
				continue
			}
			if k := look(d); k != nil {
				return k
			}
		}
	}
	return nil
}

// memberS: s.Channels[K] with ch = i.channels[K]
func (gc *gateCtx) isMemberS(e ast.Expr, ch ast.Expr) bool {
	ie, ok := ast.Unparen(e).(*ast.IndexExpr)
	if !ok {
		return false
	}
	se, ok := ast.Unparen(ie.X).(*ast.SelectorExpr)
	if !ok || astx.FieldSel(gc.info, se) != gc.f.fSChannels || !gc.isS(se.X) {
		return false
	}
	k := gc.chanKey(ch)
	return k != nil && astx.Same(gc.info, ie.Index, k)
}

// memberOK: the ok variable of `_, ok := ch.nicks[lc(s.Nick)]`
func (gc *gateCtx) isMemberOK(e ast.Expr, ch ast.Expr) bool {
	id, ok := ast.Unparen(e).(*ast.Ident)
	if !ok {
		return false
	}
	o := astx.Obj(gc.info, id)
	hit := false
	ast.Inspect(gc.fi.Node(), func(n ast.Node) bool {
		as, ok := n.(*ast.AssignStmt)
		if !ok || len(as.Lhs) != 2 || len(as.Rhs) != 1 {
			return true
		}
		l1, ok := as.Lhs[1].(*ast.Ident)
		if !ok || astx.Obj(gc.info, l1) != o {
			return true
		}
		if gc.memberLookup(as.Rhs[0], ch) {
			hit = true
		}
		return true
	})
	return hit
}

// mode: ch.modes['x']
func (gc *gateCtx) isMode(e ast.Expr, ch ast.Expr, letter rune) bool {
	ie, ok := ast.Unparen(e).(*ast.IndexExpr)
	if !ok {
		return false
	}
	se, ok := ast.Unparen(ie.X).(*ast.SelectorExpr)
	if !ok || se.Sel.Name != "modes" || !astx.Same(gc.info, se.X, ch) {
		return false
	}
	v, ok := astx.ConstInt(gc.info, ie.Index)
	return ok && rune(v) == letter
}

// channelBase returns the expression of type *channel / channel at the root of an lvalue like c.modes[x], c.key, c.nicks[k][chanop].
func (gc *gateCtx) channelBase(e ast.Expr) (ast.Expr, *types.Var) {
	var field *types.Var
	for {
		switch x := ast.Unparen(e).(type) {
		case *ast.IndexExpr:
			e = x.X
		case *ast.StarExpr:
			e = x.X
		case *ast.SelectorExpr:
			if f := astx.FieldSel(gc.info, x); f != nil {
				if tv, ok := gc.info.Types[x.X]; ok && astx.NamedOf(tv.Type) == gc.f.tChannel {
					field = f
					return x.X, field
				}
			}
			e = x.X
		default:
			return nil, nil
		}
	}
}

func c13(c *Ctx) {
	r := c.R
	f := c.irc()
	if len(r.Broken) > 0 {
		return
	}
	r.Explanation = "Gate dominance: every statement in client-reachable code that performs a privileged state change is located by what it writes (channel modes/key/bans/operator bits/topic, another user's membership, invitations, another user's modes, killing another session, the ban list, network-wide notices, operator and server status, membership of an existing channel) and the corresponding privilege test must hold on every path to it (clauses derived from the dominating branch conditions, with De Morgan and local boolean definitions resolved). For JOIN the invite/captcha/ban/key tests are path rules over the else-if chain. Decides the code shape; whether the privilege bits themselves are right at that moment is history (C14 keeps them consistent)."
	r.Rules = []string{"C13.E1 channel settings need chanop|oper and membership", "C13.E2 topic needs membership and (!+t | chanop)", "C13.E3 kick needs chanop", "C13.E4 invite", "C13.E5 other user's modes need oper", "C13.E6 oper-only effects", "C13.E7 becoming operator", "C13.E8 becoming a server link", "C13.E9 joining an existing channel", "C13.E10 services commands only from server links", "C13.E11 captcha verification", "C13.E12 a ban that is set is stored"}

	// helper summary: non-handler functions with a *Session parameter that (transitively) hand it to deleteSessionLocked
	endsSessParam := map[*load.FuncInfo]int{}
	if dslF := c.P.Func("ircserver.(*IRCServer).deleteSessionLocked"); dslF != nil {
		for changed := true; changed; {
			changed = false
			for _, fi := range c.P.FuncsIn("ircserver") {
				if fi.Body() == nil || f.Client[fi] || f.Server[fi] || fi == dslF {
					continue
				}
				if _, done := endsSessParam[fi]; done {
					continue
				}
				info := fi.Info()
				k := 0
				params := map[types.Object]int{}
				for _, fld := range fi.FuncType().Params.List {
					for _, nm := range fld.Names {
						if o := info.Defs[nm]; o != nil && astx.NamedOf(o.Type()) == f.tSession {
							params[o] = k
						}
						k++
					}
				}
				if len(params) == 0 {
					continue
				}
				for _, call := range astx.Calls(fi.Body(), true) {
					fn := astx.Callee(info, call)
					if fn == nil {
						continue
					}
					cal := c.P.FuncOf(fn)
					argIdx := -1
					if cal == dslF {
						argIdx = 0
					} else if pi, ok := endsSessParam[cal]; ok {
						argIdx = pi
					}
					if argIdx < 0 || argIdx >= len(call.Args) {
						continue
					}
					if id, ok := ast.Unparen(call.Args[argIdx]).(*ast.Ident); ok {
						if pi, isParam := params[astx.Obj(info, id)]; isParam {
							endsSessParam[fi] = pi
							changed = true
						}
					}
				}
			}
		}
	}
	// helper summary: functions with a *channel parameter that (transitively) write channel fields of it
	writesChanParam := map[*load.FuncInfo]int{} // function -> parameter index
	for changed := true; changed; {
		changed = false
		for _, fi := range c.P.FuncsIn("ircserver") {
			if fi.Body() == nil || f.Client[fi] || f.Server[fi] {
				continue
			}
			if _, done := writesChanParam[fi]; done {
				continue
			}
			info := fi.Info()
			idx, k := -1, 0
			var pobj types.Object
			for _, fld := range fi.FuncType().Params.List {
				for _, nm := range fld.Names {
					if o := info.Defs[nm]; o != nil && astx.NamedOf(o.Type()) == f.tChannel {
						idx, pobj = k, o
					}
					k++
				}
			}
			if idx < 0 {
				continue
			}
			w := false
			ast.Inspect(fi.Body(), func(n ast.Node) bool {
				switch x := n.(type) {
				case *ast.AssignStmt:
					for _, l := range x.Lhs {
						if b := astx.BaseIdent(l); b != nil && astx.Obj(info, b) == pobj {
							if _, isSel := ast.Unparen(l).(*ast.Ident); !isSel {
								for _, fl := range lhsChainFields(info, l) {
									switch c.P.FieldName(fl) {
									case "modes", "key", "bans", "topic", "topicNick", "topicTime":
										w = true
									}
								}
							}
						}
					}
				case *ast.CallExpr:
					if fn := astx.Callee(info, x); fn != nil {
						if cal := c.P.FuncOf(fn); cal != nil {
							if pi, ok := writesChanParam[cal]; ok && pi < len(x.Args) {
								if id, ok := ast.Unparen(x.Args[pi]).(*ast.Ident); ok && astx.Obj(info, id) == pobj {
									w = true
								}
							}
						}
					}
				}
				return true
			})
			if w {
				writesChanParam[fi] = idx
				changed = true
			}
		}
	}

	dsl := c.P.Func("ircserver.(*IRCServer).deleteSessionLocked")
	cfgField := c.P.Field("ircserver", "IRCServer", "Config")

	for _, fi := range sortedFuncs(f.CReach) {
		if fi.Body() == nil || fi.Pkg.PkgPath != pathIrcsrv {
			continue
		}
		if _, helper := writesChanParam[fi]; helper {
			continue // obligations are at the call sites
		}
		r.Functions++
		info := fi.Info()
		g := c.Graph(fi)
		gc := &gateCtx{c: c, f: f, fi: fi, info: info, s: f.sessionParam(fi)}
		name := fi.Name()

		settingGate := func(ch ast.Expr, site ast.Node, what string) {
			v := g.VertexOf(site)
			cl := c.clausesAt(fi, g, v)
			pos := c.P.Pos(site.Pos())
			// fresh channel: created in this function on the did-not-exist edge
			if gc.freshChannel(g, v, ch) {
				r.Ok("C13.E1", name, what, pos, "channel created in this step (did-not-exist edge)")
				return
			}
			okPriv := implied(cl, func(l lit) bool { return l.Pos && (gc.isChanop(l.E, ch) || gc.isOper(l.E)) })
			okMember := implied(cl, func(l lit) bool { return l.Pos && (gc.isMemberS(l.E, ch) || gc.isMemberOK(l.E, ch)) })
			r.Check(okPriv, "C13.E1", name, what+" requires chanop or oper", pos, "a dominating clause ⊆ {chanop, s.Operator}",
				"channel state is changed on a path where neither channel-operator status in that channel nor IRC-operator status was established")
			r.Check(okMember, "C13.E1", name, what+" requires being on the channel", pos, "dominated by the acting session's membership test",
				"channel state is changed by a session that is not provably on the channel")
		}

		ast.Inspect(fi.Body(), func(n ast.Node) bool {
			switch x := n.(type) {
			case *ast.AssignStmt:
				for _, l := range x.Lhs {
					if _, isID := ast.Unparen(l).(*ast.Ident); isID {
						continue
					}
					ch, fld := gc.channelBase(l)
					if ch != nil && fld != nil {
						switch c.P.FieldName(fld) {
						case "modes", "key", "bans":
							settingGate(ch, x, "write "+astx.Str(l))
						case "nicks":
							// c.nicks[k][chanop] = v  (operator bit) vs c.nicks[k] = &… (membership insert, E9/C14)
							if ie, ok := ast.Unparen(l).(*ast.IndexExpr); ok {
								if _, inner := ast.Unparen(ie.X).(*ast.IndexExpr); inner {
									c.c13OpBit(gc, g, x, l, ch)
								} else {
									c.c13Join(gc, g, x, l, ch)
								}
							}
						case "topic", "topicNick", "topicTime":
							v := g.VertexOf(x)
							cl := c.clausesAt(fi, g, v)
							pos := c.P.Pos(x.Pos())
							okM := implied(cl, func(l lit) bool { return l.Pos && (gc.isMemberS(l.E, ch) || gc.isMemberOK(l.E, ch)) })
							okT := implied(cl, func(l lit) bool {
								// IRC operators may change modes (E1), not topics: the property names only channel operators here
								return (!l.Pos && gc.isMode(l.E, ch, 't')) || (l.Pos && gc.isChanop(l.E, ch))
							})
							r.Check(okM, "C13.E2", name, "write "+astx.Str(l)+" requires being on the channel", pos, "dominated by s.Channels[…]",
								"the topic is set or cleared on a path where the acting session is not provably on the channel")
							r.Check(okT, "C13.E2", name, "write "+astx.Str(l)+" requires !+t or chanop", pos, "a dominating clause ⊆ {!modes['t'], chanop}",
								"the topic of a +t channel can be changed without channel-operator status")
						}
						continue
					}
					// invitations of another session
					if ie, ok := ast.Unparen(l).(*ast.IndexExpr); ok {
						if se, ok := ast.Unparen(ie.X).(*ast.SelectorExpr); ok && astx.FieldSel(info, se) == f.fSInvited && !gc.isS(se.X) {
							c.c13Invite(gc, g, x, ie)
						}
						// other user's modes: T.modes[x] = v with T a *Session other than s
						if se, ok := ast.Unparen(ie.X).(*ast.SelectorExpr); ok && se.Sel.Name == "modes" {
							if tv, ok := info.Types[se.X]; ok && astx.NamedOf(tv.Type) == f.tSession && !gc.isS(se.X) {
								c.c13UserMode(gc, g, x, se.X)
							}
						}
						// ban list of the configuration
						for _, fl := range lhsChainFields(info, l) {
							if fl == cfgField {
								c.c13Oper(gc, g, x, "write "+astx.Str(l))
							}
						}
					}
					// operator / server status
					if se, ok := ast.Unparen(l).(*ast.SelectorExpr); ok {
						if tv, ok := info.Types[se.X]; ok && astx.NamedOf(tv.Type) == f.tSession {
							switch se.Sel.Name {
							case "Operator":
								c.c13BecomeOper(gc, g, x)
							case "Server":
								c.c13BecomeServer(gc, g, x)
							}
						}
					}
				}
			case *ast.ExprStmt:
				call, ok := x.X.(*ast.CallExpr)
				if !ok {
					return true
				}
				if astx.Builtin(info, call) == "delete" && len(call.Args) == 2 {
					if se, ok := ast.Unparen(call.Args[0]).(*ast.SelectorExpr); ok && astx.FieldSel(info, se) == f.fCNicks {
						if !gc.lcOfSNick(call.Args[1]) && fi != dsl && !isRenameDelete(gc, fi, call) {
							c.c13Kick(gc, g, x, se.X, call.Args[1])
						}
					}
				}
			case *ast.CallExpr:
				fn := astx.Callee(info, x)
				if fn == nil {
					return true
				}
				cal := c.P.FuncOf(fn)
				if pi, ok := writesChanParam[cal]; ok && cal != nil && pi < len(x.Args) {
					settingGate(x.Args[pi], x, "call "+shortName(cal))
				}
				if cal != nil && cal == dsl && len(x.Args) >= 1 && !gc.isS(x.Args[0]) {
					c.c13Oper(gc, g, x, "ending another session ("+astx.Str(x.Args[0])+")")
				}
				// … also through a helper that ends the session it is given
				if pi, ok := endsSessParam[cal]; ok && cal != nil && pi < len(x.Args) && !gc.isS(x.Args[pi]) {
					c.c13Oper(gc, g, x, "ending another session ("+astx.Str(x.Args[pi])+") through "+shortName(cal))
				}
				if fname(fn) == "sendAllUsers" {
					c.c13Oper(gc, g, x, "network-wide notice (sendAllUsers)")
				}
			}
			return true
		})
	}
	r.Floor("C13.E1", 10)
	r.Floor("C13.E2", 6)
	r.Floor("C13.E3", 1)
	r.Floor("C13.E4", 1)
	r.Floor("C13.E5", 2)
	r.Floor("C13.E6", 3)
	r.Floor("C13.E7", 1)
	r.Floor("C13.E8", 1)
	// the configured names and passwords are what the operator of the network wrote: a node restored from a snapshot must
	// not hold entries nobody configured (make([]T, n) + append leaves n entries with the empty name and password, which
	// `PASS services=` / `OPER "" ""` then match)
	if um := c.P.Func("ircserver.(*IRCServer).Unmarshal"); um != nil {
		inConfig := func(t *types.Slice) bool {
			n := astx.NamedOf(t.Elem())
			return n != nil && n.Obj().Pkg() != nil && n.Obj().Pkg().Path() == pathConfig
		}
		for fi := range c.closure([]*load.FuncInfo{um}) {
			if load.ShortPkg(fi.Pkg.PkgPath) == "ircserver" || load.ShortPkg(fi.Pkg.PkgPath) == "config" {
				c.lengthDiscipline("C13.E8", fi, inConfig, "a restored node accepts credentials nobody configured (the empty services password, the empty operator name)")
			}
		}
	}
	r.Floor("C13.E9", 4)

	c.c13AuthOper(f)
	c.c13ServerOnly(f)
	c.c13Captcha(f)
	c.c13BanStored()
	c.c13BanReference()
	c.c13OperFlagPair(f)
	for _, name := range []string{"ircserver.(*IRCServer).verifyCaptcha", "ircserver.(*IRCServer).verifyCaptchaNonEmpty"} {
		if fi := c.P.Func(name); fi != nil && fi.Body() != nil {
			c.errorDiscipline("C13.E11", fi, "a captcha that does not decode or verify is accepted")
			c.errorDispositions("C13.E11", []string{"ircserver"}, func(fn string) bool { return fn == name }, "a captcha that does not decode or verify is accepted")
		}
	}
}

// freshChannel: at vertex v, ch was created by this function on the edge where the look-up in i.channels failed.
func (gc *gateCtx) freshChannel(g *cfgx.Graph, v int, ch ast.Expr) bool {
	id, ok := ast.Unparen(ch).(*ast.Ident)
	if !ok {
		return false
	}
	o := astx.Obj(gc.info, id)
	var okVar types.Object
	hasLit := false
	ast.Inspect(gc.fi.Node(), func(n ast.Node) bool {
		as, ok := n.(*ast.AssignStmt)
		if !ok {
			return true
		}
		if len(as.Lhs) == 2 && len(as.Rhs) == 1 {
			if l0, ok := as.Lhs[0].(*ast.Ident); ok && astx.Obj(gc.info, l0) == o {
				if ie, ok := ast.Unparen(as.Rhs[0]).(*ast.IndexExpr); ok {
					if se, ok := ast.Unparen(ie.X).(*ast.SelectorExpr); ok && astx.FieldSel(gc.info, se) == gc.f.fChannels {
						if l1, ok := as.Lhs[1].(*ast.Ident); ok {
							okVar = astx.Obj(gc.info, l1)
						}
					}
				}
			}
		}
		if len(as.Lhs) == 1 && len(as.Rhs) == 1 {
			if l0, ok := as.Lhs[0].(*ast.Ident); ok && astx.Obj(gc.info, l0) == o {
				r := ast.Unparen(as.Rhs[0])
				if u, ok := r.(*ast.UnaryExpr); ok && u.Op == token.AND {
					r = u.X
				}
				if cl, ok := r.(*ast.CompositeLit); ok {
					if tv, ok := gc.info.Types[cl]; ok && astx.NamedOf(tv.Type) == gc.f.tChannel {
						hasLit = true
					}
				}
			}
		}
		return true
	})
	if okVar == nil || !hasLit {
		return false
	}
	for _, f := range g.FactsAt(v) {
		if f.Tag == nil && !f.Val {
			if fid, ok := ast.Unparen(f.Expr).(*ast.Ident); ok && astx.Obj(gc.info, fid) == okVar {
				return true
			}
		}
	}
	return false
}

// isRenameDelete: delete(c.nicks, old) as second half of a nick rename (same loop inserts under the new key).
func isRenameDelete(gc *gateCtx, fi *load.FuncInfo, call *ast.CallExpr) bool {
	// the enclosing range body also assigns c.nicks[...] = <value looked up under the deleted key>
	res := false
	ast.Inspect(fi.Body(), func(n ast.Node) bool {
		rs, ok := n.(*ast.RangeStmt)
		if !ok || !(rs.Body.Pos() <= call.Pos() && call.End() <= rs.Body.End()) {
			return true
		}
		ast.Inspect(rs.Body, func(m ast.Node) bool {
			if as, ok := m.(*ast.AssignStmt); ok && len(as.Lhs) == 1 {
				if ie, ok := ast.Unparen(as.Lhs[0]).(*ast.IndexExpr); ok {
					if se, ok := ast.Unparen(ie.X).(*ast.SelectorExpr); ok && astx.FieldSel(gc.info, se) == gc.f.fCNicks {
						res = true
					}
				}
			}
			return true
		})
		return true
	})
	return res
}

func (c *Ctx) c13Oper(gc *gateCtx, g *cfgx.Graph, site ast.Node, what string) {
	v := g.VertexOf(site)
	cl := c.clausesAt(gc.fi, g, v)
	ok := implied(cl, func(l lit) bool { return l.Pos && gc.isOper(l.E) })
	c.R.Check(ok, "C13.E6", gc.fi.Name(), what+" requires oper", c.P.Pos(site.Pos()), "dominated by s.Operator",
		"an IRC-operator-only effect is reachable without the acting session's Operator flag having been tested")
}

func (c *Ctx) c13OpBit(gc *gateCtx, g *cfgx.Graph, site *ast.AssignStmt, l ast.Expr, ch ast.Expr) {
	r := c.R
	name := gc.fi.Name()
	v := g.VertexOf(site)
	pos := c.P.Pos(site.Pos())
	ie := ast.Unparen(l).(*ast.IndexExpr)
	inner := ast.Unparen(ie.X).(*ast.IndexExpr)
	self := gc.lcOfSNick(inner.Index)
	// automatic op of the channel creator: only on the channel-did-not-exist edge
	if self || isLocalNickOf(gc, inner.Index) {
		if gc.freshChannel(g, v, ch) {
			r.Ok("C13.E1", name, "automatic operator status", pos, "only on the channel-did-not-exist edge")
			return
		}
	}
	cl := c.clausesAt(gc.fi, g, v)
	okPriv := implied(cl, func(l lit) bool { return l.Pos && (gc.isChanop(l.E, ch) || gc.isOper(l.E)) })
	r.Check(okPriv, "C13.E1", name, "write "+astx.Str(l)+" requires chanop or oper", pos, "a dominating clause ⊆ {chanop, s.Operator}",
		"operator status in a channel is granted or revoked on a path where the acting session is neither channel operator nor IRC operator (or, for the automatic op on JOIN, the channel already existed)")
}

// isLocalNickOf: key expression is a local that holds NickToLower(<session>.Nick) (services join paths are not client reachable; kept for symmetry).
func isLocalNickOf(gc *gateCtx, e ast.Expr) bool {
	d := uniqueDef(gc.info, gc.fi.Node(), e)
	return d != nil && gc.lcOfSNick(d)
}

func (c *Ctx) c13Kick(gc *gateCtx, g *cfgx.Graph, site ast.Node, ch ast.Expr, key ast.Expr) {
	v := g.VertexOf(site)
	cl := c.clausesAt(gc.fi, g, v)
	okOp := implied(cl, func(l lit) bool { return l.Pos && gc.isChanop(l.E, ch) })
	okMem := implied(cl, func(l lit) bool { return l.Pos && (gc.isMemberOK(l.E, ch) || gc.isMemberS(l.E, ch)) })
	pos := c.P.Pos(site.Pos())
	c.R.Check(okOp, "C13.E3", gc.fi.Name(), "removing "+astx.Str(key)+" from the channel requires chanop", pos, "dominated by perms[chanop]",
		"another user is removed from a channel without the acting session's channel-operator status having been tested")
	c.R.Check(okMem, "C13.E3", gc.fi.Name(), "removing "+astx.Str(key)+" requires being on the channel", pos, "dominated by the membership look-up",
		"another user is removed from a channel by a session that is not on it")
	// the removal changes the very relation the tests looked at: when it sits in a loop, the tests must be made in that
	// loop's body (a list of targets may contain the acting session itself, after which it is neither member nor operator)
	var loopBody *ast.BlockStmt
	ast.Inspect(gc.fi.Node(), func(n ast.Node) bool {
		var body *ast.BlockStmt
		switch x := n.(type) {
		case *ast.ForStmt:
			body = x.Body
		case *ast.RangeStmt:
			body = x.Body
		}
		if body != nil && body.Pos() <= site.Pos() && site.End() <= body.End() {
			loopBody = body
		}
		return true
	})
	if loopBody != nil {
		var inner [][]lit
		for _, u := range g.V {
			if len(u.Succ) != 2 || u.Succ[0].Cond == nil || u.Succ[0].To == u.Succ[1].To {
				continue
			}
			for _, e := range u.Succ {
				if e.Tag == nil && loopBody.Pos() <= e.Cond.Pos() && e.Cond.End() <= loopBody.End() && g.EdgeDominates(e, v) {
					inner = append(inner, c.clausesOf(gc.info, gc.fi.Node(), e.Cond, e.Val, 0)...)
				}
			}
		}
		okFresh := implied(inner, func(l lit) bool { return l.Pos && gc.isChanop(l.E, ch) })
		c.R.Check(okFresh, "C13.E3", gc.fi.Name(), "the chanop test is repeated for every removal of a loop", pos, "a test inside the loop body dominates the removal",
			"members are removed in a loop while the acting session's channel-operator status was tested once before the loop: once the acting session has removed itself (its own nick in the list) the remaining removals are carried out by somebody who is no longer on the channel")
	}
}

func (c *Ctx) c13Invite(gc *gateCtx, g *cfgx.Graph, site ast.Node, ie *ast.IndexExpr) {
	r := c.R
	name := gc.fi.Name()
	pos := c.P.Pos(site.Pos())
	// channel variable: the one looked up with the same key expression K in i.channels[K]
	var ch ast.Expr
	ast.Inspect(gc.fi.Node(), func(n ast.Node) bool {
		as, ok := n.(*ast.AssignStmt)
		if !ok || len(as.Rhs) != 1 || len(as.Lhs) < 1 {
			return true
		}
		if rie, ok := ast.Unparen(as.Rhs[0]).(*ast.IndexExpr); ok {
			if se, ok := ast.Unparen(rie.X).(*ast.SelectorExpr); ok && astx.FieldSel(gc.info, se) == gc.f.fChannels && astx.Same(gc.info, rie.Index, ie.Index) {
				ch = as.Lhs[0]
			}
		}
		return true
	})
	if ch == nil {
		r.Fail("C13.E4", name, "invitation "+astx.Str(ie), pos, "the invitation is not for a channel looked up under the same key in this function")
		return
	}
	v := g.VertexOf(site)
	cl := c.clausesAt(gc.fi, g, v)
	okMem := implied(cl, func(l lit) bool { return l.Pos && (gc.isMemberOK(l.E, ch) || gc.isMemberS(l.E, ch)) })
	okI := implied(cl, func(l lit) bool {
		return (!l.Pos && gc.isMode(l.E, ch, 'i')) || (l.Pos && gc.isChanop(l.E, ch))
	})
	r.Check(okMem, "C13.E4", name, "inviting requires being on the channel", pos, "dominated by the membership look-up", "a session that is not on the channel can hand out invitations")
	r.Check(okI, "C13.E4", name, "inviting into a +i channel requires chanop", pos, "a dominating clause ⊆ {!modes['i'], chanop}", "an invitation into an invite-only channel is granted without channel-operator status")
}

func (c *Ctx) c13UserMode(gc *gateCtx, g *cfgx.Graph, site ast.Node, target ast.Expr) {
	v := g.VertexOf(site)
	cl := c.clausesAt(gc.fi, g, v)
	// key under which target was looked up
	var key ast.Expr
	if id, ok := ast.Unparen(target).(*ast.Ident); ok {
		for _, d := range defsOf(gc.info, gc.fi.Node(), astx.Obj(gc.info, id)) {
			if ie, ok := ast.Unparen(d).(*ast.IndexExpr); d != nil && ok {
				if se, ok := ast.Unparen(ie.X).(*ast.SelectorExpr); ok && astx.FieldSel(gc.info, se) == gc.f.fNicks {
					key = ie.Index
				}
			}
		}
	}
	isSelf := func(l lit) bool {
		be, ok := ast.Unparen(l.E).(*ast.BinaryExpr)
		if !ok || key == nil {
			return false
		}
		eq := (be.Op == token.EQL && l.Pos) || (be.Op == token.NEQ && !l.Pos)
		if !eq {
			return false
		}
		return (astx.Same(gc.info, be.X, key) && gc.lcOfSNick(be.Y)) || (astx.Same(gc.info, be.Y, key) && gc.lcOfSNick(be.X))
	}
	ok := implied(cl, func(l lit) bool { return isSelf(l) || (l.Pos && gc.isOper(l.E)) })
	c.R.Check(ok, "C13.E5", gc.fi.Name(), "changing modes of "+astx.Str(target)+" requires it to be oneself or oper", c.P.Pos(site.Pos()),
		"a dominating clause ⊆ {target is the acting session, s.Operator}", "user modes of another session can be changed without IRC-operator status")
}

func (c *Ctx) c13BecomeOper(gc *gateCtx, g *cfgx.Graph, site *ast.AssignStmt) {
	r := c.R
	info := gc.info
	v := g.VertexOf(site)
	pos := c.P.Pos(site.Pos())
	// only `= true` matters
	if len(site.Rhs) == 1 {
		if id, ok := ast.Unparen(site.Rhs[0]).(*ast.Ident); ok && id.Name == "false" {
			return
		}
	}
	authVar := c.P.Pkg("ircserver").Types.Scope().Lookup("authOper")
	ok := false
	var call *ast.CallExpr
	for _, f := range g.FactsAt(v) {
		x, isNil, isCmp := nilCompare(info, f)
		if !isCmp || !isNil {
			continue
		}
		id, isID := ast.Unparen(x).(*ast.Ident)
		if !isID {
			continue
		}
		for _, d := range defsOf(info, gc.fi.Node(), astx.Obj(info, id)) {
			if cc, isCall := ast.Unparen(d).(*ast.CallExpr); isCall {
				if fid, isF := ast.Unparen(cc.Fun).(*ast.Ident); isF && authVar != nil && info.Uses[fid] == authVar {
					ok, call = true, cc
				}
				if fn := astx.Callee(info, cc); fn != nil && strings.HasPrefix(fname(fn), "authOper") {
					ok, call = true, cc
				}
			}
		}
	}
	r.Check(ok, "C13.E7", gc.fi.Name(), "operator status only after authOper succeeded", pos, "dominated by the nil-error edge of authOper",
		"a session becomes IRC operator on a path where authOper did not succeed")
	if call != nil && len(call.Args) == 4 {
		mp := gc.f.msgParam(gc.fi)
		fromMsg := func(e ast.Expr) bool {
			if d := uniqueDef(info, gc.fi.Node(), e); d != nil {
				e = d
			}
			b := astx.BaseIdent(e)
			return b != nil && astx.Obj(info, b) == mp
		}
		r.Check(gc.isS(call.Args[1]) && fromMsg(call.Args[2]) && fromMsg(call.Args[3]) && !astx.Same(info, call.Args[2], call.Args[3]), "C13.E7", gc.fi.Name(), "authOper judges the acting session with the supplied name and password", pos,
			"authOper(i, s, <msg name>, <msg password>)", "authOper is not called for the acting session with the name and password taken from the message")
	}
}

func (c *Ctx) c13AuthOper(f *ircFacts) {
	r := c.R
	var fi *load.FuncInfo
	for _, x := range c.P.FuncsIn("ircserver") {
		if x.Var != nil && x.Var.Name() == "authOper" {
			fi = x
		}
	}
	if fi == nil {
		fi = c.P.Func("ircserver.authOper")
	}
	if fi == nil {
		r.Break("ircserver.authOper not found")
		return
	}
	info := fi.Info()
	g := c.LitGraph(fi.Name(), fi.Lit, info)
	if fi.Lit == nil {
		g = c.Graph(fi)
	}
	var params []types.Object
	for _, fld := range fi.FuncType().Params.List {
		for _, nm := range fld.Names {
			params = append(params, info.Defs[nm])
		}
	}
	if len(params) != 4 {
		r.Break("authOper does not have four parameters")
		return
	}
	n := 0
	for _, rv := range g.Returns() {
		rs := rv.Node.(*ast.ReturnStmt)
		if len(rs.Results) != 1 || !isNilIdent(info, rs.Results[0]) {
			continue
		}
		n++
		cl := c.clausesAt(fi, g, rv.ID)
		match := func(field string, p types.Object) bool {
			return implied(cl, func(l lit) bool {
				be, ok := ast.Unparen(l.E).(*ast.BinaryExpr)
				if !ok || !((be.Op == token.EQL && l.Pos) || (be.Op == token.NEQ && !l.Pos)) {
					return false
				}
				chk := func(a, b ast.Expr) bool {
					se, ok := ast.Unparen(a).(*ast.SelectorExpr)
					if !ok || se.Sel.Name != field {
						return false
					}
					if tv, ok := info.Types[se.X]; !ok || !astx.IsNamed(tv.Type, pathConfig, "IRCOp") {
						return false
					}
					id, ok := ast.Unparen(b).(*ast.Ident)
					return ok && astx.Obj(info, id) == p
				}
				return chk(be.X, be.Y) || chk(be.Y, be.X)
			})
		}
		r.Check(match("Name", params[2]) && match("Password", params[3]), "C13.E7", fi.Name(), "accepts only a configured name with its password", c.P.Pos(rs.Pos()),
			"return nil dominated by op.Name == name and op.Password == password", "authOper can accept without both the configured operator name and its password having matched")
		// the operator entry comes from the replicated configuration
		inRange := false
		ast.Inspect(fi.Node(), func(m ast.Node) bool {
			if rg, ok := m.(*ast.RangeStmt); ok && rg.Body.Pos() <= rs.Pos() && rs.End() <= rg.Body.End() {
				if se, ok := ast.Unparen(rg.X).(*ast.SelectorExpr); ok && se.Sel.Name == "Operators" {
					inRange = true
				}
			}
			return true
		})
		r.Check(inRange, "C13.E7", fi.Name(), "operators come from the configuration", c.P.Pos(rs.Pos()), "inside range Config.IRC.Operators", "the accepted operator is not taken from Config.IRC.Operators")
	}
	r.Check(n > 0, "C13.E7", fi.Name(), "has an accepting return", c.P.Pos(fi.Node().Pos()), "found", "authOper never accepts")
}

func (c *Ctx) c13BecomeServer(gc *gateCtx, g *cfgx.Graph, site *ast.AssignStmt) {
	r := c.R
	info := gc.info
	if len(site.Rhs) == 1 {
		if id, ok := ast.Unparen(site.Rhs[0]).(*ast.Ident); ok && id.Name == "false" {
			return
		}
	}
	v := g.VertexOf(site)
	pos := c.P.Pos(site.Pos())
	// a dominating flag variable that is set true only where s.Pass == "services=" + service.Password holds
	ok, why := false, ""
	for _, f := range g.FactsAt(v) {
		if f.Tag != nil || !f.Val {
			continue
		}
		id, isID := ast.Unparen(f.Expr).(*ast.Ident)
		if !isID {
			continue
		}
		o := astx.Obj(info, id)
		sets, good := 0, 0
		ast.Inspect(gc.fi.Node(), func(n ast.Node) bool {
			as, isAs := n.(*ast.AssignStmt)
			if !isAs || len(as.Lhs) != 1 || len(as.Rhs) != 1 {
				return true
			}
			l, isL := as.Lhs[0].(*ast.Ident)
			if !isL || astx.Obj(info, l) != o {
				return true
			}
			rid, isR := ast.Unparen(as.Rhs[0]).(*ast.Ident)
			if isR && rid.Name == "false" {
				return true
			}
			sets++
			cands := []cfgx.Fact{}
			cands = append(cands, g.FactsAt(g.VertexOf(as))...)
			// the flag is assigned the comparison itself
			cands = append(cands, cfgx.Fact{Expr: as.Rhs[0], Val: true})
			for _, f2 := range cands {
				if be, isBE := ast.Unparen(f2.Expr).(*ast.BinaryExpr); isBE && f2.Tag == nil && ((be.Op == token.EQL && f2.Val) || (be.Op == token.NEQ && !f2.Val)) {
					isPass := func(e ast.Expr) bool {
						se, ok := ast.Unparen(e).(*ast.SelectorExpr)
						return ok && se.Sel.Name == "Pass" && gc.isS(se.X)
					}
					isSvc := func(e ast.Expr) bool {
						b, ok := ast.Unparen(e).(*ast.BinaryExpr)
						if !ok || b.Op != token.ADD {
							return false
						}
						s, okS := astx.ConstString(info, b.X)
						se, okP := ast.Unparen(b.Y).(*ast.SelectorExpr)
						if !okS || s != "services=" || !okP || se.Sel.Name != "Password" {
							return false
						}
						tv, okT := info.Types[se.X]
						return okT && astx.IsNamed(tv.Type, pathConfig, "Service")
					}
					if (isPass(be.X) && isSvc(be.Y)) || (isPass(be.Y) && isSvc(be.X)) {
						good++
						break
					}
				}
			}
			return true
		})
		if sets > 0 && sets == good {
			ok, why = true, "dominated by "+id.Name+", set only where s.Pass == \"services=\"+service.Password for a configured service"
		}
	}
	r.Check(ok, "C13.E8", gc.fi.Name(), "server status only with a configured services password", pos, why,
		"a session becomes a services link on a path where its PASS was not compared equal to \"services=\" + a configured service password")
}

// c13Join: membership insert c.nicks[lc(s.Nick)] = … in a client-reachable function.
func (c *Ctx) c13Join(gc *gateCtx, g *cfgx.Graph, site *ast.AssignStmt, l ast.Expr, ch ast.Expr) {
	r := c.R
	info := gc.info
	name := gc.fi.Name()
	ie := ast.Unparen(l).(*ast.IndexExpr)
	if isRenameInsert(gc, site) {
		return // nick rename: C14.M2
	}
	if !gc.lcOfSNick(ie.Index) {
		r.Fail("C13.E9", name, "membership insert "+astx.Str(l), c.P.Pos(site.Pos()), "a session other than the acting one is made a member of a channel by a client command")
		return
	}
	iv := g.VertexOf(site)
	pos := c.P.Pos(site.Pos())
	// the ok edge of the channel look-up
	var okEdge *cfgx.Edge
	var okVar types.Object
	lookupV := -1
	if id, isID := ast.Unparen(ch).(*ast.Ident); isID {
		o := astx.Obj(info, id)
		ast.Inspect(gc.fi.Node(), func(n ast.Node) bool {
			as, isAs := n.(*ast.AssignStmt)
			if isAs && len(as.Lhs) == 2 && len(as.Rhs) == 1 {
				if l0, ok := as.Lhs[0].(*ast.Ident); ok && astx.Obj(info, l0) == o {
					if rie, ok := ast.Unparen(as.Rhs[0]).(*ast.IndexExpr); ok {
						if se, ok := ast.Unparen(rie.X).(*ast.SelectorExpr); ok && astx.FieldSel(info, se) == gc.f.fChannels {
							if l1, ok := as.Lhs[1].(*ast.Ident); ok {
								okVar = astx.Obj(info, l1)
								lookupV = g.VertexOf(as)
							}
						}
					}
				}
			}
			return true
		})
	}
	for _, v := range g.V {
		for _, e := range v.Succ {
			if e.Cond == nil {
				continue
			}
			// !ok with value false, or ok with value true
			x := ast.Unparen(e.Cond)
			val := e.Val
			if u, isU := x.(*ast.UnaryExpr); isU && u.Op == token.NOT {
				x, val = ast.Unparen(u.X), !val
			}
			if id, isID := x.(*ast.Ident); isID && okVar != nil && astx.Obj(info, id) == okVar && val {
				// the test that decides "channel exists" for this insert: its condition dominates the insert
				from := e.From
				if okEdge == nil && g.DominatedBy(iv, func(x *cfgx.Vertex) bool { return x.ID == from }) {
					okEdge = e
				}
			}
		}
	}
	if okEdge == nil {
		r.Fail("C13.E9", name, "channel-exists edge", pos, "no comma-ok look-up of the channel found before the membership insert")
		return
	}
	inv := func(e ast.Expr) bool { // s.invitedTo[K]
		x, ok := ast.Unparen(e).(*ast.IndexExpr)
		if !ok {
			return false
		}
		se, ok := ast.Unparen(x.X).(*ast.SelectorExpr)
		return ok && astx.FieldSel(info, se) == gc.f.fSInvited && gc.isS(se.X)
	}
	passEdges := func(accept func(cl []lit) bool) func(*cfgx.Edge) bool {
		return func(e *cfgx.Edge) bool {
			if e.Cond == nil || e.Tag != nil {
				return false
			}
			for _, cl := range c.clausesOf(info, gc.fi.Node(), e.Cond, e.Val, 0) {
				if accept(cl) {
					return true
				}
			}
			return false
		}
	}
	allLits := func(cl []lit, ok func(l lit) bool) bool {
		if len(cl) == 0 {
			return false
		}
		for _, l := range cl {
			if !ok(l) {
				return false
			}
		}
		return true
	}
	isVerifyNil := func(l lit) bool {
		be, ok := ast.Unparen(l.E).(*ast.BinaryExpr)
		if !ok {
			return false
		}
		x, isNil, ok2 := nilCompare(info, cfgx.Fact{Expr: be, Val: l.Pos})
		if !ok2 || !isNil {
			return false
		}
		id, ok := ast.Unparen(x).(*ast.Ident)
		if !ok {
			return false
		}
		for _, d := range defsOf(info, gc.fi.Node(), astx.Obj(info, id)) {
			if call, ok := ast.Unparen(d).(*ast.CallExpr); ok {
				if fn := astx.Callee(info, call); fn != nil && fname(fn) == "verifyCaptcha" && len(call.Args) == 2 && gc.isS(call.Args[0]) {
					return true
				}
			}
		}
		return false
	}
	isBannedFalse := func(l lit) bool {
		call, ok := ast.Unparen(l.E).(*ast.CallExpr)
		if !ok || l.Pos {
			return false
		}
		fn := astx.Callee(info, call)
		if fn == nil || fname(fn) != "banned" || len(call.Args) < 1 {
			return false
		}
		se, ok := ast.Unparen(call.Args[0]).(*ast.SelectorExpr)
		return ok && astx.FieldSel(info, se) != nil && astx.FieldSel(info, se) == c.P.Field("ircserver", "channel", "bans") && astx.Same(info, se.X, ch)
	}
	isKeyOK := func(l lit) bool {
		be, ok := ast.Unparen(l.E).(*ast.BinaryExpr)
		if !ok {
			return false
		}
		eq := (be.Op == token.EQL && l.Pos) || (be.Op == token.NEQ && !l.Pos)
		if !eq {
			return false
		}
		isKey := func(e ast.Expr) bool {
			se, ok := ast.Unparen(e).(*ast.SelectorExpr)
			return ok && se.Sel.Name == "key" && astx.Same(info, se.X, ch)
		}
		return isKey(be.X) || isKey(be.Y)
	}
	type rule struct {
		what, detail string
		pass         func(*cfgx.Edge) bool
	}
	rules := []rule{
		{"no ban matches", "a session can become member of an existing channel on a path that never evaluates the ban list to 'not banned' (e.g. the +x captcha arm of the else-if chain ends the chain before the ban test)",
			passEdges(func(cl []lit) bool { return allLits(cl, isBannedFalse) })},
		{"invite-only needs an invitation", "a session can join an existing +i channel without holding an invitation",
			passEdges(func(cl []lit) bool {
				return allLits(cl, func(l lit) bool { return (!l.Pos && gc.isMode(l.E, ch, 'i')) || (l.Pos && inv(l.E)) })
			})},
		{"captcha-protected needs an invitation or a valid captcha", "a session can join an existing +x channel without invitation and without verifyCaptcha having succeeded",
			func(e *cfgx.Edge) bool {
				return passEdges(func(cl []lit) bool {
					return allLits(cl, func(l lit) bool { return (!l.Pos && gc.isMode(l.E, ch, 'x')) || (l.Pos && inv(l.E)) })
				})(e) || passEdges(func(cl []lit) bool { return allLits(cl, isVerifyNil) })(e)
			}},
		{"keyed channel needs the exact key (captcha takes its place on +x)", "a session can join an existing +k channel without supplying the exact key and without having passed the captcha arm",
			func(e *cfgx.Edge) bool {
				return passEdges(func(cl []lit) bool {
					return allLits(cl, func(l lit) bool { return (!l.Pos && gc.isMode(l.E, ch, 'k')) || isKeyOK(l) })
				})(e) || passEdges(func(cl []lit) bool { return allLits(cl, isVerifyNil) })(e)
			}},
	}
	for _, ru := range rules {
		// paths within one look-up (one loop iteration): re-executing the look-up starts a new question
		reach := g.Reach(okEdge.To, func(v int) bool { return v == lookupV }, func(e *cfgx.Edge) bool { return ru.pass(e) })
		r.Check(!reach[iv], "C13.E9", name, "joining an existing channel: "+ru.what, pos, "every path from the channel-exists edge to the membership insert passes the test", ru.detail)
	}
	// a used invitation is consumed: on +i/+x the invitation is deleted before the insert
	okDel := g.DominatedBy(iv, func(x *cfgx.Vertex) bool {
		if x.Node == nil {
			return false
		}
		// the delete sits under `if c.modes['i'] || c.modes['x']`; accept the guarding condition vertex as the witness
		found := false
		ast.Inspect(x.Node, func(n ast.Node) bool {
			if e, ok := n.(ast.Expr); ok {
				if be, ok := ast.Unparen(e).(*ast.BinaryExpr); ok && be.Op == token.LOR && gc.isMode(be.X, ch, 'i') && gc.isMode(be.Y, ch, 'x') {
					found = true
				}
			}
			return !found
		})
		return found
	})
	hasDel := false
	ast.Inspect(gc.fi.Body(), func(n ast.Node) bool {
		if call, ok := n.(*ast.CallExpr); ok && astx.Builtin(info, call) == "delete" && len(call.Args) == 2 {
			if se, ok := ast.Unparen(call.Args[0]).(*ast.SelectorExpr); ok && astx.FieldSel(info, se) == gc.f.fSInvited && gc.isS(se.X) {
				v := g.VertexOf(call)
				for _, cl := range c.clausesAt(gc.fi, g, v) {
					if allLits(cl, func(l lit) bool { return l.Pos && (gc.isMode(l.E, ch, 'i') || gc.isMode(l.E, ch, 'x')) }) {
						hasDel = true
					}
				}
			}
		}
		return true
	})
	r.Check(okDel && hasDel, "C13.E9", name, "an invitation is used up by joining", pos, "delete(s.invitedTo, …) under modes['i'] || modes['x'] before the insert",
		"the invitation is not consumed when it is used to join a +i/+x channel: one invitation admits the user again and again")
}

func isRenameInsert(gc *gateCtx, site *ast.AssignStmt) bool {
	// c.nicks[new] = modes inside `if modes, ok := c.nicks[old]; ok`
	if len(site.Rhs) != 1 {
		return false
	}
	d := uniqueDef(gc.info, gc.fi.Node(), site.Rhs[0])
	if d == nil {
		return false
	}
	ie, ok := ast.Unparen(d).(*ast.IndexExpr)
	if !ok {
		return false
	}
	se, ok := ast.Unparen(ie.X).(*ast.SelectorExpr)
	return ok && astx.FieldSel(gc.info, se) == gc.f.fCNicks
}

// c13ServerOnly: services handlers are reachable only through server_ keys, which only server links can address.
func (c *Ctx) c13ServerOnly(f *ircFacts) {
	r := c.R
	pm := f.PM
	if pm == nil {
		r.Break("ProcessMessage not found")
		return
	}
	info := pm.Info()
	_ = c.Graph(pm)
	sp := f.sessionParam(pm)
	_ = sp
	// the dispatch look-up: in ProcessMessage itself, or in a helper it calls with the session's Server flag and the
	// command (parameters are then read as the arguments of that one call)
	cmds := c.P.Pkg("ircserver").Types.Scope().Lookup("Commands")
	n := 0
	analyse := func(fn *load.FuncInfo, bind map[types.Object]ast.Expr) {
		finfo := fn.Info()
		fg := c.Graph(fn)
		// resolve an expression of fn to an expression of ProcessMessage where it is just a bound parameter
		toPM := func(e ast.Expr) (ast.Expr, bool) {
			if id, ok := ast.Unparen(e).(*ast.Ident); ok {
				if a, ok := bind[astx.Obj(finfo, id)]; ok {
					return a, true
				}
			}
			return e, fn == pm
		}
		ast.Inspect(fn.Body(), func(nd ast.Node) bool {
			ie, ok := nd.(*ast.IndexExpr)
			if !ok {
				return true
			}
			id, ok := ast.Unparen(ie.X).(*ast.Ident)
			if !ok || finfo.Uses[id] != cmds {
				return true
			}
			n++
			be, ok := ast.Unparen(ie.Index).(*ast.BinaryExpr)
			okShape := false
			if ok && be.Op == token.ADD {
				pid, ok1 := ast.Unparen(be.X).(*ast.Ident)
				cid, ok2 := ast.Unparen(be.Y).(*ast.Ident)
				if ok1 && ok2 {
					// command is upper-cased input
					upper := false
					isUpper := func(inf *types.Info, d ast.Expr) bool {
						if call, ok := ast.Unparen(d).(*ast.CallExpr); d != nil && ok {
							if fn2 := astx.Callee(inf, call); fn2 != nil && isFunc(fn2, "strings", "ToUpper") {
								return true
							}
						}
						return false
					}
					if d := uniqueDef(finfo, fn.Node(), cid); d != nil {
						upper = isUpper(finfo, d)
					} else if a, bound := toPM(cid); bound && fn != pm {
						if isUpper(info, a) {
							upper = true
						} else if d := uniqueDef(info, pm.Node(), a); d != nil {
							upper = isUpper(info, d)
						}
					}
					// prefix is "server_" only under s.Server
					po := astx.Obj(finfo, pid)
					okPrefix, sets := true, 0
					ast.Inspect(fn.Body(), func(m ast.Node) bool {
						as, ok := m.(*ast.AssignStmt)
						if !ok || len(as.Lhs) != 1 || len(as.Rhs) != 1 {
							return true
						}
						l, ok := as.Lhs[0].(*ast.Ident)
						if !ok || astx.Obj(finfo, l) != po {
							return true
						}
						sets++
						s, isConst := astx.ConstString(finfo, as.Rhs[0])
						if !isConst {
							okPrefix = false
							return true
						}
						if s == "" {
							return true
						}
						if strings.ToUpper(s) == s {
							okPrefix = false // a prefix without lower-case letters could be typed by a client
						}
						guarded := false
						for _, fct := range fg.FactsAt(fg.VertexOf(as)) {
							if !fct.Val || fct.Tag != nil {
								continue
							}
							e, _ := toPM(fct.Expr)
							if se, ok := ast.Unparen(e).(*ast.SelectorExpr); ok && se.Sel.Name == "Server" {
								if tv, ok := info.Types[se.X]; ok && astx.IsNamed(tv.Type, pathIrcsrv, "Session") {
									guarded = true
								} else if tv, ok := finfo.Types[se.X]; ok && astx.IsNamed(tv.Type, pathIrcsrv, "Session") {
									guarded = true
								}
							}
						}
						if !guarded {
							okPrefix = false
						}
						return true
					})
					okShape = upper && okPrefix && sets >= 1
				}
			}
			r.Check(okShape, "C13.E10", pm.Name(), "services commands are addressed only by server links", c.P.Pos(ie.Pos()),
				"key = prefix + ToUpper(command), prefix non-empty (with lower-case letters) only under s.Server",
				"the dispatch key for services commands can be produced for a session that is not an authenticated services link")
			return true
		})
	}
	analyse(pm, nil)
	if n == 0 {
		for _, call := range astx.Calls(pm.Body(), false) {
			fn := astx.Callee(info, call)
			if fn == nil {
				continue
			}
			cal := c.P.FuncOf(fn)
			if cal == nil || cal.Body() == nil || load.ShortPkg(cal.Pkg.PkgPath) != "ircserver" {
				continue
			}
			uses := false
			ast.Inspect(cal.Body(), func(m ast.Node) bool {
				if id, ok := m.(*ast.Ident); ok && cal.Info().Uses[id] == cmds {
					uses = true
				}
				return true
			})
			if !uses {
				continue
			}
			bind := map[types.Object]ast.Expr{}
			k := 0
			for _, fld := range cal.FuncType().Params.List {
				for _, nm := range fld.Names {
					if k < len(call.Args) && len(defsOf(cal.Info(), cal.Node(), cal.Info().Defs[nm])) == 0 {
						bind[cal.Info().Defs[nm]] = call.Args[k]
					}
					k++
				}
			}
			analyse(cal, bind)
		}
	}
	r.Check(n == 1, "C13.E10", pm.Name(), "one dispatch look-up", c.P.Pos(pm.Node().Pos()), "found", "expected exactly one look-up in Commands inside ProcessMessage")
	// server-only functions are referenced nowhere but in the registry / from other server-only functions
	serverOnly := map[*load.FuncInfo]bool{}
	for fi := range f.SReach {
		if !f.CReach[fi] {
			serverOnly[fi] = true
		}
	}
	for fi := range serverOnly {
		if !f.Server[fi] {
			continue
		}
		for _, caller := range c.P.AllFuncs {
			if serverOnly[caller] || caller.Body() == nil {
				continue
			}
			if caller.Decl != nil && caller.Decl.Name.Name == "init" {
				continue
			}
			for _, cal := range c.callees(caller) {
				if cal == fi {
					r.Fail("C13.E10", caller.Name(), "calls services handler "+shortName(fi), c.P.Pos(caller.Node().Pos()), "a services command handler is called from code that clients can reach")
				}
			}
		}
	}
	for _, e := range f.Registry {
		if strings.HasPrefix(e.Key, "server_") {
			r.Ok("C13.E10", "ircserver.init", "key "+e.Key, c.P.Pos(e.Pos), "registered under the server_ prefix")
		} else if e.Handler != nil && serverOnly[e.Handler] {
			r.Fail("C13.E10", "ircserver.init", "key "+e.Key, c.P.Pos(e.Pos), "a handler that is otherwise only reachable for services links is registered under a client key")
		}
	}
	r.Floor("C13.E10", 15)
}

func (c *Ctx) c13Captcha(f *ircFacts) {
	r := c.R
	fi := c.MustFunc("ircserver.(*IRCServer).verifyCaptchaNonEmpty")
	if fi == nil {
		return
	}
	info := fi.Info()
	g := c.Graph(fi)
	n := 0
	for _, rv := range g.Returns() {
		rs := rv.Node.(*ast.ReturnStmt)
		if len(rs.Results) != 1 || !isNilIdent(info, rs.Results[0]) {
			continue
		}
		n++
		pos := c.P.Pos(rs.Pos())
		mac, prefix, age := false, false, false
		for _, fct := range g.FactsAt(rv.ID) {
			if fct.Tag != nil {
				continue
			}
			if call, ok := ast.Unparen(fct.Expr).(*ast.CallExpr); ok {
				fn := astx.Callee(info, call)
				if fn != nil && isFunc(fn, "crypto/hmac", "Equal") && fct.Val {
					mac = true
				}
				if fn != nil && (isFunc(fn, "strings", "HasPrefix") || isFunc(fn, "bytes", "HasPrefix")) && fct.Val && len(call.Args) == 2 {
					arg := ast.Unparen(call.Args[1])
					if conv, ok := arg.(*ast.CallExpr); ok && astx.IsConversion(info, conv) && len(conv.Args) == 1 {
						arg = conv.Args[0] // []byte("okay:")
					}
					if s, ok := astx.ConstString(info, arg); ok && s == "okay:" {
						prefix = true
					}
				}
			}
			if be, ok := ast.Unparen(fct.Expr).(*ast.BinaryExpr); ok && be.Op == token.GTR && !fct.Val {
				// <session>.LastActivity.Sub(<issue time rebuilt from the token>) > limit: the later instant is the receiver
				if call, ok := ast.Unparen(be.X).(*ast.CallExpr); ok && len(call.Args) == 1 {
					if fn := astx.Callee(info, call); fn != nil && fn.FullName() == "(time.Time).Sub" {
						resolve := func(e ast.Expr) ast.Expr {
							if d := uniqueDef(info, fi.Node(), e); d != nil {
								return ast.Unparen(d)
							}
							return ast.Unparen(e)
						}
						recv := resolve(call.Fun.(*ast.SelectorExpr).X)
						arg := resolve(call.Args[0])
						se, isSel := recv.(*ast.SelectorExpr)
						ac, isCall := arg.(*ast.CallExpr)
						if isSel && se.Sel.Name == "LastActivity" && isCall {
							if af := astx.Callee(info, ac); af != nil && af.Pkg() != nil && af.Pkg().Path() == "time" && strings.HasPrefix(af.Name(), "Unix") {
								age = true
							}
						}
					}
				}
			}
		}
		r.Check(mac, "C13.E11", fi.Name(), "accepts only a token with a valid MAC", pos, "dominated by hmac.Equal(...)", "a captcha token is accepted without its MAC having been verified with hmac.Equal")
		r.Check(prefix, "C13.E11", fi.Name(), "accepts only solved challenges", pos, "dominated by HasPrefix(purpose, \"okay:\")", "a captcha token is accepted without the okay: purpose prefix (an unsolved challenge can be replayed)")
		r.Check(age, "C13.E11", fi.Name(), "accepts only recent challenges", pos, "dominated by !(<session>.LastActivity.Sub(<issue time>) > limit)", "a captcha token is accepted regardless of its age (no age test, or the operands of the subtraction are swapped so that the difference is never positive)")
	}
	r.Check(n > 0, "C13.E11", fi.Name(), "has an accepting return", c.P.Pos(fi.Node().Pos()), "found", "verifyCaptchaNonEmpty never accepts")
	// the token's issue time is decoded the way the challenge writers encode it
	{
		gen := c.P.Func("ircserver.(*IRCServer).generateCaptchaURL")
		encs := map[string]bool{}
		for _, caller := range c.P.FuncsIn("ircserver") {
			for _, call := range callsIn(caller, func(fn *types.Func, _ *ast.CallExpr) bool { return gen != nil && fn == gen.Obj }) {
				for _, cc := range astx.Calls(call, false) {
					if fn := astx.Callee(caller.Info(), cc); fn != nil && astx.RecvNamed(fn) != nil && astx.RecvNamed(fn).Obj().Pkg().Path() == "time" && strings.HasPrefix(fn.Name(), "Unix") {
						encs[fn.Name()] = true
					}
				}
			}
		}
		dec := ""
		for _, call := range astx.Calls(fi.Body(), false) {
			fn := astx.Callee(info, call)
			if fn == nil || !isFunc(fn, "time", "Unix") || len(call.Args) != 2 {
				continue
			}
			z0, ok0 := astx.ConstInt(info, call.Args[0])
			z1, ok1 := astx.ConstInt(info, call.Args[1])
			switch {
			case ok0 && z0 == 0 && !ok1:
				dec = "UnixNano"
			case ok1 && z1 == 0 && !ok0:
				dec = "Unix"
			}
		}
		if len(encs) > 0 {
			r.Check(len(encs) == 1 && encs[dec], "C13.E11", fi.Name(), "issue time decoded in the unit it was encoded in", c.P.Pos(fi.Node().Pos()), "writers use LastActivity."+dec+"(), reader rebuilds with the matching time.Unix form",
				"the captcha challenge writers and verifyCaptchaNonEmpty disagree on the unit of the issue time (seconds vs nanoseconds): the age test never (or always) fires")
		}
	}
	// the MAC key is the network secret, over purpose and challenge
	secret := c.P.Field("config", "Network", "CaptchaHMACSecret")
	usesSecret := false
	for _, call := range astx.Calls(fi.Body(), false) {
		if fn := astx.Callee(info, call); fn != nil && isFunc(fn, "crypto/hmac", "New") && len(call.Args) == 2 && mentionsField(info, call.Args[1], secret) {
			usesSecret = true
		}
	}
	r.Check(usesSecret, "C13.E11", fi.Name(), "MAC keyed with the network secret", c.P.Pos(fi.Node().Pos()), "hmac.New(sha256.New, Config.CaptchaHMACSecret)", "the captcha MAC is not keyed with the configured network secret")
}

// c13BanStored (E12): "a channel ban keeps a session out" presupposes that setting a ban puts it on the list: in ban(), every
// successful return on the add edge has passed the append to channel.bans; banBoth applies the resolved-address form whenever
// it differs.
func (c *Ctx) c13BanStored() {
	r := c.R
	fi := c.MustFunc("ircserver.ban")
	bansF := c.P.Field("ircserver", "channel", "bans")
	if fi == nil || fi.Body() == nil || bansF == nil {
		return
	}
	info := fi.Info()
	g := c.Graph(fi)
	var addParam types.Object
	sig := fi.Obj.Type().(*types.Signature)
	for k := 0; k < sig.Params().Len(); k++ {
		if b, ok := sig.Params().At(k).Type().Underlying().(*types.Basic); ok && b.Kind() == types.Bool {
			addParam = sig.Params().At(k)
		}
	}
	if addParam == nil {
		r.Break("C13.E12: ban() has no boolean parameter")
		return
	}
	isAppend := func(v int) bool {
		as, ok := g.V[v].Node.(*ast.AssignStmt)
		if !ok || len(as.Lhs) != 1 || len(as.Rhs) != 1 {
			return false
		}
		se, ok := ast.Unparen(as.Lhs[0]).(*ast.SelectorExpr)
		if !ok || astx.FieldSel(info, se) != bansF {
			return false
		}
		call, ok := ast.Unparen(as.Rhs[0]).(*ast.CallExpr)
		return ok && astx.Builtin(info, call) == "append" && len(call.Args) >= 2 && astx.Same(info, call.Args[0], as.Lhs[0])
	}
	n := 0
	for _, v := range g.V {
		for _, e := range v.Succ {
			id, ok := ast.Unparen(e.Cond).(*ast.Ident)
			if e.Cond == nil || !ok || astx.Obj(info, id) != addParam || !e.Val {
				continue
			}
			n++
			reach := g.Reach(e.To, isAppend, nil)
			bad := token.NoPos
			for _, rv := range g.Returns() {
				rs := rv.Node.(*ast.ReturnStmt)
				if isAppend(e.To) || !reach[rv.ID] || len(rs.Results) != 1 {
					continue
				}
				if rid, ok := ast.Unparen(rs.Results[0]).(*ast.Ident); ok && rid.Name == "nil" {
					bad = rs.Pos()
				}
			}
			pos := fi.Node().Pos()
			if bad.IsValid() {
				pos = bad
			}
			r.Check(!bad.IsValid(), "C13.E12", fi.Name(), "setting a ban appends it to the channel's ban list", c.P.Pos(pos), "every successful return on the add edge has passed the append",
				"ban() can report success for a ban it did not store: banBoth sets the literal mask and the resolved-address form under the same mask, so a test like 'already on the list' swallows the address form and the banned person walks back in with a fresh session")
		}
	}
	if n == 0 {
		r.Break("C13.E12: no branch on the add parameter found in ban()")
	}
	// banBoth files the mask as written and, whenever it differs, the mask with the session resolved to its address
	if bb := c.MustFunc("ircserver.banBoth"); bb != nil && bb.Body() != nil {
		bi := bb.Info()
		bg := c.Graph(bb)
		var calls []*ast.CallExpr
		for _, call := range astx.Calls(bb.Body(), false) {
			if astx.Callee(bi, call) == fi.Obj {
				calls = append(calls, call)
			}
		}
		okShape := len(calls) == 2
		if okShape {
			first, second := calls[0], calls[1]
			v1, v2 := bg.VertexOf(first), bg.VertexOf(second)
			// the first is unconditional, the second sits under <a> != <b> of two string parameters and behind the first
			okShape = len(bg.CondsAt(v1)) == 0 && bg.DominatedBy(v2, func(x *cfgx.Vertex) bool { return x.ID == v1 })
			okNE := false
			for _, f := range bg.FactsAt(v2) {
				if be, ok := ast.Unparen(f.Expr).(*ast.BinaryExpr); ok && f.Tag == nil && ((be.Op == token.NEQ && f.Val) || (be.Op == token.EQL && !f.Val)) {
					if len(second.Args) >= 4 && len(first.Args) >= 4 {
						a, b := first.Args[len(first.Args)-1], second.Args[len(second.Args)-1]
						if (astx.Same(bi, be.X, a) && astx.Same(bi, be.Y, b)) || (astx.Same(bi, be.X, b) && astx.Same(bi, be.Y, a)) {
							okNE = true
						}
					}
				}
			}
			okShape = okShape && okNE
		}
		r.Check(okShape, "C13.E12", bb.Name(), "both forms of a ban are filed: as written, and resolved whenever that differs", c.P.Pos(bb.Node().Pos()), "ban(pattern) unconditionally, ban(patternAddr) under patternAddr != pattern",
			"banBoth does not file the resolved-address form of a ban exactly when it differs from the written one: a ban by cloak no longer covers the person's address (or is filed twice)")
		c.errorDiscipline("C13.E12", bb, "a ban mask that does not compile is reported as set")
	}
}

// c13BanReference (E12b): the session reference in a ban mask ("robust/0x<hex id>") is parsed the way the cloak is written:
// what reaches strconv.ParseInt is the text behind the searched marker minus the skipped part, so with base 0 the skipped
// part must leave exactly "0x" in front of the digits and with base 16 nothing. Decided from the constants in the code.
func (c *Ctx) c13BanReference() {
	r := c.R
	fi := c.MustFunc("ircserver.(*IRCServer).resolveSessionToRemoteAddrLocked")
	if fi == nil || fi.Body() == nil {
		return
	}
	info := fi.Info()
	constStr := func(e ast.Expr) (string, bool) {
		tv, ok := info.Types[e]
		if !ok || tv.Value == nil || tv.Value.Kind() != constant.String {
			return "", false
		}
		return constant.StringVal(tv.Value), true
	}
	needle, idxObj := "", types.Object(nil)
	ast.Inspect(fi.Body(), func(n ast.Node) bool {
		as, ok := n.(*ast.AssignStmt)
		if !ok || len(as.Lhs) != 1 || len(as.Rhs) != 1 {
			return true
		}
		call, ok := ast.Unparen(as.Rhs[0]).(*ast.CallExpr)
		if !ok || len(call.Args) != 2 {
			return true
		}
		if fn := astx.Callee(info, call); fn != nil && fn.Pkg() != nil && fn.Pkg().Path() == "strings" && fn.Name() == "Index" {
			if s, ok := constStr(call.Args[1]); ok {
				if id, ok := as.Lhs[0].(*ast.Ident); ok {
					needle, idxObj = s, astx.Obj(info, id)
				}
			}
		}
		return true
	})
	decided := false
	for _, call := range astx.Calls(fi.Body(), false) {
		fn := astx.Callee(info, call)
		if fn == nil || fn.Pkg() == nil || fn.Pkg().Path() != "strconv" || (fn.Name() != "ParseInt" && fn.Name() != "ParseUint") || len(call.Args) != 3 {
			continue
		}
		base, okB := astx.ConstInt(info, call.Args[1])
		sl, okS := ast.Unparen(call.Args[0]).(*ast.SliceExpr)
		if !okB || !okS || sl.Low == nil || sl.High != nil || idxObj == nil {
			continue
		}
		be, ok := ast.Unparen(sl.Low).(*ast.BinaryExpr)
		if !ok || be.Op != token.ADD {
			continue
		}
		x, y := ast.Unparen(be.X), ast.Unparen(be.Y)
		if id, ok := y.(*ast.Ident); ok && astx.Obj(info, id) == idxObj {
			x, y = y, x
		}
		id, ok := x.(*ast.Ident)
		if !ok || astx.Obj(info, id) != idxObj {
			continue
		}
		off, ok := astx.ConstInt(info, y)
		if !ok || off < 0 || int(off) > len(needle) {
			continue
		}
		decided = true
		rest := needle[off:]
		good := base == 0 && (rest == "0x" || rest == "0X") || base == 16 && rest == ""
		r.Check(good, "C13.E12", fi.Name(), "the session id in a ban mask is parsed as it is written (hexadecimal behind the marker)", c.P.Pos(call.Pos()),
			"marker "+strconv.Quote(needle)+", skipped "+itoa(int(off))+" bytes, base "+itoa(int(base))+": digits are preceded by "+strconv.Quote(rest),
			"the text handed to "+fn.Name()+" does not match the base it is parsed in (base 0 needs the 0x prefix kept, base 16 needs it skipped): the id never parses or names another session, the mask is stored unresolved and a ban by cloak no longer covers the person's address")
	}
	if !decided {
		r.Assume("C13.E12", fi.Name(), "session reference parsing", c.P.Pos(fi.Node().Pos()), "shape not recognised (no strings.Index marker + ParseInt on the remainder): not decided")
	}
}

// c13OperFlagPair (E7b): operator status is kept twice — Session.Operator (what the privilege tests read) and the user mode
// 'o' (what the server reports). A statement that writes one of them is accompanied, in the same function and for the same
// session, by a write of the other with the same value.
func (c *Ctx) c13OperFlagPair(f *ircFacts) {
	r := c.R
	opF := c.P.Field("ircserver", "Session", "Operator")
	modesF := c.P.Field("ircserver", "Session", "modes")
	if opF == nil || modesF == nil {
		return
	}
	n := 0
	for _, fi := range c.P.FuncsIn("ircserver") {
		if fi.Body() == nil || fi.Name() == "ircserver.(*IRCServer).Unmarshal" {
			continue
		}
		info := fi.Info()
		type w struct {
			recv ast.Expr
			val  ast.Expr
			node ast.Node
		}
		var ops, modes []w
		ast.Inspect(fi.Body(), func(nd ast.Node) bool {
			as, ok := nd.(*ast.AssignStmt)
			if !ok || len(as.Lhs) != len(as.Rhs) {
				return true
			}
			for k, l := range as.Lhs {
				if se, ok := ast.Unparen(l).(*ast.SelectorExpr); ok && astx.FieldSel(info, se) == opF {
					ops = append(ops, w{se.X, as.Rhs[k], as})
				}
				if ie, ok := ast.Unparen(l).(*ast.IndexExpr); ok {
					if se, ok := ast.Unparen(ie.X).(*ast.SelectorExpr); ok && astx.FieldSel(info, se) == modesF {
						if z, ok := astx.ConstInt(info, ie.Index); ok && z == 'o' {
							modes = append(modes, w{se.X, as.Rhs[k], as})
						} else if !ok {
							// modes[char] = … under a case 'o' of a switch on char
							if id, isID := ast.Unparen(ie.Index).(*ast.Ident); isID {
								g := c.Graph(fi)
								for _, fct := range g.FactsAt(g.VertexOf(as)) {
									if fct.Tag != nil && fct.Val {
										if tid, ok := ast.Unparen(fct.Tag).(*ast.Ident); ok && astx.Obj(info, tid) == astx.Obj(info, id) {
											if z, ok := astx.ConstInt(info, fct.Expr); ok && z == 'o' {
												modes = append(modes, w{se.X, as.Rhs[k], as})
											}
										}
									}
								}
							}
						}
					}
				}
			}
			return true
		})
		for _, m := range modes {
			n++
			ok := false
			for _, o := range ops {
				if astx.Same(info, o.recv, m.recv) {
					ok = true
				}
			}
			r.Check(ok, "C13.E7", fi.Name(), "user mode 'o' and Session.Operator are written together", c.P.Pos(m.node.Pos()), "the same function writes <session>.Operator",
				"the reported operator mode of a session is changed without its Operator flag (which KILL, GLINE and the other privilege tests read): the server shows the session without 'o' while it keeps every operator privilege")
		}
		for _, o := range ops {
			n++
			ok := false
			for _, m := range modes {
				if astx.Same(info, o.recv, m.recv) {
					ok = true
				}
			}
			r.Check(ok, "C13.E7", fi.Name(), "Session.Operator and user mode 'o' are written together", c.P.Pos(o.node.Pos()), "the same function writes <session>.modes['o']",
				"a session's Operator flag is changed without the user mode 'o' that the server reports")
		}
	}
	if n < 2 {
		r.Break("C13.E7: only %d writes of operator status found", n)
	}
}
