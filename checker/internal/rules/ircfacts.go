package rules

import (
	"go/ast"
	"go/token"
	"go/types"
	"sort"
	"strings"

	"verif/checker/internal/astx"
	"verif/checker/internal/cfgx"
	"verif/checker/internal/load"
)

// regEntry is one key of the ircserver command registry.
type regEntry struct {
	Key         string
	Handler     *load.FuncInfo // nil when the handler is an inline function literal
	Lit         *ast.FuncLit
	MinParams   int
	Pos         token.Pos
	TestingOnly bool // registered under an os.Getenv(...) test
	AliasOf     string
}

// ircFacts are the slots of DESIGN.md section 2 for package ircserver, derived from the tree.
type ircFacts struct {
	info     *types.Info
	Registry []regEntry
	Client   map[*load.FuncInfo]bool // handlers registered under keys without the server_ prefix
	Server   map[*load.FuncInfo]bool // handlers registered under server_ keys
	CReach   map[*load.FuncInfo]bool // call closure of ProcessMessage + client handlers
	SReach   map[*load.FuncInfo]bool // call closure of server handlers
	PM       *load.FuncInfo

	fSessions, fNicks, fChannels, fSvsholds, fServerSessions *types.Var
	fSChannels, fSInvited, fCNicks                           *types.Var
	tSession, tChannel, tIRCServer                           *types.Named
	sendHelpers                                              map[*types.Func]bool
	send                                                     *load.FuncInfo
}

// callees returns the module functions called from fi (static calls and calls through package-level function variables).
func (c *Ctx) callees(fi *load.FuncInfo) []*load.FuncInfo {
	var out []*load.FuncInfo
	if fi == nil || fi.Body() == nil {
		return nil
	}
	info := fi.Info()
	seen := map[*load.FuncInfo]bool{}
	for _, call := range astx.Calls(fi.Body(), true) {
		var cal *load.FuncInfo
		if fn := astx.Callee(info, call); fn != nil {
			cal = c.P.FuncOf(fn)
		} else if id, ok := ast.Unparen(call.Fun).(*ast.Ident); ok {
			if v, ok := info.Uses[id].(*types.Var); ok {
				cal = c.P.VarFunc(v)
			}
		}
		if cal != nil && !seen[cal] {
			seen[cal] = true
			out = append(out, cal)
		}
	}
	// functions held by a package-level table (a map, slice or struct of function values) that fi mentions
	for _, cal := range c.tableCallees(fi) {
		if !seen[cal] {
			seen[cal] = true
			out = append(out, cal)
		}
	}
	return out
}

// funcTables maps every package-level variable of the module whose initializer mentions module functions (as function
// names, method expressions or method values) to those functions: whoever gets at the variable can call them.
func (c *Ctx) funcTables() map[*types.Var][]*load.FuncInfo {
	if c.tables != nil {
		return c.tables
	}
	c.tables = map[*types.Var][]*load.FuncInfo{}
	for _, pkg := range c.P.Pkgs {
		info := pkg.TypesInfo
		for _, f := range pkg.Syntax {
			for _, d := range f.Decls {
				gd, ok := d.(*ast.GenDecl)
				if !ok || gd.Tok != token.VAR {
					continue
				}
				for _, sp := range gd.Specs {
					vs, ok := sp.(*ast.ValueSpec)
					if !ok {
						continue
					}
					for i, name := range vs.Names {
						if i >= len(vs.Values) {
							continue
						}
						if _, isLit := vs.Values[i].(*ast.FuncLit); isLit {
							continue // a function variable: VarFunc
						}
						v, _ := info.Defs[name].(*types.Var)
						if v == nil {
							continue
						}
						seen := map[*load.FuncInfo]bool{}
						ast.Inspect(vs.Values[i], func(n ast.Node) bool {
							if _, isLit := n.(*ast.FuncLit); isLit {
								return false
							}
							if id, ok := n.(*ast.Ident); ok {
								if fn, ok := info.Uses[id].(*types.Func); ok {
									if fi := c.P.FuncOf(fn); fi != nil && !seen[fi] {
										seen[fi] = true
										c.tables[v] = append(c.tables[v], fi)
									}
								}
							}
							return true
						})
					}
				}
			}
		}
	}
	return c.tables
}

// tableCallees returns the functions of the tables fi mentions.
func (c *Ctx) tableCallees(fi *load.FuncInfo) []*load.FuncInfo {
	tabs := c.funcTables()
	if len(tabs) == 0 || fi == nil || fi.Body() == nil {
		return nil
	}
	var out []*load.FuncInfo
	info := fi.Info()
	ast.Inspect(fi.Body(), func(n ast.Node) bool {
		if id, ok := n.(*ast.Ident); ok {
			if v, ok := info.Uses[id].(*types.Var); ok {
				out = append(out, tabs[v]...)
			}
		}
		return true
	})
	return out
}

func (c *Ctx) closure(roots []*load.FuncInfo) map[*load.FuncInfo]bool {
	seen := map[*load.FuncInfo]bool{}
	var visit func(fi *load.FuncInfo)
	visit = func(fi *load.FuncInfo) {
		if fi == nil || seen[fi] {
			return
		}
		seen[fi] = true
		for _, cal := range c.callees(fi) {
			visit(cal)
		}
	}
	for _, r := range roots {
		visit(r)
	}
	return seen
}

// irc computes (once) the ircserver facts.
func (c *Ctx) irc() *ircFacts {
	if c.ircF != nil {
		return c.ircF
	}
	f := &ircFacts{Client: map[*load.FuncInfo]bool{}, Server: map[*load.FuncInfo]bool{}, sendHelpers: map[*types.Func]bool{}}
	c.ircF = f
	pkg := c.P.Pkg("ircserver")
	if pkg == nil {
		c.R.Break("package ircserver not loaded")
		return f
	}
	f.info = pkg.TypesInfo
	cmds := pkg.Types.Scope().Lookup("Commands")
	if cmds == nil {
		c.R.Break("ircserver.Commands not found")
		return f
	}
	litOf := func(fi *load.FuncInfo, e ast.Expr) *ast.CompositeLit {
		e = ast.Unparen(e)
		if u, ok := e.(*ast.UnaryExpr); ok && u.Op == token.AND {
			e = ast.Unparen(u.X)
		}
		if cl, ok := e.(*ast.CompositeLit); ok {
			return cl
		}
		if d := uniqueDef(f.info, fi.Node(), e); d != nil {
			d = ast.Unparen(d)
			if u, ok := d.(*ast.UnaryExpr); ok && u.Op == token.AND {
				d = ast.Unparen(u.X)
			}
			if cl, ok := d.(*ast.CompositeLit); ok {
				return cl
			}
		}
		return nil
	}
	for _, fi := range c.P.FuncsIn("ircserver") {
		if fi.Decl == nil || fi.Decl.Name.Name != "init" || fi.Decl.Recv != nil || fi.Body() == nil {
			continue
		}
		g := c.Graph(fi)
		for _, v := range g.Nodes() {
			as, ok := v.Node.(*ast.AssignStmt)
			if !ok || len(as.Lhs) != 1 || len(as.Rhs) != 1 {
				continue
			}
			ie, ok := ast.Unparen(as.Lhs[0]).(*ast.IndexExpr)
			if !ok {
				continue
			}
			id, ok := ast.Unparen(ie.X).(*ast.Ident)
			if !ok || f.info.Uses[id] != cmds {
				continue
			}
			key, ok := astx.ConstString(f.info, ie.Index)
			if !ok {
				c.R.Break("registry key at %s is not a constant string", c.P.Pos(ie.Pos()))
				continue
			}
			e := regEntry{Key: key, Pos: as.Pos()}
			for _, fact := range g.FactsAt(v.ID) {
				for _, call := range astx.Calls(fact.Expr, false) {
					if fn := astx.Callee(f.info, call); fn != nil && isFunc(fn, "os", "Getenv") {
						e.TestingOnly = true
					}
				}
			}
			// alias: Commands[a] = Commands[b]
			if rie, ok := ast.Unparen(as.Rhs[0]).(*ast.IndexExpr); ok {
				if rid, ok := ast.Unparen(rie.X).(*ast.Ident); ok && f.info.Uses[rid] == cmds {
					if k2, ok := astx.ConstString(f.info, rie.Index); ok {
						e.AliasOf = k2
						f.Registry = append(f.Registry, e)
						continue
					}
				}
			}
			cl := litOf(fi, as.Rhs[0])
			if cl == nil {
				c.R.Break("registry entry %q at %s: value is not an ircCommand literal", key, c.P.Pos(as.Pos()))
				continue
			}
			if mp := litField(cl, "MinParams"); mp != nil {
				if n, ok := astx.ConstInt(f.info, mp); ok {
					e.MinParams = int(n)
				} else {
					c.R.Break("registry entry %q: MinParams is not constant", key)
				}
			}
			switch fv := ast.Unparen(litField(cl, "Func")).(type) {
			case *ast.FuncLit:
				e.Lit = fv
			case *ast.SelectorExpr:
				if sel, ok := f.info.Selections[fv]; ok {
					if m, ok := sel.Obj().(*types.Func); ok {
						e.Handler = c.P.FuncOf(m)
					}
				}
			case *ast.Ident:
				if fn, ok := f.info.Uses[fv].(*types.Func); ok {
					e.Handler = c.P.FuncOf(fn)
				}
			}
			if e.Handler == nil && e.Lit == nil {
				c.R.Break("registry entry %q at %s: handler not resolved", key, c.P.Pos(as.Pos()))
			}
			f.Registry = append(f.Registry, e)
		}
	}
	// resolve aliases
	byKey := map[string]*regEntry{}
	for i := range f.Registry {
		if f.Registry[i].AliasOf == "" {
			byKey[f.Registry[i].Key] = &f.Registry[i]
		}
	}
	for i := range f.Registry {
		if a := f.Registry[i].AliasOf; a != "" {
			if t := byKey[a]; t != nil {
				f.Registry[i].Handler, f.Registry[i].Lit, f.Registry[i].MinParams = t.Handler, t.Lit, t.MinParams
			} else {
				c.R.Break("registry alias %q -> %q not resolved", f.Registry[i].Key, a)
			}
		}
	}
	sort.Slice(f.Registry, func(i, j int) bool { return f.Registry[i].Key < f.Registry[j].Key })
	for _, e := range f.Registry {
		if e.Handler == nil || e.TestingOnly {
			continue
		}
		if strings.HasPrefix(e.Key, "server_") {
			f.Server[e.Handler] = true
		} else {
			f.Client[e.Handler] = true
		}
	}
	f.PM = c.P.Func("ircserver.(*IRCServer).ProcessMessage")
	var cr, sr []*load.FuncInfo
	cr = append(cr, f.PM)
	for h := range f.Client {
		cr = append(cr, h)
	}
	for h := range f.Server {
		sr = append(sr, h)
	}
	f.CReach = c.closure(cr)
	f.SReach = c.closure(sr)

	f.tSession, f.tChannel, f.tIRCServer = c.P.Named("ircserver", "Session"), c.P.Named("ircserver", "channel"), c.P.Named("ircserver", "IRCServer")
	f.fSessions = c.P.Field("ircserver", "IRCServer", "sessions")
	f.fNicks = c.P.Field("ircserver", "IRCServer", "nicks")
	f.fChannels = c.P.Field("ircserver", "IRCServer", "channels")
	f.fSvsholds = c.P.Field("ircserver", "IRCServer", "svsholds")
	f.fServerSessions = c.P.Field("ircserver", "IRCServer", "serverSessions")
	f.fSChannels = c.P.Field("ircserver", "Session", "Channels")
	f.fSInvited = c.P.Field("ircserver", "Session", "invitedTo")
	f.fCNicks = c.P.Field("ircserver", "channel", "nicks")
	for _, v := range []*types.Var{f.fSessions, f.fNicks, f.fChannels, f.fSvsholds, f.fServerSessions, f.fSChannels, f.fSInvited, f.fCNicks} {
		if v == nil {
			c.R.Break("an ircserver state field was not found (sessions/nicks/channels/svsholds/serverSessions/Channels/invitedTo/channel.nicks)")
			break
		}
	}
	// send helpers: functions of package ircserver that assign into robust.Message.InterestingFor
	ifor := c.P.Field("robust", "Message", "InterestingFor")
	for _, fi := range c.P.FuncsIn("ircserver") {
		if fi.Obj == nil || fi.Body() == nil {
			continue
		}
		w := false
		ast.Inspect(fi.Body(), func(n ast.Node) bool {
			if as, ok := n.(*ast.AssignStmt); ok {
				for _, l := range as.Lhs {
					if ie, ok := ast.Unparen(l).(*ast.IndexExpr); ok && isFieldMap(fi.Info(), fi.Node(), ie.X, ifor) {
						w = true
					}
				}
			}
			return true
		})
		if w {
			f.sendHelpers[fi.Obj] = true
		}
	}
	f.send = c.P.Func("ircserver.(*IRCServer).send")
	return f
}

// sessionParam returns the acting-session parameter (first parameter of type *Session) of a handler-shaped function.
func (f *ircFacts) sessionParam(fi *load.FuncInfo) types.Object {
	if o := paramOfType(fi, pathIrcsrv, "Session"); o != nil {
		return o
	}
	// ProcessMessage: the acting session is the local looked up under msg.Session
	var out types.Object
	if fi.Body() == nil {
		return nil
	}
	info := fi.Info()
	ast.Inspect(fi.Body(), func(n ast.Node) bool {
		as, ok := n.(*ast.AssignStmt)
		if !ok || len(as.Rhs) != 1 || len(as.Lhs) < 1 || out != nil {
			return true
		}
		ie, ok := ast.Unparen(as.Rhs[0]).(*ast.IndexExpr)
		if !ok {
			return true
		}
		se, ok := ast.Unparen(ie.X).(*ast.SelectorExpr)
		if !ok || astx.FieldSel(info, se) != f.fSessions {
			return true
		}
		if ks, ok := ast.Unparen(ie.Index).(*ast.SelectorExpr); ok && ks.Sel.Name == "Session" {
			if id, ok := as.Lhs[0].(*ast.Ident); ok {
				out = astx.Obj(info, id)
			}
		}
		return true
	})
	return out
}

// msgParam returns the *irc.Message parameter.
func (f *ircFacts) msgParam(fi *load.FuncInfo) types.Object {
	return paramOfType(fi, pathIRC, "Message")
}

func sortedFuncs(m map[*load.FuncInfo]bool) []*load.FuncInfo {
	var out []*load.FuncInfo
	for fi := range m {
		out = append(out, fi)
	}
	sort.Slice(out, func(i, j int) bool { return out[i].Name() < out[j].Name() })
	return out
}

// ---------- propositional normalisation of facts

// lit is a literal: an atomic expression with a polarity.
type clauseLit = lit

type lit struct {
	E   ast.Expr
	Pos bool
}

// clausesOf turns (expr, val) into clauses (each a disjunction of literals) that hold.
// Local boolean variables with a single definition are replaced by their defining expression.
func (c *Ctx) clausesOf(info *types.Info, root ast.Node, e ast.Expr, val bool, depth int) [][]lit {
	e = ast.Unparen(e)
	if depth > 4 {
		return [][]lit{{{e, val}}}
	}
	switch x := e.(type) {
	case *ast.UnaryExpr:
		if x.Op == token.NOT {
			return c.clausesOf(info, root, x.X, !val, depth)
		}
	case *ast.BinaryExpr:
		if (x.Op == token.LAND && val) || (x.Op == token.LOR && !val) {
			return append(c.clausesOf(info, root, x.X, val, depth), c.clausesOf(info, root, x.Y, val, depth)...)
		}
		if (x.Op == token.LOR && val) || (x.Op == token.LAND && !val) {
			a, okA := c.disjunctionOf(info, root, x.X, val, depth)
			b, okB := c.disjunctionOf(info, root, x.Y, val, depth)
			if okA && okB {
				return [][]lit{append(a, b...)}
			}
			return nil
		}
	case *ast.Ident:
		if tv, ok := info.Types[x]; ok {
			if b, ok := tv.Type.Underlying().(*types.Basic); ok && b.Kind() == types.Bool {
				if d := uniqueDef(info, root, x); d != nil {
					if _, isIdx := ast.Unparen(d).(*ast.IndexExpr); !isIdx { // keep comma-ok variables atomic
						if _, isTA := ast.Unparen(d).(*ast.TypeAssertExpr); !isTA {
							if _, isCall := ast.Unparen(d).(*ast.CallExpr); !isCall {
								return c.clausesOf(info, root, d, val, depth+1)
							}
						}
					}
				}
			}
		}
	}
	return [][]lit{{{e, val}}}
}

// disjunctionOf returns the literals of e (with value val) when it is a pure disjunction.
func (c *Ctx) disjunctionOf(info *types.Info, root ast.Node, e ast.Expr, val bool, depth int) ([]lit, bool) {
	cl := c.clausesOf(info, root, e, val, depth)
	if len(cl) == 1 {
		return cl[0], true
	}
	return nil, false
}

// clausesAt returns all clauses that hold at vertex v (from the unexpanded dominating conditions).
func (c *Ctx) clausesAt(fi *load.FuncInfo, g *cfgx.Graph, v int) [][]lit {
	var out [][]lit
	for _, f := range g.CondsAt(v) {
		if f.Tag != nil {
			continue
		}
		out = append(out, c.clausesOf(fi.Info(), fi.Node(), f.Expr, f.Val, 0)...)
	}
	return out
}

// implied reports whether some clause consists only of literals accepted by ok (i.e. the clause implies the gate disjunction).
func implied(clauses [][]lit, ok func(l lit) bool) bool {
	for _, cl := range clauses {
		if len(cl) == 0 {
			continue
		}
		all := true
		for _, l := range cl {
			if !ok(l) {
				all = false
				break
			}
		}
		if all {
			return true
		}
	}
	return false
}

// isFieldMap: e denotes the map held in field fv of some value — `x.f` itself, or a local that is defined once as `x.f`
// (recipients := msg.InterestingFor): writing through the local writes the field's map.
func isFieldMap(info *types.Info, root ast.Node, e ast.Expr, fv *types.Var) bool {
	e = ast.Unparen(e)
	if id, ok := e.(*ast.Ident); ok {
		if d := uniqueDef(info, root, id); d != nil {
			e = ast.Unparen(d)
		}
	}
	se, ok := e.(*ast.SelectorExpr)
	return ok && fv != nil && astx.FieldSel(info, se) == fv
}
