package rules

import (
	"go/ast"
	"go/token"
	"go/types"
	"regexp"
	"sort"
	"strings"

	"verif/checker/internal/astx"
	"verif/checker/internal/cfgx"
	"verif/checker/internal/load"
)

func init() { register("C12", c12) }

var numericRe = regexp.MustCompile(`^[0-9]{3}$`)

// sendSite is one call to a send helper.
type sendSite struct {
	fi     *load.FuncInfo
	call   *ast.CallExpr
	helper string
	lit    *ast.CompositeLit // the irc.Message literal sent (nil if unresolved)
	inner  *ast.CallExpr     // nested send call providing the message, if any
}

// resolveMsgLit follows a message argument to its irc.Message literal: &irc.Message{…}, a variable holding one, or a nested send call.
func (c *Ctx) resolveMsgLit(fi *load.FuncInfo, f *ircFacts, e ast.Expr) (*ast.CompositeLit, *ast.CallExpr) {
	info := fi.Info()
	e = ast.Unparen(e)
	if u, ok := e.(*ast.UnaryExpr); ok && u.Op == token.AND {
		if cl, ok := ast.Unparen(u.X).(*ast.CompositeLit); ok {
			return cl, nil
		}
	}
	if call, ok := e.(*ast.CallExpr); ok {
		if fn := astx.Callee(info, call); fn != nil && f.sendHelpers[fn] {
			cl, _ := c.resolveMsgLit(fi, f, call.Args[len(call.Args)-1])
			return cl, call
		}
	}
	if id, ok := e.(*ast.Ident); ok {
		for _, d := range defsOf(info, fi.Node(), astx.Obj(info, id)) {
			if d == nil {
				continue
			}
			if cl, in := c.resolveMsgLit(fi, f, d); cl != nil {
				return cl, in
			}
		}
	}
	return nil, nil
}

func c12(c *Ctx) {
	r := c.R
	f := c.irc()
	if len(r.Broken) > 0 {
		return
	}
	r.Explanation = "Partial: a routing table over all send sites and an identity discipline. (T1) recipients are written only by the six send helpers, and each helper adds exactly what its name says (no extra filter, the one exclusion in sendChannelButOne compares with its user parameter); (T2) every call of a send helper in a handler is classified by the message it sends (command class, prefix class) and by helper + recipient, and must match a row of the routing table; (T3) in client-reachable code a relayed line's prefix is the server prefix, a session's own cached prefix, or a saved copy of it; the incoming message's prefix is never read there; (T4) Nick/Username assignments are followed by updateIrcPrefix, which is the only writer of the cached prefix besides SERVER and snapshot load; (T5) the delivery filters; (T6) +n and +G in PRIVMSG; (T7) send() de-duplicates by message pointer, so no write to a message variable is reachable from a send of it. Whether the recipient set computed by a helper equals true membership at that moment is C14 (pairing) plus history."
	r.Rules = []string{"C12.T1 helpers add exactly their recipients", "C12.T2 routing table", "C12.T3 real identity", "C12.T4 prefix freshness", "C12.T5 delivery filter", "C12.T6 +n and +G", "C12.T7 a sent message object is not modified and re-sent", "C12.T8 a renamed session is told", "C12.T9 a session whose user modes change is told"}

	c.c12Helpers(f)

	// ---------- T2 / T3 send sites
	dsl := c.P.Func("ircserver.(*IRCServer).deleteSessionLocked")
	classes := map[string]int{}
	nSites := 0
	nT3 := 0
	defer func() {
		r.Ok("C12.T3", "ircserver", "client-reachable code never reads the incoming message's prefix", "-", itoa(nT3)+" reads of the incoming message inspected (Command, Params, Trailing only)")
		if nT3 < 40 {
			r.Break("C12.T3: only %d reads of the incoming message found in client-reachable code (expected > 40)", nT3)
		}
	}()
	for _, fi := range c.P.FuncsIn("ircserver") {
		if fi.Body() == nil || fi.Obj != nil && f.sendHelpers[fi.Obj] || fi == f.send {
			continue
		}
		info := fi.Info()
		clientReach := f.CReach[fi]
		sParam := f.sessionParam(fi)
		mParam := f.msgParam(fi)
		isS := func(e ast.Expr) bool {
			id, ok := ast.Unparen(e).(*ast.Ident)
			return ok && sParam != nil && astx.Obj(info, id) == sParam
		}
		// T3: no reads of the incoming message's prefix in client-reachable code
		if clientReach && mParam != nil {
			ast.Inspect(fi.Body(), func(n ast.Node) bool {
				se, ok := n.(*ast.SelectorExpr)
				if ok {
					if id, isID := ast.Unparen(se.X).(*ast.Ident); isID && astx.Obj(info, id) == mParam {
						nT3++
					}
				}
				if !ok {
					return true
				}
				id, ok := ast.Unparen(se.X).(*ast.Ident)
				if !ok || astx.Obj(info, id) != mParam {
					return true
				}
				switch se.Sel.Name {
				case "Prefix", "Name", "User", "Host":
					r.Fail("C12.T3", fi.Name(), "reads the incoming message's "+se.Sel.Name, c.P.Pos(se.Pos()),
						"client-reachable code reads the prefix supplied by the client: a client could speak under somebody else's identity")
				}
				return true
			})
		}
		var sites []sendSite
		nested := map[*ast.CallExpr]bool{}
		for _, call := range astx.Calls(fi.Body(), true) {
			fn := astx.Callee(info, call)
			if fn == nil || !f.sendHelpers[fn] {
				continue
			}
			lit, inner := c.resolveMsgLit(fi, f, call.Args[len(call.Args)-1])
			if inner != nil {
				nested[inner] = true
			}
			sites = append(sites, sendSite{fi: fi, call: call, helper: fname(fn), lit: lit, inner: inner})
		}
		if len(sites) == 0 {
			continue
		}
		r.Functions++
		g := c.Graph(fi)
		for _, s := range sites {
			nSites++
			pos := c.P.Pos(s.call.Pos())
			if s.lit == nil {
				r.Fail("C12.T2", fi.Name(), s.helper+" of an unresolved message", pos, "the message sent here is not an irc.Message literal (directly, via a local, or via a nested send): it cannot be classified")
				continue
			}
			// command class
			cmd := "?"
			cv := litField(s.lit, "Command")
			if cv != nil {
				if sv, ok := astx.ConstString(info, cv); ok {
					switch {
					case numericRe.MatchString(sv):
						cmd = "numeric"
					default:
						cmd = strings.ToUpper(sv)
					}
				} else if se, ok := ast.Unparen(cv).(*ast.SelectorExpr); ok && se.Sel.Name == "Command" {
					if id, ok := ast.Unparen(se.X).(*ast.Ident); ok && mParam != nil && astx.Obj(info, id) == mParam {
						cmd = "relay"
					}
				}
			}
			// prefix class
			pfx, pfxSess := "none", ast.Expr(nil)
			if pv := litField(s.lit, "Prefix"); pv != nil {
				pfx, pfxSess = c.prefixClass(fi, f, pv, isS)
			}
			// recipient class
			recip := ""
			var recipExpr ast.Expr
			switch s.helper {
			case "sendUser", "sendCommonChannels":
				recipExpr = s.call.Args[0]
				if isS(recipExpr) {
					recip = "acting"
				} else {
					recip = "other"
				}
			case "sendChannel":
				recip, recipExpr = "chan", s.call.Args[0]
			case "sendChannelButOne":
				recip, recipExpr = "chan", s.call.Args[0]
				if !isS(s.call.Args[1]) {
					recip = "chan-minus-other"
				}
			}
			side := "server"
			if clientReach {
				side = "client"
			}
			class := side + " | " + cmd + " | prefix " + pfx + " | " + s.helper
			if recip != "" {
				class += "(" + recip + ")"
			}
			classes[class]++
			ok, why := routeAllowed(side, cmd, pfx, s.helper, recip)
			// extra side conditions
			if ok && cmd == "ERROR" && s.helper == "sendUser" && recip == "other" {
				okDel := false
				for _, dc := range callsIn(fi, func(fn *types.Func, _ *ast.CallExpr) bool { return dsl != nil && fn == dsl.Obj }) {
					if len(dc.Args) > 0 && astx.Same(info, dc.Args[0], recipExpr) {
						okDel = true
					}
				}
				if !okDel {
					ok, why = false, "ERROR is sent to a session that is not closed in this function"
				}
			}
			if ok && cmd == "QUIT" && s.helper == "sendCommonChannels" && pfxSess != nil && !astx.Same(info, pfxSess, recipExpr) {
				ok, why = false, "QUIT is announced to the channels of a different session than the one named in its prefix"
			}
			if ok && (s.helper == "sendChannel" || s.helper == "sendChannelButOne") {
				// the channel is one looked up (or created) in this function, not an arbitrary one
				if !c.channelFromState(fi, f, recipExpr) {
					ok, why = false, "the channel the message is routed to is not one looked up from i.channels in this function"
				}
			}
			if ok && side == "client" && cmd == "relay" && s.helper == "sendUser" && recip == "other" {
				// the private target is the session looked up under msg.Params[0]
				if !c.sessionFromNickParam(fi, f, recipExpr, mParam) {
					ok, why = false, "a private message is routed to a session that was not looked up under the target nickname of the message"
				}
			}
			construct := s.helper + " " + cmd + " prefix=" + pfx
			if recip != "" {
				construct += " to " + recip
			}
			if ok {
				r.Ok("C12.T2", fi.Name(), construct, pos, why)
			} else {
				r.Fail("C12.T2", fi.Name(), construct, pos, "send site matches no row of the routing table ("+class+"): "+why)
			}
			_ = g
		}
	}
	var cls []string
	for k, v := range classes {
		cls = append(cls, k+" ×"+itoa(v))
	}
	sort.Strings(cls)
	r.Extra["send_site_classes"] = cls
	r.Extra["send_sites"] = nSites
	r.Floor("C12.T2", 150)

	c.c12Freshness(f)
	c.c12Filters(f)
	c.c12Privmsg(f)
	c.c12NoReuse(f)
	c.c12RenameTold(f)
	c.c12ModeTold()
}

func itoa(n int) string {
	if n == 0 {
		return "0"
	}
	s := ""
	for n > 0 {
		s = string(rune('0'+n%10)) + s
		n /= 10
	}
	return s
}

// prefixClass classifies the Prefix expression of a message literal.
func (c *Ctx) prefixClass(fi *load.FuncInfo, f *ircFacts, pv ast.Expr, isS func(ast.Expr) bool) (string, ast.Expr) {
	info := fi.Info()
	pv = ast.Unparen(pv)
	if isNilIdent(info, pv) {
		return "none", nil
	}
	if se, ok := pv.(*ast.SelectorExpr); ok && se.Sel.Name == "ServerPrefix" {
		return "server", nil
	}
	if u, ok := pv.(*ast.UnaryExpr); ok && u.Op == token.AND {
		x := ast.Unparen(u.X)
		if se, ok := x.(*ast.SelectorExpr); ok && se.Sel.Name == "ircPrefix" {
			if isS(se.X) {
				return "acting", se.X
			}
			if tv, ok := info.Types[se.X]; ok && astx.NamedOf(tv.Type) == f.tSession {
				return "other", se.X
			}
		}
		if id, ok := x.(*ast.Ident); ok {
			// a saved copy: oldPrefix := s.ircPrefix
			if d := uniqueDef(info, fi.Node(), id); d != nil {
				if se, ok := ast.Unparen(d).(*ast.SelectorExpr); ok && se.Sel.Name == "ircPrefix" {
					return "old", se.X
				}
			}
		}
		if cl, ok := x.(*ast.CompositeLit); ok {
			if nm := litField(cl, "Name"); nm != nil {
				if se, ok := ast.Unparen(nm).(*ast.SelectorExpr); ok {
					if se.Sel.Name == "Nick" && isS(se.X) && len(cl.Elts) == 1 {
						return "nickonly", se.X
					}
					if se.Sel.Name == "Name" { // msg.Prefix.Name
						return "svc", nil
					}
				}
			}
		}
	}
	if call, ok := pv.(*ast.CallExpr); ok {
		if fn := astx.Callee(info, call); fn != nil && fname(fn) == "servicesPrefix" {
			return "svc", nil
		}
	}
	if id, ok := pv.(*ast.Ident); ok {
		// killPrefix: msg.Prefix or &session.ircPrefix of a services pseudo-client
		all, n := true, 0
		for _, d := range defsOf(info, fi.Node(), astx.Obj(info, id)) {
			n++
			d = ast.Unparen(d)
			if se, ok := d.(*ast.SelectorExpr); ok && se.Sel.Name == "Prefix" {
				continue
			}
			if u, ok := d.(*ast.UnaryExpr); ok && u.Op == token.AND {
				if se, ok := ast.Unparen(u.X).(*ast.SelectorExpr); ok && se.Sel.Name == "ircPrefix" {
					continue
				}
			}
			all = false
		}
		if all && n > 0 {
			return "svc", nil
		}
	}
	return "unknown(" + astx.Str(pv) + ")", nil
}

// routeAllowed is the frozen routing table (DESIGN.md C12.T2), derived from classifying today's send sites and confirmed by reading.
func routeAllowed(side, cmd, pfx, helper, recip string) (bool, string) {
	in := func(x string, set ...string) bool {
		for _, s := range set {
			if s == x {
				return true
			}
		}
		return false
	}
	if strings.HasPrefix(pfx, "unknown") {
		return false, "the prefix of the relayed line is neither the server prefix nor a session's cached prefix"
	}
	// replies originated by the server (server prefix or none)
	if in(pfx, "server", "none") {
		switch helper {
		case "sendServices":
			return true, "server-originated line to the services link"
		case "sendUser":
			if cmd == "ERROR" {
				return true, "closing ERROR to the session being closed"
			}
			if recip == "acting" {
				return true, "server reply to the session that caused it"
			}
			return false, "a server reply is addressed to a session other than the one that caused it"
		case "sendChannel":
			if in(cmd, "NOTICE", "MODE") {
				return true, "channel-wide server notice / initial channel modes"
			}
			return false, "a server reply is broadcast to a channel"
		}
		return false, "a server reply is routed through " + helper
	}
	switch cmd {
	case "relay", "PRIVMSG", "NOTICE":
		if side == "client" {
			switch {
			case helper == "sendChannelButOne" && recip == "chan" && pfx == "acting":
				return true, "channel message to every other member under the sender's prefix"
			case helper == "sendUser" && recip == "other" && pfx == "acting":
				return true, "private message to the target under the sender's prefix"
			case helper == "sendAllUsers" && pfx == "acting":
				return true, "network-wide notice (operator gate: C13)"
			case helper == "sendServices" && pfx == "acting":
				return true, "message to the services link"
			}
			return false, "a PRIVMSG/NOTICE relay must go to the channel minus the sender, or to the target session, under the sender's own prefix"
		}
		if pfx == "svc" && (helper == "sendChannel" || (helper == "sendUser" && recip == "other")) {
			return true, "services message to a channel / a user"
		}
		return false, "services PRIVMSG/NOTICE routed unexpectedly"
	case "JOIN", "PART", "KICK", "TOPIC":
		if helper == "sendChannel" && in(pfx, "acting", "other", "svc") {
			return true, cmd + " announced to the affected channel"
		}
		if helper == "sendServices" && in(pfx, "acting", "other", "svc", "nickonly") {
			return true, cmd + " forwarded to the services link"
		}
		return false, cmd + " notifications go to the members of the affected channel (sendChannel) only"
	case "MODE":
		if helper == "sendChannel" && in(pfx, "acting", "svc") {
			return true, "channel MODE announced to the channel"
		}
		if helper == "sendUser" && in(pfx, "acting") {
			return true, "user MODE confirmation"
		}
		if helper == "sendServices" {
			return true, "MODE forwarded to the services link"
		}
		return false, "MODE routed unexpectedly"
	case "NICK":
		if pfx == "old" && (helper == "sendServices" || ((helper == "sendUser" || helper == "sendCommonChannels") && recip != "")) {
			return true, "NICK under the old prefix to the subject, its channels and services"
		}
		return false, "NICK must be announced under the saved old prefix to the subject and the sessions sharing its channels"
	case "QUIT":
		if (helper == "sendCommonChannels" || helper == "sendServices") && in(pfx, "acting", "other") {
			return true, "QUIT announced to the sessions sharing a channel with the subject"
		}
		return false, "QUIT must be announced with sendCommonChannels(subject) under the subject's prefix"
	case "KILL", "INVITE":
		if helper == "sendUser" && recip == "other" && in(pfx, "acting", "svc") {
			return true, cmd + " to the target"
		}
		if helper == "sendServices" {
			return true, cmd + " forwarded to the services link"
		}
		return false, cmd + " goes to the target session only"
	}
	return false, "command class " + cmd + " with prefix class " + pfx + " is not in the routing table"
}

// channelFromState: e is a variable assigned from i.channels[...] (or a channel created and stored there) or a range value over i.channels.
func (c *Ctx) channelFromState(fi *load.FuncInfo, f *ircFacts, e ast.Expr) bool {
	info := fi.Info()
	id, ok := ast.Unparen(e).(*ast.Ident)
	if !ok {
		return false
	}
	o := astx.Obj(info, id)
	for _, d := range defsOf(info, fi.Node(), o) {
		if d == nil {
			continue
		}
		x := ast.Unparen(d)
		if ie, ok := x.(*ast.IndexExpr); ok {
			x = ast.Unparen(ie.X)
		}
		if se, ok := x.(*ast.SelectorExpr); ok && astx.FieldSel(info, se) == f.fChannels {
			return true
		}
	}
	// parameter of type *channel in a helper
	return paramOfType(fi, pathIrcsrv, "channel") == o
}

// sessionFromNickParam: e is a variable assigned from i.nicks[NickToLower(msg.Params[0])].
func (c *Ctx) sessionFromNickParam(fi *load.FuncInfo, f *ircFacts, e ast.Expr, mParam types.Object) bool {
	info := fi.Info()
	id, ok := ast.Unparen(e).(*ast.Ident)
	if !ok {
		return false
	}
	for _, d := range defsOf(info, fi.Node(), astx.Obj(info, id)) {
		ie, ok := ast.Unparen(d).(*ast.IndexExpr)
		if d == nil || !ok {
			continue
		}
		se, ok := ast.Unparen(ie.X).(*ast.SelectorExpr)
		if !ok || astx.FieldSel(info, se) != f.fNicks {
			continue
		}
		key := ie.Index
		if d2 := uniqueDef(info, fi.Node(), key); d2 != nil {
			key = d2
		}
		call, ok := ast.Unparen(key).(*ast.CallExpr)
		if !ok || len(call.Args) != 1 {
			continue
		}
		if fn := astx.Callee(info, call); fn == nil || fname(fn) != "NickToLower" {
			continue
		}
		b := astx.BaseIdent(call.Args[0])
		if b != nil && astx.Obj(info, b) == mParam {
			return true
		}
	}
	return false
}

// c12Helpers (T1): who writes InterestingFor, and what each helper adds.
func (c *Ctx) c12Helpers(f *ircFacts) {
	r := c.R
	ifor := c.P.Field("robust", "Message", "InterestingFor")
	if ifor == nil {
		r.Break("robust.Message.InterestingFor not found")
		return
	}
	allowed := map[string]string{
		"ircserver.(*IRCServer).send": "allocates the empty recipient set",
		"api.outputToRobustMessages":  "copies the stored recipient set verbatim",
	}
	for _, w := range c.writersOf(ifor) {
		ok := w.Obj != nil && f.sendHelpers[w.Obj]
		why := "send helper"
		if !ok {
			why, ok = allowed[w.Name()]
		}
		r.Check(ok, "C12.T1", w.Name(), "writes Message.InterestingFor", c.P.Pos(c.funcFlow(w).writePos[ifor]), why, "the recipient set of a message is written outside the send helpers")
	}
	// per helper: range source and filters
	type spec struct {
		outer  string // what the outermost range iterates
		filter string // allowed skip condition
	}
	specs := map[string]spec{
		"sendUser":           {"", ""},
		"sendAllUsers":       {"nicks", ""},
		"sendCommonChannels": {"Channels", "ok"},
		"sendChannel":        {"nicks(channel)", ""},
		"sendChannelButOne":  {"nicks(channel)", "user"},
		"sendServices":       {"serverSessions", ""},
	}
	found := 0
	for _, fi := range c.P.FuncsIn("ircserver") {
		if fi.Obj == nil || !f.sendHelpers[fi.Obj] {
			continue
		}
		sp, known := specs[fname(fi.Obj)]
		if !known {
			r.Fail("C12.T1", fi.Name(), "unknown send helper", c.P.Pos(fi.Node().Pos()), "a new function writes recipient sets; its semantics are not in the helper table")
			continue
		}
		found++
		info := fi.Info()
		pos := c.P.Pos(fi.Node().Pos())
		// every helper goes through send(reply, msg) with its own parameters
		viaSend := false
		for _, call := range astx.Calls(fi.Body(), false) {
			if fn := astx.Callee(info, call); fn != nil && f.send != nil && fn == f.send.Obj {
				viaSend = true
			}
		}
		r.Check(viaSend, "C12.T1", fi.Name(), "builds the output line through send()", pos, "calls i.send(reply, msg)", "the helper does not obtain its output message from send(): ids and bytes are not produced by the single producer")
		// outermost range
		var ranges []*ast.RangeStmt
		ast.Inspect(fi.Body(), func(n ast.Node) bool {
			if rs, ok := n.(*ast.RangeStmt); ok {
				ranges = append(ranges, rs)
			}
			return true
		})
		src := ""
		if len(ranges) > 0 {
			x := ast.Unparen(ranges[0].X)
			if se, ok := x.(*ast.SelectorExpr); ok {
				switch astx.FieldSel(info, se) {
				case f.fNicks:
					src = "nicks"
				case f.fSChannels:
					src = "Channels"
				case f.fCNicks:
					src = "nicks(channel)"
					if _, isParam := ast.Unparen(se.X).(*ast.Ident); !isParam {
						src = "nicks(channel?)"
					}
				case f.fServerSessions:
					src = "serverSessions"
				default:
					src = astx.Str(x)
				}
			}
		}
		r.Check(src == sp.outer, "C12.T1", fi.Name(), "iterates over its recipients' source", pos, "range over "+sp.outer, "the helper ranges over "+src+" instead of "+sp.outer+": it addresses a different set of sessions than its name promises")
		if sp.outer == "Channels" {
			// inner loop over the members of each of the user's channels, looked up in i.channels under the range key
			okInner := false
			if len(ranges) == 2 {
				if se, ok := ast.Unparen(ranges[1].X).(*ast.SelectorExpr); ok && astx.FieldSel(info, se) == f.fCNicks {
					okInner = true
				}
			}
			r.Check(okInner, "C12.T1", fi.Name(), "adds the members of each common channel", pos, "inner range over c.nicks", "sendCommonChannels does not add the members of the user's channels")
			// the user whose channels are iterated is the parameter
			up := paramOfType(fi, pathIrcsrv, "Session")
			okUser := false
			if len(ranges) > 0 {
				if se, ok := ast.Unparen(ranges[0].X).(*ast.SelectorExpr); ok {
					if id, ok := ast.Unparen(se.X).(*ast.Ident); ok && astx.Obj(info, id) == up {
						okUser = true
					}
				}
			}
			r.Check(okUser, "C12.T1", fi.Name(), "iterates the channels of its user parameter", pos, "range user.Channels", "sendCommonChannels does not iterate the channels of the session it was given")
		}
		if strings.HasPrefix(sp.outer, "nicks(channel)") && len(ranges) > 0 {
			cp := paramOfType(fi, pathIrcsrv, "channel")
			okCh := false
			if se, ok := ast.Unparen(ranges[0].X).(*ast.SelectorExpr); ok {
				if id, ok := ast.Unparen(se.X).(*ast.Ident); ok && astx.Obj(info, id) == cp {
					okCh = true
				}
			}
			r.Check(okCh, "C12.T1", fi.Name(), "iterates the members of its channel parameter", pos, "range c.nicks", "the helper does not iterate the member list of the channel it was given")
		}
		// filters: what is known where a recipient is inserted (judged on the graph: `if !ok { continue }` and
		// `if ok { … }`, `if s == user { continue }` and `if s != user { … }` are the same filter)
		nCond := 0
		{
			g := c.Graph(fi)
			up := paramOfType(fi, pathIrcsrv, "Session")
			for _, v := range g.Nodes() {
				as, ok := v.Node.(*ast.AssignStmt)
				if !ok || len(as.Lhs) != 1 {
					continue
				}
				ie, ok := ast.Unparen(as.Lhs[0]).(*ast.IndexExpr)
				if !ok || !isFieldMap(info, fi.Node(), ie.X, ifor) {
					continue
				}
				for _, fct := range g.FactsAt(v.ID) {
					if fct.Tag != nil {
						continue
					}
					okF := false
					// found in i.channels (comma-ok), positive
					if id, isID := ast.Unparen(fct.Expr).(*ast.Ident); isID && fct.Val && sp.filter == "ok" {
						for _, d := range defsOf(info, fi.Node(), astx.Obj(info, id)) {
							if ix, isIx := ast.Unparen(d).(*ast.IndexExpr); d != nil && isIx {
								if se, isSel := ast.Unparen(ix.X).(*ast.SelectorExpr); isSel && astx.FieldSel(info, se) == f.fChannels {
									okF = true
								}
							}
						}
					}
					// not the given user
					if be, isBE := ast.Unparen(fct.Expr).(*ast.BinaryExpr); isBE && sp.filter == "user" && ((be.Op == token.EQL && !fct.Val) || (be.Op == token.NEQ && fct.Val)) {
						isUser := func(e ast.Expr) bool {
							id, ok := ast.Unparen(e).(*ast.Ident)
							return ok && astx.Obj(info, id) == up
						}
						if isUser(be.X) || isUser(be.Y) {
							okF = true
							nCond++
						}
					}
					r.Check(okF, "C12.T1", fi.Name(), "filter "+astx.Str(fct.Expr), c.P.Pos(fct.Expr.Pos()), "the helper's one documented exclusion", "the helper skips recipients under a condition that is not part of its contract: entitled sessions miss messages (or the sender is echoed)")
				}
			}
		}
		if sp.filter == "user" {
			r.Check(nCond == 1, "C12.T1", fi.Name(), "excludes exactly the given user", pos, "one `session == user` test", "sendChannelButOne does not exclude exactly the session it was given")
		}
		// the key added is the Id of the iterated/looked-up session
		nAdd := 0
		ast.Inspect(fi.Body(), func(n ast.Node) bool {
			as, ok := n.(*ast.AssignStmt)
			if !ok || len(as.Lhs) != 1 {
				return true
			}
			ie, ok := ast.Unparen(as.Lhs[0]).(*ast.IndexExpr)
			if !ok {
				return true
			}
			if !isFieldMap(info, fi.Node(), ie.X, ifor) {
				return true
			}
			nAdd++
			tr, okT := ast.Unparen(as.Rhs[0]).(*ast.Ident)
			r.Check(okT && tr.Name == "true", "C12.T1", fi.Name(), "marks recipients with true", c.P.Pos(as.Pos()), "= true", "a recipient entry is not set to true")
			return true
		})
		r.Check(nAdd == 1, "C12.T1", fi.Name(), "one recipient insertion", pos, "single InterestingFor[…] = true", "the helper inserts recipients at more or fewer places than expected")
	}
	r.Check(found == 6, "C12.T1", "ircserver", "six send helpers", "-", "found", "the set of send helpers changed")
	// send(): ids and data
	if f.send != nil {
		info := f.send.Info()
		okData := false
		for _, cl := range compositeLitsOf(info, f.send.Body(), pathRobust, "Message") {
			if d := litField(cl, "Data"); d != nil {
				for _, call := range astx.Calls(d, false) {
					if fn := astx.Callee(info, call); fn != nil && (fname(fn) == "Bytes" || fname(fn) == "String") && astx.RecvNamed(fn) != nil && astx.RecvNamed(fn).Obj().Name() == "Message" {
						okData = true
					}
				}
			}
		}
		r.Check(okData, "C12.T1", f.send.Name(), "output bytes are the serialized irc.Message", c.P.Pos(f.send.Node().Pos()), "Data: string(msg.Bytes())", "send() does not take the output bytes from the message it was given")
	}
}

// c12Freshness (T4)
func (c *Ctx) c12Freshness(f *ircFacts) {
	r := c.R
	upd := c.P.Func("ircserver.(*Session).updateIrcPrefix")
	pfx := c.P.Field("ircserver", "Session", "ircPrefix")
	if upd == nil || pfx == nil {
		r.Break("updateIrcPrefix / Session.ircPrefix not found")
		return
	}
	allowed := map[string]string{
		"ircserver.(*Session).updateIrcPrefix": "the one refresher",
		"ircserver.(*IRCServer).cmdServer":     "a services link takes the announced server name",
		"ircserver.(*IRCServer).Unmarshal":     "snapshot load",
	}
	for _, w := range c.writersOf(pfx) {
		why, ok := allowed[w.Name()]
		r.Check(ok, "C12.T4", w.Name(), "writes Session.ircPrefix", c.P.Pos(c.funcFlow(w).writePos[pfx]), why, "the cached prefix is written outside updateIrcPrefix: the identity shown to others no longer derives from Nick/Username/session id")
	}
	// updateIrcPrefix derives all three parts from the session itself
	{
		info := upd.Info()
		ok := false
		for _, cl := range compositeLitsOf(info, upd.Body(), pathIRC, "Prefix") {
			n, u, h := litField(cl, "Name"), litField(cl, "User"), litField(cl, "Host")
			okN := n != nil && strings.HasSuffix(astx.Str(n), ".Nick")
			okU := u != nil && strings.HasSuffix(astx.Str(u), ".Username")
			okH := h != nil && strings.Contains(astx.Str(h), ".Id.Id")
			ok = okN && okU && okH
		}
		r.Check(ok, "C12.T4", upd.Name(), "prefix = nick ! username @ session-derived host", c.P.Pos(upd.Node().Pos()), "Name: s.Nick, User: s.Username, Host: f(s.Id.Id)", "updateIrcPrefix does not build the prefix from the session's nickname, user name and id")
	}
	for _, fld := range []string{"Nick", "Username"} {
		fv := c.P.Field("ircserver", "Session", fld)
		for _, fi := range c.writersOf(fv) {
			if fi.Name() == "ircserver.(*IRCServer).Unmarshal" || fi.Body() == nil {
				continue
			}
			info := fi.Info()
			g := c.Graph(fi)
			for _, v := range g.Nodes() {
				as, ok := v.Node.(*ast.AssignStmt)
				if !ok {
					continue
				}
				for _, l := range as.Lhs {
					se, ok := ast.Unparen(l).(*ast.SelectorExpr)
					if !ok || astx.FieldSel(info, se) != fv {
						continue
					}
					okU := g.PostDominatedBy(v.ID, g.Exit, func(x *cfgx.Vertex) bool {
						return containsCall(info, x, func(fn *types.Func, call *ast.CallExpr) bool {
							if fn != upd.Obj {
								return false
							}
							s2, ok := ast.Unparen(call.Fun).(*ast.SelectorExpr)
							return ok && astx.Same(info, s2.X, se.X)
						})
					})
					r.Check(okU, "C12.T4", fi.Name(), "assigning "+astx.Str(l)+" is followed by updateIrcPrefix", c.P.Pos(as.Pos()), "on every path to the return",
						"the "+fld+" changes without the cached prefix being refreshed: lines relayed afterwards carry the old identity")
				}
			}
		}
	}
	r.Floor("C12.T4", 6)
}

// c12Filters (T5): delivery filters in the API.
func (c *Ctx) c12Filters(f *ircFacts) {
	r := c.R
	if fi := c.MustFunc("api.(*HTTP).handleGetMessages"); fi != nil {
		info := fi.Info()
		g := c.Graph(fi)
		n := 0
		for _, call := range astx.Calls(fi.Body(), false) {
			fn := astx.Callee(info, call)
			if fn == nil || fname(fn) != "Encode" || len(call.Args) != 1 {
				continue
			}
			n++
			v := g.VertexOf(call)
			ok := false
			for _, fct := range append(g.CondsAt(v), g.FactsAt(v)...) {
				if _, isF := interestFilter(info, fct); isF {
					ok = true
				}
			}
			r.Check(ok, "C12.T5", fi.Name(), "stream delivers only messages addressed to the reader", c.P.Pos(call.Pos()), "Encode dominated by the InterestingFor filter",
				"a message is delivered to a reader that is not in its recipient set")
		}
		r.Check(n > 0, "C12.T5", fi.Name(), "encode site found", c.P.Pos(fi.Node().Pos()), "found", "no encode site")
	}
	if fi := c.MustFunc("api.outputToRobustMessages"); fi != nil {
		info := fi.Info()
		ok := false
		for _, cl := range compositeLitsOf(info, fi.Body(), pathRobust, "Message") {
			v := litField(cl, "InterestingFor")
			d := litField(cl, "Data")
			if v != nil && strings.HasSuffix(astx.Str(v), ".InterestingFor") && d != nil && strings.HasSuffix(astx.Str(d), ".Data") {
				ok = true
			}
		}
		r.Check(ok, "C12.T5", fi.Name(), "recipient set and bytes are handed on verbatim", c.P.Pos(fi.Node().Pos()), "InterestingFor: msg.InterestingFor, Data: msg.Data", "the API does not hand the stored recipient set / bytes on verbatim")
	}
	if fi := c.MustFunc("main.sendMessages"); fi != nil {
		info := fi.Info()
		ok := false
		for _, cl := range compositeLitsOf(info, fi.Body(), pathOutput, "Message") {
			v := litField(cl, "InterestingFor")
			d := litField(cl, "Data")
			i := litField(cl, "Id")
			if v != nil && strings.HasSuffix(astx.Str(v), ".InterestingFor") && d != nil && strings.HasSuffix(astx.Str(d), ".Data") && i != nil && strings.HasSuffix(astx.Str(i), ".Id") {
				ok = true
			}
		}
		r.Check(ok, "C12.T5", fi.Name(), "replies are stored with their recipient set", c.P.Pos(fi.Node().Pos()), "Id, Data, InterestingFor copied per message", "sendMessages does not store each reply with its own id, bytes and recipient set")
	}
}

// c12NoReuse (T7): send() recognises a continuation ("the same line to a further set of recipients") by the POINTER of
// the *irc.Message; a message object that is modified after it was handed to a send helper and can then reach a send
// helper again is taken for that continuation: no new line is produced, the later recipients are added to the first
// line's audience and see the first text. So: no write to a field of a message variable is reachable from a send of it.
func (c *Ctx) c12NoReuse(f *ircFacts) {
	r := c.R
	n := 0
	for _, fi := range c.P.FuncsIn("ircserver") {
		if fi.Body() == nil || fi.Obj != nil && f.sendHelpers[fi.Obj] || fi == f.send {
			continue
		}
		info := fi.Info()
		type sent struct {
			obj  types.Object
			call *ast.CallExpr
		}
		var sends []sent
		for _, call := range astx.Calls(fi.Body(), false) {
			fn := astx.Callee(info, call)
			if fn == nil || !(f.sendHelpers[fn] || f.send != nil && fn == f.send.Obj) || len(call.Args) == 0 {
				continue
			}
			n++
			if id, ok := ast.Unparen(call.Args[len(call.Args)-1]).(*ast.Ident); ok {
				if o := astx.Obj(info, id); o != nil {
					sends = append(sends, sent{o, call})
				}
			}
		}
		if len(sends) == 0 {
			continue
		}
		g := c.Graph(fi)
		for _, s := range sends {
			from := g.VertexAt(s.call.Pos(), s.call.End())
			if from < 0 {
				continue
			}
			var reach []bool
			ast.Inspect(fi.Body(), func(nd ast.Node) bool {
				if _, isLit := nd.(*ast.FuncLit); isLit {
					return false
				}
				as, ok := nd.(*ast.AssignStmt)
				if !ok {
					return true
				}
				for _, lhs := range as.Lhs {
					e := ast.Unparen(lhs)
					depth := 0
					for {
						switch x := e.(type) {
						case *ast.SelectorExpr:
							e, depth = ast.Unparen(x.X), depth+1
							continue
						case *ast.IndexExpr:
							e, depth = ast.Unparen(x.X), depth+1
							continue
						case *ast.StarExpr:
							e, depth = ast.Unparen(x.X), depth+1
							continue
						}
						break
					}
					id, isID := e.(*ast.Ident)
					if !isID || depth == 0 || astx.Obj(info, id) != s.obj {
						continue
					}
					if reach == nil {
						reach = g.Reach(from, nil, nil)
					}
					to := g.VertexAt(as.Pos(), as.End())
					// the send's own vertex counts only through a cycle
					bad := to >= 0 && reach[to] && (to != from || g.Between(from, from, func(*cfgx.Vertex) bool { return true }))
					r.Check(!bad, "C12.T7", fi.Name(), "message "+"<msg>"+" is not modified after it was sent (write to "+astx.Str(lhs)[len(id.Name):]+")", c.P.Pos(as.Pos()), "the write is not reachable from the send at "+c.P.Pos(s.call.Pos()),
						"a message object is modified after it was handed to a send helper and can be sent again: send() takes the identical pointer for a continuation of the previous line, so the later recipients get the FIRST text (e.g. a JOIN for a channel they are not in) and never see theirs")
				}
				return true
			})
		}
	}
	r.Ok("C12.T7", "ircserver", "send sites inspected for re-use of a sent message object", "-", itoa(n)+" send calls")
	if n < 100 {
		r.Break("C12.T7: only %d send calls found (expected > 100)", n)
	}
}

// c12Privmsg (T6)
func (c *Ctx) c12Privmsg(f *ircFacts) {
	r := c.R
	fi := c.MustFunc("ircserver.(*IRCServer).cmdPrivmsg")
	if fi == nil {
		return
	}
	info := fi.Info()
	g := c.Graph(fi)
	gc := &gateCtx{c: c, f: f, fi: fi, info: info, s: f.sessionParam(fi)}
	for _, call := range astx.Calls(fi.Body(), false) {
		fn := astx.Callee(info, call)
		if fn == nil {
			continue
		}
		switch fname(fn) {
		case "sendChannelButOne":
			ch := call.Args[0]
			v := g.VertexOf(call)
			cl := c.clausesAt(fi, g, v)
			ok := implied(cl, func(l lit) bool {
				return (l.Pos && (gc.isMemberOK(l.E, ch) || gc.isMemberS(l.E, ch))) || (!l.Pos && gc.isMode(l.E, ch, 'n'))
			})
			r.Check(ok, "C12.T6", fi.Name(), "channel message only from members unless -n", c.P.Pos(call.Pos()), "a dominating clause ⊆ {member, !modes['n']}",
				"a session that is not on a +n channel can speak into it")
			// the channel is the one named by the message target
			okT := false
			if k := gc.chanKey(ch); k != nil {
				if kc, isCall := ast.Unparen(k).(*ast.CallExpr); isCall && len(kc.Args) == 1 {
					if b := astx.BaseIdent(kc.Args[0]); b != nil && astx.Obj(info, b) == f.msgParam(fi) {
						okT = true
					}
				}
			}
			r.Check(okT, "C12.T6", fi.Name(), "channel message goes to the channel named by the target", c.P.Pos(call.Pos()), "c = i.channels[ChanToLower(msg.Params[0])]", "the channel the message is relayed to is not the one named in the message")
		case "sendUser":
			lit, _ := c.resolveMsgLit(fi, f, call.Args[2])
			if lit == nil {
				continue
			}
			if cv := litField(lit, "Command"); cv == nil || !strings.HasSuffix(astx.Str(cv), ".Command") {
				continue
			}
			target := call.Args[0]
			v := g.VertexOf(call)
			// every path to the relay passes: target.modes['G'] false, or the common-channel flag true
			pass := func(e *cfgx.Edge) bool {
				if e.Cond == nil || e.Tag != nil {
					return false
				}
				okLit := func(l clauseLit) bool {
					if ie, ok := ast.Unparen(l.E).(*ast.IndexExpr); ok && !l.Pos {
						if se, ok := ast.Unparen(ie.X).(*ast.SelectorExpr); ok && se.Sel.Name == "modes" && astx.Same(info, se.X, target) {
							if m, ok := astx.ConstInt(info, ie.Index); ok && m == 'G' {
								return true
							}
						}
					}
					if id, ok := ast.Unparen(l.E).(*ast.Ident); ok && l.Pos {
						// flag set true only inside a loop over target.Channels testing s.Channels
						sets, good := 0, 0
						ast.Inspect(fi.Body(), func(n ast.Node) bool {
							as, ok := n.(*ast.AssignStmt)
							if !ok || len(as.Lhs) != 1 || len(as.Rhs) != 1 {
								return true
							}
							li, ok := as.Lhs[0].(*ast.Ident)
							if !ok || astx.Obj(info, li) != astx.Obj(info, id) {
								return true
							}
							if rv, ok := ast.Unparen(as.Rhs[0]).(*ast.Ident); ok && rv.Name == "true" {
								sets++
								for _, fct := range g.FactsAt(g.VertexOf(as)) {
									if okv, isID := ast.Unparen(fct.Expr).(*ast.Ident); isID && fct.Val {
										for _, d := range defsOf(info, fi.Node(), astx.Obj(info, okv)) {
											if ie, ok := ast.Unparen(d).(*ast.IndexExpr); d != nil && ok {
												if se, ok := ast.Unparen(ie.X).(*ast.SelectorExpr); ok && astx.FieldSel(info, se) == f.fSChannels && gc.isS(se.X) {
													good++
												}
											}
										}
									}
								}
							}
							return true
						})
						if sets > 0 && sets == good {
							return true
						}
					}
					// a call of a predicate "the two sessions share a channel"
					if call, ok := ast.Unparen(l.E).(*ast.CallExpr); ok && l.Pos && len(call.Args) == 2 {
						if fn := astx.Callee(info, call); fn != nil {
							if cal := c.P.FuncOf(fn); cal != nil && c.isCommonChannelPredicate(cal, f) {
								a0, a1 := call.Args[0], call.Args[1]
								if (astx.Same(info, a0, target) && gc.isS(a1)) || (astx.Same(info, a1, target) && gc.isS(a0)) {
									return true
								}
							}
						}
					}
					return false
				}
				// clausesOf yields a conjunction of clauses, each a disjunction of literals: the edge implies the gate
				// iff some clause consists of accepted literals only
				return implied(c.clausesOf(info, fi.Node(), e.Cond, e.Val, 0), okLit)
			}
			reach := g.Reach(g.Entry, nil, pass)
			r.Check(!reach[v], "C12.T6", fi.Name(), "private message to a +G user only from someone sharing a channel", c.P.Pos(call.Pos()), "every path passes !modes['G'] or the common-channel flag",
				"a private message reaches a caller-id (+G) user from a session that shares no channel with it")
		}
	}
	r.Floor("C12.T6", 1)
}

// isCommonChannelPredicate recognises func(a, b *Session) bool that answers "a and b share a channel":
// every `return true` sits inside a range over one parameter's Channels under a successful look-up of the
// range key in the other parameter's Channels, and every other return is the constant false.
func (c *Ctx) isCommonChannelPredicate(fi *load.FuncInfo, f *ircFacts) bool {
	if fi.Body() == nil || fi.FuncType().Results == nil || len(fi.FuncType().Results.List) != 1 {
		return false
	}
	info := fi.Info()
	var params []types.Object
	for _, fld := range fi.FuncType().Params.List {
		for _, nm := range fld.Names {
			params = append(params, info.Defs[nm])
		}
	}
	if len(params) != 2 {
		return false
	}
	paramOf := func(e ast.Expr) types.Object {
		se, ok := ast.Unparen(e).(*ast.SelectorExpr)
		if !ok || astx.FieldSel(info, se) != f.fSChannels {
			return nil
		}
		id, ok := ast.Unparen(se.X).(*ast.Ident)
		if !ok {
			return nil
		}
		o := astx.Obj(info, id)
		if o == params[0] || o == params[1] {
			return o
		}
		return nil
	}
	g := c.Graph(fi)
	trues, good := 0, 0
	okAll := true
	var stack []ast.Node
	ast.Inspect(fi.Body(), func(n ast.Node) bool {
		if n == nil {
			stack = stack[:len(stack)-1]
			return true
		}
		stack = append(stack, n)
		rs, ok := n.(*ast.ReturnStmt)
		if !ok || len(rs.Results) != 1 {
			return true
		}
		tv, ok := info.Types[rs.Results[0]]
		if !ok || tv.Value == nil {
			okAll = false
			return true
		}
		if tv.Value.String() != "true" {
			return true
		}
		trues++
		// enclosing range over P.Channels
		var loop *ast.RangeStmt
		for i := len(stack) - 1; i >= 0; i-- {
			if l, ok := stack[i].(*ast.RangeStmt); ok {
				loop = l
				break
			}
		}
		if loop == nil {
			return true
		}
		outer := paramOf(loop.X)
		kid, _ := loop.Key.(*ast.Ident)
		if outer == nil || kid == nil {
			return true
		}
		for _, fct := range g.FactsAt(g.VertexOf(rs)) {
			okv, isID := ast.Unparen(fct.Expr).(*ast.Ident)
			if !isID || !fct.Val {
				continue
			}
			for _, d := range defsOf(info, fi.Node(), astx.Obj(info, okv)) {
				ie, ok := ast.Unparen(d).(*ast.IndexExpr)
				if d == nil || !ok {
					continue
				}
				inner := paramOf(ie.X)
				if iid, ok := ast.Unparen(ie.Index).(*ast.Ident); ok && inner != nil && inner != outer && astx.Obj(info, iid) == astx.Obj(info, kid) {
					good++
					return true
				}
			}
		}
		return true
	})
	return okAll && trues > 0 && trues == good
}

// c12RenameTold (T8): a NICK line that is relayed to the channels a session shares (sendCommonChannels(<session>, …)) is also
// sent to that session itself (sendUser(<session>, …) on the same message): a session that is on no channel would otherwise
// never learn that — or to what — it was renamed.
func (c *Ctx) c12RenameTold(f *ircFacts) {
	r := c.R
	n := 0
	for _, fi := range c.P.FuncsIn("ircserver") {
		if fi.Body() == nil {
			continue
		}
		info := fi.Info()
		for _, call := range astx.Calls(fi.Body(), true) {
			fn := astx.Callee(info, call)
			if fn == nil || fname(fn) != "sendCommonChannels" || len(call.Args) != 3 {
				continue
			}
			// the message: a literal, or a nested send helper call whose last argument is the literal
			lit, inner := c.resolveMsgLit(fi, f, call.Args[2])
			if lit == nil {
				continue
			}
			cmd := litField(lit, "Command")
			if cmd == nil || !refersTo(info, cmd, pathIRC, "NICK") {
				continue
			}
			n++
			subject := call.Args[0]
			told := false
			// nested: sendCommonChannels(s, reply, sendUser(s, reply, &irc.Message{…}))
			if inner != nil {
				if ifn := astx.Callee(info, inner); ifn != nil && fname(ifn) == "sendUser" && len(inner.Args) == 3 && astx.Same(info, inner.Args[0], subject) {
					told = true
				}
			}
			// or a separate sendUser(subject, …) of the same message variable
			if !told {
				if id, ok := ast.Unparen(call.Args[2]).(*ast.Ident); ok {
					for _, c2 := range astx.Calls(fi.Body(), true) {
						if f2 := astx.Callee(info, c2); f2 != nil && fname(f2) == "sendUser" && len(c2.Args) == 3 && astx.Same(info, c2.Args[0], subject) {
							if id2, ok := ast.Unparen(c2.Args[2]).(*ast.Ident); ok && astx.Obj(info, id2) == astx.Obj(info, id) {
								told = true
							}
						}
					}
				}
			}
			r.Check(told, "C12.T8", fi.Name(), "the NICK line also goes to the renamed session itself", c.P.Pos(call.Pos()), "sendUser(<session>, …) on the same message",
				"a nickname change is announced to the channels the session shares but not to the session: a session that is on no channel (just connected, or forcibly renamed by services) never learns its new nickname")
		}
	}
	if n < 2 {
		r.Break("C12.T8: only %d NICK announcements through sendCommonChannels found", n)
	}
}

// c12ModeTold (T9): "MODE … notifications … to the subject itself": wherever a handler changes a user mode of a session
// (<session>.modes[…] = …), every path from the change to the end of the handler sends that same session a MODE line. (The
// asker of a mode *query* is the acting session; a *change* made by an operator or by services is confirmed to the session it
// was made on — merging the two sends loses one of them.)
func (c *Ctx) c12ModeTold() {
	r := c.R
	modesF := c.P.Field("ircserver", "Session", "modes")
	if modesF == nil {
		r.Break("C12.T9: field ircserver.Session.modes not found")
		return
	}
	n := 0
	for _, fi := range c.P.FuncsIn("ircserver") {
		if fi.Body() == nil {
			continue
		}
		info := fi.Info()
		var g *cfgx.Graph
		ast.Inspect(fi.Body(), func(m ast.Node) bool {
			as, ok := m.(*ast.AssignStmt)
			if !ok {
				return true
			}
			for _, l := range as.Lhs {
				ie, ok := ast.Unparen(l).(*ast.IndexExpr)
				if !ok {
					continue
				}
				se, ok := ast.Unparen(ie.X).(*ast.SelectorExpr)
				if !ok || astx.FieldSel(info, se) != modesF {
					continue
				}
				subject := se.X
				if g == nil {
					g = c.Graph(fi)
				}
				wv := g.VertexOf(as)
				if wv < 0 {
					continue
				}
				n++
				tells := func(x int) bool {
					if g.V[x].Node == nil {
						return false
					}
					for _, call := range astx.Calls(g.V[x].Node, false) {
						fn := astx.Callee(info, call)
						if fn == nil || fname(fn) != "sendUser" || len(call.Args) < 3 || !astx.Same(info, call.Args[0], subject) {
							continue
						}
						isMode := false
						ast.Inspect(call.Args[2], func(k ast.Node) bool {
							if cl, ok := k.(*ast.CompositeLit); ok {
								if cv := litField(cl, "Command"); cv != nil {
									if sv, ok := astx.ConstString(info, cv); ok && sv == "MODE" {
										isMode = true
									}
								}
							}
							return true
						})
						if isMode {
							return true
						}
					}
					return false
				}
				silent := g.Reach(wv, tells, nil)[g.Exit]
				r.Check(!silent, "C12.T9", fi.Name(), "user mode change of "+astx.Str(subject)+" is confirmed to that session", c.P.Pos(as.Pos()), "sendUser(<same session>, …, MODE …) on every path to the end",
					"a user mode of a session is changed but the MODE line does not go to that session on some path (it goes to the session that asked, or nowhere): the subject never learns about a change made by an operator or by services, and somebody else is told instead")
			}
			return true
		})
	}
	if n < 3 {
		r.Break("C12.T9: only %d changes of Session.modes found in package ircserver", n)
	}
}
