package rules

import (
	"go/ast"
	"go/token"
	"go/types"
	"strings"

	"verif/checker/internal/astx"
	"verif/checker/internal/cfgx"
	"verif/checker/internal/load"
)

func init() { register("C08", c08) }

func c08(c *Ctx) {
	r := c.R
	r.Explanation = "Partial: structural necessary conditions for 'never panics / never stays blocked although a successor exists'. (S1) every dereference of the batch pointer returned by getUnlocked is guarded by its ok result (a deleted batch yields nil, and deletion can happen whenever the lock is not held); (S2) condition-variable discipline: Wait sits in a loop that re-evaluates the predicate, is executed with messagesMu held in write mode, the cancellation test precedes it, Add broadcasts after a successful write and InterruptGetNext broadcasts under the lock; (S3) cache coherence: every rewrite or deletion of a stored batch evicts its cache entry in the same critical section, and only found batches are cached; (S4) lock hygiene in the one file the project's textual lock test whitelists: every return releases what it acquired, no read-to-write upgrade. Correctness of GetNext under all interleavings is a schedule property and is not decided."
	r.Rules = []string{"C08.S1 checked look-ups", "C08.S2 condition-variable discipline", "C08.S3 cache coherence", "C08.S4 lock hygiene", "C08.S5 tail re-pointing", "C08.S6 error and iterator discipline", "C08.S7 keys", "C08.S8 Add links and stores", "C08.S9 look-up results and fall-backs", "C08.S10 decisive errors stay decisive"}

	gu := c.MustFunc("outputstream.(*OutputStream).getUnlocked")
	if gu == nil {
		return
	}
	var methods []*load.FuncInfo
	for _, fi := range c.P.FuncsIn("outputstream") {
		if fi.Obj != nil && astx.RecvNamed(fi.Obj) != nil && astx.RecvNamed(fi.Obj).Obj().Name() == "OutputStream" && fi.Body() != nil {
			methods = append(methods, fi)
		}
	}
	r.Functions = len(methods)

	// ---------- S1
	for _, fi := range methods {
		info := fi.Info()
		g := c.Graph(fi)
		// assignments from getUnlocked: pointer object -> list of (vertex, ok object or nil)
		type def struct {
			v     int
			okObj types.Object
			from  bool // true: from getUnlocked
		}
		defs := map[types.Object][]def{}
		for _, v := range g.Nodes() {
			as, ok := v.Node.(*ast.AssignStmt)
			if !ok {
				continue
			}
			for i, l := range as.Lhs {
				id, ok := l.(*ast.Ident)
				if !ok || id.Name == "_" {
					continue
				}
				o := astx.Obj(info, id)
				if o == nil {
					continue
				}
				if _, isPtr := o.Type().(*types.Pointer); !isPtr {
					continue
				}
				d := def{v: v.ID}
				if len(as.Rhs) == 1 && len(as.Lhs) == 2 && i == 0 {
					if call, ok := ast.Unparen(as.Rhs[0]).(*ast.CallExpr); ok {
						if fn := astx.Callee(info, call); fn == gu.Obj {
							d.from = true
							if okID, ok := as.Lhs[1].(*ast.Ident); ok && okID.Name != "_" {
								d.okObj = astx.Obj(info, okID)
							}
						}
					}
				}
				defs[o] = append(defs[o], d)
			}
		}
		if len(defs) == 0 {
			continue
		}
		seen := map[string]bool{}
		ast.Inspect(fi.Body(), func(n ast.Node) bool {
			se, ok := n.(*ast.SelectorExpr)
			if !ok {
				return true
			}
			id, ok := ast.Unparen(se.X).(*ast.Ident)
			if !ok {
				return true
			}
			o := astx.Obj(info, id)
			ds, tracked := defs[o]
			if !tracked {
				return true
			}
			uv := g.VertexOf(se)
			if uv < 0 {
				return true
			}
			// facts at the use, plus left operands of enclosing && within the same condition
			facts := g.FactsAt(uv)
			facts = append(facts, leftConjuncts(g.V[uv].Node, se)...)
			isDefOf := func(v int) bool {
				for _, d := range ds {
					if d.v == v {
						return true
					}
				}
				return false
			}
			for _, d := range ds {
				if !d.from {
					continue
				}
				// does this definition reach the use without an intervening redefinition? (loop-carried: from its successors back to itself)
				blockDefs := func(v int) bool { return v != uv && isDefOf(v) }
				reaches := false
				var starts []int
				for _, e := range g.V[d.v].Succ {
					starts = append(starts, e.To)
				}
				for _, st := range starts {
					if st == uv || (!blockDefs(st) && g.Reach(st, blockDefs, nil)[uv]) {
						reaches = true
					}
				}
				if !reaches {
					continue
				}
				// facts that hold on every redefinition-free path from the definition to the use
				var pathFacts []cfgx.Fact
				for _, vv := range g.V {
					if len(vv.Succ) != 2 || vv.Succ[0].Cond == nil || vv.Succ[0].To == vv.Succ[1].To {
						continue
					}
					for _, e := range vv.Succ {
						still := false
						for _, st := range starts {
							if st == uv && vv.ID != uv {
								still = true
							}
							if !blockDefs(st) && g.Reach(st, blockDefs, func(x *cfgx.Edge) bool { return x == e })[uv] {
								still = true
							}
						}
						if !still {
							pathFacts = append(pathFacts, cfgx.ExpandCond(e.Cond, e.Val)...)
						}
					}
				}
				okGuard := false
				if d.okObj != nil {
					// other assignments to the ok variable may only set it to false
					onlyFalse := true
					for _, dd := range defsOf(info, fi.Node(), d.okObj) {
						if dd == nil {
							continue
						}
						if call, isCall := ast.Unparen(dd).(*ast.CallExpr); isCall && astx.Callee(info, call) == gu.Obj {
							continue
						}
						if fid, isID := ast.Unparen(dd).(*ast.Ident); !isID || fid.Name != "false" {
							onlyFalse = false
						}
					}
					for _, f := range append(append([]cfgx.Fact{}, facts...), pathFacts...) {
						if fid, ok := ast.Unparen(f.Expr).(*ast.Ident); ok && f.Tag == nil && astx.Obj(info, fid) == d.okObj {
							if f.Val && onlyFalse {
								okGuard = true
							}
						}
					}
				}
				for _, f := range append(append([]cfgx.Fact{}, facts...), pathFacts...) {
					if x, isNil, ok := nilCompare(info, f); ok && !isNil {
						if xid, ok := ast.Unparen(x).(*ast.Ident); ok && astx.Obj(info, xid) == o {
							okGuard = true
						}
					}
				}
				what := "checked"
				if d.okObj == nil {
					what = "unchecked (ok discarded)"
				}
				// (the local's name is not part of the key: renaming it must not re-key a known finding)
				construct := "deref <batch>." + se.Sel.Name + " after " + what + " getUnlocked"
				if seen[construct] && okGuard {
					continue
				}
				seen[construct] = true
				r.Check(okGuard, "C08.S1", c.attribName(fi), construct, c.P.Pos(se.Pos()), "dominated by the look-up's ok result",
					"the batch pointer returned by getUnlocked is dereferenced on a path where the look-up may have failed (the batch was deleted while the lock was released, e.g. by compaction): nil pointer dereference in a reader goroutine, which exits the process")
			}
			return true
		})
	}
	r.Floor("C08.S1", 4)

	// ---------- S2
	gn := c.MustFunc("outputstream.(*OutputStream).GetNext")
	add := c.MustFunc("outputstream.(*OutputStream).Add")
	ign := c.MustFunc("outputstream.(*OutputStream).InterruptGetNext")
	if gn == nil || add == nil || ign == nil {
		return
	}
	isCondCall := func(info *types.Info, call *ast.CallExpr, name string) bool {
		fn := astx.Callee(info, call)
		return fn != nil && astx.Method(fn, "sync", "Cond", name)
	}
	for _, fi := range methods {
		info := fi.Info()
		g := c.Graph(fi)
		lf := c.lockFlow(fi, g, lockSet{})
		for _, call := range astx.Calls(fi.Body(), false) {
			if !isCondCall(info, call, "Wait") {
				continue
			}
			pos := c.P.Pos(call.Pos())
			v := g.VertexOf(call)
			// (a) inside a for loop whose body re-evaluates the predicate (a getUnlocked look-up) after the wait
			var loop *ast.ForStmt
			ast.Inspect(fi.Body(), func(n ast.Node) bool {
				if fs, ok := n.(*ast.ForStmt); ok && fs.Body.Pos() <= call.Pos() && call.End() <= fs.Body.End() {
					loop = fs
				}
				return true
			})
			okLoop := false
			if loop != nil {
				for _, c2 := range astx.Calls(loop.Body, false) {
					if fn := astx.Callee(info, c2); fn == gu.Obj {
						// reachable from the wait (next iteration)
						if g.Reach(v, nil, nil)[g.VertexOf(c2)] {
							okLoop = true
						}
					}
				}
			}
			r.Check(okLoop, "C08.S2", fi.Name(), "Wait is inside a loop that re-checks the predicate", pos, "for { look-up; …; Wait() }",
				"Wait is not followed by a re-evaluation of the successor look-up: a spurious or early wake-up returns without a message, or a missed one blocks forever")
			// (a') the predicate is evaluated under the write lock before waiting: on every path from the acquisition of
			// messagesMu (write mode) to Wait there is a successor look-up — otherwise an Add that lands between the read
			// lock being released and the write lock being taken is never noticed (lost wake-up)
			{
				missed := false
				for _, lv := range g.Nodes() {
					if lv.Node == nil {
						continue
					}
					isW := false
					for _, c2 := range astx.Calls(lv.Node, false) {
						if op := lockOpOf(info, c2); op != nil && op.op == "Lock" && op.lock == "OutputStream.messagesMu" {
							isW = true
						}
					}
					if !isW {
						continue
					}
					lookup := func(x int) bool {
						if g.V[x].Node == nil {
							return false
						}
						for _, c2 := range astx.Calls(g.V[x].Node, false) {
							if fn := astx.Callee(info, c2); fn == gu.Obj {
								return true
							}
						}
						return false
					}
					for _, e := range lv.Succ {
						if (e.To == v && !lookup(e.To)) || g.Reach(e.To, lookup, nil)[v] {
							missed = true
						}
					}
				}
				// … and that look-up uses a NextID read under the write lock: the batch the reader waits behind is re-read
				// (x = getUnlocked(…)) on every path from the acquisition to getUnlocked(x.NextID)
				for _, sv := range g.Nodes() {
					if sv.Node == nil {
						continue
					}
					for _, c2 := range astx.Calls(sv.Node, false) {
						if fn := astx.Callee(info, c2); fn != gu.Obj || len(c2.Args) != 1 {
							continue
						}
						se, ok := ast.Unparen(c2.Args[0]).(*ast.SelectorExpr)
						if !ok || se.Sel.Name != "NextID" {
							continue
						}
						xid, ok := ast.Unparen(se.X).(*ast.Ident)
						if !ok {
							continue
						}
						xo := astx.Obj(info, xid)
						refresh := func(x int) bool {
							as, ok := g.V[x].Node.(*ast.AssignStmt)
							if !ok || len(as.Rhs) != 1 {
								return false
							}
							rc, ok := ast.Unparen(as.Rhs[0]).(*ast.CallExpr)
							if !ok || astx.Callee(info, rc) != gu.Obj {
								return false
							}
							for _, l := range as.Lhs {
								if id, ok := l.(*ast.Ident); ok && astx.Obj(info, id) == xo {
									return true
								}
							}
							return false
						}
						for _, lv := range g.Nodes() {
							if lv.Node == nil {
								continue
							}
							isW := false
							for _, c3 := range astx.Calls(lv.Node, false) {
								if op := lockOpOf(info, c3); op != nil && op.op == "Lock" && op.lock == "OutputStream.messagesMu" {
									isW = true
								}
							}
							if !isW {
								continue
							}
							for _, e := range lv.Succ {
								if (e.To == sv.ID && !refresh(e.To)) || g.Reach(e.To, refresh, nil)[sv.ID] {
									missed = true
								}
							}
						}
					}
				}
				r.Check(!missed, "C08.S2", fi.Name(), "the successor look-up precedes the first Wait under the write lock", pos, "every path from messagesMu.Lock() to Wait() passes getUnlocked",
					"GetNext can reach Wait without having looked for a successor since it took the write lock: an Add that completed after the read lock was released is missed and the reader sleeps although a successor exists")
			}
			// (b) held in write mode
			r.Check(lf.must[v]["OutputStream.messagesMu"] == "W", "C08.S2", fi.Name(), "Wait with messagesMu held in write mode", pos, "lockset "+lf.must[v].String(),
				"sync.Cond.Wait is called without its Locker (messagesMu, write mode) held on every path: Wait unlocks an unlocked/read-locked mutex (runtime fatal error) or misses wake-ups")
			// (c) cancellation observed before waiting
			okCtx := g.DominatedBy(v, func(x *cfgx.Vertex) bool {
				found := false
				if x.Node != nil {
					ast.Inspect(x.Node, func(n ast.Node) bool {
						if cc, ok := n.(*ast.CallExpr); ok {
							if se, ok := ast.Unparen(cc.Fun).(*ast.SelectorExpr); ok && se.Sel.Name == "Done" {
								found = true
							}
						}
						return !found
					})
				}
				return found
			}) && loop != nil
			// the Done test must be inside the loop
			inLoop := false
			if loop != nil {
				ast.Inspect(loop.Body, func(n ast.Node) bool {
					if cc, ok := n.(*ast.CallExpr); ok {
						if se, ok := ast.Unparen(cc.Fun).(*ast.SelectorExpr); ok && se.Sel.Name == "Done" {
							inLoop = true
						}
					}
					return true
				})
			}
			r.Check(okCtx && inLoop, "C08.S2", fi.Name(), "cancellation is tested on every wake-up before waiting again", pos, "ctx.Done() tested inside the loop before Wait",
				"the wait loop does not test ctx.Done() before waiting again: a cancelled reader woken by InterruptGetNext goes back to sleep and leaks")
		}
	}
	{
		info := add.Info()
		g := c.Graph(add)
		lf := c.lockFlow(add, g, lockSet{})
		n := 0
		for _, call := range astx.Calls(add.Body(), false) {
			if !isCondCall(info, call, "Broadcast") {
				continue
			}
			n++
			v := g.VertexOf(call)
			pos := c.P.Pos(call.Pos())
			okW, _ := c.errNilAfterCall(add, g, v, func(fn *types.Func, cc *ast.CallExpr) bool {
				return fname(fn) == "Write" && fn.Pkg() != nil && fn.Pkg().Path() == pathLevelDB
			})
			r.Check(okW, "C08.S2", add.Name(), "Broadcast after the batch was written", pos, "dominated by the nil-error edge of db.Write", "readers are woken before (or although) the new batch was not written: they look it up, miss it and go back to sleep for good")
			r.Check(lf.must[v]["OutputStream.messagesMu"] == "W", "C08.S2", add.Name(), "Broadcast with messagesMu held", pos, "lockset "+lf.must[v].String(), "Add broadcasts without holding messagesMu: a reader between its look-up and Wait misses the wake-up")
		}
		// every successful return passes a Broadcast
		for _, rv := range g.Returns() {
			rs := rv.Node.(*ast.ReturnStmt)
			if len(rs.Results) == 1 && isNilIdent(info, rs.Results[0]) {
				ok := g.DominatedBy(rv.ID, func(x *cfgx.Vertex) bool {
					if x.Node == nil {
						return false
					}
					for _, cc := range astx.Calls(x.Node, false) {
						if isCondCall(info, cc, "Broadcast") {
							return true
						}
					}
					return false
				})
				r.Check(ok, "C08.S2", add.Name(), "every successful Add wakes the readers", c.P.Pos(rs.Pos()), "Broadcast dominates return nil", "Add can succeed without waking blocked readers: GetNext stays blocked although a successor exists")
			}
		}
		r.Check(n >= 1, "C08.S2", add.Name(), "Add broadcasts", c.P.Pos(add.Node().Pos()), "found", "Add never calls newMessage.Broadcast()")
	}
	{
		info := ign.Info()
		g := c.Graph(ign)
		lf := c.lockFlow(ign, g, lockSet{})
		n := 0
		for _, call := range astx.Calls(ign.Body(), false) {
			if isCondCall(info, call, "Broadcast") {
				n++
				v := g.VertexOf(call)
				r.Check(lf.must[v]["OutputStream.messagesMu"] == "W", "C08.S2", ign.Name(), "Broadcast with messagesMu held", c.P.Pos(call.Pos()), "lockset "+lf.must[v].String(), "InterruptGetNext broadcasts without messagesMu: a reader that tested ctx.Done() but has not yet called Wait misses the interrupt")
			}
		}
		r.Check(n == 1, "C08.S2", ign.Name(), "InterruptGetNext broadcasts", c.P.Pos(ign.Node().Pos()), "found", "InterruptGetNext does not broadcast")
	}
	// the Cond's Locker is messagesMu
	if ctor := c.MustFunc("outputstream.NewOutputStream"); ctor != nil {
		// wherever the package makes a condition variable (the constructor, or the one it delegates to), its Locker is messagesMu
		ok, nCond := true, 0
		for _, fi := range c.P.FuncsIn("outputstream") {
			if fi.Body() == nil {
				continue
			}
			info := fi.Info()
			for _, call := range astx.Calls(fi.Body(), true) {
				if fn := astx.Callee(info, call); fn != nil && isFunc(fn, "sync", "NewCond") && len(call.Args) == 1 {
					nCond++
					bound := false
					if u, isU := ast.Unparen(call.Args[0]).(*ast.UnaryExpr); isU && u.Op == token.AND {
						if se, isSel := ast.Unparen(u.X).(*ast.SelectorExpr); isSel && astx.FieldSel(info, se) != nil && astx.FieldSel(info, se) == c.P.Field("outputstream", "OutputStream", "messagesMu") {
							bound = true
						}
					}
					if !bound {
						ok = false
					}
				}
			}
		}
		r.Check(ok && nCond > 0, "C08.S2", ctor.Name(), "the condition variable's Locker is messagesMu", c.P.Pos(ctor.Node().Pos()), "sync.NewCond(&os.messagesMu)", "newMessage is not bound to messagesMu")
	}

	// ---------- S3b a stored batch is deleted with the readers shut out: eviction from the cache and removal from LevelDB are
	// two steps; a reader that misses the cache between them reads the batch from LevelDB and puts it back into the cache,
	// where it outlives its deletion. The LevelDB delete runs under messagesMu held for writing.
	{
		nDel := 0
		pkgFns := c.P.FuncsIn("outputstream")
		for _, fi := range pkgFns {
			if fi.Body() == nil {
				continue
			}
			info := fi.Info()
			g := c.Graph(fi)
			var lf *lockFlowResult
			for _, v := range g.Nodes() {
				for _, call := range astx.Calls(v.Node, false) {
					fn := astx.Callee(info, call)
					if fn == nil || fn.Name() != "Delete" || fn.Pkg() == nil || !strings.HasPrefix(fn.Pkg().Path(), pathLevelDB) {
						continue
					}
					if rn := astx.RecvNamed(fn); rn == nil || rn.Obj().Name() != "DB" {
						continue
					}
					nDel++
					if lf == nil {
						// an unexported helper starts with what every caller in the package holds where it calls it
						entry := lockSet{}
						if fi.Obj != nil && !fi.Obj.Exported() {
							first := true
							for _, cf := range pkgFns {
								if cf.Body() == nil || cf == fi {
									continue
								}
								cg := c.Graph(cf)
								var clf *lockFlowResult
								for _, cc := range callsIn(cf, func(f2 *types.Func, _ *ast.CallExpr) bool { return f2 == fi.Obj }) {
									if clf == nil {
										clf = c.lockFlow(cf, cg, lockSet{})
									}
									held := clf.must[cg.VertexOf(cc)]
									if first {
										entry, first = held.clone(), false
									} else {
										for k, m := range entry {
											if held[k] != m {
												delete(entry, k)
											}
										}
									}
								}
							}
						}
						lf = c.lockFlow(fi, g, entry)
					}
					// … and so does the eviction of that batch from the cache, in the same function: evicting first and taking
					// the lock afterwards lets a reader put the batch back in between
					cf := c.P.Field("outputstream", "OutputStream", "messagesCache")
					for _, u := range g.Nodes() {
						for _, dc := range astx.Calls(u.Node, false) {
							if astx.Builtin(info, dc) != "delete" || len(dc.Args) != 2 {
								continue
							}
							if se, isSel := ast.Unparen(dc.Args[0]).(*ast.SelectorExpr); isSel && cf != nil && astx.FieldSel(info, se) == cf {
								r.Check(lf.must[u.ID]["OutputStream.messagesMu"] == "W", "C08.S3", fi.Name(), "the batch is evicted from the cache in the critical section that deletes it", c.P.Pos(dc.Pos()), "lockset "+lf.must[u.ID].String(),
									"the cache entry is dropped without messagesMu held for writing while the removal from LevelDB happens later under it: a reader in between misses the cache, reads the batch from LevelDB and caches it again — the deleted batch is served from then on")
							}
						}
					}
					r.Check(lf.must[v.ID]["OutputStream.messagesMu"] == "W", "C08.S3", fi.Name(), "a batch is deleted from LevelDB with messagesMu held for writing", c.P.Pos(call.Pos()), "lockset "+lf.must[v.ID].String(),
						"the batch is removed from LevelDB while readers may run (read lock, or none): a Get / GetNext that misses the cache between the eviction and the removal re-inserts the batch, and the deleted batch is served from the cache from then on")
				}
			}
		}
		if nDel == 0 {
			r.Break("C08.S3: no LevelDB Delete found in package outputstream")
		}
	}

	// ---------- S3
	cacheField := c.P.Field("outputstream", "OutputStream", "messagesCache")
	for _, fi := range []*load.FuncInfo{add, c.MustFunc("outputstream.(*OutputStream).Delete")} {
		if fi == nil {
			continue
		}
		info := fi.Info()
		g := c.Graph(fi)
		// key ids: value last encoded into the key buffer before each Put/Delete
		var lastKey ast.Expr
		var mutV int
		evicted := func(id ast.Expr) bool {
			ok := false
			ast.Inspect(fi.Body(), func(n ast.Node) bool {
				if call, isC := n.(*ast.CallExpr); isC && astx.Builtin(info, call) == "delete" && len(call.Args) == 2 {
					if se, isSel := ast.Unparen(call.Args[0]).(*ast.SelectorExpr); isSel && astx.FieldSel(info, se) == cacheField && astx.Same(info, call.Args[1], id) {
						// under cacheMu, and on every path on which the record is mutated
						v := g.VertexOf(call)
						onEveryPath := g.DominatedBy(mutV, func(x *cfgx.Vertex) bool { return x.ID == v }) || g.PostDominatedBy(mutV, g.Exit, func(x *cfgx.Vertex) bool { return x.ID == v })
						if c.lockFlow(fi, g, lockSet{}).must[v]["OutputStream.cacheMu"] == "W" && onEveryPath {
							ok = true
						}
					}
				}
				// … or a call of a helper that evicts the entry of its parameter on every path, under cacheMu
				if call, isC := n.(*ast.CallExpr); isC {
					if fn := astx.Callee(info, call); fn != nil {
						if cal := c.P.FuncOf(fn); cal != nil && cal != fi {
							if pi := c.evictorParam(cal, cacheField); pi >= 0 && pi < len(call.Args) && astx.Same(info, call.Args[pi], id) {
								v := g.VertexOf(call)
								onEveryPath := g.DominatedBy(mutV, func(x *cfgx.Vertex) bool { return x.ID == v }) || g.PostDominatedBy(mutV, g.Exit, func(x *cfgx.Vertex) bool { return x.ID == v })
								if onEveryPath {
									ok = true
								}
							}
						}
					}
				}
				return true
			})
			return ok
		}
		var newBatch ast.Expr // Add: the id of the messages being added (fresh key)
		if fi == add {
			for _, fld := range fi.FuncType().Params.List {
				for _, nm := range fld.Names {
					_ = nm
				}
			}
		}
		for _, v := range g.Nodes() {
			if v.Node == nil {
				continue
			}
			for _, call := range astx.Calls(v.Node, false) {
				if en, m := endianOf(info, call); m == "PutUint64" && en != "" && len(call.Args) == 2 {
					lastKey = call.Args[1]
					continue
				}
				se, ok := ast.Unparen(call.Fun).(*ast.SelectorExpr)
				if !ok || (se.Sel.Name != "Put" && se.Sel.Name != "Delete") {
					continue
				}
				fn := astx.Callee(info, call)
				if fn == nil || fn.Pkg() == nil || fn.Pkg().Path() != pathLevelDB {
					continue
				}
				if lastKey == nil {
					continue
				}
				mutV = v.ID
				pos := c.P.Pos(call.Pos())
				construct := se.Sel.Name + " of batch " + astx.Str(lastKey)
				// exemptions
				if fi == add && isParamIndex(info, fi, lastKey) {
					r.Except("C08.S3", fi.Name(), construct, pos, "fresh key of the batch being added: only found batches are cached (checked below), so no entry can exist for it")
					_ = newBatch
					continue
				}
				if fi != add && se.Sel.Name == "Put" {
					r.Except("C08.S3", fi.Name(), construct, pos, "re-pointing Put of the new tail inside Delete: a stale cached NextID names the batch just deleted, which GetNext treats as 'not found' and resolves by range search")
					continue
				}
				r.Check(evicted(lastKey), "C08.S3", fi.Name(), construct+" evicts the cache entry", pos, "delete(os.messagesCache, <same id>) under cacheMu",
					"a stored batch is rewritten or deleted without evicting its cache entry: readers keep following the cached NextID (MaxUint64) and stay blocked although a successor exists, or read a deleted batch")
			}
		}
	}
	{
		info := gu.Info()
		g := c.Graph(gu)
		n := 0
		for _, v := range g.Nodes() {
			as, ok := v.Node.(*ast.AssignStmt)
			if !ok || len(as.Lhs) != 1 {
				continue
			}
			ie, ok := ast.Unparen(as.Lhs[0]).(*ast.IndexExpr)
			if !ok {
				continue
			}
			se, ok := ast.Unparen(ie.X).(*ast.SelectorExpr)
			if !ok || astx.FieldSel(info, se) != cacheField {
				continue
			}
			n++
			okFound, _ := c.errNilAfterCall(gu, g, v.ID, func(fn *types.Func, cc *ast.CallExpr) bool {
				return fname(fn) == "Get" && fn.Pkg() != nil && fn.Pkg().Path() == pathLevelDB
			})
			r.Check(okFound, "C08.S3", gu.Name(), "only found batches are cached", c.P.Pos(as.Pos()), "cache insert on the nil-error edge of db.Get", "a failed look-up is cached: a batch added later under that id stays invisible")
			lf := c.lockFlow(gu, g, lockSet{})
			r.Check(lf.must[v.ID]["OutputStream.cacheMu"] == "W", "C08.S3", gu.Name(), "cache insert under cacheMu", c.P.Pos(as.Pos()), "lockset "+lf.must[v.ID].String(), "the cache is written without cacheMu in write mode")
		}
		// … or the insertion lives in a helper called from here: cache[<its key parameter>] = <its value parameter> under
		// cacheMu, the key parameter never reassigned, called with the requested id on the found edge
		if n == 0 {
			var idP types.Object
			for _, fld := range gu.FuncType().Params.List {
				for _, nm := range fld.Names {
					idP = info.Defs[nm]
				}
			}
			for _, v := range g.Nodes() {
				if v.Node == nil {
					continue
				}
				for _, call := range astx.Calls(v.Node, false) {
					fn := astx.Callee(info, call)
					if fn == nil {
						continue
					}
					h := c.P.FuncOf(fn)
					if h == nil || h == gu || h.Body() == nil {
						continue
					}
					hi := h.Info()
					hg := c.Graph(h)
					hlf := c.lockFlow(h, hg, lockSet{})
					var hparams []types.Object
					for _, fld := range h.FuncType().Params.List {
						for _, nm := range fld.Names {
							hparams = append(hparams, hi.Defs[nm])
						}
					}
					for _, hv := range hg.Nodes() {
						as, ok := hv.Node.(*ast.AssignStmt)
						if !ok || len(as.Lhs) != 1 {
							continue
						}
						ie, ok := ast.Unparen(as.Lhs[0]).(*ast.IndexExpr)
						if !ok {
							continue
						}
						se, ok := ast.Unparen(ie.X).(*ast.SelectorExpr)
						if !ok || astx.FieldSel(hi, se) != cacheField {
							continue
						}
						n++
						kid, isID := ast.Unparen(ie.Index).(*ast.Ident)
						kpos := -1
						for k, hp := range hparams {
							if isID && astx.Obj(hi, kid) == hp && len(defsOf(hi, h.Node(), hp)) == 0 {
								kpos = k
							}
						}
						argOK := false
						if kpos >= 0 && kpos < len(call.Args) {
							if aid, ok := ast.Unparen(call.Args[kpos]).(*ast.Ident); ok && astx.Obj(info, aid) == idP {
								argOK = true
							}
						}
						r.Check(argOK, "C08.S3", gu.Name(), "the batch is cached under the requested id", c.P.Pos(call.Pos()), "helper(<id parameter>, …) stores under its unassigned key parameter", "the cache helper is not called with the requested id, or reassigns its key: the batch is cached under a different id")
						okFound, _ := c.errNilAfterCall(gu, g, v.ID, func(fn *types.Func, cc *ast.CallExpr) bool {
							return fname(fn) == "Get" && fn.Pkg() != nil && fn.Pkg().Path() == pathLevelDB
						})
						r.Check(okFound, "C08.S3", gu.Name(), "only found batches are cached", c.P.Pos(call.Pos()), "cache insert on the nil-error edge of db.Get", "a failed look-up is cached: a batch added later under that id stays invisible")
						r.Check(hlf.must[hv.ID]["OutputStream.cacheMu"] == "W", "C08.S3", h.Name(), "cache insert under cacheMu", c.P.Pos(as.Pos()), "lockset "+hlf.must[hv.ID].String(), "the cache is written without cacheMu in write mode")
					}
				}
			}
		}
		r.Check(n == 1, "C08.S3", gu.Name(), "one cache insertion", c.P.Pos(gu.Node().Pos()), "found", "expected exactly one insertion into messagesCache")
		// the batch is cached (and looked up) under the id that was asked for: the id parameter is never reassigned
		var idParam types.Object
		for _, fld := range gu.FuncType().Params.List {
			for _, nm := range fld.Names {
				idParam = info.Defs[nm]
			}
		}
		if idParam != nil {
			r.Check(len(defsOf(info, gu.Node(), idParam)) == 0, "C08.S3", gu.Name(), "the requested id is not overwritten", c.P.Pos(gu.Node().Pos()), "parameter has no assignment",
				"getUnlocked assigns to its id parameter (e.g. as the variable of a range loop): the batch read from disk is cached under a different id and later look-ups of that id return the wrong batch")
		}
	}

	// ---------- S3c: the look-up that fills the cache runs under messagesMu at every call site (otherwise a reader can
	// cache a batch that Add rewrites in between: the eviction in Add comes first and the stale copy is inserted after it)
	// ---------- S5: Delete re-points the tail only when the deleted id IS the newest batch (equality, not an order test)
	{
		n := 0
		for _, fi := range methods {
			info := fi.Info()
			g := c.Graph(fi)
			var lf *lockFlowResult
			for _, call := range astx.Calls(fi.Body(), false) {
				fn := astx.Callee(info, call)
				if fn == nil || c.P.FuncOf(fn) != gu {
					continue
				}
				if lf == nil {
					lf = c.lockFlow(fi, g, lockSet{})
				}
				n++
				v := g.VertexOf(call)
				held := ""
				if v >= 0 {
					held = lf.must[v]["OutputStream.messagesMu"]
				}
				r.Check(held != "", "C08.S3", fi.Name(), "getUnlocked is called with messagesMu held", c.P.Pos(call.Pos()), "lockset "+lf.must[maxInt(v, 0)].String(),
					"the cache-filling look-up runs without messagesMu: a concurrent Add can evict the cache entry and rewrite the batch between the read from disk and the cache insert, which then stores the stale batch (NextID = none) for good — readers of that id stay blocked although a successor exists")
			}
		}
		r.Check(n >= 3, "C08.S3", gu.Name(), "call sites of getUnlocked found", c.P.Pos(gu.Node().Pos()), itoa(n), "fewer call sites of getUnlocked than expected")
		if del := c.P.Func("outputstream.(*OutputStream).Delete"); del != nil {
			info := del.Info()
			g := c.Graph(del)
			lastseenF := c.P.Field("outputstream", "OutputStream", "lastseen")
			nW := 0
			for _, v := range g.Nodes() {
				as, ok := v.Node.(*ast.AssignStmt)
				if !ok {
					continue
				}
				for _, l := range as.Lhs {
					se, ok := ast.Unparen(l).(*ast.SelectorExpr)
					if !ok || astx.FieldSel(info, se) != lastseenF || lastseenF == nil {
						continue
					}
					nW++
					okEq := false
					for _, fct := range g.FactsAt(v.ID) {
						be, ok := ast.Unparen(fct.Expr).(*ast.BinaryExpr)
						if !ok || fct.Tag != nil {
							continue
						}
						mentionsTail := func(e ast.Expr) bool {
							found := false
							ast.Inspect(e, func(m ast.Node) bool {
								if s2, ok := m.(*ast.SelectorExpr); ok && astx.FieldSel(info, s2) == lastseenF {
									found = true
								}
								return true
							})
							return found
						}
						if (mentionsTail(be.X) || mentionsTail(be.Y)) && ((be.Op == token.EQL && fct.Val) || (be.Op == token.NEQ && !fct.Val)) {
							okEq = true
						}
					}
					r.Check(okEq, "C08.S5", del.Name(), "the tail is re-pointed only when the newest batch itself is deleted", c.P.Pos(as.Pos()), "dominated by <deleted id> == <newest id>",
						"Delete rewrites lastseen on a path where the deleted id was not compared equal to the newest batch's id (e.g. an order test): deleting a non-existing or other id rolls the tail back, the following Add links past an existing batch and readers behind it stay blocked or skip it")
				}
			}
			r.Check(nW >= 1, "C08.S5", del.Name(), "tail re-pointing found", c.P.Pos(del.Node().Pos()), itoa(nW), "Delete no longer re-points lastseen when the newest batch is deleted: GetNext blocks forever behind the deleted batch")
			// S5b: the only stored batch Delete rewrites is the new tail: every Put sits under the same equality
			for _, v := range g.Nodes() {
				for _, call := range astx.Calls(v.Node, false) {
					if !leveldbCall(info, call, "Put") {
						continue
					}
					okEq := false
					for _, fct := range g.FactsAt(v.ID) {
						be, ok := ast.Unparen(fct.Expr).(*ast.BinaryExpr)
						if !ok || fct.Tag != nil {
							continue
						}
						mt := func(e ast.Expr) bool {
							found := false
							ast.Inspect(e, func(m ast.Node) bool {
								if s2, ok := m.(*ast.SelectorExpr); ok && astx.FieldSel(info, s2) == lastseenF {
									found = true
								}
								return true
							})
							return found
						}
						if (mt(be.X) || mt(be.Y)) && ((be.Op == token.EQL && fct.Val) || (be.Op == token.NEQ && !fct.Val)) {
							okEq = true
						}
					}
					r.Check(okEq, "C08.S5", del.Name(), "Delete rewrites a stored batch only when the newest batch itself is deleted", c.P.Pos(call.Pos()), "Put dominated by <deleted id> == <newest id>",
						"Delete rewrites a stored batch (its link to the successor) on a path where the deleted id is not the newest batch: links are maintained by Add alone, and a Delete of an id that does not exist then unlinks an existing batch — readers skip it or block behind it")
				}
			}
		}
		// S5c: batches leave the store through Delete (and the wipe in reset) only: any other function that deletes keys would
		// have to maintain the tail and the links as well
		for _, fi := range c.P.FuncsIn("outputstream") {
			if fi.Body() == nil || fi.Name() == "outputstream.(*OutputStream).Delete" {
				continue
			}
			info := fi.Info()
			for _, call := range astx.Calls(fi.Body(), true) {
				if leveldbCall(info, call, "Delete") {
					r.Fail("C08.S5", fi.Name(), "batches are deleted by OutputStream.Delete only", c.P.Pos(call.Pos()),
						"a second function deletes batches from the store: only Delete re-points the in-memory tail when the newest batch goes — after a deletion that includes the newest batch, the next Add links the new batch behind the deleted one and writes the deleted batch back, so readers stay blocked although a successor exists and Get returns deleted output")
				}
			}
		}
	}

	// ---------- S4 lock hygiene
	c.c08Keys(methods)
	c.c08Add()
	c.c08Lookups()
	c.errorDispositions("C08.S10", []string{"outputstream"}, nil, "Add / Delete report success although the store was not changed")
	// … and Add / Delete fail only when the database does: the state machine treats a failed Add as fatal for the node
	for _, name := range []string{"outputstream.(*OutputStream).Add", "outputstream.(*OutputStream).Delete"} {
		c.noOwnErrors("C08.S10", c.P.Func(name), "the state machine stops the node on a failed Add: an input the output stream refuses (an empty batch, text that is not UTF-8) kills every node that applies the entry")
	}
	// ---------- S6 error and iterator discipline of the package
	{
		nErr, nPos := 0, 0
		for _, fi := range c.P.FuncsIn("outputstream") {
			if fi.Body() == nil {
				continue
			}
			nErr += c.errorDiscipline("C08.S6", fi, "Add / Delete report success although the store was not changed, or Get / GetNext hand back a batch that was not read")
			nPos += c.iteratorDiscipline("C08.S6", fi)
		}
		r.Ok("C08.S6", "outputstream", "error definitions and iterator positioning calls inspected", "-", itoa(nErr)+" / "+itoa(nPos))
		if nErr < 5 || nPos < 2 {
			r.Break("C08.S6: only %d error definitions / %d positioning calls found in outputstream", nErr, nPos)
		}
	}
	c.lockHygiene("C08.S4", methods, "the next Add/Delete/GetNext blocks forever", "after which GetNext and every other caller stay blocked forever")
	r.Floor("C08.S4", 15)
}

// leftConjuncts: when `inner` lies in the right operand of && inside node n, the left operands hold.
func leftConjuncts(n ast.Node, inner ast.Node) []cfgx.Fact {
	var out []cfgx.Fact
	if n == nil {
		return nil
	}
	ast.Inspect(n, func(m ast.Node) bool {
		be, ok := m.(*ast.BinaryExpr)
		if !ok {
			return true
		}
		if be.Y.Pos() <= inner.Pos() && inner.End() <= be.Y.End() {
			switch be.Op {
			case token.LAND:
				out = append(out, cfgx.ExpandCond(be.X, true)...)
			case token.LOR:
				out = append(out, cfgx.ExpandCond(be.X, false)...)
			}
		}
		return true
	})
	return out
}

// isParamIndex: e mentions a slice parameter of fi (msgs[0].Id.Id).
func isParamIndex(info *types.Info, fi *load.FuncInfo, e ast.Expr) bool {
	e = astx.Expand(info, e)
	// a local that is defined once from the parameter (newID := uint64(msgs[0].Id.Id))
	for k := 0; k < 3; k++ {
		if d := uniqueDef(info, fi.Node(), e); d != nil {
			e = ast.Unparen(d)
			continue
		}
		break
	}
	b := astx.BaseIdent(stripConv(info, e))
	if b == nil {
		return false
	}
	o := astx.Obj(info, b)
	for _, fld := range fi.FuncType().Params.List {
		for _, nm := range fld.Names {
			if info.Defs[nm] == o {
				return true
			}
		}
	}
	return false
}

func stripConv(info *types.Info, e ast.Expr) ast.Expr {
	for {
		e = ast.Unparen(e)
		call, ok := e.(*ast.CallExpr)
		if ok && astx.IsConversion(info, call) && len(call.Args) == 1 {
			e = call.Args[0]
			continue
		}
		return e
	}
}

// evictorParam: fi deletes cache[<parameter k>] on every path from entry to exit while holding cacheMu in write mode
// (acquired by itself); returns k, or -1.
func (c *Ctx) evictorParam(fi *load.FuncInfo, cacheField *types.Var) int {
	if fi.Body() == nil || cacheField == nil {
		return -1
	}
	info := fi.Info()
	var params []types.Object
	for _, fld := range fi.FuncType().Params.List {
		for _, nm := range fld.Names {
			params = append(params, info.Defs[nm])
		}
	}
	g := c.Graph(fi)
	lf := c.lockFlow(fi, g, lockSet{})
	res := -1
	for _, call := range astx.Calls(fi.Body(), false) {
		if astx.Builtin(info, call) != "delete" || len(call.Args) != 2 {
			continue
		}
		se, ok := ast.Unparen(call.Args[0]).(*ast.SelectorExpr)
		if !ok || astx.FieldSel(info, se) != cacheField {
			continue
		}
		id, ok := ast.Unparen(call.Args[1]).(*ast.Ident)
		if !ok {
			continue
		}
		v := g.VertexOf(call)
		if v < 0 || lf.must[v]["OutputStream.cacheMu"] != "W" {
			continue
		}
		// on every path through the function
		if g.Reach(g.Entry, func(x int) bool { return x == v }, nil)[g.Exit] {
			continue
		}
		for k, p := range params {
			if p == astx.Obj(info, id) && len(defsOf(info, fi.Node(), p)) == 0 {
				res = k
			}
		}
	}
	return res
}
