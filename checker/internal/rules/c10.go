package rules

import (
	"go/ast"
	"go/types"
	"strings"

	"verif/checker/internal/astx"
	"verif/checker/internal/cfgx"
	"verif/checker/internal/load"
)

func init() { register("C10", c10) }

func c10(c *Ctx) {
	r := c.R
	r.Explanation = "Partial: the structure that implements the duplicate marker. (U1) in handlePostMessage every path to the commit call or to the leader hand-off takes the false edge of LastPostMessage(session) == req.ClientMessageId, the short-cut edge acknowledges without proposing, and the same request field flows into the proposal; (U2) the state machine records the marker before processing a client line and also for entries skipped as message of death; (U3) Session.lastClientMessageId has exactly the expected writers/readers and is written from the entry's ClientMessageId; (U4) the marker and the message field survive snapshot and every log encoding. Whether a retry actually arrives after the first copy was applied on the handling replica is a schedule question and not decided."
	r.Rules = []string{"C10.U1 handler short-cut", "C10.U2 record before processing and for tombstones", "C10.U3 single writer, right value", "C10.U4 marker is replicated", "C10.U5 one entry point for client lines"}

	// U1b: the marker accessor returns the stored marker for every session it finds (no further condition)
	if lpm := c.MustFunc("ircserver.(*IRCServer).LastPostMessage"); lpm != nil {
		info := lpm.Info()
		g := c.Graph(lpm)
		marker := c.P.Field("ircserver", "Session", "lastClientMessageId")
		sessions := c.P.Field("ircserver", "IRCServer", "sessions")
		var okObj types.Object
		ast.Inspect(lpm.Body(), func(n ast.Node) bool {
			as, ok := n.(*ast.AssignStmt)
			if !ok || len(as.Lhs) != 2 || len(as.Rhs) != 1 {
				return true
			}
			if ie, ok := ast.Unparen(as.Rhs[0]).(*ast.IndexExpr); ok {
				if se, ok := ast.Unparen(ie.X).(*ast.SelectorExpr); ok && astx.FieldSel(info, se) == sessions && sessions != nil {
					if id, ok := as.Lhs[1].(*ast.Ident); ok {
						okObj = astx.Obj(info, id)
					}
				}
			}
			return true
		})
		nRet := 0
		for _, rv := range g.Returns() {
			rs := rv.Node.(*ast.ReturnStmt)
			if len(rs.Results) != 1 {
				continue
			}
			nRet++
			isMarker := false
			ast.Inspect(rs.Results[0], func(m ast.Node) bool {
				if se, ok := m.(*ast.SelectorExpr); ok && astx.FieldSel(info, se) == marker && marker != nil {
					isMarker = true
				}
				return true
			})
			if isMarker {
				continue
			}
			// a return of anything else must not be reachable from the edge on which the session was found
			okAll := okObj != nil
			for _, v := range g.V {
				for _, e := range v.Succ {
					if e.Cond == nil || e.Tag != nil {
						continue
					}
					// can this edge be taken although the session was found? (some alternative of its condition lacks !ok)
					// clausesOf yields a conjunction of disjunctive clauses: the edge implies !ok iff some clause consists of !ok only
					found := false
					if astx.Mentions(info, e.Cond, okObj) {
						found = true
						for _, cl := range c.clausesOf(info, lpm.Node(), e.Cond, e.Val, 0) {
							onlyNotOK := len(cl) > 0
							for _, l := range cl {
								if id, ok := ast.Unparen(l.E).(*ast.Ident); !ok || astx.Obj(info, id) != okObj || l.Pos {
									onlyNotOK = false
								}
							}
							if onlyNotOK {
								found = false
							}
						}
					}
					if found && (e.To == rv.ID || g.Reach(e.To, nil, nil)[rv.ID]) {
						okAll = false
					}
				}
			}
			r.Check(okAll, "C10.U1", lpm.Name(), "a found session always reports its marker", c.P.Pos(rs.Pos()), "returns other than the marker only where the session look-up failed",
				"LastPostMessage returns something else than the stored marker for some sessions that exist (an extra condition next to the look-up): their retried POSTs are not recognised as duplicates")
		}
		r.Check(nRet >= 2, "C10.U1", lpm.Name(), "returns found", c.P.Pos(lpm.Node().Pos()), itoa(nRet), "unexpected shape of LastPostMessage")
	}
	// U1
	if fi := c.MustFunc("api.(*HTTP).handlePostMessage"); fi != nil {
		r.Functions++
		info := fi.Info()
		g := c.Graph(fi)
		amw := c.amwLike()
		isAMW := func(fn *types.Func, _ *ast.CallExpr) bool { return amw[fn] }
		isProxy := func(fn *types.Func, _ *ast.CallExpr) bool { return isFunc(fn, "api", "(*HTTP).maybeProxyToLeader") }
		isHTTPError := func(fn *types.Func, _ *ast.CallExpr) bool { return isFunc(fn, "net/http", "Error") }
		var dupCond ast.Expr
		sites := append(callsIn(fi, isAMW), callsIn(fi, isProxy)...)
		for _, call := range sites {
			v := g.VertexOf(call)
			ok := false
			for _, f := range g.FactsAt(v) {
				if f.Tag == nil && !f.Val && isDupTest(info, f.Expr) {
					ok = true
					dupCond = f.Expr
				}
			}
			r.Check(ok, "C10.U1", fi.Name(), "duplicate test before "+astx.Str(call.Fun), c.P.Pos(call.Pos()),
				"dominated by the false edge of LastPostMessage(..) == req.ClientMessageId",
				"a path reaches "+astx.Str(call.Fun)+" without the duplicate test having failed: a retried POST is proposed (or forwarded) again")
		}
		r.Floor("C10.U1", 3)
		// U1c: the handler answers with success without having proposed, forwarded or reported an error only where the
		// REPLICATED marker says the message was applied: such a return is implied by the duplicate test alone
		{
			effect := func(id int) bool {
				x := g.V[id]
				return containsCall(info, x, isAMW) || containsCall(info, x, isProxy) || containsCall(info, x, isHTTPError)
			}
			silent := g.Reach(g.Entry, effect, nil)
			for _, rv := range g.Returns() {
				if !silent[rv.ID] {
					continue
				}
				okDup := implied(c.clausesAt(fi, g, rv.ID), func(l lit) bool { return l.Pos && isDupTest(info, l.E) })
				r.Check(okDup, "C10.U1", fi.Name(), "success without proposing only for a duplicate the replicated marker shows", c.P.Pos(rv.Node.Pos()), "the return is implied by LastPostMessage(session) == req.ClientMessageId",
					"the handler acknowledges a POST without proposing it on a path that is not justified by the replicated duplicate marker alone (e.g. a node-local memory of recent ids): a message whose first attempt failed is acknowledged on retry and never committed — an acknowledged message is lost")
			}
		}
		if dupCond != nil {
			be := ast.Unparen(dupCond).(*ast.BinaryExpr)
			var lpm *ast.CallExpr
			var cmi ast.Expr
			if call, ok := ast.Unparen(be.X).(*ast.CallExpr); ok {
				lpm, cmi = call, be.Y
			} else if call, ok := ast.Unparen(be.Y).(*ast.CallExpr); ok {
				lpm, cmi = call, be.X
			}
			// argument of LastPostMessage is the authenticated session parameter
			var sessParam types.Object
			for _, fld := range fi.FuncType().Params.List {
				for _, nm := range fld.Names {
					if o := info.Defs[nm]; o != nil && astx.IsNamed(o.Type(), pathRobust, "Id") {
						sessParam = o
					}
				}
			}
			okArg := false
			if lpm != nil && len(lpm.Args) == 1 {
				if id, ok := ast.Unparen(lpm.Args[0]).(*ast.Ident); ok && astx.Obj(info, id) == sessParam && sessParam != nil {
					okArg = true
				}
			}
			r.Check(okArg, "C10.U1", fi.Name(), "duplicate test uses the authenticated session", c.P.Pos(dupCond.Pos()), "argument is the robust.Id parameter",
				"LastPostMessage is not asked about the authenticated session id")
			// the compared request field is the one proposed, for the same session
			for _, cl := range compositeLitsOf(info, fi.Body(), pathRobust, "Message") {
				v := litField(cl, "ClientMessageId")
				r.Check(v != nil && astx.Same(info, v, cmi), "C10.U1", fi.Name(), "proposal carries the tested ClientMessageId", c.P.Pos(cl.Pos()),
					"ClientMessageId: "+astx.Str(cmi), "the proposed message does not carry the request's ClientMessageId that the duplicate test compared")
				s := litField(cl, "Session")
				okS := false
				if id, ok := ast.Unparen(s).(*ast.Ident); s != nil && ok && astx.Obj(info, id) == sessParam {
					okS = true
				}
				r.Check(okS, "C10.U1", fi.Name(), "proposal is for the authenticated session", c.P.Pos(cl.Pos()), "Session: <parameter>",
					"the proposed message's Session is not the authenticated session parameter")
			}
			// the short-cut edge acknowledges: from the true edge, exit is reached without commit, proxy or error answer
			for _, v := range g.V {
				for _, e := range v.Succ {
					if e.Cond == nil || !e.Val {
						continue
					}
					hit := false
					for _, f := range cfgx.ExpandCond(e.Cond, true) {
						if f.Val && f.Tag == nil && isDupTest(info, f.Expr) {
							hit = true
						}
					}
					if !hit {
						continue
					}
					reach := g.Reach(e.To, func(id int) bool {
						x := g.V[id]
						return containsCall(info, x, isAMW) || containsCall(info, x, isProxy) || containsCall(info, x, isHTTPError)
					}, nil)
					bad := containsCall(info, g.V[e.To], isAMW) || containsCall(info, g.V[e.To], isProxy) || containsCall(info, g.V[e.To], isHTTPError)
					r.Check(reach[g.Exit] && !bad, "C10.U1", fi.Name(), "duplicate short-cut acknowledges without proposing", c.P.Pos(e.Cond.Pos()),
						"true edge reaches the return without commit / proxy / error answer",
						"on a detected duplicate the handler does not simply acknowledge (it proposes, forwards or answers with an error)")
				}
			}
		}
	}

	// U2
	if fi := c.MustFunc("main.(*FSM).applyRobustMessage"); fi != nil {
		r.Functions++
		info := fi.Info()
		g := c.Graph(fi)
		isUpd := func(fn *types.Func, _ *ast.CallExpr) bool {
			return isFunc(fn, "ircserver", "(*IRCServer).UpdateLastClientMessageID")
		}
		isPM := func(fn *types.Func, _ *ast.CallExpr) bool {
			return isFunc(fn, "ircserver", "(*IRCServer).ProcessMessage")
		}
		armOf := func(v int) string {
			for _, f := range g.FactsAt(v) {
				if f.Tag != nil && f.Val {
					return astx.Str(f.Expr)
				}
			}
			return ""
		}
		nClient := 0
		for _, call := range callsIn(fi, isPM) {
			v := g.VertexOf(call)
			arm := armOf(v)
			if !strings.HasSuffix(arm, "IRCFromClient") {
				continue
			}
			nClient++
			ok := g.DominatedBy(v, func(x *cfgx.Vertex) bool { return containsCall(info, x, isUpd) })
			r.Check(ok, "C10.U2", fi.Name(), "marker recorded before ProcessMessage (client line arm)", c.P.Pos(call.Pos()),
				"UpdateLastClientMessageID dominates ProcessMessage",
				"ProcessMessage runs before (or without) UpdateLastClientMessageID: if processing deletes the session or panics the marker is lost and the retry is applied again")
			// and it must be on the same message value
			for _, u := range callsIn(fi, isUpd) {
				if g.VertexOf(u) >= 0 && strings.HasSuffix(armOf(g.VertexOf(u)), "IRCFromClient") {
					same := len(u.Args) == 1 && len(call.Args) >= 1 && astx.Same(info, u.Args[0], call.Args[0])
					r.Check(same, "C10.U2", fi.Name(), "marker taken from the processed entry", c.P.Pos(u.Pos()), "same message argument",
						"UpdateLastClientMessageID and ProcessMessage are given different messages")
				}
			}
		}
		r.Check(nClient > 0, "C10.U2", fi.Name(), "client line arm found", c.P.Pos(fi.Node().Pos()), "ProcessMessage under case robust.IRCFromClient", "no ProcessMessage call under case robust.IRCFromClient")
		// every marker update goes to the server instance handed in (the function is also the fold during compaction)
		srvParam := paramOfType(fi, pathIrcsrv, "IRCServer")
		for _, u := range callsIn(fi, isUpd) {
			okRecv := false
			if se, ok := ast.Unparen(u.Fun).(*ast.SelectorExpr); ok {
				if id, ok := ast.Unparen(se.X).(*ast.Ident); ok && srvParam != nil && astx.Obj(info, id) == srvParam {
					okRecv = true
				}
			}
			r.Check(okRecv, "C10.U2", fi.Name(), "marker recorded on the server the entry is applied to", c.P.Pos(u.Pos()), "receiver is the *IRCServer parameter",
				"the duplicate marker is recorded on a different server instance than the one the entry is applied to (e.g. the live global while folding into the snapshot state): the marker is missing from the snapshot and a restored node accepts the retry")
		}
		modArm := false
		for _, u := range callsIn(fi, isUpd) {
			if strings.HasSuffix(armOf(g.VertexOf(u)), "MessageOfDeath") {
				modArm = true
			}
		}
		r.Check(modArm, "C10.U2", fi.Name(), "marker recorded for a skipped message of death", c.P.Pos(fi.Node().Pos()),
			"UpdateLastClientMessageID under case robust.MessageOfDeath",
			"the message-of-death arm does not advance the duplicate marker: the client's retry of the poisonous line is applied (and crashes the network) again")
	}

	// U3
	fld := c.P.Field("ircserver", "Session", "lastClientMessageId")
	if fld == nil {
		r.Break("field ircserver.Session.lastClientMessageId not found")
		return
	}
	allowedW := map[string]bool{"ircserver.(*IRCServer).UpdateLastClientMessageID": true, "ircserver.(*IRCServer).Unmarshal": true}
	for _, w := range c.writersOf(fld) {
		r.Check(allowedW[w.Name()], "C10.U3", w.Name(), "writes Session.lastClientMessageId", c.P.Pos(c.funcFlow(w).writePos[fld]), "expected writer",
			"unexpected writer of the duplicate marker")
	}
	allowedR := map[string]bool{"ircserver.(*IRCServer).LastPostMessage": true, "ircserver.(*IRCServer).Marshal": true}
	for _, rd := range c.readersOf(fld) {
		r.Check(allowedR[rd.Name()], "C10.U3", rd.Name(), "reads Session.lastClientMessageId", c.P.Pos(c.funcFlow(rd).readPos[fld]), "expected reader",
			"unexpected reader of the duplicate marker")
	}
	if upd := c.MustFunc("ircserver.(*IRCServer).UpdateLastClientMessageID"); upd != nil {
		cmi := c.P.Field("robust", "Message", "ClientMessageId")
		deps := c.funcFlow(upd).writes[fld]
		r.Check(deps != nil && deps[cmi], "C10.U3", upd.Name(), "marker value is the entry's ClientMessageId", c.P.Pos(upd.Node().Pos()),
			"value depends on robust.Message.ClientMessageId", "the marker is not written from the entry's ClientMessageId")
		// the update must not be skipped for a found session: every nil return passes the write
		g := c.Graph(upd)
		info := upd.Info()
		for _, rv := range g.Returns() {
			rs := rv.Node.(*ast.ReturnStmt)
			if len(rs.Results) == 1 && isNilIdent(info, rs.Results[0]) {
				ok := g.DominatedBy(rv.ID, func(x *cfgx.Vertex) bool {
					as, ok := x.Node.(*ast.AssignStmt)
					if !ok {
						return false
					}
					for _, l := range as.Lhs {
						if f, _ := lhsField(info, l); f == fld {
							return true
						}
					}
					return false
				})
				r.Check(ok, "C10.U3", upd.Name(), "success return passes the marker write", c.P.Pos(rs.Pos()), "write dominates return nil",
					"UpdateLastClientMessageID can return success without having written the marker")
			}
		}
	}
	if lpm := c.MustFunc("ircserver.(*IRCServer).LastPostMessage"); lpm != nil {
		// returns the field of the session looked up under its parameter
		info := lpm.Info()
		okRet := false
		for _, rv := range c.Graph(lpm).Returns() {
			rs := rv.Node.(*ast.ReturnStmt)
			if len(rs.Results) == 1 && mentionsField(info, rs.Results[0], fld) {
				okRet = true
			}
		}
		r.Check(okRet, "C10.U3", lpm.Name(), "returns the stored marker", c.P.Pos(lpm.Node().Pos()), "a return mentions Session.lastClientMessageId",
			"LastPostMessage does not return the stored marker")
	}
	// U3b: a session value is never overwritten wholesale (`*s = *other`): that replaces the marker just recorded for the
	// entry being applied by some other session's
	{
		sessT := c.P.Named("ircserver", "Session")
		for _, fi := range c.P.FuncsIn("ircserver") {
			if fi.Body() == nil {
				continue
			}
			info := fi.Info()
			ast.Inspect(fi.Body(), func(n ast.Node) bool {
				as, ok := n.(*ast.AssignStmt)
				if !ok {
					return true
				}
				for _, l := range as.Lhs {
					st, ok := ast.Unparen(l).(*ast.StarExpr)
					if !ok {
						continue
					}
					if t := info.TypeOf(st); t != nil && sessT != nil && astx.NamedOf(t) == sessT {
						r.Fail("C10.U3", fi.Name(), "a session is never overwritten as a whole", c.P.Pos(as.Pos()),
							"a whole Session value is assigned through a pointer: every field, including the duplicate marker that was recorded for the entry being applied, is replaced by the other value's — the retry of that entry is then not recognised and applied again")
					}
				}
				return true
			})
		}
	}
	// U5: client lines enter the log through handlePostMessage only (where the duplicate test and the request's
	// ClientMessageId are): no other function of the API proposes an IRCFromClient entry
	{
		n := 0
		for _, fi := range c.P.FuncsIn("api") {
			if fi.Body() == nil {
				continue
			}
			info := fi.Info()
			for _, cl := range compositeLitsOf(info, fi.Body(), pathRobust, "Message") {
				tv := litField(cl, "Type")
				if tv == nil || !refersTo(info, tv, pathRobust, "IRCFromClient") {
					continue
				}
				n++
				r.Check(c.attribName(fi) == "api.(*HTTP).handlePostMessage", "C10.U5", fi.Name(), "client lines are proposed by handlePostMessage only", c.P.Pos(cl.Pos()), "the one place with the duplicate test",
					"another handler proposes a client line for a session (with its own or no ClientMessageId): applying it overwrites that session's duplicate marker on every replica, so the retry of the user's own last message is no longer recognised and is applied twice")
			}
		}
		if n < 1 {
			r.Break("C10.U5: no proposal of an IRCFromClient entry found in package api")
		}
	}
	r.Floor("C10.U3", 6)

	// U4 replication of the marker and of the message field
	c.requireFieldFlow("C10.U4", "ircserver.(*IRCServer).Marshal", fld, nil, true)
	c.requireFieldFlow("C10.U4", "ircserver.(*IRCServer).Unmarshal", nil, fld, true)
	cmi := c.P.Field("robust", "Message", "ClientMessageId")
	pbCMI := c.P.Field("proto", "RobustMessage", "ClientMessageId")
	if cmi == nil || pbCMI == nil {
		r.Break("ClientMessageId fields not found")
		return
	}
	c.requireWrite("C10.U4", "robust.(*Message).ProtoMessage", pbCMI, cmi)
	c.requireWrite("C10.U4", "robust.(*Message).CopyToProtoMessage", pbCMI, cmi)
	c.requireWrite("C10.U4", "robust.NewMessageFromBytes", cmi, pbCMI)
}

// requireFieldFlow: function reads `read` (if non-nil) and writes `write` (if non-nil).
func (c *Ctx) requireFieldFlow(rule, fn string, read, write *types.Var, _ bool) {
	fi := c.MustFunc(fn)
	if fi == nil {
		return
	}
	ff := c.funcFlow(fi)
	if read != nil {
		c.R.Check(ff.reads[read], rule, fi.Name(), "reads "+read.Name(), c.P.Pos(fi.Node().Pos()), "field is read", "field "+read.Name()+" is not read: the value does not reach the encoding")
	}
	if write != nil {
		_, ok := ff.writes[write]
		c.R.Check(ok, rule, fi.Name(), "writes "+write.Name(), c.P.Pos(fi.Node().Pos()), "field is written", "field "+write.Name()+" is not written: the value is lost on decode")
	}
}

// requireWrite: function writes dst with a value depending on src.
func (c *Ctx) requireWrite(rule, fn string, dst, src *types.Var) {
	fi := c.MustFunc(fn)
	if fi == nil {
		return
	}
	deps := c.funcFlow(fi).writes[dst]
	c.R.Check(deps != nil && deps[src], rule, fi.Name(), dst.Name()+" <- "+src.Name(), c.P.Pos(fi.Node().Pos()),
		"destination field is assigned from the source field", "field "+dst.Name()+" is not filled from "+src.Name()+" here: the value does not survive this encoding step")
}

var _ = load.ModPath
