package rules

import (
	"go/ast"
	"go/token"
	"go/types"

	"verif/checker/internal/astx"
	"verif/checker/internal/cfgx"
	"verif/checker/internal/load"
)

func init() { register("C04", c04) }

// c04: structural clauses of the resume protocol of GetMessages.
func c04(c *Ctx) {
	r := c.R
	r.Explanation = "Partial: the resume protocol of GetMessages has a fixed shape whose parts are each a necessary condition of 'the concatenation of what the client received is exactly its stream, nothing missing, nothing twice'. Decided: (P1) the remainder of the batch named by lastseen is sent first, sliced at exactly lastseen.Reply under the bound test that keeps the slice in range; (P2) the follow loop delivers a batch only on the false edge of 'batch older than the position' and after advancing the position to it; (P3) a batch whose id equals the position's id (the node applied it only after the request started) is never delivered whole: it is re-sliced at the position's Reply before the position is advanced; (P4) every message written to the connection passed the test 'ping or addressed to this session'; (P5) the position is built from the two parts of the lastseen parameter in order (id from the first, reply from the second); (P6) a new GetMessages request for a session cancels the older one before it is registered, and is registered before its reader goroutine starts. Not decided: what GetNext returns under concurrent Add/Delete (C08), and the window in which a node that is behind catches up past the named batch between two look-ups (a schedule)."
	r.Rules = []string{"C04.P1 remainder of the named batch", "C04.P2 follow loop never goes backwards", "C04.P3 partially seen batch is re-sliced", "C04.P4 per-session filter", "C04.P5 position from lastseen", "C04.P6 one reader per session", "C04.P7 current stream on every call", "C04.P8 one batch per entry", "C04.P9 output is numbered in one place"}
	r.Assumptions = []string{"OutputStream.Get/GetNext honour their contract (C08's clauses); batches are added in increasing id order"}

	gm := c.MustFunc("api.(*HTTP).getMessages")
	hgm := c.MustFunc("api.(*HTTP).handleGetMessages")
	pls := c.MustFunc("api.parseLastSeen")
	set := c.MustFunc("api.(*HTTP).setGetMessagesRequests")
	if gm == nil || hgm == nil || pls == nil || set == nil {
		return
	}
	r.Functions = 4
	c.deliveryLoop("C04.P2")

	info := gm.Info()
	g := c.Graph(gm)
	var pos types.Object
	for _, fld := range gm.FuncType().Params.List {
		for _, nm := range fld.Names {
			if o := info.Defs[nm]; o != nil && astx.IsNamed(o.Type(), pathRobust, "Id") {
				pos = o
			}
		}
	}
	if pos == nil {
		r.Break("C04: getMessages has no robust.Id parameter")
		return
	}
	isPosField := func(e ast.Expr, field string) bool {
		// pos.<field>, possibly converted: int(pos.Reply)
		e = ast.Unparen(e)
		if call, ok := e.(*ast.CallExpr); ok && len(call.Args) == 1 {
			if tv, ok := info.Types[call.Fun]; ok && tv.IsType() {
				e = ast.Unparen(call.Args[0])
			}
		}
		se, ok := e.(*ast.SelectorExpr)
		if !ok || se.Sel.Name != field {
			return false
		}
		id, ok := ast.Unparen(se.X).(*ast.Ident)
		return ok && astx.Obj(info, id) == pos
	}
	sliceAtReply := func(e ast.Expr, of types.Object) bool {
		// <of>[pos.Reply:]
		var found bool
		ast.Inspect(e, func(n ast.Node) bool {
			se, ok := n.(*ast.SliceExpr)
			if !ok || se.High != nil || se.Low == nil {
				return true
			}
			id, ok := ast.Unparen(se.X).(*ast.Ident)
			if ok && astx.Obj(info, id) == of && isPosField(se.Low, "Reply") {
				found = true
			}
			return true
		})
		return found
	}

	// ---------- P1: Get(pos) -> remainder
	nP1 := 0
	ast.Inspect(gm.Body(), func(n ast.Node) bool {
		var lhs []ast.Expr
		var rhs ast.Expr
		switch x := n.(type) {
		case *ast.AssignStmt:
			if len(x.Rhs) == 1 {
				lhs, rhs = x.Lhs, x.Rhs[0]
			}
		}
		call, ok := ast.Unparen(rhs).(*ast.CallExpr)
		if rhs == nil || !ok {
			return true
		}
		fn := astx.Callee(info, call)
		if fn == nil || !isFunc(fn, "outputstream", "(*OutputStream).Get") || len(lhs) != 2 {
			return true
		}
		nP1++
		argOK := len(call.Args) == 1 && func() bool {
			id, ok := ast.Unparen(call.Args[0]).(*ast.Ident)
			return ok && astx.Obj(info, id) == pos
		}()
		r.Check(argOK, "C04.P1", gm.Name(), "the batch looked up first is the one named by the position", c.P.Pos(call.Pos()), "Get(<position>)", "the initial look-up does not use the client's position")
		resID, _ := lhs[0].(*ast.Ident)
		okID, _ := lhs[1].(*ast.Ident)
		if resID == nil || okID == nil {
			r.Fail("C04.P1", gm.Name(), "result of the initial look-up", c.P.Pos(call.Pos()), "the batch or its found flag is discarded")
			return true
		}
		res, okObj := astx.Obj(info, resID), astx.Obj(info, okID)
		// the sends of this result
		nSend := 0
		for _, v := range g.Nodes() {
			send, isSend := v.Node.(*ast.SendStmt)
			if !isSend || !astx.Mentions(info, send.Value, res) {
				continue
			}
			nSend++
			r.Check(sliceAtReply(send.Value, res), "C04.P1", gm.Name(), "the remainder starts right after the last message seen", c.P.Pos(send.Pos()), "<batch>[<position>.Reply:]",
				"the remainder of the batch the client was reading is not sliced at exactly lastseen.Reply: the message after the resume point is lost, or the last one is delivered twice")
			found, inRange := false, false
			for _, fct := range g.FactsAt(v.ID) {
				if id, ok := ast.Unparen(fct.Expr).(*ast.Ident); ok && fct.Val && fct.Tag == nil && astx.Obj(info, id) == okObj {
					found = true
				}
				if be, ok := ast.Unparen(fct.Expr).(*ast.BinaryExpr); ok && fct.Tag == nil {
					isLen := func(e ast.Expr) bool {
						call, ok := ast.Unparen(e).(*ast.CallExpr)
						if !ok || astx.Builtin(info, call) != "len" {
							return false
						}
						id, ok := ast.Unparen(call.Args[0]).(*ast.Ident)
						return ok && astx.Obj(info, id) == res
					}
					switch {
					case isPosField(be.X, "Reply") && isLen(be.Y):
						// Reply < len  /  Reply <= len (slicing at len is in range, sends nothing)
						if ((be.Op == token.LSS || be.Op == token.LEQ) && fct.Val) || ((be.Op == token.GTR || be.Op == token.GEQ) && !fct.Val) {
							inRange = true
						}
					case isLen(be.X) && isPosField(be.Y, "Reply"):
						if ((be.Op == token.GTR || be.Op == token.GEQ) && fct.Val) || ((be.Op == token.LSS || be.Op == token.LEQ) && !fct.Val) {
							inRange = true
						}
					}
				}
			}
			r.Check(found, "C04.P1", gm.Name(), "the remainder is sent only when the batch was found", c.P.Pos(send.Pos()), "dominated by the found flag of Get", "the remainder is sent although the look-up failed")
			r.Check(inRange, "C04.P1", gm.Name(), "the remainder slice stays in range", c.P.Pos(send.Pos()), "dominated by <position>.Reply < len(<batch>)",
				"the batch is sliced at lastseen.Reply without the bound test: a lastseen whose reply part exceeds the batch length (a client-supplied value) panics the reader goroutine and the process")
		}
		r.Check(nSend >= 1, "C04.P1", gm.Name(), "the remainder is delivered", c.P.Pos(call.Pos()), itoa(nSend)+" send(s)", "the batch named by lastseen is looked up but its remainder is never sent: resuming in the middle of a multi-message reply loses the rest of it")
		return true
	})
	r.Check(nP1 == 1, "C04.P1", gm.Name(), "one initial look-up", c.P.Pos(gm.Node().Pos()), itoa(nP1), "expected exactly one `batch, ok := output.Get(position)` in getMessages")

	// ---------- P3: the equal-id batch is re-sliced before the position advances
	{
		var next *ast.CallExpr
		var res types.Object
		ast.Inspect(gm.Body(), func(n ast.Node) bool {
			as, ok := n.(*ast.AssignStmt)
			if !ok || len(as.Lhs) != 1 || len(as.Rhs) != 1 {
				return true
			}
			call, ok := ast.Unparen(as.Rhs[0]).(*ast.CallExpr)
			if !ok {
				return true
			}
			if fn := astx.Callee(info, call); fn != nil && isFunc(fn, "outputstream", "(*OutputStream).GetNext") {
				if id, ok := as.Lhs[0].(*ast.Ident); ok {
					next, res = call, astx.Obj(info, id)
				}
			}
			return true
		})
		if next != nil && res != nil {
			nextV := g.VertexOf(next)
			rootedRes := func(e ast.Expr) bool {
				b := astx.BaseIdent(e)
				return b != nil && astx.Obj(info, b) == res
			}
			// edges on which the batch id is known to differ from the position id
			differs := func(e *cfgx.Edge) bool {
				if e.Cond == nil || e.Tag != nil {
					return false
				}
				for _, fct := range cfgx.ExpandCond(e.Cond, e.Val) {
					be, ok := ast.Unparen(fct.Expr).(*ast.BinaryExpr)
					if !ok {
						continue
					}
					a, b := be.X, be.Y
					if !(rootedRes(a) && isPosField(b, "Id")) && !(rootedRes(b) && isPosField(a, "Id")) {
						continue
					}
					switch be.Op {
					case token.EQL:
						if !fct.Val {
							return true
						}
					case token.NEQ, token.GTR, token.LSS:
						if fct.Val {
							return true
						}
					}
				}
				return false
			}
			reslice := func(v int) bool {
				as, ok := g.V[v].Node.(*ast.AssignStmt)
				if !ok || len(as.Lhs) != 1 || len(as.Rhs) != 1 {
					return false
				}
				id, ok := as.Lhs[0].(*ast.Ident)
				return ok && astx.Obj(info, id) == res && sliceAtReply(as.Rhs[0], res)
			}
			advance := func(v int) bool {
				as, ok := g.V[v].Node.(*ast.AssignStmt)
				if !ok {
					return false
				}
				for _, l := range as.Lhs {
					if id, ok := l.(*ast.Ident); ok && astx.Obj(info, id) == pos {
						return true
					}
				}
				return false
			}
			reach := g.Reach(nextV, reslice, differs)
			n := 0
			for _, v := range g.Nodes() {
				send, ok := v.Node.(*ast.SendStmt)
				if !ok || !astx.Mentions(info, send.Value, res) || !g.Reach(nextV, nil, nil)[v.ID] {
					continue
				}
				n++
				r.Check(!reach[v.ID], "C04.P3", gm.Name(), "a batch with the position's own id is not delivered whole", c.P.Pos(send.Pos()), "every path from GetNext to the send passes `<batch id> != <position id>` or `<batch> = <batch>[<position>.Reply:]`",
					"when the node applies the batch named by lastseen only after the request started, GetNext returns it whole and the messages up to lastseen.Reply, which the client has received already, are delivered a second time")
			}
			// the re-slice reads the position before it is advanced
			bad := false
			for _, v := range g.Nodes() {
				if advance(v.ID) {
					after := g.Reach(v.ID, func(x int) bool { return x == nextV }, nil)
					for _, w := range g.Nodes() {
						if w.ID != v.ID && reslice(w.ID) && after[w.ID] {
							bad = true
						}
					}
				}
			}
			// the re-slice leaves something to deliver: it happens only where position.Reply < len(batch) is known (slicing
			// at len gives an empty batch, whose [0] is then read)
			for _, v := range g.Nodes() {
				if !reslice(v.ID) {
					continue
				}
				inRange := false
				for _, fct := range g.FactsAt(v.ID) {
					be, ok := ast.Unparen(fct.Expr).(*ast.BinaryExpr)
					if !ok || fct.Tag != nil {
						continue
					}
					isLen := func(e ast.Expr) bool {
						call, ok := ast.Unparen(e).(*ast.CallExpr)
						if !ok || astx.Builtin(info, call) != "len" {
							return false
						}
						id, ok := ast.Unparen(call.Args[0]).(*ast.Ident)
						return ok && astx.Obj(info, id) == res
					}
					switch {
					case isPosField(be.X, "Reply") && isLen(be.Y):
						if (be.Op == token.LSS && fct.Val) || (be.Op == token.GEQ && !fct.Val) {
							inRange = true
						}
					case isLen(be.X) && isPosField(be.Y, "Reply"):
						if (be.Op == token.GTR && fct.Val) || (be.Op == token.LEQ && !fct.Val) {
							inRange = true
						}
					}
				}
				r.Check(inRange, "C04.P3", gm.Name(), "the re-slice leaves at least one message", c.P.Pos(g.V[v.ID].Node.Pos()), "dominated by <position>.Reply < len(<batch>)",
					"the batch is re-sliced at position.Reply where that may equal (or exceed) its length: the empty remainder is then indexed with [0] — the reader goroutine panics and the process exits — or sent as an empty batch")
			}
			r.Check(!bad, "C04.P3", gm.Name(), "the re-slice uses the position the client sent", c.P.Pos(next.Pos()), "no advance of the position between GetNext and the re-slice", "the position is advanced to the batch before the batch is re-sliced at position.Reply: the slice uses the new reply number")
			r.Check(n >= 1, "C04.P3", gm.Name(), "follow-loop sends found", c.P.Pos(gm.Node().Pos()), itoa(n), "no send of a GetNext result")
		}
	}

	// ---------- P4: filter in handleGetMessages
	{
		hi := hgm.Info()
		hg := c.Graph(hgm)
		sess := hgm.FuncType()
		_ = sess
		n := 0
		for _, v := range hg.Nodes() {
			for _, call := range astx.Calls(v.Node, false) {
				se, ok := ast.Unparen(call.Fun).(*ast.SelectorExpr)
				if !ok || se.Sel.Name != "Encode" || len(call.Args) != 1 {
					continue
				}
				if fn := astx.Callee(hi, call); fn == nil || fn.Pkg() == nil || fn.Pkg().Path() != "encoding/json" {
					continue
				}
				arg, ok := ast.Unparen(call.Args[0]).(*ast.Ident)
				if !ok {
					continue
				}
				n++
				okFilter := false
				for _, f := range append(hg.CondsAt(v.ID), hg.FactsAt(v.ID)...) {
					if idExpr, isF := interestFilter(hi, f); isF {
						if id, isID := ast.Unparen(idExpr).(*ast.Ident); isID && astx.IsNamed(hi.TypeOf(id), pathRobust, "Id") {
							okFilter = true
						}
					}
				}
				_ = arg
				r.Check(okFilter, "C04.P4", hgm.Name(), "only messages addressed to the session (and pings) are written", c.P.Pos(call.Pos()), "every path to Encode passes `Type == Ping` or `InterestingFor[<session>.Id]`",
					"a message is written to the connection without the per-session filter: the client receives lines addressed to other sessions, or loses its own")
			}
		}
		// P4b: nothing addressed to the session is skipped: every edge that skips a message (leads back to the next message
		// without passing Encode) implies !InterestingFor[<session>.Id]
		{
			encV := map[int]bool{}
			for _, v := range hg.Nodes() {
				if v.Node == nil {
					continue
				}
				for _, call := range astx.Calls(v.Node, false) {
					if se, ok := ast.Unparen(call.Fun).(*ast.SelectorExpr); ok && se.Sel.Name == "Encode" {
						if fn := astx.Callee(hi, call); fn != nil && fn.Pkg() != nil && fn.Pkg().Path() == "encoding/json" {
							encV[v.ID] = true
						}
					}
				}
			}
			isIF := func(e ast.Expr) bool {
				ie, ok := ast.Unparen(e).(*ast.IndexExpr)
				if !ok {
					return false
				}
				se, ok := ast.Unparen(ie.X).(*ast.SelectorExpr)
				return ok && se.Sel.Name == "InterestingFor"
			}
			nSkip := 0
			// the loop over the messages of one batch: the range statement whose body contains the Encode
			var msgLoop *ast.RangeStmt
			ast.Inspect(hgm.Body(), func(m ast.Node) bool {
				if rs, ok := m.(*ast.RangeStmt); ok {
					for ev := range encV {
						if nd := hg.V[ev].Node; nd != nil && rs.Body.Pos() <= nd.Pos() && nd.End() <= rs.Body.End() {
							msgLoop = rs
						}
					}
				}
				return true
			})
			loopStart := -1
			if msgLoop != nil && len(msgLoop.Body.List) > 0 {
				loopStart = hg.VertexOf(msgLoop.Body.List[0])
			}
			for _, v := range hg.V {
				for _, e := range v.Succ {
					if e.Cond == nil || e.Tag != nil {
						continue
					}
					// only conditions inside the loop over the messages of a batch
					if msgLoop == nil || !(msgLoop.Body.Pos() <= e.Cond.Pos() && e.Cond.End() <= msgLoop.Body.End()) {
						continue
					}
					// a skipping edge: the next message is reached without the Encode in between (edges that leave the
					// function — write errors — are not skips)
					reach := hg.Reach(e.To, func(x int) bool { return encV[x] }, nil)
					if encV[e.To] || !(reach[loopStart] || e.To == loopStart) {
						continue
					}
					// … and the message has not been written yet in this iteration
					if loopStart < 0 || !(e.From == loopStart || hg.Reach(loopStart, func(x int) bool { return encV[x] }, nil)[e.From]) {
						continue
					}
					nSkip++
					okSkip := implied(c.clausesOf(hi, hgm.Node(), e.Cond, e.Val, 0), func(l lit) bool { return isIF(l.E) && !l.Pos })
					r.Check(okSkip, "C04.P4", hgm.Name(), "only messages not addressed to the session are skipped", c.P.Pos(e.Cond.Pos()), "the skipping edge implies !InterestingFor[<session>.Id]",
						"a message can be skipped although it is addressed to this session (the filter condition is weaker than 'not a ping and not for this session'): the client's stream has holes")
				}
			}
			r.Check(nSkip >= 1, "C04.P4", hgm.Name(), "skipping edge found", c.P.Pos(hgm.Node().Pos()), itoa(nSkip), "no edge that skips a message was found: filter shape not recognised")
		}
		r.Check(n >= 1, "C04.P4", hgm.Name(), "stream writes found", c.P.Pos(hgm.Node().Pos()), itoa(n), "no json Encode of a message in handleGetMessages")
		// P4c a batch that was taken from the follower goroutine is written before the handler can leave: the checks that end
		// the request (session gone, node partitioned) come after the write — the batch that announces the end of the session
		// (the closing ERROR, a KILL notice) still reaches the client, and the follower's position has moved past it already
		{
			nRecv := 0
			ast.Inspect(hgm.Body(), func(m ast.Node) bool {
				cc, ok := m.(*ast.CommClause)
				if !ok || cc.Comm == nil {
					return true
				}
				as, ok := cc.Comm.(*ast.AssignStmt)
				if !ok || len(as.Lhs) != 1 || len(as.Rhs) != 1 {
					return true
				}
				ue, ok := ast.Unparen(as.Rhs[0]).(*ast.UnaryExpr)
				if !ok || ue.Op != token.ARROW {
					return true
				}
				id, ok := as.Lhs[0].(*ast.Ident)
				if !ok {
					return true
				}
				sl, isSl := hi.TypeOf(id).Underlying().(*types.Slice)
				if !isSl || !astx.IsNamed(derefType(sl.Elem()), pathRobust, "Message") {
					return true
				}
				recvObj := astx.Obj(hi, id)
				nRecv++
				// the loop that writes it
				var heads []int
				ast.Inspect(cc, func(k ast.Node) bool {
					rs, ok := k.(*ast.RangeStmt)
					if !ok {
						return true
					}
					if xid, ok := ast.Unparen(rs.X).(*ast.Ident); ok && astx.Obj(hi, xid) == recvObj {
						for _, v := range hg.V {
							for _, e := range v.Succ {
								if e.Range == rs {
									heads = append(heads, v.ID)
								}
							}
						}
					}
					return true
				})
				start := -1
				if len(cc.Body) > 0 {
					start = hg.VertexOf(cc.Body[0])
				}
				bad := token.NoPos
				if len(heads) > 0 && start >= 0 {
					isHead := func(x int) bool {
						for _, h := range heads {
							if h == x {
								return true
							}
						}
						return false
					}
					if !isHead(start) {
						reach := hg.Reach(start, isHead, nil)
						for _, rv := range hg.Returns() {
							if reach[rv.ID] || rv.ID == start {
								bad = rv.Node.Pos()
							}
						}
					}
				}
				pos := as.Pos()
				if bad.IsValid() {
					pos = bad
				}
				r.Check(len(heads) > 0 && !bad.IsValid(), "C04.P4", hgm.Name(), "a received batch is written before the request can end", c.P.Pos(pos), "no return between the receive and the loop over the batch",
					"handleGetMessages can return after it took a batch from the follower and before it wrote it: the follower has moved on, the client resumes behind the batch, and what it contained for this session (e.g. the line that says why the session ended) is never delivered")
				return true
			})
			r.Check(nRecv >= 1, "C04.P4", hgm.Name(), "receive of a batch found", c.P.Pos(hgm.Node().Pos()), itoa(nRecv), "no receive of a message batch in handleGetMessages")
		}
	}

	// ---------- P5: position from the two parts of lastseen, in order
	{
		hi := hgm.Info()
		n := 0
		for _, cl := range compositeLitsOf(hi, hgm.Body(), pathRobust, "Id") {
			idv, rv := litField(cl, "Id"), litField(cl, "Reply")
			if idv == nil || rv == nil {
				continue
			}
			n++
			resIndex := func(e ast.Expr) int {
				id, ok := ast.Unparen(e).(*ast.Ident)
				if !ok {
					return -1
				}
				o := astx.Obj(hi, id)
				k := -1
				ast.Inspect(hgm.Body(), func(m ast.Node) bool {
					as, ok := m.(*ast.AssignStmt)
					if !ok || len(as.Rhs) != 1 {
						return true
					}
					call, ok := ast.Unparen(as.Rhs[0]).(*ast.CallExpr)
					if !ok {
						return true
					}
					if fn := astx.Callee(hi, call); fn == nil || c.P.FuncOf(fn) != pls {
						return true
					}
					for i, l := range as.Lhs {
						if lid, ok := l.(*ast.Ident); ok && astx.Obj(hi, lid) == o {
							k = i
						}
					}
					return true
				})
				return k
			}
			r.Check(resIndex(idv) == 0 && resIndex(rv) == 1, "C04.P5", hgm.Name(), "position = {Id: first part, Reply: second part} of lastseen", c.P.Pos(cl.Pos()), "results 0 and 1 of parseLastSeen",
				"the resume position is not built from the two parts of the lastseen parameter in order: the client resumes at a different message than the one it saw last")
		}
		// the position handed to the reader is the authenticated session's id (no lastseen) or exactly that literal:
		// nothing else rewrites it (e.g. clamping it to what this node has would re-deliver everything in between)
		{
			hg := c.Graph(hgm)
			for _, v := range hg.Nodes() {
				gs, ok := v.Node.(*ast.GoStmt)
				if !ok {
					continue
				}
				fn := astx.Callee(hi, gs.Call)
				if fn == nil || c.P.FuncOf(fn) != gm || len(gs.Call.Args) < 2 {
					continue
				}
				pid, ok := ast.Unparen(gs.Call.Args[1]).(*ast.Ident)
				if !ok {
					r.Fail("C04.P5", hgm.Name(), "position passed to the reader", c.P.Pos(gs.Pos()), "the reader is not started with the position variable")
					continue
				}
				bad := ""
				for _, d := range defsOf(hi, hgm.Node(), astx.Obj(hi, pid)) {
					if d == nil {
						bad = "zero value"
						continue
					}
					switch x := ast.Unparen(d).(type) {
					case *ast.Ident:
						// the authenticated session id: the result of the gate api.session(…)
						okGate := false
						for _, d2 := range defsOf(hi, hgm.Node(), astx.Obj(hi, x)) {
							if call, ok := ast.Unparen(d2).(*ast.CallExpr); d2 != nil && ok {
								if fn := astx.Callee(hi, call); fn != nil && isFunc(fn, "api", "(*HTTP).session") {
									okGate = true
								}
							}
						}
						if !okGate || !astx.IsNamed(hi.TypeOf(x), pathRobust, "Id") {
							bad = astx.Str(d)
						}
					case *ast.CompositeLit:
						if !astx.IsNamed(hi.TypeOf(x), pathRobust, "Id") {
							bad = astx.Str(d)
						}
					default:
						bad = astx.Str(d)
					}
				}
				r.Check(bad == "", "C04.P5", hgm.Name(), "the position is the session id or the parsed lastseen, nothing else", c.P.Pos(gs.Pos()), "definitions: <session id> | robust.Id{Id, Reply}",
					"the resume position is rewritten after parsing ("+bad+"): the reader starts somewhere else than where the client stopped, so messages are delivered twice or skipped")
			}
		}
		// P5c: the parsed position is used exactly when a lastseen value was given: the literal is built on an edge that
		// implies ls != "" and ls != "0.0", and the edge that skips it implies ls == "" or ls == "0.0"
		{
			hg := c.Graph(hgm)
			isLsCmp := func(e ast.Expr, want string) (bool, token.Token) {
				be, ok := ast.Unparen(e).(*ast.BinaryExpr)
				if !ok || (be.Op != token.EQL && be.Op != token.NEQ) {
					return false, 0
				}
				for _, pr := range [][2]ast.Expr{{be.X, be.Y}, {be.Y, be.X}} {
					if s, ok := astx.ConstString(hi, pr[1]); ok && s == want {
						// the other side derives from r.FormValue("lastseen")
						if d := uniqueDef(hi, hgm.Node(), pr[0]); d != nil {
							if call, ok := ast.Unparen(d).(*ast.CallExpr); ok && len(call.Args) == 1 {
								if a, ok := astx.ConstString(hi, call.Args[0]); ok && a == "lastseen" {
									return true, be.Op
								}
							}
						}
					}
				}
				return false, 0
			}
			nGate := 0
			for _, v := range hg.V {
				for _, e := range v.Succ {
					if e.Cond == nil || e.Tag != nil {
						continue
					}
					mentions := false
					ast.Inspect(e.Cond, func(m ast.Node) bool {
						if ex, ok := m.(ast.Expr); ok {
							if ok1, _ := isLsCmp(ex, ""); ok1 {
								mentions = true
							}
						}
						return true
					})
					if !mentions {
						continue
					}
					nGate++
					cls := c.clausesOf(hi, hgm.Node(), e.Cond, e.Val, 0)
					given := func(want string) bool {
						return implied(cls, func(l lit) bool {
							ok, op := isLsCmp(l.E, want)
							return ok && ((op == token.NEQ && l.Pos) || (op == token.EQL && !l.Pos))
						})
					}
					absent := implied(cls, func(l lit) bool {
						for _, want := range []string{"", "0.0"} {
							if ok, op := isLsCmp(l.E, want); ok && ((op == token.EQL && l.Pos) || (op == token.NEQ && !l.Pos)) {
								return true
							}
						}
						return false
					})
					// which side builds the literal?
					builds := false
					reach := hg.Reach(e.To, nil, nil)
					for _, cl := range compositeLitsOf(hi, hgm.Body(), pathRobust, "Id") {
						if lv := hg.VertexOf(cl); lv >= 0 && (reach[lv] || lv == e.To) && litField(cl, "Reply") != nil {
							builds = true
						}
					}
					other := false
					for _, e2 := range v.Succ {
						if e2 != e {
							r2 := hg.Reach(e2.To, nil, nil)
							for _, cl := range compositeLitsOf(hi, hgm.Body(), pathRobust, "Id") {
								if lv := hg.VertexOf(cl); lv >= 0 && (r2[lv] || lv == e2.To) && litField(cl, "Reply") != nil {
									other = true
								}
							}
						}
					}
					if builds && !other {
						r.Check(given("") && given("0.0"), "C04.P5", hgm.Name(), "the parsed position is used only when lastseen was given", c.P.Pos(e.Cond.Pos()), `edge implies ls != "" and ls != "0.0"`,
							"the lastseen parameter is parsed although it is empty or 0.0 (malformed-value error for fresh clients), or the condition is inverted")
					} else if !builds {
						r.Check(absent, "C04.P5", hgm.Name(), "a given lastseen is never ignored", c.P.Pos(e.Cond.Pos()), `the edge around the parse implies ls == "" or ls == "0.0"`,
							"a request that names a resume position can take the path that ignores it: the client is served from the start of its session again and receives everything twice")
					}
				}
			}
			r.Check(nGate >= 1, "C04.P5", hgm.Name(), "lastseen gate found", c.P.Pos(hgm.Node().Pos()), itoa(nGate), "no test of the lastseen parameter found in handleGetMessages")
		}
		r.Check(n >= 1, "C04.P5", hgm.Name(), "position literal found", c.P.Pos(hgm.Node().Pos()), itoa(n), "no robust.Id{Id:…, Reply:…} built in handleGetMessages")
		// parseLastSeen: result k is parsed from parts[k]
		pi := pls.Info()
		pg := c.Graph(pls)
		okParse, nRet := true, 0
		for _, rv := range pg.Returns() {
			rs := rv.Node.(*ast.ReturnStmt)
			if len(rs.Results) != 3 || !isNilIdent(pi, rs.Results[2]) {
				continue
			}
			nRet++
			for k := 0; k < 2; k++ {
				okK := false
				if id, ok := ast.Unparen(rs.Results[k]).(*ast.Ident); ok {
					for _, d := range defsOf(pi, pls.Node(), astx.Obj(pi, id)) {
						call, ok := ast.Unparen(d).(*ast.CallExpr)
						if d == nil || !ok || len(call.Args) < 1 {
							continue
						}
						if fn := astx.Callee(pi, call); fn == nil || fn.Pkg() == nil || fn.Pkg().Path() != "strconv" {
							continue
						}
						if ie, ok := ast.Unparen(call.Args[0]).(*ast.IndexExpr); ok {
							if idx, ok := astx.ConstInt(pi, ie.Index); ok && int(idx) == k {
								okK = true
							}
						}
					}
				}
				if !okK {
					okParse = false
				}
			}
		}
		r.Check(okParse && nRet >= 1, "C04.P5", pls.Name(), "result k is parsed from part k", c.P.Pos(pls.Node().Pos()), "strconv.Parse*(parts[k], …)", "parseLastSeen does not return the two parts of lastseen in order")
	}

	// ---------- P6: one reader per session
	{
		si := set.Info()
		sg := c.Graph(set)
		field := c.P.Field("api", "HTTP", "getMessagesRequests")
		var storeV, cancelV = -1, -1
		var storeKey, lookKey ast.Expr
		for _, v := range sg.Nodes() {
			if as, ok := v.Node.(*ast.AssignStmt); ok {
				for _, l := range as.Lhs {
					if ie, ok := ast.Unparen(l).(*ast.IndexExpr); ok {
						if se, ok := ast.Unparen(ie.X).(*ast.SelectorExpr); ok && astx.FieldSel(si, se) == field && field != nil {
							storeV, storeKey = v.ID, ie.Index
						}
					}
				}
			}
			for _, call := range astx.Calls(v.Node, false) {
				se, ok := ast.Unparen(call.Fun).(*ast.SelectorExpr)
				if !ok || se.Sel.Name != "cancel" {
					continue
				}
				// old.cancel(...) with old looked up in the table
				if id, ok := ast.Unparen(se.X).(*ast.Ident); ok {
					for _, d := range defsOf(si, set.Node(), astx.Obj(si, id)) {
						if ie, ok := ast.Unparen(d).(*ast.IndexExpr); d != nil && ok {
							if s2, ok := ast.Unparen(ie.X).(*ast.SelectorExpr); ok && astx.FieldSel(si, s2) == field {
								cancelV, lookKey = v.ID, ie.Index
							}
						}
					}
				}
			}
		}
		okSup := storeV >= 0 && cancelV >= 0 && lookKey != nil && storeKey != nil && astx.Same(si, lookKey, storeKey)
		if okSup {
			// the cancel is executed whenever an older entry exists: it is not reachable-around on the found edge
			found := false
			for _, fct := range sg.FactsAt(cancelV) {
				if id, ok := ast.Unparen(fct.Expr).(*ast.Ident); ok && fct.Val && fct.Tag == nil {
					_ = id
					found = true
				}
			}
			okSup = found && sg.Reach(cancelV, nil, nil)[storeV]
		}
		r.Check(okSup, "C04.P6", set.Name(), "registering a request cancels the older request of the same session", c.P.Pos(set.Node().Pos()), "old, ok := table[key]; if ok { old.cancel(…) }; table[key] = new",
			"a second GetMessages connection of a session does not end the first: two readers split or duplicate the stream")
		// handleGetMessages registers before it starts the reader
		hi := hgm.Info()
		hg := c.Graph(hgm)
		regV, goV := -1, -1
		for _, v := range hg.Nodes() {
			for _, call := range astx.Calls(v.Node, false) {
				if fn := astx.Callee(hi, call); fn != nil && c.P.FuncOf(fn) == set {
					regV = v.ID
				}
			}
			if gs, ok := v.Node.(*ast.GoStmt); ok {
				if fn := astx.Callee(hi, gs.Call); fn != nil && c.P.FuncOf(fn) == gm {
					goV = v.ID
				}
			}
		}
		r.Check(regV >= 0 && goV >= 0 && hg.DominatedBy(goV, func(x *cfgx.Vertex) bool { return x.ID == regV }), "C04.P6", hgm.Name(), "the request is registered before its reader starts", c.P.Pos(hgm.Node().Pos()), "setGetMessagesRequests dominates `go getMessages`",
			"the reader goroutine is started on a path on which the request was not registered (so that a later request cannot cancel it)")
	}
	// ---------- P7: the output stream is re-read through the accessor for every call in the reader: FSM.Restore swaps the
	// stream (ReplaceState) after closing the old one, and a reader that keeps using a cached pointer calls into a closed
	// LevelDB (process exit) or never sees the new stream
	{
		acc := c.P.Func("api.(*HTTP).output")
		n := 0
		if acc != nil {
			for _, v := range g.Nodes() {
				if v.Node == nil {
					continue
				}
				for _, call := range astx.Calls(v.Node, false) {
					fn := astx.Callee(info, call)
					if fn == nil || fn.Pkg() == nil || load.ShortPkg(fn.Pkg().Path()) != "outputstream" {
						continue
					}
					se, ok := ast.Unparen(call.Fun).(*ast.SelectorExpr)
					if !ok {
						continue
					}
					n++
					direct := false
					if rc, ok := ast.Unparen(se.X).(*ast.CallExpr); ok {
						if rf := astx.Callee(info, rc); rf != nil && c.P.FuncOf(rf) == acc {
							direct = true
						}
					}
					r.Check(direct, "C04.P7", gm.Name(), "call of "+se.Sel.Name+" on the current output stream", c.P.Pos(call.Pos()), "receiver is api.output() itself",
						"the reader calls the output stream through a cached pointer instead of api.output(): after a snapshot restore replaced (and closed) the stream, the next call runs on the closed LevelDB and terminates the process, or waits on a stream that never gets new messages")
				}
			}
		}
		r.Check(n >= 2, "C04.P7", gm.Name(), "stream calls found", c.P.Pos(gm.Node().Pos()), itoa(n), "no calls on the output stream in getMessages")
	}
	// ---------- P8: the replies of one entry form ONE batch of the output stream: the stream is keyed by the entry's id, so a
	// second Add for the same entry overwrites the first; sendMessages calls Add exactly once, outside any loop, with the
	// slice that received every reply message
	if sm := c.P.Func("main.sendMessages"); sm != nil && sm.Body() != nil {
		si := sm.Info()
		var adds []*ast.CallExpr
		for _, call := range astx.Calls(sm.Body(), true) {
			if fn := astx.Callee(si, call); fn != nil && isFunc(fn, "outputstream", "(*OutputStream).Add") {
				adds = append(adds, call)
			}
		}
		inLoop := false
		for _, call := range adds {
			ast.Inspect(sm.Body(), func(m ast.Node) bool {
				switch l := m.(type) {
				case *ast.ForStmt:
					if l.Body.Pos() <= call.Pos() && call.End() <= l.Body.End() {
						inLoop = true
					}
				case *ast.RangeStmt:
					if l.Body.Pos() <= call.Pos() && call.End() <= l.Body.End() {
						inLoop = true
					}
				}
				return true
			})
		}
		okWhole := false
		if len(adds) == 1 && len(adds[0].Args) == 1 {
			// the argument is a local made with the length of the reply's messages (not a sub-slice)
			if id, ok := ast.Unparen(adds[0].Args[0]).(*ast.Ident); ok {
				for _, d := range defsOf(si, sm.Node(), astx.Obj(si, id)) {
					if mk, ok := ast.Unparen(d).(*ast.CallExpr); d != nil && ok && astx.Builtin(si, mk) == "make" {
						okWhole = true
					}
				}
				// further definitions may only grow it by append(<itself>, …): a re-slice or another value is not the whole
				for _, d := range defsOf(si, sm.Node(), astx.Obj(si, id)) {
					if d == nil {
						continue
					}
					dc, isCall := ast.Unparen(d).(*ast.CallExpr)
					if !isCall {
						okWhole = false
						continue
					}
					switch astx.Builtin(si, dc) {
					case "make":
					case "append":
						if aid, ok := ast.Unparen(dc.Args[0]).(*ast.Ident); !ok || astx.Obj(si, aid) != astx.Obj(si, id) {
							okWhole = false
						}
					default:
						okWhole = false
					}
				}
			}
		}
		r.Check(len(adds) == 1 && !inLoop && okWhole, "C04.P8", sm.Name(), "the replies of an entry are stored as one batch", c.P.Pos(sm.Node().Pos()), "one OutputStream.Add, outside loops, of the whole converted slice",
			"the replies of one entry are handed to the output stream in several Add calls (or only partly): batches are keyed by the entry's id, so each further chunk overwrites the previous one and the overwritten replies can never be delivered")
		// P8b: nothing but "no replies" or "no output stream" (the throw-away server of a snapshot fold) keeps the batch from
		// being stored, and a failed Add is fatal
		sg := c.Graph(sm)
		var outParam types.Object
		for _, fld := range sm.FuncType().Params.List {
			for _, nm := range fld.Names {
				if astx.IsNamed(derefType(si.TypeOf(fld.Type)), pathOutput, "OutputStream") {
					outParam = si.Defs[nm]
				}
			}
		}
		okLit := func(l lit) bool {
			be, ok := ast.Unparen(l.E).(*ast.BinaryExpr)
			if !ok {
				return false
			}
			eq := (be.Op == token.EQL) == l.Pos
			if be.Op != token.EQL && be.Op != token.NEQ {
				return false
			}
			// len(<reply>.Messages) == 0
			if lc, ok := ast.Unparen(be.X).(*ast.CallExpr); ok && astx.Builtin(si, lc) == "len" && len(lc.Args) == 1 {
				if se, ok := ast.Unparen(lc.Args[0]).(*ast.SelectorExpr); ok && se.Sel.Name == "Messages" {
					if z, ok := astx.ConstInt(si, be.Y); ok && z == 0 {
						return eq
					}
				}
			}
			// o == nil
			if id, ok := ast.Unparen(be.X).(*ast.Ident); ok && outParam != nil && astx.Obj(si, id) == outParam && isNilIdent(si, be.Y) {
				return eq
			}
			return false
		}
		for _, rv := range sg.Returns() {
			// a return that is not preceded by the Add
			if len(adds) == 1 {
				av := sg.VertexOf(adds[0])
				if av >= 0 && sg.DominatedBy(rv.ID, func(x *cfgx.Vertex) bool { return x.ID == av }) {
					continue
				}
			}
			r.Check(implied(c.clausesAt(sm, sg, rv.ID), okLit), "C04.P8", sm.Name(), "the batch is dropped only when there are no replies or no output stream", c.P.Pos(rv.Node.Pos()), "return without Add under len(reply.Messages) == 0 || o == nil",
				"sendMessages returns without storing the replies although there are replies and an output stream (test inverted or widened): the clients never receive the answer to their message")
		}
		if len(adds) == 1 {
			av := sg.VertexOf(adds[0])
			okNonNil := false
			for _, cl := range c.clausesAt(sm, sg, av) {
				if len(cl) == 1 {
					if be, ok := ast.Unparen(cl[0].E).(*ast.BinaryExpr); ok {
						if id, ok := ast.Unparen(be.X).(*ast.Ident); ok && outParam != nil && astx.Obj(si, id) == outParam && isNilIdent(si, be.Y) {
							if (be.Op == token.EQL) != cl[0].Pos {
								okNonNil = true
							}
						}
					}
				}
			}
			r.Check(okNonNil, "C04.P8", sm.Name(), "Add is reached only with an output stream", c.P.Pos(adds[0].Pos()), "dominated by o != nil",
				"Add can be called on a nil output stream: the snapshot fold applies entries with o == nil, so compaction panics")
		}
		c.errorDiscipline("C04.P8", sm, "the replies of an entry are reported as stored although the output stream refused them")
	} else {
		r.Break("anchor function main.sendMessages not found in /repo")
	}
	// ---------- P9: output is numbered in one place. Reply numbers (1, 2, …) are handed out by IRCServer.send; the resume
	// protocol relies on "<entry>.<k> = k-th reply of the entry". So a reply context is created only inside package ircserver
	// and sendMessages is given nothing but what ProcessMessage returned
	{
		nLit, nCall := 0, 0
		for _, fi := range c.P.AllFuncs {
			if fi.Body() == nil {
				continue
			}
			info := fi.Info()
			pkg := load.ShortPkg(fi.Pkg.PkgPath)
			for _, cl := range compositeLitsOf(info, fi.Body(), pathIrcsrv, "Replyctx") {
				nLit++
				r.Check(pkg == "ircserver", "C04.P9", fi.Name(), "reply contexts are created by the IRC server only", c.P.Pos(cl.Pos()), "literal inside package ircserver",
					"a reply context is built by hand outside the IRC server: its messages do not get their reply numbers from send() (a hand-made message with Reply 0 sits at the position a client resumes from, so it is delivered again on every reconnect)")
			}
			if pkg != "main" {
				continue
			}
			for _, call := range astx.Calls(fi.Body(), true) {
				fn := astx.Callee(info, call)
				if fn == nil || !isFunc(fn, "main", "sendMessages") || len(call.Args) < 1 {
					continue
				}
				nCall++
				ok := false
				if d := uniqueDef(info, fi.Node(), call.Args[0]); d != nil {
					if pc, isCall := ast.Unparen(d).(*ast.CallExpr); isCall {
						if pf := astx.Callee(info, pc); pf != nil && fname(pf) == "ProcessMessage" {
							ok = true
						}
					}
				}
				r.Check(ok, "C04.P9", fi.Name(), "sendMessages stores what ProcessMessage returned", c.P.Pos(call.Pos()), "argument defined by <server>.ProcessMessage(…)",
					"the replies handed to the output stream are not the reply context ProcessMessage returned: their ids are not the ones send() assigned")
			}
		}
		if nLit < 1 || nCall < 2 {
			r.Break("C04.P9: %d reply-context literals / %d sendMessages calls found", nLit, nCall)
		}
	}
	r.Floor("C04.P1", 5)
	r.Floor("C04.P2", 3)
	r.Floor("C04.P3", 3)
	_ = load.ModPath
}
