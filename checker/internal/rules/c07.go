package rules

import (
	"go/ast"
	"go/token"
	"go/types"
	"strings"

	"verif/checker/internal/astx"
	"verif/checker/internal/cfgx"
	"verif/checker/internal/flowx"
	"verif/checker/internal/load"
)

func init() { register("C07", c07) }

func c07(c *Ctx) {
	r := c.R
	r.Explanation = "Partial: the 'mark durably before dying' and 'skipping is pure' clauses. (D1) applyProto defers a function literal that calls recover() directly and applies the entry after the defer; every application on the live server goes through applyProto; (D2) in the deferred function every path from the non-nil edge of recover() ends in a terminating call, and the terminating call that reports the panic is preceded, in order, by msg.Type = MessageOfDeath, the re-encoding of that msg into l.Data, and a successful fsm.store.StoreLogProto(l); (D3) StoreLogProto keys the record by the entry's Index; (D4) the MessageOfDeath arm only advances the duplicate marker and logs; (D5) MessageOfDeath is written into a Type field nowhere else, and the PANIC command is registered only under the testing environment variable. Restart/replay behaviour is not decided."
	r.Rules = []string{"C07.D1 recover wiring", "C07.D2 mark-persist-die order", "C07.D3 same slot", "C07.D4 skipping is pure", "C07.D5 single writer"}

	ap := c.MustFunc("main.(*FSM).applyProto")
	arm := c.MustFunc("main.(*FSM).applyRobustMessage")
	if ap == nil || arm == nil {
		return
	}
	info := ap.Info()
	g := c.Graph(ap)
	r.Functions = 3

	// D1: defer of a literal with a direct recover()
	var deferLit *ast.FuncLit
	var deferV = -1
	for _, v := range g.Nodes() {
		ds, ok := v.Node.(*ast.DeferStmt)
		if !ok {
			continue
		}
		lit, ok := ast.Unparen(ds.Call.Fun).(*ast.FuncLit)
		if !ok {
			continue
		}
		direct := false
		inspectNoLit(lit.Body, func(n ast.Node) bool {
			if call, ok := n.(*ast.CallExpr); ok && astx.Builtin(info, call) == "recover" {
				direct = true
			}
			return true
		})
		if direct {
			deferLit, deferV = lit, v.ID
		}
	}
	r.Check(deferLit != nil, "C07.D1", ap.Name(), "deferred literal calls recover() directly", c.P.Pos(ap.Node().Pos()), "defer func() { … recover() … }()",
		"applyProto has no deferred function literal that calls recover() itself (a recover one call deeper returns nil): a panic while applying is not intercepted")
	isARM := func(fn *types.Func, _ *ast.CallExpr) bool { return fn == arm.Obj }
	for _, call := range callsIn(ap, isARM) {
		v := g.VertexOf(call)
		inLit := deferLit != nil && deferLit.Pos() <= call.Pos() && call.End() <= deferLit.End()
		ok := deferV >= 0 && !inLit && g.DominatedBy(v, func(x *cfgx.Vertex) bool { return x.ID == deferV })
		r.Check(ok, "C07.D1", ap.Name(), "entry applied after the defer", c.P.Pos(call.Pos()), "defer dominates applyRobustMessage",
			"applyRobustMessage is called before the recover handler is installed")
	}
	// every entry handed to applyProto reaches applyRobustMessage: there is no return before it (the message-of-death arm
	// lives in applyRobustMessage, where the duplicate marker is advanced; an early exit for marked entries skips that)
	for _, call := range callsIn(ap, isARM) {
		cv := g.VertexOf(call)
		early := g.Reach(g.Entry, func(x int) bool { return x == cv }, nil)[g.Exit]
		r.Check(!early, "C07.D1", ap.Name(), "every entry reaches applyRobustMessage", c.P.Pos(call.Pos()), "no path from the entry of applyProto to a return avoids the call",
			"applyProto can return without applying the entry (an early exit, e.g. for entries already marked as message of death): the skipping arm of applyRobustMessage, which advances the session's duplicate-detection marker, is never run on replay")
	}
	// who calls applyRobustMessage
	for _, fi := range c.P.AllFuncs {
		for _, call := range callsIn(fi, isARM) {
			switch fi.Name() {
			case ap.Name():
				r.Ok("C07.D1", fi.Name(), "caller of applyRobustMessage", c.P.Pos(call.Pos()), "the guarded caller")
			case "main.(*FSM).Snapshot":
				fin := fi.Info()
				okNil := len(call.Args) == 3 && isNilIdent(fin, call.Args[2])
				okSrv := len(call.Args) == 3 && !mentionsGlobal(fin, call.Args[1], "ircServer")
				r.Check(okNil && okSrv, "C07.D1", fi.Name(), "caller of applyRobustMessage", c.P.Pos(call.Pos()), "fold on a temporary server with nil output",
					"Snapshot applies entries to the live server or output outside applyProto's recover handler")
			default:
				r.Fail("C07.D1", fi.Name(), "caller of applyRobustMessage", c.P.Pos(call.Pos()),
					"entries are applied outside applyProto: a panic here is neither marked nor contained")
			}
		}
	}
	r.Floor("C07.D1", 4)
	if deferLit == nil {
		return
	}

	// D2 on the literal's own CFG
	lg := c.LitGraph(ap.Name()+"$defer", deferLit, info)
	name := ap.Name() + "$defer"
	// the recover edge: fact r != nil with r := recover()
	var recEdge *cfgx.Edge
	var recObj types.Object
	for _, v := range lg.V {
		for _, e := range v.Succ {
			if e.Cond == nil {
				continue
			}
			for _, f := range cfgx.ExpandCond(e.Cond, e.Val) {
				x, isNil, ok := nilCompare(info, f)
				if !ok || isNil {
					continue
				}
				id, ok := ast.Unparen(x).(*ast.Ident)
				if !ok {
					continue
				}
				o := astx.Obj(info, id)
				for _, d := range defsOf(info, deferLit, o) {
					if call, ok := ast.Unparen(d).(*ast.CallExpr); ok && astx.Builtin(info, call) == "recover" {
						recEdge, recObj = e, o
					}
				}
			}
		}
	}
	if recEdge == nil {
		r.Fail("C07.D2", name, "non-nil edge of recover()", c.P.Pos(deferLit.Pos()), "no branch on the value returned by recover() found")
		return
	}
	// D1b: the handler looks at the panic for every entry that is not already a message of death: any path from the start
	// of the handler to a normal return that does not evaluate recover() has established msg.Type == MessageOfDeath
	{
		isRecover := func(x int) bool {
			if lg.V[x].Node == nil {
				return false
			}
			for _, call := range astx.Calls(lg.V[x].Node, false) {
				if astx.Builtin(info, call) == "recover" {
					return true
				}
			}
			return false
		}
		modEdge := func(e *cfgx.Edge) bool {
			if e.Cond == nil {
				return false
			}
			for _, f := range cfgx.ExpandCond(e.Cond, e.Val) {
				be, ok := ast.Unparen(f.Expr).(*ast.BinaryExpr)
				if !ok || f.Tag != nil || (be.Op != token.EQL && be.Op != token.NEQ) {
					continue
				}
				if !(refersTo(info, be.X, pathRobust, "MessageOfDeath") || refersTo(info, be.Y, pathRobust, "MessageOfDeath")) {
					continue
				}
				if (be.Op == token.EQL) == f.Val {
					return true
				}
			}
			return false
		}
		skips := lg.Reach(lg.Entry, isRecover, modEdge)[lg.Exit]
		r.Check(!skips, "C07.D1", name, "recover() is evaluated for every entry that is not already a message of death", c.P.Pos(deferLit.Pos()), "every path to the handler's normal end passes recover() or the msg.Type == MessageOfDeath edge",
			"the deferred handler can return without calling recover() for an ordinary entry (e.g. the message-of-death test inverted): a panic while applying it is not intercepted, nothing is marked, and every node that replays the log dies at the same entry")
	}
	// no normal return after a recovered panic
	reach := lg.Reach(recEdge.To, nil, nil)
	r.Check(!reach[lg.Exit], "C07.D2", name, "recovered panic always terminates the process", c.P.Pos(recEdge.Cond.Pos()),
		"no path from recover()!=nil to a normal return", "a path from the non-nil edge of recover() returns normally: the panic is swallowed and this replica continues with diverged state")

	// D2c / D4c: what else runs around the apply. applyProto is executed for the marked entry as well — there its handler
	// returns before recover() — and the handler itself runs after a panic, before the entry is marked. Neither place may
	// contain code that can panic on the entry's content. Closed lists:
	//   applyProto proper: the apply call, metrics (prometheus vector methods), <x>.String(), logging of plain values;
	//   handler before the marker is stored: recover, the marshal calls, ProtoMessage, append, StoreLogProto, logging and
	//   termination calls with plain arguments.
	{
		// clockOnly: time.Now / Since / Until and the methods of time.Time and time.Duration — they neither panic nor block
		clockOnly := func(fn *types.Func) bool {
			if fn.Pkg() == nil || fn.Pkg().Path() != "time" {
				return false
			}
			if rn := astx.RecvNamed(fn); rn != nil {
				return rn.Obj().Name() == "Time" || rn.Obj().Name() == "Duration"
			}
			switch fn.Name() {
			case "Now", "Since", "Until":
				return true
			}
			return false
		}
		plainArgs := func(call *ast.CallExpr) bool {
			ok := true
			for _, a := range call.Args {
				ast.Inspect(a, func(n ast.Node) bool {
					if inner, isCall := n.(*ast.CallExpr); isCall {
						if astx.IsConversion(info, inner) || astx.Builtin(info, inner) != "" {
							return true
						}
						fn := astx.Callee(info, inner)
						if fn == nil || fn.Name() != "String" && fn.Name() != "Error" && !clockOnly(fn) {
							ok = false
						}
					}
					return true
				})
			}
			return ok
		}
		allowed := func(call *ast.CallExpr, inHandler bool) (bool, string) {
			if astx.IsConversion(info, call) {
				return true, ""
			}
			if b := astx.Builtin(info, call); b != "" {
				return true, ""
			}
			fn := astx.Callee(info, call)
			if fn == nil {
				return false, astx.Str(call.Fun)
			}
			pkg := ""
			if fn.Pkg() != nil {
				pkg = fn.Pkg().Path()
			}
			name := fname(fn)
			switch {
			case pkg == "log" || strings.HasSuffix(pkg, "/glog") || pkg == "fmt":
				if plainArgs(call) {
					return true, ""
				}
				return false, astx.Str(call.Fun) + " with computed arguments"
			case strings.Contains(pkg, "prometheus") || pkg == "github.com/hashicorp/go-metrics" || pkg == "github.com/armon/go-metrics":
				return plainArgs(call), astx.Str(call.Fun)
			case clockOnly(fn):
				// reading the clock and arithmetic on what was read (for a duration metric): nothing of the entry is involved
				return plainArgs(call), astx.Str(call.Fun)
			case fn.Name() == "String" || fn.Name() == "Error":
				return true, ""
			case name == "applyRobustMessage" && !inHandler:
				return true, ""
			case inHandler && (name == "StoreLogProto" || name == "ProtoMessage" || fn.Name() == "Marshal" && (strings.HasSuffix(pkg, "/proto") || pkg == "encoding/json")):
				return true, ""
			}
			if h := c.P.FuncOf(fn); h != nil && inHandler && load.ShortPkg(h.Pkg.PkgPath) == "main" {
				// a helper of package main that does the marking: judged by D2's helper rule
				for _, c2 := range astx.Calls(h.Body(), false) {
					if f2 := astx.Callee(h.Info(), c2); f2 != nil && fname(f2) == "StoreLogProto" {
						return true, ""
					}
				}
			}
			return false, astx.Str(call.Fun)
		}
		for _, call := range astx.Calls(ap.Body(), false) {
			if call.Pos() >= deferLit.Pos() && call.End() <= deferLit.End() {
				continue
			}
			if fl, isLit := ast.Unparen(call.Fun).(*ast.FuncLit); isLit && fl == deferLit {
				continue
			}
			ok, what := allowed(call, false)
			// a method called on what a map look-up gave (a pre-computed table of counters by message type): for a key the
			// table lacks — the marked entry's type — the value is nil and the call panics, outside any recover
			if se, isSel := ast.Unparen(call.Fun).(*ast.SelectorExpr); isSel && ok {
				if ix, isIx := ast.Unparen(se.X).(*ast.IndexExpr); isIx {
					if mt, isMap := info.TypeOf(ix.X).Underlying().(*types.Map); isMap {
						switch mt.Elem().Underlying().(type) {
						case *types.Interface, *types.Pointer:
							ok, what = false, "a method on the unchecked result of the map look-up "+astx.Str(ix)
						}
					}
				}
			}
			r.Check(ok, "C07.D4", ap.Name(), "nothing but the apply call, metrics and plain logging runs in applyProto", c.P.Pos(call.Pos()), "closed list of callees",
				"applyProto calls "+what+": this also runs when the entry is replayed after it was marked as message of death, where the handler returns before recover() — if it can panic on the entry's content, every node dies at that entry on every restart")
		}
		// handler: calls on paths from the recover edge up to (and including) the store of the marker
		storeV := -1
		for _, v := range lg.Nodes() {
			for _, call := range astx.Calls(v.Node, false) {
				if fn := astx.Callee(info, call); fn != nil && fname(fn) == "StoreLogProto" {
					storeV = v.ID
				}
			}
		}
		if storeV >= 0 {
			before := lg.Reach(recEdge.To, func(x int) bool { return x == storeV }, nil)
			for _, v := range lg.Nodes() {
				if !(before[v.ID] || v.ID == recEdge.To) || v.ID == storeV {
					continue
				}
				for _, call := range astx.Calls(v.Node, false) {
					ok, what := allowed(call, true)
					r.Check(ok, "C07.D2", name, "nothing that can panic runs between the recovered panic and the stored marker", c.P.Pos(call.Pos()), "closed list of callees",
						"the handler calls "+what+" before the entry is marked: if that panics (decoding a raft-internal entry, formatting an unparseable line) the process dies inside the handler, nothing is marked, and every node dies at the same entry on every restart")
				}
			}
		}
	}
	msgParam, lParam := paramOfType(ap, pathRobust, "Message"), paramOfType(ap, pathProto, "RaftLog")
	typeField := c.P.Field("robust", "Message", "Type")
	dataField := c.P.Field("proto", "RaftLog", "Data")
	storeField := c.P.Field("main", "FSM", "store")
	if msgParam == nil || lParam == nil || typeField == nil || dataField == nil || storeField == nil {
		r.Break("C07.D2 anchors missing (applyProto parameters / fields)")
		return
	}
	// the region in which mark -> re-encode -> store is checked: the deferred literal itself, or a helper it calls (below)
	flg := lg
	rmsg, rl := msgParam, lParam
	var rnode ast.Node = deferLit
	rbody := deferLit.Body
	var helper *load.FuncInfo
	isMark := func(v *cfgx.Vertex) bool {
		as, ok := v.Node.(*ast.AssignStmt)
		if !ok || len(as.Lhs) != 1 || len(as.Rhs) != 1 {
			return false
		}
		se, ok := ast.Unparen(as.Lhs[0]).(*ast.SelectorExpr)
		if !ok || astx.FieldSel(info, se) != typeField {
			return false
		}
		id, ok := ast.Unparen(se.X).(*ast.Ident)
		return ok && astx.Obj(info, id) == rmsg && refersTo(info, as.Rhs[0], pathRobust, "MessageOfDeath")
	}
	isDataAssign := func(v *cfgx.Vertex) bool {
		as, ok := v.Node.(*ast.AssignStmt)
		if !ok || len(as.Lhs) != 1 {
			return false
		}
		se, ok := ast.Unparen(as.Lhs[0]).(*ast.SelectorExpr)
		if !ok || astx.FieldSel(info, se) != dataField {
			return false
		}
		id, ok := ast.Unparen(se.X).(*ast.Ident)
		return ok && astx.Obj(info, id) == rl
	}
	isStore := func(fn *types.Func, call *ast.CallExpr) bool {
		if !isFunc(fn, "raftstore", "(*LevelDBStore).StoreLogProto") || len(call.Args) != 1 {
			return false
		}
		id, ok := ast.Unparen(call.Args[0]).(*ast.Ident)
		if !ok || astx.Obj(info, id) != rl {
			return false
		}
		se, ok := ast.Unparen(call.Fun).(*ast.SelectorExpr)
		if !ok {
			return false
		}
		rs, ok := ast.Unparen(se.X).(*ast.SelectorExpr)
		return ok && astx.FieldSel(info, rs) == storeField
	}
	var storeV = -1
	for _, v := range lg.Nodes() {
		if containsCall(info, v, isStore) {
			storeV = v.ID
		}
	}
	// the marking may live in a helper method of package main that the handler calls with (l, msg) on the recover path:
	// the helper's body is then the region in which mark -> re-encode -> store is checked
	helperCallV := -1
	if storeV < 0 {
		for _, v := range lg.Nodes() {
			if v.Node == nil || !reach[v.ID] {
				continue
			}
			for _, call := range astx.Calls(v.Node, false) {
				fn := astx.Callee(info, call)
				if fn == nil {
					continue
				}
				h := c.P.FuncOf(fn)
				if h == nil || h.Body() == nil || load.ShortPkg(h.Pkg.PkgPath) != "main" {
					continue
				}
				hm, hl := paramOfType(h, pathRobust, "Message"), paramOfType(h, pathProto, "RaftLog")
				if hm == nil || hl == nil {
					continue
				}
				// called with the handler's own entry and message
				okArgs := false
				k := 0
				var am, al ast.Expr
				for _, fld := range h.FuncType().Params.List {
					for _, nm := range fld.Names {
						if k < len(call.Args) {
							if h.Info().Defs[nm] == hm {
								am = call.Args[k]
							}
							if h.Info().Defs[nm] == hl {
								al = call.Args[k]
							}
						}
						k++
					}
				}
				if mid, ok := ast.Unparen(am).(*ast.Ident); am != nil && ok && astx.Obj(info, mid) == msgParam {
					if lid, ok := ast.Unparen(al).(*ast.Ident); al != nil && ok && astx.Obj(info, lid) == lParam {
						okArgs = true
					}
				}
				if !okArgs {
					continue
				}
				rmsg, rl = hm, hl
				hg := c.Graph(h)
				sv := -1
				for _, hv := range hg.Nodes() {
					if containsCall(h.Info(), hv, isStore) {
						sv = hv.ID
					}
				}
				if sv < 0 {
					rmsg, rl = msgParam, lParam
					continue
				}
				helper, helperCallV = h, v.ID
				lg, storeV = hg, sv
				rnode, rbody, name = h.Node(), h.Body(), h.Name()
			}
		}
	}
	r.Check(storeV >= 0, "C07.D2", name, "fsm.store.StoreLogProto(l) present", c.P.Pos(deferLit.Pos()), "found",
		"the deferred function does not write the marked entry back with fsm.store.StoreLogProto(l) (the raft log store, on the entry being applied)")
	// the terminating call that reports the panic value
	nFinal := 0
	for _, v := range flg.Nodes() {
		es, ok := v.Node.(*ast.ExprStmt)
		if !ok {
			continue
		}
		call, ok := es.X.(*ast.CallExpr)
		if !ok || !cfgx.NoReturn(info, call) {
			continue
		}
		if !reach[v.ID] {
			continue
		}
		reports := recObj != nil && astx.Mentions(info, call, recObj)
		if !reports {
			// an error-path termination: must itself be on the error edge of marshal/store (never a plain path)
			continue
		}
		nFinal++
		pos := c.P.Pos(call.Pos())
		var okStore bool
		if helper == nil {
			okStore = storeV >= 0 && lg.DominatedBy(v.ID, func(x *cfgx.Vertex) bool { return x.ID == storeV })
			if okStore {
				// the store's error must lead to termination too: the reporting call is on its nil-error edge
				okNil, _ := c.errNilAfterCallLit(info, deferLit, lg, v.ID, isStore)
				okStore = okNil
			}
		} else {
			// the helper is called before the report, cannot return without having stored, and a store error is fatal in it
			okStore = flg.DominatedBy(v.ID, func(x *cfgx.Vertex) bool { return x.ID == helperCallV }) &&
				!lg.Reach(lg.Entry, func(x int) bool { return x == storeV }, nil)[lg.Exit]
			if okStore {
				for _, sc := range callsIn(helper, isStore) {
					if !c.errorEdgeFatal(helper, lg, sc) {
						okStore = false
					}
				}
			}
		}
		r.Check(okStore, "C07.D2", name, "die only after the marked entry is stored", pos, "StoreLogProto(l) dominates, on its nil-error edge",
			"the process can terminate with the panic before the entry has been durably marked as message of death (or the store's error is ignored): every restart replays the poisonous entry")
		okData := lg.DominatedBy(maxInt(storeV, 0), isDataAssign) && storeV >= 0
		r.Check(okData, "C07.D2", name, "l.Data re-encoded before the store", pos, "l.Data = … dominates StoreLogProto(l)",
			"StoreLogProto(l) is not preceded by the assignment of the re-encoded message to l.Data: the unmarked bytes are written back")
		dataV := -1
		for _, x := range lg.Nodes() {
			if isDataAssign(x) {
				dataV = x.ID
			}
		}
		okMark := dataV >= 0 && lg.DominatedBy(dataV, isMark)
		r.Check(okMark, "C07.D2", name, "msg.Type = MessageOfDeath before re-encoding", pos, "mark dominates the l.Data assignment",
			"the message is re-encoded before (or without) being marked as MessageOfDeath")
		// the re-encoded bytes derive from msg in both encodings
		if dataV >= 0 {
			as := lg.V[dataV].Node.(*ast.AssignStmt)
			deps := flowx.Compute(info, rnode).Of(as.Rhs[0])
			hasMsg := deps[rmsg]
			hasProto, hasJSON := false, false
			for o := range deps {
				if f, ok := o.(*types.Func); ok {
					if f.Name() == "ProtoMessage" {
						hasProto = true
					}
					if f.Pkg() != nil && f.Pkg().Path() == "encoding/json" && f.Name() == "Marshal" {
						hasJSON = true
					}
				}
			}
			// the value marshalled is the marked message itself, not a partial copy
			for _, mc := range astx.Calls(rbody, false) {
				fn := astx.Callee(info, mc)
				if fn == nil || fname(fn) != "Marshal" || len(mc.Args) != 1 {
					continue
				}
				arg := ast.Unparen(mc.Args[0])
				okSelf := false
				if pc, isCall := arg.(*ast.CallExpr); isCall { // msg.ProtoMessage()
					if se, isSel := ast.Unparen(pc.Fun).(*ast.SelectorExpr); isSel && se.Sel.Name == "ProtoMessage" {
						if id, isID := ast.Unparen(se.X).(*ast.Ident); isID && astx.Obj(info, id) == rmsg {
							okSelf = true
						}
					}
				}
				if id, isID := arg.(*ast.Ident); isID && astx.Obj(info, id) == rmsg {
					okSelf = true
				}
				r.Check(okSelf, "C07.D2", name, "the marked message itself is re-encoded ("+astx.Str(mc.Fun)+")", c.P.Pos(mc.Pos()), "marshals msg / msg.ProtoMessage()",
					"the entry written back is not the marked message itself but a copy built from some of its fields: fields such as the client message id are lost, so the duplicate marker does not advance after restart and the poisonous line is accepted again")
			}
			// the marker-prefixed bytes are what is stored: no later assignment replaces them by the un-prefixed bytes
			for _, vv := range lg.Nodes() {
				a2, isAs := vv.Node.(*ast.AssignStmt)
				if !isAs || len(a2.Lhs) != 1 || len(a2.Rhs) != 1 {
					continue
				}
				ap, isCall := ast.Unparen(a2.Rhs[0]).(*ast.CallExpr)
				if !isCall || astx.Builtin(info, ap) != "append" || len(ap.Args) != 2 || !ap.Ellipsis.IsValid() {
					continue
				}
				src, isID := ast.Unparen(ap.Args[1]).(*ast.Ident)
				if !isID {
					continue
				}
				if astx.Same(info, a2.Lhs[0], src) {
					continue // data = append(prefix, data...): the variable itself now carries the prefix
				}
				// T = append(prefix, src...): a later T = src undoes it
				undone := false
				reachA := lg.Reach(vv.ID, nil, nil)
				for _, w := range lg.Nodes() {
					a3, ok := w.Node.(*ast.AssignStmt)
					if !ok || w.ID == vv.ID || !reachA[w.ID] || len(a3.Lhs) != 1 || len(a3.Rhs) != 1 {
						continue
					}
					if astx.Same(info, a3.Lhs[0], a2.Lhs[0]) && astx.Same(info, a3.Rhs[0], src) {
						undone = true
					}
				}
				r.Check(!undone, "C07.D2", name, "marker-prefixed bytes are not overwritten", c.P.Pos(a2.Pos()), "no later assignment of the un-prefixed bytes",
					"the 'p'-prefixed encoding is assigned and then overwritten by the un-prefixed bytes: the marked entry is stored without its marker and cannot be decoded on replay")
			}
			r.Check(hasMsg && hasProto, "C07.D2", name, "re-encoding derives from the marked msg (protobuf)", c.P.Pos(as.Pos()), "data depends on msg.ProtoMessage()",
				"the bytes stored back do not derive from the marked message via ProtoMessage()")
			r.Check(hasMsg && hasJSON, "C07.D2", name, "re-encoding derives from the marked msg (legacy JSON)", c.P.Pos(as.Pos()), "data depends on json.Marshal(msg)",
				"the legacy JSON branch does not re-encode the marked message")
		}
	}
	r.Check(nFinal > 0, "C07.D2", name, "terminating call reports the panic", c.P.Pos(deferLit.Pos()), "found", "no terminating call that reports the recovered value")

	// D3: StoreLogProto keys by msg.Index
	if sl := c.MustFunc("raftstore.(*LevelDBStore).StoreLogProto"); sl != nil {
		si := sl.Info()
		idx := c.P.Field("proto", "RaftLog", "Index")
		deps := flowx.Compute(si, sl.Node())
		ok := false
		for _, call := range astx.Calls(sl.Body(), true) {
			se, isSel := ast.Unparen(call.Fun).(*ast.SelectorExpr)
			if !isSel || se.Sel.Name != "Put" || len(call.Args) < 2 {
				continue
			}
			if deps.Of(call.Args[0])[idx] {
				ok = true
			}
		}
		r.Check(ok, "C07.D3", sl.Name(), "record key derives from msg.Index", c.P.Pos(sl.Node().Pos()), "Put key depends on pb.RaftLog.Index",
			"StoreLogProto does not key the record by the entry's Index: the mark lands in a different slot")
	}

	// D3c: the marker is durable when StoreLogProto says so: no way to return success without the write (a "this entry is
	// already stored" fast path keyed by index and term drops exactly the re-written, marked entry)
	if sl := c.MustFunc("raftstore.(*LevelDBStore).StoreLogProto"); sl != nil {
		if c.succeedsOnlyByWriting("C07.D3", sl, "StoreLogProto can return nil without having written: applyProto then terminates the process believing the mark is durable, and the node dies on the unmarked entry again at every restart") == 0 {
			r.Break("C07.D3: StoreLogProto has no return with a result")
		}
	}

	// D3b: what StoreLogProto wrote can be read back whatever the store's settings are: applyProto stores the marked entry in the
	// protobuf form into any store, so GetLog must choose the decoder by the record, not by a setting of the store
	if gl := c.MustFunc("raftstore.(*LevelDBStore).GetLog"); gl != nil {
		gi := gl.Info()
		gg := c.Graph(gl)
		var settings []*types.Var
		var st *types.Struct
		if fd, isFn := gl.Node().(*ast.FuncDecl); isFn {
			if fo, _ := gi.Defs[fd.Name].(*types.Func); fo != nil {
				if rv := fo.Type().(*types.Signature).Recv(); rv != nil {
					t := rv.Type()
					if pt, isP := t.(*types.Pointer); isP {
						t = pt.Elem()
					}
					st, _ = t.Underlying().(*types.Struct)
				}
			}
		}
		if st != nil {
			for i := 0; i < st.NumFields(); i++ {
				if b, isB := st.Field(i).Type().Underlying().(*types.Basic); isB && b.Info()&types.IsBoolean != 0 {
					settings = append(settings, st.Field(i))
				}
			}
		}
		reach := gg.Reach(gg.Entry, nil, func(e *cfgx.Edge) bool {
			if e.Cond == nil {
				return false
			}
			for _, f := range settings {
				if mentionsField(gi, e.Cond, f) {
					return true
				}
			}
			return false
		})
		nDec := 0
		for _, v := range gg.Nodes() {
			for _, call := range astx.Calls(v.Node, false) {
				fn := astx.Callee(gi, call)
				if fn == nil || fn.Name() != "Unmarshal" || fn.Pkg() == nil || !strings.HasSuffix(fn.Pkg().Path(), "/proto") {
					continue
				}
				nDec++
				r.Check(reach[v.ID], "C07.D3", gl.Name(), "a record in the marked form is decoded whatever the store's settings", c.P.Pos(call.Pos()), "proto.Unmarshal reachable without a test of a store setting",
					"GetLog decodes the protobuf form only under a setting of the store: the marked entry, which applyProto always stores in that form, cannot be read back from a store with the other setting, and the node stops at it on every start")
			}
		}
		r.Check(nDec > 0, "C07.D3", gl.Name(), "GetLog decodes the form StoreLogProto writes", c.P.Pos(gl.Node().Pos()), "proto.Unmarshal present", "GetLog has no decoder for the form StoreLogProto writes")
	}

	// D4: the MessageOfDeath arm is pure
	ag := c.Graph(arm)
	ai := arm.Info()
	nArm := 0
	for _, v := range ag.Nodes() {
		inArm := false
		for _, f := range ag.FactsAt(v.ID) {
			if f.Tag != nil && f.Val && strings.HasSuffix(astx.Str(f.Expr), "MessageOfDeath") {
				inArm = true
			}
		}
		if !inArm {
			continue
		}
		for _, call := range astx.Calls(v.Node, true) {
			fn := astx.Callee(ai, call)
			if fn == nil {
				continue
			}
			nArm++
			ok := isFunc(fn, "ircserver", "(*IRCServer).UpdateLastClientMessageID") || (fn.Pkg() != nil && (fn.Pkg().Path() == "log" || strings.HasSuffix(fn.Pkg().Path(), "glog")) && !cfgx.NoReturn(ai, call))
			r.Check(ok, "C07.D4", arm.Name(), "MessageOfDeath arm calls "+load.FuncName(fn), c.P.Pos(call.Pos()), "marker update / logging only",
				"the message-of-death arm has an effect beyond advancing the duplicate marker: a skipped entry is not side-effect free")
		}
	}
	r.Check(nArm > 0, "C07.D4", arm.Name(), "MessageOfDeath arm found", c.P.Pos(arm.Node().Pos()), "case robust.MessageOfDeath present", "applyRobustMessage has no case for robust.MessageOfDeath: marked entries are processed again")

	// D5: single writer of MessageOfDeath
	for _, fi := range c.P.AllFuncs {
		if fi.Body() == nil {
			continue
		}
		fin := fi.Info()
		ast.Inspect(fi.Body(), func(n ast.Node) bool {
			var lhs, rhs ast.Expr
			switch x := n.(type) {
			case *ast.AssignStmt:
				if len(x.Lhs) == 1 && len(x.Rhs) == 1 {
					lhs, rhs = x.Lhs[0], x.Rhs[0]
				}
			case *ast.KeyValueExpr:
				lhs, rhs = x.Key, x.Value
			}
			if rhs == nil || !refersTo(fin, rhs, pathRobust, "MessageOfDeath") {
				return true
			}
			isType := false
			switch l := ast.Unparen(lhs).(type) {
			case *ast.SelectorExpr:
				isType = astx.FieldSel(fin, l) == typeField
			case *ast.Ident:
				isType = fin.Uses[l] == typeField
			}
			if !isType {
				return true
			}
			inDefer := fi == ap && deferLit.Pos() <= n.Pos() && n.End() <= deferLit.End()
			// … or inside the marking helper, which is called from nowhere but that handler
			if !inDefer && helper != nil && fi == helper {
				only := true
				for _, caller := range c.P.AllFuncs {
					for _, call := range callsIn(caller, func(fn *types.Func, _ *ast.CallExpr) bool { return fn == helper.Obj }) {
						if !(caller == ap && deferLit.Pos() <= call.Pos() && call.End() <= deferLit.End()) {
							only = false
						}
					}
				}
				inDefer = only
			}
			r.Check(inDefer, "C07.D5", fi.Name(), "writes Type = MessageOfDeath", c.P.Pos(n.Pos()), "inside applyProto's recover handler",
				"a message is marked as message of death outside the recover handler: a healthy entry would be skipped on every replica that replays it")
			return true
		})
	}
	r.Floor("C07.D5", 1)
	// D1e one place recovers: a panic raised while an entry is applied must arrive at applyProto's deferred function, which marks
	// the entry and lets the node die. A recover() anywhere below it (ProcessMessage "answering with an internal error", a
	// handler wrapper) swallows the panic: the entry is never marked, the half-applied step stays, and the node carries on
	{
		nRec := 0
		for _, pk := range []string{"main", "ircserver", "outputstream", "robust", "raftstore", "raftlog", "config"} {
			for _, fi := range c.P.FuncsIn(pk) {
				if fi.Body() == nil {
					continue
				}
				info := fi.Info()
				for _, call := range astx.Calls(fi.Body(), true) {
					if astx.Builtin(info, call) != "recover" {
						continue
					}
					nRec++
					r.Check(fi.Name() == "main.(*FSM).applyProto", "C07.D1", fi.Name(), "recover() is called by applyProto's deferred function only", c.P.Pos(call.Pos()), "the one recovery point of the state machine",
						"a panic raised while an entry is applied is recovered in "+shortName(fi)+" and never reaches applyProto: the entry is not marked as a message of death, the node goes on with the step half done, and every replay runs the same code again")
				}
			}
		}
		if nRec < 1 {
			r.Break("C07.D1: no recover() found in the state machine")
		}
	}
	c.c07PanicCommand()
}

func maxInt(a, b int) int {
	if a > b {
		return a
	}
	return b
}

// isTypeEq recognises <x>.Type == robust.<name>.
func isTypeEq(info *types.Info, e ast.Expr, typeField *types.Var, name string) bool {
	be, ok := ast.Unparen(e).(*ast.BinaryExpr)
	if !ok || be.Op.String() != "==" {
		return false
	}
	m := func(a, b ast.Expr) bool {
		se, ok := ast.Unparen(a).(*ast.SelectorExpr)
		return ok && astx.FieldSel(info, se) == typeField && refersTo(info, b, pathRobust, name)
	}
	return m(be.X, be.Y) || m(be.Y, be.X)
}

func paramOfType(fi *load.FuncInfo, pkgpath, name string) types.Object {
	info := fi.Info()
	for _, fld := range fi.FuncType().Params.List {
		for _, nm := range fld.Names {
			if o := info.Defs[nm]; o != nil && astx.IsNamed(o.Type(), pkgpath, name) {
				return o
			}
		}
	}
	return nil
}

// errNilAfterCallLit is errNilAfterCall for a function literal.
func (c *Ctx) errNilAfterCallLit(info *types.Info, root ast.Node, g *cfgx.Graph, site int, match func(fn *types.Func, call *ast.CallExpr) bool) (bool, string) {
	for _, f := range g.FactsAt(site) {
		x, isNil, ok := nilCompare(info, f)
		if !ok || !isNil {
			continue
		}
		id, ok := ast.Unparen(x).(*ast.Ident)
		if !ok {
			continue
		}
		defs := defsOf(info, root, astx.Obj(info, id))
		hits := 0
		for _, d := range defs {
			if call, ok := ast.Unparen(d).(*ast.CallExpr); ok {
				if fn := astx.Callee(info, call); fn != nil && match(fn, call) {
					hits++
				}
			}
		}
		if hits > 0 && hits == len(defs) {
			return true, "nil-error edge"
		}
	}
	return false, ""
}

// c07PanicCommand: a registry entry whose handler panics unconditionally is registered only under an os.Getenv test.
func (c *Ctx) c07PanicCommand() {
	r := c.R
	n := 0
	for _, fi := range c.P.FuncsIn("ircserver") {
		if fi.Decl == nil || fi.Decl.Name.Name != "init" || fi.Body() == nil {
			continue
		}
		info := fi.Info()
		g := c.Graph(fi)
		for _, v := range g.Nodes() {
			as, ok := v.Node.(*ast.AssignStmt)
			if !ok {
				continue
			}
			hasPanic := false
			for _, lit := range funcLitsIn(as) {
				for _, call := range astx.Calls(lit.Body, true) {
					if astx.Builtin(info, call) == "panic" {
						hasPanic = true
					}
				}
			}
			if !hasPanic {
				continue
			}
			n++
			ok = false
			for _, f := range g.FactsAt(v.ID) {
				// os.Getenv(<name>) == <non-empty constant> holds (an inequality, or a comparison with "", is satisfied by the
				// production environment, where the variable is not set)
				be, isBE := ast.Unparen(f.Expr).(*ast.BinaryExpr)
				if !isBE || f.Tag != nil {
					continue
				}
				eq := (be.Op == token.EQL && f.Val) || (be.Op == token.NEQ && !f.Val)
				if !eq {
					continue
				}
				for _, pair := range [][2]ast.Expr{{be.X, be.Y}, {be.Y, be.X}} {
					call, isCall := ast.Unparen(pair[0]).(*ast.CallExpr)
					if !isCall {
						continue
					}
					if fn := astx.Callee(info, call); fn != nil && isFunc(fn, "os", "Getenv") {
						if s, okS := astx.ConstString(info, pair[1]); okS && s != "" {
							ok = true
						}
					}
				}
			}
			r.Check(ok, "C07.D5", fi.Name(), "panicking command registered only for testing", c.P.Pos(as.Pos()), "dominated by os.Getenv(<name>) == <non-empty constant>",
				"a command whose handler panics is registered unconditionally: any client can kill the network")
		}
	}
	if n == 0 {
		r.Observe("C07.D5", "ircserver.init", "panicking test command", "-", "no registry entry with a panicking handler found (nothing to guard)")
	}
}
