package rules

import (
	"go/ast"
	"go/token"
	"go/types"
	"strings"

	"verif/checker/internal/astx"
	"verif/checker/internal/cfgx"
	"verif/checker/internal/flowx"
	"verif/checker/internal/load"
)

func init() { register("C16", c16) }

// lhsChainFields returns every struct field selected along an assignment target chain (a.B.C[k].D -> B, C, D).
func lhsChainFields(info *types.Info, e ast.Expr) []*types.Var {
	var out []*types.Var
	for {
		switch x := ast.Unparen(e).(type) {
		case *ast.IndexExpr:
			e = x.X
		case *ast.StarExpr:
			e = x.X
		case *ast.SelectorExpr:
			if f := astx.FieldSel(info, x); f != nil {
				out = append(out, f)
			}
			e = x.X
		default:
			return out
		}
	}
}

func c16(c *Ctx) {
	r := c.R
	r.Explanation = "Partial: the validate -> compare -> propose(+1) -> install chain and the single-writer discipline of the network configuration. (V1) handlePostConfig proposes only what toml.DecodeReader parsed without error, byte for byte; (V2) applyConfig proposes only on the false edge of revision != configRevision(), as a robust.Config message carrying the body and revision+1; (V3) the state machine installs the new configuration only on the nil-error edge of config.FromString, then sets the revision from the entry, under ConfigMu, and refreshes the cached expiration; (V4) IRCServer.Config is written only by the constructor, the Config arm, Unmarshal and GLINE (inside the state machine, so bans replicate) and is not aliased for writing elsewhere; (V5) every field of the configuration is part of the snapshot; (V6) GET /config encodes the live configuration on every path and Banned() is a plain look-up in Config.Banned. Agreement of replicas under concurrent posts and TOML semantics are not decided."
	r.Rules = []string{"C16.V1 parse before propose", "C16.V2 revision gate and increment", "C16.V3 install", "C16.V4 who writes the config", "C16.V5 config is replicated state", "C16.V6 readers use the configuration in force"}

	amw := c.amwLike()
	isAMW := func(fn *types.Func, _ *ast.CallExpr) bool { return amw[fn] }

	// the function that builds the Config proposal: applyConfig, or — when that was inlined — its former caller
	var proposer *load.FuncInfo
	for _, fi := range c.P.FuncsIn("api") {
		if fi.Body() == nil {
			continue
		}
		for _, cl := range compositeLitsOf(fi.Info(), fi.Body(), pathRobust, "Message") {
			if t := litField(cl, "Type"); t != nil && refersTo(fi.Info(), t, pathRobust, "Config") {
				proposer = fi
			}
		}
	}
	inlined := proposer != nil && proposer.Name() == "api.(*HTTP).handlePostConfig"
	// V1
	if fi := c.MustFunc("api.(*HTTP).handlePostConfig"); fi != nil {
		r.Functions++
		info := fi.Info()
		g := c.Graph(fi)
		isApplyCfg := func(fn *types.Func, _ *ast.CallExpr) bool { return isFunc(fn, "api", "(*HTTP).applyConfig") }
		isDecode := func(fn *types.Func, _ *ast.CallExpr) bool {
			return fn.Pkg() != nil && fn.Pkg().Path() == "github.com/BurntSushi/toml" && strings.HasPrefix(fn.Name(), "Decode")
		}
		calls := callsIn(fi, isApplyCfg)
		var inlinedBody ast.Expr
		if inlined {
			calls = callsIn(fi, isAMW)
			for _, cl := range compositeLitsOf(info, fi.Body(), pathRobust, "Message") {
				inlinedBody = litField(cl, "Data")
			}
		}
		r.Check(len(calls) > 0, "C16.V1", fi.Name(), "proposes through applyConfig", c.P.Pos(fi.Node().Pos()), "found", "handlePostConfig does not call applyConfig")
		deps := flowx.Compute(info, fi.Node())
		for _, call := range calls {
			v := g.VertexOf(call)
			ok, why := c.errNilAfterCall(fi, g, v, isDecode)
			r.Check(ok, "C16.V1", fi.Name(), "TOML parsed before proposing", c.P.Pos(call.Pos()), why,
				"applyConfig is reachable without toml.Decode* having succeeded: an unparsable configuration is proposed")
			// the proposed body is the tee'd copy of what was parsed
			okBody := false
			var decodeCall *ast.CallExpr
			for _, dc := range callsIn(fi, isDecode) {
				decodeCall = dc
			}
			bodyArg := ast.Expr(nil)
			if len(call.Args) == 2 {
				bodyArg = call.Args[1]
			}
			if inlined {
				bodyArg = inlinedBody
			}
			if decodeCall != nil && bodyArg != nil {
				// find &buf inside the decode call's reader argument
				var bufObj types.Object
				ast.Inspect(decodeCall.Args[0], func(n ast.Node) bool {
					if u, ok := n.(*ast.UnaryExpr); ok && u.Op == token.AND {
						if id, ok := ast.Unparen(u.X).(*ast.Ident); ok {
							if o := astx.Obj(info, id); o != nil && astx.IsNamed(o.Type(), "bytes", "Buffer") {
								bufObj = o
							}
						}
					}
					return true
				})
				tee := false
				for _, cc := range astx.Calls(decodeCall.Args[0], false) {
					if fn := astx.Callee(info, cc); fn != nil && isFunc(fn, "io", "TeeReader") {
						tee = true
					}
				}
				if bufObj != nil && tee && deps.Of(bodyArg)[bufObj] {
					okBody = true
				}
			}
			r.Check(okBody, "C16.V1", fi.Name(), "proposed body is the parsed bytes", c.P.Pos(call.Pos()), "body comes from the buffer fed by io.TeeReader around the parsed reader",
				"the configuration text proposed is not the tee'd copy of exactly what toml.Decode* parsed")
		}
	}

	// V2
	v2fn := c.P.Func("api.(*HTTP).applyConfig")
	if v2fn == nil && inlined {
		v2fn = proposer
	}
	if v2fn == nil {
		c.MustFunc("api.(*HTTP).applyConfig")
	}
	if fi := v2fn; fi != nil {
		r.Functions++
		info := fi.Info()
		g := c.Graph(fi)
		var revParam, bodyParam types.Object
		for _, fld := range fi.FuncType().Params.List {
			for _, nm := range fld.Names {
				o := info.Defs[nm]
				if o == nil {
					continue
				}
				if b, ok := o.Type().Underlying().(*types.Basic); ok && b.Kind() == types.Uint64 {
					revParam = o
				}
				if b, ok := o.Type().Underlying().(*types.Basic); ok && b.Kind() == types.String {
					bodyParam = o
				}
			}
		}
		resolve := func(e ast.Expr) ast.Expr {
			for i := 0; i < 3; i++ {
				d := uniqueDef(info, fi.Node(), e)
				if d == nil {
					break
				}
				e = d
			}
			return e
		}
		isParam := func(e ast.Expr, o types.Object) bool {
			if inlined {
				// no parameters: the revision is the local parsed from the request header, the body the tee'd buffer's text
				if call, ok := ast.Unparen(resolve(e)).(*ast.CallExpr); ok {
					if fn := astx.Callee(info, call); fn != nil && (isFunc(fn, "strconv", "ParseUint") || fn.Name() == "String") {
						return true
					}
				}
				return false
			}
			id, ok := ast.Unparen(resolve(e)).(*ast.Ident)
			return ok && o != nil && astx.Obj(info, id) == o
		}
		isCfgRev := func(e ast.Expr) bool {
			call, ok := ast.Unparen(resolve(e)).(*ast.CallExpr)
			if !ok {
				return false
			}
			fn := astx.Callee(info, call)
			return fn != nil && isFunc(fn, "api", "(*HTTP).configRevision")
		}
		for _, call := range callsIn(fi, isAMW) {
			v := g.VertexOf(call)
			ok := false
			for _, f := range g.FactsAt(v) {
				if f.Tag != nil {
					continue
				}
				be, isBE := ast.Unparen(f.Expr).(*ast.BinaryExpr)
				if !isBE {
					continue
				}
				equal := (be.Op == token.NEQ && !f.Val) || (be.Op == token.EQL && f.Val)
				if equal && ((isParam(be.X, revParam) && isCfgRev(be.Y)) || (isParam(be.Y, revParam) && isCfgRev(be.X))) {
					ok = true
				}
			}
			r.Check(ok, "C16.V2", fi.Name(), "revision gate before proposing", c.P.Pos(call.Pos()), "dominated by revision == configRevision()",
				"the commit call is reachable without the posted revision having been compared equal to the revision in force: stale or future revisions take effect")
		}
		lits := compositeLitsOf(info, fi.Body(), pathRobust, "Message")
		r.Check(len(lits) == 1, "C16.V2", fi.Name(), "one proposal literal", c.P.Pos(fi.Node().Pos()), "found", "expected exactly one robust.Message literal in applyConfig")
		for _, cl := range lits {
			t := litField(cl, "Type")
			r.Check(t != nil && refersTo(info, t, pathRobust, "Config"), "C16.V2", fi.Name(), "proposal has Type robust.Config", c.P.Pos(cl.Pos()), "Type: robust.Config", "the proposal's Type is not robust.Config")
			d := litField(cl, "Data")
			r.Check(d != nil && isParam(d, bodyParam), "C16.V2", fi.Name(), "proposal carries the body", c.P.Pos(cl.Pos()), "Data: <body parameter>", "the proposal's Data is not the configuration body")
			rv := litField(cl, "Revision")
			okInc := false
			if be, ok := ast.Unparen(rv).(*ast.BinaryExpr); rv != nil && ok && be.Op == token.ADD {
				one := func(e ast.Expr) bool { v, ok := astx.ConstInt(info, e); return ok && v == 1 }
				okInc = (isParam(be.X, revParam) && one(be.Y)) || (isParam(be.Y, revParam) && one(be.X))
			}
			r.Check(okInc, "C16.V2", fi.Name(), "proposal raises the revision by exactly one", c.P.Pos(cl.Pos()), "Revision: revision + 1",
				"the proposed Revision is not the compared revision + 1")
		}
	}
	if fi := c.MustFunc("api.(*HTTP).configRevision"); fi != nil {
		rev := c.P.Field("config", "Network", "Revision")
		cfg := c.P.Field("ircserver", "IRCServer", "Config")
		ok := false
		for _, rv := range c.Graph(fi).Returns() {
			rs := rv.Node.(*ast.ReturnStmt)
			if len(rs.Results) == 1 {
				if se, isSel := ast.Unparen(rs.Results[0]).(*ast.SelectorExpr); isSel && astx.FieldSel(fi.Info(), se) == rev && mentionsField(fi.Info(), se, cfg) {
					ok = true
				}
			}
		}
		r.Check(ok, "C16.V2", fi.Name(), "returns the revision in force", c.P.Pos(fi.Node().Pos()), "returns IRCServer.Config.Revision", "configRevision does not return IRCServer.Config.Revision")
	}

	// V3
	cfgField := c.P.Field("ircserver", "IRCServer", "Config")
	revField := c.P.Field("config", "Network", "Revision")
	if cfgField == nil || revField == nil {
		r.Break("C16 anchors missing (IRCServer.Config / Network.Revision)")
		return
	}
	if fi := c.MustFunc("main.(*FSM).applyRobustMessage"); fi != nil {
		r.Functions++
		info := fi.Info()
		g := c.Graph(fi)
		isFromString := func(fn *types.Func, _ *ast.CallExpr) bool { return isFunc(fn, "config", "FromString") }
		var installV, revV = -1, -1
		var fromStringArgOK bool
		for _, call := range callsIn(fi, isFromString) {
			if len(call.Args) == 1 {
				if se, ok := ast.Unparen(call.Args[0]).(*ast.SelectorExpr); ok && se.Sel.Name == "Data" {
					fromStringArgOK = true
				}
			}
		}
		r.Check(fromStringArgOK, "C16.V3", fi.Name(), "parses the entry's Data", c.P.Pos(fi.Node().Pos()), "config.FromString(msg.Data)", "the Config arm does not parse the entry's Data with config.FromString")
		nw := 0
		for _, v := range g.Nodes() {
			as, ok := v.Node.(*ast.AssignStmt)
			if !ok {
				continue
			}
			for i, l := range as.Lhs {
				chain := lhsChainFields(info, l)
				through := false
				for _, f := range chain {
					if f == cfgField {
						through = true
					}
				}
				if !through {
					continue
				}
				nw++
				okNil, why := c.errNilAfterCall(fi, g, v.ID, isFromString)
				r.Check(okNil, "C16.V3", fi.Name(), "write "+astx.Str(l)+" only after a successful parse", c.P.Pos(as.Pos()), why,
					"IRCServer.Config is written on a path where config.FromString did not succeed: a rejected update changes the configuration")
				// lock
				okLock := g.DominatedBy(v.ID, func(x *cfgx.Vertex) bool { return isLockCall(info, x.Node, "ConfigMu", "Lock") })
				r.Check(okLock, "C16.V3", fi.Name(), "write "+astx.Str(l)+" under ConfigMu", c.P.Pos(as.Pos()), "ConfigMu.Lock() dominates", "the configuration is replaced without holding ConfigMu in write mode")
				if len(chain) == 1 && chain[0] == cfgField {
					installV = v.ID
					// installed value is the parsed one
					if len(as.Rhs) == len(as.Lhs) {
						d := uniqueDef(info, fi.Node(), as.Rhs[i])
						okVal := false
						if call, ok := ast.Unparen(d).(*ast.CallExpr); d != nil && ok {
							if fn := astx.Callee(info, call); fn != nil && isFromString(fn, call) {
								okVal = true
							}
						}
						r.Check(okVal, "C16.V3", fi.Name(), "installs the parsed configuration", c.P.Pos(as.Pos()), "value is the result of config.FromString", "the installed value is not the configuration parsed from the entry")
					}
				}
				if len(chain) >= 1 && chain[0] == revField {
					revV = v.ID
					okRev := false
					if len(as.Rhs) == len(as.Lhs) {
						if se, ok := ast.Unparen(as.Rhs[i]).(*ast.SelectorExpr); ok && se.Sel.Name == "Revision" && astx.IsNamed(info.TypeOf(se.X), pathRobust, "Message") {
							okRev = true
						}
					}
					r.Check(okRev, "C16.V3", fi.Name(), "revision taken from the entry", c.P.Pos(as.Pos()), "Config.Revision = msg.Revision", "the installed revision is not the entry's Revision")
				}
			}
		}
		r.Check(installV >= 0, "C16.V3", fi.Name(), "installs IRCServer.Config", c.P.Pos(fi.Node().Pos()), "found", "the Config arm never assigns IRCServer.Config")
		okAfter := installV >= 0 && revV >= 0 && g.DominatedBy(revV, func(x *cfgx.Vertex) bool { return x.ID == installV }) &&
			g.PostDominatedBy(installV, g.Exit, func(x *cfgx.Vertex) bool { return x.ID == revV })
		r.Check(okAfter, "C16.V3", fi.Name(), "revision set after every install", c.P.Pos(fi.Node().Pos()), "Config.Revision = … follows Config = … on every path",
			"after installing the parsed configuration the revision is not (always) set from the entry: TOML cannot carry the revision, so it would fall back to 0 or stay stale")
		// values derived from the configuration in this arm are derived from the NEW one: every read of <server>.Config
		// that follows the parse is dominated by the install
		if installV >= 0 {
			cfgField := c.P.Field("ircserver", "IRCServer", "Config")
			var parseV = -1
			for _, v := range g.Nodes() {
				if v.Node == nil {
					continue
				}
				for _, call := range astx.Calls(v.Node, false) {
					if fn := astx.Callee(info, call); fn != nil && isFunc(fn, "config", "FromString") {
						parseV = v.ID
					}
				}
			}
			if parseV >= 0 {
				after := g.Reach(parseV, nil, nil)
				for _, v := range g.Nodes() {
					if v.Node == nil || !after[v.ID] || v.ID == installV {
						continue
					}
					stale := ""
					ast.Inspect(v.Node, func(n ast.Node) bool {
						if as, ok := n.(*ast.AssignStmt); ok {
							// only right-hand sides are reads
							for _, rhs := range as.Rhs {
								ast.Inspect(rhs, func(m ast.Node) bool {
									if se, ok := m.(*ast.SelectorExpr); ok && astx.FieldSel(info, se) == cfgField && cfgField != nil {
										stale = astx.Str(rhs)
									}
									return true
								})
							}
							return false
						}
						return true
					})
					if stale != "" && !g.DominatedBy(v.ID, func(x *cfgx.Vertex) bool { return x.ID == installV }) {
						r.Fail("C16.V3", fi.Name(), "value derived from the configuration before it is installed", c.P.Pos(v.Node.Pos()),
							"the Config arm reads "+stale+" on a path on which the new configuration has not been installed yet: the derived value (e.g. the cached session expiration that sets the compaction horizon) lags one revision behind")
					}
				}
			}
		}
		// cached expiration refreshed
		sed := c.P.Field("main", "FSM", "sessionExpirationDur")
		se := c.P.Field("config", "Network", "SessionExpiration")
		okExp := false
		if sed != nil && se != nil {
			if d := c.funcFlow(fi).writes[sed]; d != nil && d[se] {
				okExp = true
			}
		}
		r.Check(okExp, "C16.V3", fi.Name(), "cached session expiration refreshed", c.P.Pos(fi.Node().Pos()), "FSM.sessionExpirationDur <- Config.SessionExpiration",
			"the FSM's cached session expiration is not refreshed from the new configuration: the compaction horizon keeps using the old value")
		r.Check(nw >= 2, "C16.V3", fi.Name(), "config writes found", c.P.Pos(fi.Node().Pos()), "found", "expected the install and the revision write")
	}

	// V3b: config.FromString builds the configuration from nothing but its input
	if fi := c.MustFunc("config.FromString"); fi != nil {
		info := fi.Info()
		for _, call := range astx.Calls(fi.Body(), false) {
			fn := astx.Callee(info, call)
			if fn == nil || fn.Pkg() == nil || fn.Pkg().Path() != "github.com/BurntSushi/toml" || len(call.Args) != 2 {
				continue
			}
			u, ok := ast.Unparen(call.Args[1]).(*ast.UnaryExpr)
			if !ok {
				continue
			}
			id, ok := ast.Unparen(u.X).(*ast.Ident)
			if !ok {
				continue
			}
			fresh := true
			for _, d := range defsOf(info, fi.Node(), astx.Obj(info, id)) {
				if d == nil {
					continue // var cfg Network
				}
				ast.Inspect(d, func(n ast.Node) bool {
					if x, ok := n.(*ast.Ident); ok {
						if v, ok := info.Uses[x].(*types.Var); ok && v.Parent() == v.Pkg().Scope() {
							fresh = false
						}
					}
					return true
				})
			}
			r.Check(fresh, "C16.V3", fi.Name(), "decodes into a fresh configuration value", c.P.Pos(call.Pos()), "target has no package-level initialiser",
				"the configuration is decoded on top of a package-level value: its maps (ban list, trusted bridges) are shared between updates and processes, so entries removed by an accepted update stay in force on long-running replicas but not on restored ones")
		}
	}

	// V1b the parser refuses a text only when the TOML decoder does: the API validates an update with the decoder before it
	// proposes it, every replica parses it again with config.FromString when it applies it — a text the API accepted and a
	// replica refuses is skipped there (logged) while the revision in the log moves on
	if fs := c.P.Func("config.FromString"); fs != nil {
		if c.noOwnErrors("C16.V1", fs, "an update that POST /config accepted is skipped when it is applied: the configuration that is in force (operators, services passwords, expiration, limits) is not the one the network was given") == 0 {
			r.Break("C16.V1: config.FromString returns no error")
		}
	}
	// V3b the restored configuration is the stored one: its lists have the stored length (no zero-valued entries in front)
	if um := c.P.Func("ircserver.(*IRCServer).Unmarshal"); um != nil {
		inConfig := func(t *types.Slice) bool {
			n := astx.NamedOf(t.Elem())
			return n != nil && n.Obj().Pkg() != nil && n.Obj().Pkg().Path() == pathConfig
		}
		for fi := range c.closure([]*load.FuncInfo{um}) {
			if load.ShortPkg(fi.Pkg.PkgPath) == "ircserver" || load.ShortPkg(fi.Pkg.PkgPath) == "config" {
				c.lengthDiscipline("C16.V3", fi, inConfig, "a replica that restored the configuration from a snapshot uses a different configuration (extra empty operators / services) than the replicas that applied the log")
			}
		}
	}

	// V4 who writes the config
	allowed := map[string]string{
		"ircserver.NewIRCServer":           "constructor (default configuration)",
		"main.(*FSM).applyRobustMessage":   "the Config arm (V3)",
		"ircserver.(*IRCServer).Unmarshal": "snapshot load",
		"ircserver.(*IRCServer).cmdGline":  "GLINE adds a ban inside the state machine",
	}
	for _, fi := range c.P.AllFuncs {
		if fi.Body() == nil {
			continue
		}
		info := fi.Info()
		ast.Inspect(fi.Body(), func(n ast.Node) bool {
			var targets []ast.Expr
			switch x := n.(type) {
			case *ast.AssignStmt:
				targets = x.Lhs
			case *ast.IncDecStmt:
				targets = []ast.Expr{x.X}
			case *ast.ExprStmt:
				if call, ok := x.X.(*ast.CallExpr); ok && astx.Builtin(info, call) == "delete" && len(call.Args) == 2 {
					targets = []ast.Expr{&ast.IndexExpr{X: call.Args[0], Index: call.Args[1]}}
				}
			case *ast.KeyValueExpr:
				if id, ok := x.Key.(*ast.Ident); ok && info.Uses[id] == cfgField {
					_, okA := allowed[fi.Name()]
					r.Check(okA, "C16.V4", fi.Name(), "initialises IRCServer.Config", c.P.Pos(x.Pos()), allowed[fi.Name()], "unexpected writer of the network configuration")
				}
				return true
			case *ast.UnaryExpr:
				if x.Op == token.AND {
					for _, f := range lhsChainFields(info, x.X) {
						if f == cfgField {
							if fi.Name() == "api.(*HTTP).handleGetConfig" {
								r.Except("C16.V4", fi.Name(), "address of IRCServer.Config", c.P.Pos(x.Pos()), "passed to the TOML encoder for reading, under ConfigMu.RLock")
							} else if c.readOnlyAlias(fi, x) {
								r.Ok("C16.V4", fi.Name(), "address of IRCServer.Config kept in a local that is only read", c.P.Pos(x.Pos()), "every use of the local selects a field in read position")
							} else if cal := c.readOnlyCallee(fi, x); cal != "" {
								r.Ok("C16.V4", fi.Name(), "address of IRCServer.Config handed to a function that only reads it", c.P.Pos(x.Pos()), cal+" and what it calls write no field of a configuration type and keep no pointer")
							} else {
								r.Fail("C16.V4", fi.Name(), "address of IRCServer.Config", c.P.Pos(x.Pos()), "a pointer into the configuration escapes: writes through it bypass the replicated update path")
							}
						}
					}
				}
				return true
			}
			for _, l := range targets {
				through := false
				for _, f := range lhsChainFields(info, l) {
					if f == cfgField {
						through = true
					}
				}
				if !through {
					// write through a local alias of one of the configuration's maps: m := i.Config.Banned; m[k] = v
					if ie, ok := ast.Unparen(l).(*ast.IndexExpr); ok {
						if id, ok := ast.Unparen(ie.X).(*ast.Ident); ok {
							if o := astx.Obj(info, id); o != nil {
								if _, isMap := o.Type().Underlying().(*types.Map); isMap {
									for _, d := range defsOf(info, fi.Node(), o) {
										if d == nil {
											continue
										}
										for _, f := range lhsChainFields(info, d) {
											if f == cfgField {
												if _, okA := allowed[fi.Name()]; !okA {
													r.Fail("C16.V4", fi.Name(), "write through alias "+id.Name+" of a configuration map", c.P.Pos(l.Pos()),
														"a map obtained from IRCServer.Config is modified outside the replicated update path")
												}
											}
										}
									}
								}
							}
						}
					}
					continue
				}
				_, okA := allowed[fi.Name()]
				// a function literal that is not called on the spot (a timer, a goroutine, a stored callback) runs outside the
				// state machine's step, whoever created it
				if okA && inDetachedLiteral(fi.Body(), l) {
					r.Fail("C16.V4", fi.Name(), "writes "+astx.Str(l)+" from a function literal that runs later", c.P.Pos(l.Pos()),
						"the network configuration is modified by a callback (timer, goroutine): the change happens outside the replicated step, at a time each node chooses for itself")
					continue
				}
				r.Check(okA, "C16.V4", fi.Name(), "writes "+astx.Str(l), c.P.Pos(l.Pos()), allowed[fi.Name()],
					"the network configuration is modified outside the state machine's Config arm / GLINE / snapshot load: the change is not replicated")
			}
			return true
		})
	}
	r.Floor("C16.V4", 5)
	// GLINE writes under the write lock
	if fi := c.MustFunc("ircserver.(*IRCServer).cmdGline"); fi != nil {
		info := fi.Info()
		g := c.Graph(fi)
		for _, v := range g.Nodes() {
			as, ok := v.Node.(*ast.AssignStmt)
			if !ok {
				continue
			}
			for _, l := range as.Lhs {
				for _, f := range lhsChainFields(info, l) {
					if f == cfgField {
						okLock := g.DominatedBy(v.ID, func(x *cfgx.Vertex) bool { return isLockCall(info, x.Node, "ConfigMu", "Lock") })
						r.Check(okLock, "C16.V4", fi.Name(), "ban written under ConfigMu", c.P.Pos(as.Pos()), "ConfigMu.Lock() dominates", "GLINE writes the ban map without ConfigMu held in write mode")
					}
				}
			}
		}
	}

	// V1b: the text converters of the configuration types: a value is stored through the receiver exactly when parsing
	// succeeded, and what the writer-side converters return was filled from the receiver
	{
		nConv := 0
		for _, fi := range c.P.FuncsIn("config") {
			if fi.Body() == nil || fi.Obj == nil {
				continue
			}
			sig, _ := fi.Obj.Type().(*types.Signature)
			if sig == nil || sig.Recv() == nil {
				continue
			}
			info := fi.Info()
			g := c.Graph(fi)
			recv := sig.Recv()
			switch fi.Obj.Name() {
			case "UnmarshalText", "UnmarshalJSON", "UnmarshalTOML":
				nConv++
				nStore := 0
				for _, v := range g.Nodes() {
					as, ok := v.Node.(*ast.AssignStmt)
					if !ok || len(as.Lhs) != 1 {
						continue
					}
					st, ok := ast.Unparen(as.Lhs[0]).(*ast.StarExpr)
					if !ok {
						continue
					}
					id, ok := ast.Unparen(st.X).(*ast.Ident)
					if !ok || astx.Obj(info, id) != recv {
						continue
					}
					nStore++
					okNil := false
					for _, f := range g.FactsAt(v.ID) {
						if x, isNil, ok := nilCompare(info, f); ok && isNil {
							if types.Identical(info.TypeOf(x), types.Universe.Lookup("error").Type()) {
								okNil = true
							}
						}
					}
					r.Check(okNil, "C16.V1", fi.Name(), "the parsed value is stored only when parsing succeeded", c.P.Pos(as.Pos()), "dominated by err == nil",
						"the converter stores a value through its receiver on a path that has not established that parsing succeeded (test inverted): a valid setting is dropped and a failed parse leaves garbage, on every replica")
				}
				r.Check(nStore >= 1, "C16.V1", fi.Name(), "the converter stores what it parsed", c.P.Pos(fi.Node().Pos()), "*receiver = … present",
					"the converter never stores the parsed value: the setting (expiration, cool-off, session secret) silently keeps its zero value")
				c.errorDiscipline("C16.V1", fi, "a configuration text that does not parse is accepted")
			case "MarshalText", "String":
				// a freshly made buffer that is returned must have been filled from the receiver
				for _, v := range g.Nodes() {
					as, ok := v.Node.(*ast.AssignStmt)
					if !ok || len(as.Lhs) != 1 || len(as.Rhs) != 1 {
						continue
					}
					mk, ok := ast.Unparen(as.Rhs[0]).(*ast.CallExpr)
					if !ok || astx.Builtin(info, mk) != "make" {
						continue
					}
					id, ok := as.Lhs[0].(*ast.Ident)
					if !ok {
						continue
					}
					buf := astx.Obj(info, id)
					for _, rv := range g.Returns() {
						if !astx.Mentions(info, rv.Node, buf) {
							continue
						}
						nConv++
						filled := g.Between(v.ID, rv.ID, func(x *cfgx.Vertex) bool {
							if x.Node == nil || x.ID == v.ID || x.ID == rv.ID {
								return false
							}
							return astx.Mentions(info, x.Node, buf) && astx.Mentions(info, x.Node, recv)
						})
						r.Check(filled, "C16.V1", fi.Name(), "the returned buffer was filled from the receiver", c.P.Pos(rv.Node.Pos()), "a statement mentioning both lies between make and return",
							"the writer-side converter returns a buffer it never filled: the value is written as zeros (the snapshot and GET /config show an empty secret)")
					}
				}
			}
		}
		if nConv < 2 {
			r.Break("C16.V1: only %d text converters found in package config", nConv)
		}
	}
	// V2b: the revision that is compared with the one in force is the client's: what handlePostConfig passes to applyConfig is
	// computed without looking at the current revision (a value derived from it passes the gate trivially)
	if hpc := c.P.Func("api.(*HTTP).handlePostConfig"); hpc != nil && hpc.Body() != nil {
		hi := hpc.Info()
		cr := c.P.Func("api.(*HTTP).configRevision")
		ac := c.P.Func("api.(*HTTP).applyConfig")
		n := 0
		for _, call := range astx.Calls(hpc.Body(), true) {
			var src ast.Expr
			if ac != nil && astx.Callee(hi, call) == ac.Obj && len(call.Args) >= 1 {
				src = call.Args[0]
			} else if ac == nil && inlined {
				// the revision side of the gate in front of the commit call
				if fn := astx.Callee(hi, call); fn == nil || !amw[fn] {
					continue
				}
				for _, f := range c.Graph(hpc).FactsAt(c.Graph(hpc).VertexOf(call)) {
					if be, ok := ast.Unparen(f.Expr).(*ast.BinaryExpr); ok && f.Tag == nil {
						for _, side := range []ast.Expr{be.X, be.Y} {
							if id, ok := ast.Unparen(side).(*ast.Ident); ok {
								if b, ok := hi.TypeOf(id).Underlying().(*types.Basic); ok && b.Kind() == types.Uint64 {
									// the side that is not the revision in force
									isCur := false
									e := ast.Expr(id)
									for k := 0; k < 3; k++ {
										d := uniqueDef(hi, hpc.Node(), e)
										if d == nil {
											break
										}
										e = d
									}
									if cc, ok := ast.Unparen(e).(*ast.CallExpr); ok && cr != nil && astx.Callee(hi, cc) == cr.Obj {
										isCur = true
									}
									if !isCur {
										src = e
									}
								}
							}
						}
					}
				}
			}
			if src == nil {
				continue
			}
			n++
			if d := uniqueDef(hi, hpc.Node(), src); d != nil {
				src = d
			}
			// functions of package api involved in computing it
			bad := ""
			var visit func(e ast.Node, info *types.Info, depth int)
			seen := map[*load.FuncInfo]bool{}
			visit = func(e ast.Node, info *types.Info, depth int) {
				if depth > 4 {
					return
				}
				for _, c2 := range astx.Calls(e, true) {
					fn := astx.Callee(info, c2)
					if fn == nil {
						continue
					}
					if cr != nil && fn == cr.Obj {
						bad = "api.configRevision()"
					}
					if h := c.P.FuncOf(fn); h != nil && h.Body() != nil && load.ShortPkg(h.Pkg.PkgPath) == "api" && !seen[h] {
						seen[h] = true
						if mentionsField(h.Info(), h.Body(), revField) {
							bad = "Config.Revision (in " + shortName(h) + ")"
						}
						visit(h.Body(), h.Info(), depth+1)
					}
				}
			}
			visit(src, hi, 0)
			// a variable with several definitions (a helper that was expanded here): every definition counts, through
			// intermediate variables
			seenObj := map[types.Object]bool{}
			var through func(e ast.Expr, depth int)
			through = func(e ast.Expr, depth int) {
				if e == nil || depth > 4 {
					return
				}
				visit(e, hi, 0)
				ast.Inspect(e, func(n ast.Node) bool {
					id, ok := n.(*ast.Ident)
					if !ok {
						return true
					}
					obj := astx.Obj(hi, id)
					if v, isVar := obj.(*types.Var); !isVar || v.IsField() || seenObj[obj] || v.Parent() == nil || v.Pkg() == nil || v.Parent() == v.Pkg().Scope() {
						return true
					}
					seenObj[obj] = true
					for _, d := range defsOf(hi, hpc.Node(), obj) {
						through(d, depth+1)
					}
					return true
				})
			}
			through(src, 0)
			r.Check(bad == "", "C16.V2", hpc.Name(), "the revision compared with the one in force comes from the request alone", c.P.Pos(call.Pos()), "no use of the current revision in computing it",
				"the revision handed to the gate is computed with the help of "+bad+": a request that does not name the revision in force (e.g. 'If-Match: *') is given the current one and passes — a stale edit overwrites another administrator's update")
		}
		if n == 0 {
			r.Break("C16.V2: handlePostConfig does not call applyConfig")
		}
	}
	// V6: readers use the configuration in force, not a private copy or summary of it
	if fi := c.MustFunc("api.(*HTTP).handleGetConfig"); fi != nil {
		info := fi.Info()
		g := c.Graph(fi)
		isEnc := func(v *cfgx.Vertex) bool {
			if v.Node == nil {
				return false
			}
			found := false
			for _, call := range astx.Calls(v.Node, false) {
				for _, a := range call.Args {
					if u, ok := ast.Unparen(a).(*ast.UnaryExpr); ok && u.Op == token.AND {
						a = u.X
					}
					for _, f := range lhsChainFields(info, a) {
						if f == cfgField && len(lhsChainFields(info, a)) == 1 {
							found = true
						}
					}
				}
			}
			return found
		}
		r.Check(g.DominatedBy(g.Exit, isEnc), "C16.V6", fi.Name(), "every response encodes the configuration in force", c.P.Pos(fi.Node().Pos()), "the encoder call on IRCServer.Config is on every path to the exit",
			"GET /config can answer without encoding the live configuration (e.g. from a cache keyed by revision): GLINE adds bans without raising the revision, so an operator who edits and posts that answer silently removes replicated bans")
	}
	if fi := c.MustFunc("ircserver.(*IRCServer).Banned"); fi != nil {
		info := fi.Info()
		g := c.Graph(fi)
		nRet := 0
		for _, rv := range g.Returns() {
			rs := rv.Node.(*ast.ReturnStmt)
			if len(rs.Results) != 1 {
				continue
			}
			nRet++
			e := rs.Results[0]
			if d := uniqueDef(info, fi.Node(), e); d != nil {
				e = d
			}
			through := false
			for _, f := range lhsChainFields(info, e) {
				if f == cfgField {
					through = true
				}
			}
			if _, isIdx := ast.Unparen(e).(*ast.IndexExpr); !isIdx {
				through = false
			}
			r.Check(through, "C16.V6", fi.Name(), "the ban verdict is a look-up in the replicated ban table", c.P.Pos(rs.Pos()), "returns IRCServer.Config.Banned[...]",
				"Banned() answers without consulting Config.Banned (e.g. a fast path on a counter that only GLINE on this object maintains): a replica restored from a snapshot or configured with a [Banned] table admits a session the others delete — replicas diverge")
		}
		if nRet == 0 {
			r.Break("C16.V6: no return found in IRCServer.Banned")
		}
	}

	// V5: configuration fields are in the snapshot both ways
	c.c16Snapshot()
}

// isLockCall recognises <x>.<mutexField>.<method>() as statement or defer.
func isLockCall(info *types.Info, n ast.Node, mutexField, method string) bool {
	var call *ast.CallExpr
	switch x := n.(type) {
	case *ast.ExprStmt:
		call, _ = x.X.(*ast.CallExpr)
	case *ast.DeferStmt:
		call = x.Call
	}
	if call == nil {
		return false
	}
	se, ok := ast.Unparen(call.Fun).(*ast.SelectorExpr)
	if !ok || se.Sel.Name != method {
		return false
	}
	ms, ok := ast.Unparen(se.X).(*ast.SelectorExpr)
	return ok && ms.Sel.Name == mutexField
}

func (c *Ctx) c16Snapshot() {
	r := c.R
	marshal := c.MustFunc("ircserver.(*IRCServer).Marshal")
	unmarshal := c.MustFunc("ircserver.(*IRCServer).Unmarshal")
	network := c.P.Named("config", "Network")
	if marshal == nil || unmarshal == nil || network == nil {
		return
	}
	W := flowOfFuncs(c.moduleCallees(marshal, false))
	R := flowOfFuncs(c.moduleCallees(unmarshal, false))
	types_ := structClosure(network, func(n *types.Named) bool {
		return n.Obj().Pkg() != nil && n.Obj().Pkg().Path() == pathConfig
	})
	for _, n := range types_ {
		for _, f := range structFields(n) {
			name := fieldName(n, f)
			pos := c.P.Pos(f.Pos())
			r.Check(W.reads[f], "C16.V5", marshal.Name(), "reads field "+name, pos, "read by the snapshot writer",
				"configuration field "+name+" is not saved: a replica restored from a snapshot uses a different configuration than the others")
			_, w := R.writes[f]
			r.Check(w, "C16.V5", unmarshal.Name(), "writes field "+name, pos, "written by the snapshot reader",
				"configuration field "+name+" is not restored: a replica restored from a snapshot uses a different configuration than the others")
		}
	}
	r.Floor("C16.V5", 20)
}

var _ = load.ModPath

// inDetachedLiteral reports whether x lies in a function literal of body that is neither called where it stands
// (`func() {…}()`) nor deferred (`defer func() {…}()`).
func inDetachedLiteral(body ast.Node, x ast.Node) bool {
	detached := false
	var stack []ast.Node
	ast.Inspect(body, func(n ast.Node) bool {
		if n == nil {
			stack = stack[:len(stack)-1]
			return true
		}
		stack = append(stack, n)
		if _, isIdent := n.(*ast.Ident); !isIdent || n.Pos() != x.Pos() {
			return true // x may be synthesized (the target of a delete): found by its first identifier
		}
		for i, s := range stack {
			lit, ok := s.(*ast.FuncLit)
			if !ok {
				continue
			}
			immediate := false
			if i > 0 {
				if call, ok := stack[i-1].(*ast.CallExpr); ok && ast.Unparen(call.Fun) == ast.Expr(lit) {
					immediate = true
					if i > 1 {
						if _, isGo := stack[i-2].(*ast.GoStmt); isGo {
							immediate = false
						}
					}
				}
			}
			if !immediate {
				detached = true
			}
		}
		return true
	})
	return detached
}

// readOnlyCallee: &<config> is an argument of a call of a module function which — with everything it calls, two levels deep —
// writes no field of a type of package config, returns nothing that could hold the pointer, and stores it nowhere (it has no
// assignment whose right-hand side is the parameter). It returns the callee's name, or "".
func (c *Ctx) readOnlyCallee(fi *load.FuncInfo, addr *ast.UnaryExpr) string {
	info := fi.Info()
	var call *ast.CallExpr
	argIdx := -1
	ast.Inspect(fi.Body(), func(n ast.Node) bool {
		if ce, ok := n.(*ast.CallExpr); ok {
			for i, a := range ce.Args {
				if ast.Unparen(a) == ast.Expr(addr) {
					call, argIdx = ce, i
				}
			}
		}
		return true
	})
	if call == nil {
		return ""
	}
	cal := c.P.FuncOf(astx.Callee(info, call))
	if cal == nil || cal.Body() == nil || cal.Obj == nil {
		return ""
	}
	sig := cal.Obj.Type().(*types.Signature)
	if argIdx >= sig.Params().Len() {
		return ""
	}
	param := sig.Params().At(argIdx)
	// no result of pointer-to-config type
	for i := 0; i < sig.Results().Len(); i++ {
		if n := astx.NamedOf(sig.Results().At(i).Type()); n != nil && n.Obj().Pkg() != nil && n.Obj().Pkg().Path() == pathConfig {
			if _, isPtr := sig.Results().At(i).Type().(*types.Pointer); isPtr {
				return ""
			}
		}
	}
	writesConfig := func(f *load.FuncInfo) bool {
		for fv := range c.funcFlow(f).writes {
			if fv.Pkg() != nil && fv.Pkg().Path() == pathConfig {
				return true
			}
		}
		return false
	}
	seen := map[*load.FuncInfo]bool{}
	var visit func(f *load.FuncInfo, d int) bool
	visit = func(f *load.FuncInfo, d int) bool {
		if f == nil || seen[f] || d > 2 {
			return true
		}
		seen[f] = true
		if writesConfig(f) {
			return false
		}
		for _, k := range c.callees(f) {
			if !visit(k, d+1) {
				return false
			}
		}
		return true
	}
	if !visit(cal, 0) {
		return ""
	}
	// the parameter itself is not stored or passed on as a value (only selected from)
	ci := cal.Info()
	ok := true
	ast.Inspect(cal.Body(), func(n ast.Node) bool {
		id, isID := n.(*ast.Ident)
		if !isID || ci.Uses[id] != types.Object(param) {
			return true
		}
		// find the parent: acceptable only as the operand of a selector
		sel := false
		ast.Inspect(cal.Body(), func(m ast.Node) bool {
			if se, isSel := m.(*ast.SelectorExpr); isSel && ast.Unparen(se.X) == ast.Expr(id) {
				sel = true
			}
			return true
		})
		if !sel {
			ok = false
		}
		return true
	})
	if !ok {
		return ""
	}
	return shortName(cal)
}
