package rules

import (
	_ "embed"
	"encoding/json"
	"go/ast"
	"go/token"
	"go/types"
	"os"
	"sort"
	"strings"

	"verif/checker/internal/astx"
	"verif/checker/internal/cfgx"
	"verif/checker/internal/load"
)

// Error dispositions. For the functions that the storage / snapshot / codec properties are anchored in, errtable.json
// freezes, per (function, callee), how many call sites treat the callee's error as decisive today: the function aborts
// (no-return call) or hands the error to its caller on every path from the error edge. These instances were read on the
// pinned tree; they are the reference for later changes ("cross-check through time"): a site that used to be decisive and
// now merely logs the error, or ignores it, while the work goes on, turns a detected failure into silent data loss — raft is
// told an entry is stored, a snapshot is reported complete, a reply is taken for delivered. A site that disappears
// altogether is not judged here (other rules own the call), neither is a site that became stricter.
//
// The table is regenerated with `bin/verifcheck -gen-errtable` (development; never at check time).

//go:embed errtable.json
var errtableJSON []byte

// ErrTablePackages lists the packages whose functions are recorded.
var ErrTablePackages = []string{"main", "raftstore", "raftlog", "outputstream", "robust", "config", "timesafeguard", "ircserver", "api"}

type errSite struct {
	fn      string // attributed function
	callee  string
	strong  bool
	dropped bool // the error result is not even bound to a variable
	fatal   bool // decisive, and every path on which the error may be set ends in a call that does not return (panic, log.Fatal…)
	pos     string
}

func calleeKey(info *types.Info, call *ast.CallExpr) string {
	fn := astx.Callee(info, call)
	if fn == nil {
		return astx.Str(call.Fun)
	}
	if fn.Pkg() != nil && len(fn.Pkg().Path()) >= len(load.ModPath) && fn.Pkg().Path()[:len(load.ModPath)] == load.ModPath {
		return fname(fn)
	}
	return fn.FullName()
}

// errSitesOf classifies every error-returning call site of fi (function literals included).
func (c *Ctx) errSitesOf(fi *load.FuncInfo) []errSite {
	var out []errSite
	attrib := c.attribName(fi)
	errT := types.Universe.Lookup("error").Type()
	one := func(info *types.Info, g *cfgx.Graph) {
		for _, v := range g.Nodes() {
			// `return f(…)` / `return x, f(…)`: handed on directly
			if rs, ok := v.Node.(*ast.ReturnStmt); ok {
				for _, res := range rs.Results {
					if call, ok := ast.Unparen(res).(*ast.CallExpr); ok {
						if t := info.TypeOf(call); t != nil && types.Identical(t, errT) {
							out = append(out, errSite{attrib, calleeKey(info, call), true, false, false, c.P.Pos(call.Pos())})
						}
					}
				}
				continue
			}
			as, ok := v.Node.(*ast.AssignStmt)
			if vs, isV := v.Node.(*ast.ValueSpec); isV && len(vs.Values) == 1 {
				// var err error = f(): read as err := f()
				syn := &ast.AssignStmt{Tok: token.DEFINE, TokPos: vs.Pos(), Rhs: vs.Values}
				for _, nm := range vs.Names {
					syn.Lhs = append(syn.Lhs, nm)
				}
				as, ok = syn, true
			}
			if !ok || len(as.Rhs) != 1 {
				var dropped *ast.CallExpr
				switch st := v.Node.(type) {
				case *ast.ExprStmt:
					dropped, _ = st.X.(*ast.CallExpr)
				case *ast.DeferStmt:
					dropped = st.Call
				case *ast.GoStmt:
					dropped = st.Call
				}
				if dropped != nil {
					// result dropped entirely
					if call := dropped; call != nil {
						if tup, ok := info.TypeOf(call).(*types.Tuple); ok {
							for i := 0; i < tup.Len(); i++ {
								if types.Identical(tup.At(i).Type(), errT) {
									out = append(out, errSite{attrib, calleeKey(info, call), false, true, false, c.P.Pos(call.Pos())})
								}
							}
						} else if t := info.TypeOf(call); t != nil && types.Identical(t, errT) {
							out = append(out, errSite{attrib, calleeKey(info, call), false, true, false, c.P.Pos(call.Pos())})
						}
					}
				}
				continue
			}
			call, ok := ast.Unparen(as.Rhs[0]).(*ast.CallExpr)
			if !ok {
				continue
			}
			var obj types.Object
			blank := false
			for _, l := range as.Lhs {
				id, ok := l.(*ast.Ident)
				if !ok {
					continue
				}
				if id.Name == "_" {
					// is the blank in the error position?
					continue
				}
				if o := astx.Obj(info, id); o != nil && types.Identical(o.Type(), errT) {
					obj = o
				}
			}
			if obj == nil {
				// error result assigned to blank?
				if tup, ok := info.TypeOf(call).(*types.Tuple); ok {
					for i := 0; i < tup.Len() && i < len(as.Lhs); i++ {
						if types.Identical(tup.At(i).Type(), errT) {
							if id, ok := as.Lhs[i].(*ast.Ident); ok && id.Name == "_" {
								blank = true
							}
						}
					}
				}
				if blank {
					out = append(out, errSite{attrib, calleeKey(info, call), false, true, false, c.P.Pos(call.Pos())})
				}
				continue
			}
			// decisive: from the definition, every path on which the error may be set ends in a no-return call or a return
			// that mentions the variable, before the variable is overwritten. Paths through an edge that establishes
			// err == nil are the success paths and are not constrained. An assignment that copies the variable into another
			// error variable (`err = err2`, also as one position of a tuple assignment) hands the obligation on to that
			// variable from there.
			strong, sawReturn := c.errDecisive(info, g, v.ID, obj)
			fatalSite := strong && !sawReturn
			out = append(out, errSite{attrib, calleeKey(info, call), strong, false, fatalSite, c.P.Pos(call.Pos())})
		}
	}
	one(fi.Info(), c.Graph(fi))
	for k, lit := range funcLitsIn(fi.Body()) {
		one(fi.Info(), c.LitGraph(fi.Name()+"$errlit"+itoa(k), lit, fi.Info()))
	}
	// constructors of error values are not calls that can fail
	kept := out[:0]
	for _, s := range out {
		if s.callee == "fmt.Errorf" || s.callee == "errors.New" {
			continue
		}
		kept = append(kept, s)
	}
	return kept
}

// GenErrTable writes the table for the current tree.

// errDecisive: the error held in obj, defined at vertex start, is decisive — from the definition, every path on which the
// error may be set ends in a no-return call or a return that mentions the variable, before the variable is overwritten
// (copies into other error variables and wrapping assignments are followed). sawReturn reports whether such a return was seen
// (false for a strong site: the error stops the process on every path).
func (c *Ctx) errDecisive(info *types.Info, g *cfgx.Graph, start0 int, obj0 types.Object) (strong, sawRet bool) {
	return c.errDecisiveFrom(info, g, start0, obj0, false)
}

// errDecisiveFrom: as errDecisive; with inclusive set, start0 is not the definition of the error but a vertex at which it is
// known to be set: the vertex itself may already return it, copy it or overwrite it.
func (c *Ctx) errDecisiveFrom(info *types.Info, g *cfgx.Graph, start0 int, obj0 types.Object, inclusive bool) (strong, sawRet bool) {
	errT := types.Universe.Lookup("error").Type()
	sawReturn := false
	var decisive func(start int, obj types.Object, depth int) bool
	decisive = func(start int, obj types.Object, depth int) bool {
		nilEdge := func(e *cfgx.Edge) bool {
			if e.Cond == nil {
				return false
			}
			for _, f := range e.Facts() {
				x, isNil, ok := nilCompare(info, f)
				if ok && isNil {
					if xid, ok := ast.Unparen(x).(*ast.Ident); ok && astx.Obj(info, xid) == obj {
						return true
					}
				}
			}
			return false
		}
		// copyTo returns the variable that receives obj at vertex x
		copyTo := func(x int) types.Object {
			as2, ok := g.V[x].Node.(*ast.AssignStmt)
			if !ok || x == start && !(inclusive && depth == 0) || len(as2.Lhs) != len(as2.Rhs) {
				return nil
			}
			for i, rh := range as2.Rhs {
				// the variable itself, or an error built from it (fmt.Errorf("…: %w", err), a wrapping helper)
				if rid, ok := ast.Unparen(rh).(*ast.Ident); !ok || astx.Obj(info, rid) != obj {
					t := info.TypeOf(rh)
					if _, isCall := ast.Unparen(rh).(*ast.CallExpr); !isCall || t == nil || !types.Identical(t, errT) || !astx.Mentions(info, rh, obj) {
						continue
					}
				}
				if lid, ok := as2.Lhs[i].(*ast.Ident); ok && lid.Name != "_" {
					if o := astx.Obj(info, lid); o != nil && o != obj && types.Identical(o.Type(), errT) {
						return o
					}
				}
			}
			return nil
		}
		copies := map[int]bool{}
		stop := func(x int) bool {
			if x == start && !(inclusive && depth == 0) {
				return false
			}
			if rs2, ok := g.V[x].Node.(*ast.ReturnStmt); ok && astx.Mentions(info, rs2, obj) {
				sawReturn = true
				return true
			}
			if depth < 3 && copyTo(x) != nil {
				copies[x] = true
				return true
			}
			return false
		}
		overwritten := func(x int) bool {
			if x == start && !(inclusive && depth == 0) {
				return false
			}
			as2, ok := g.V[x].Node.(*ast.AssignStmt)
			if !ok {
				return false
			}
			for i, l := range as2.Lhs {
				if id, ok := l.(*ast.Ident); ok && astx.Obj(info, id) == obj {
					// err = fmt.Errorf("…: %w", err): the error is carried on in the same variable
					if len(as2.Lhs) == len(as2.Rhs) {
						if _, isCall := ast.Unparen(as2.Rhs[i]).(*ast.CallExpr); isCall && astx.Mentions(info, as2.Rhs[i], obj) {
							continue
						}
					}
					return true
				}
			}
			return false
		}
		if inclusive && depth == 0 {
			if overwritten(start) {
				return false
			}
			if stop(start) {
				if copies[start] {
					return decisive(start, copyTo(start), depth+1)
				}
				return true
			}
		}
		reach := g.Reach(start, stop, nilEdge)
		if reach[g.Exit] {
			return false
		}
		for x := range g.V {
			if !reach[x] {
				continue
			}
			if overwritten(x) {
				return false
			}
		}
		for x := range copies {
			if !decisive(x, copyTo(x), depth+1) {
				return false
			}
		}
		return true
	}
	sawReturn = false
	strong = decisive(start0, obj0, 0)
	return strong, sawReturn
}

func GenErrTable(p *load.Program, out string) error {
	c := &Ctx{P: p, graphs: map[ast.Node]*cfgx.Graph{}}
	computeAliases(p)
	fieldCanon = p.FieldName
	fieldOwnerCanon = p.FieldOwner
	tab := map[string]int{}
	for _, pkg := range ErrTablePackages {
		for _, fi := range p.FuncsIn(pkg) {
			if fi.Body() == nil {
				continue
			}
			for _, s := range c.errSitesOf(fi) {
				if s.fatal {
					tab["fatal: "+s.fn+" | "+s.callee]++
				}
				if s.strong {
					tab[s.fn+" | "+s.callee]++
				} else if s.dropped {
					tab["dropped: "+s.fn+" | "+s.callee]++
				}
			}
		}
	}
	b, err := json.MarshalIndent(tab, "", " ")
	if err != nil {
		return err
	}
	return os.WriteFile(out, append(b, '\n'), 0644)
}

// errorDispositions checks the functions of the given packages against the table.
func (c *Ctx) errorDispositions(rule string, pkgs []string, only func(fn string) bool, detail string) {
	r := c.R
	var tab map[string]int
	if err := json.Unmarshal(errtableJSON, &tab); err != nil || len(tab) == 0 {
		r.Break("%s: errtable.json is empty or unreadable", rule)
		return
	}
	strong := map[string]int{}
	fatal := map[string]int{}
	nonFatal := map[string]string{}
	weak := map[string][]string{}
	dropped := map[string][]string{}
	for _, pkg := range pkgs {
		for _, fi := range c.P.FuncsIn(pkg) {
			if fi.Body() == nil {
				continue
			}
			for _, s := range c.errSitesOf(fi) {
				k := s.fn + " | " + s.callee
				if s.fatal {
					fatal[k]++
				} else {
					nonFatal[k] = s.pos
				}
				if s.strong {
					strong[k]++
				} else {
					weak[k] = append(weak[k], s.pos)
					if s.dropped {
						dropped[k] = append(dropped[k], s.pos)
					}
				}
			}
		}
	}
	// sites that do not act on the error: none beyond those recorded (logging and formatting calls aside)
	var wkeys []string
	for k := range dropped {
		wkeys = append(wkeys, k)
	}
	sort.Strings(wkeys)
	for _, k := range wkeys {
		fn := k[:indexOf(k, " | ")]
		callee := k[indexOf(k, " | ")+3:]
		if only != nil && !only(fn) {
			continue
		}
		if hasAnyPrefix(callee, "fmt.", "log.", "github.com/golang/glog.", "github.com/stapelberg/glog.", "(*log.", "(*text/tabwriter", "(io.Closer).Close", "(*os.File).Close") {
			continue
		}
		allowed := tab["dropped: "+k]
		r.Check(len(dropped[k]) <= allowed, rule, fn, "no new call of "+callee+" whose error is discarded", dropped[k][len(dropped[k])-1], itoa(allowed)+" such site(s) recorded",
			"a call of "+callee+" in "+fn+" discards its error result (statement, defer or blank; not among the sites read and recorded on the pinned tree): a failed flush, write or delete goes unnoticed: "+detail)
	}
	// fail-stop sites: where an error used to stop the process (panic, log.Fatal) on every path, it still does. Turning such
	// a stop into a returned or logged error lets the node carry on with the step half done
	var fkeys []string
	for k := range tab {
		if strings.HasPrefix(k, "fatal: ") {
			fkeys = append(fkeys, k)
		}
	}
	sort.Strings(fkeys)
	for _, fk := range fkeys {
		k := strings.TrimPrefix(fk, "fatal: ")
		fn := k[:indexOf(k, " | ")]
		callee := k[indexOf(k, " | ")+3:]
		inPkg := false
		for _, pkg := range pkgs {
			if len(fn) > len(pkg) && fn[:len(pkg)+1] == pkg+"." {
				inPkg = true
			}
		}
		if !inPkg || (only != nil && !only(fn)) {
			continue
		}
		if _, present := nonFatal[k]; !present && fatal[k] == 0 {
			continue // the call is gone from this function altogether: judged by the rules about what the function does
		}
		pos := "-"
		if p, ok := nonFatal[k]; ok {
			pos = p
		}
		r.Check(fatal[k] >= tab[fk], rule, fn, "an error of "+callee+" still stops the process", pos, itoa(tab[fk])+" site(s) end in a call that does not return",
			"a failure of "+callee+" in "+fn+" used to stop the node (panic / log.Fatal) and is now returned or logged while the node carries on: "+detail)
	}
	var keys []string
	for k := range tab {
		if (len(k) > 9 && k[:9] == "dropped: ") || strings.HasPrefix(k, "fatal: ") {
			continue
		}
		keys = append(keys, k)
	}
	sort.Strings(keys)
	n := 0
	for _, k := range keys {
		fn := k[:indexOf(k, " | ")]
		inPkg := false
		for _, pkg := range pkgs {
			if len(fn) > len(pkg) && fn[:len(pkg)+1] == pkg+"." {
				inPkg = true
			}
		}
		if !inPkg || (only != nil && !only(fn)) {
			continue
		}
		n++
		want := tab[k]
		ok := strong[k] >= want || len(weak[k]) == 0
		pos := "-"
		if len(weak[k]) > 0 {
			pos = weak[k][0]
		}
		callee := k[indexOf(k, " | ")+3:]
		r.Check(ok, rule, fn, "an error of "+callee+" stays decisive", pos, itoa(want)+" site(s) abort or hand the error to the caller",
			"a call of "+callee+" whose error used to make "+fn+" abort or fail now only logs or ignores it while the work goes on: "+detail)
	}
	if n == 0 {
		r.Break("%s: no table entry applies (packages %v)", rule, pkgs)
	}
}

func indexOf(s, sub string) int {
	for i := 0; i+len(sub) <= len(s); i++ {
		if s[i:i+len(sub)] == sub {
			return i
		}
	}
	return -1
}

func hasAnyPrefix(s string, ps ...string) bool {
	for _, p := range ps {
		if len(s) >= len(p) && s[:len(p)] == p {
			return true
		}
	}
	return false
}
