package rules

import (
	"go/ast"
	"go/constant"
	"go/token"
	"go/types"
	"reflect"
	"sort"
	"strings"

	"verif/checker/internal/astx"
	"verif/checker/internal/cfgx"
	"verif/checker/internal/load"
)

func init() { register("C18", c18) }

// fieldWriteSite is one place where a struct field receives a value.
type fieldWriteSite struct {
	field *types.Var
	value ast.Expr
	node  ast.Node
	block ast.Node // innermost enclosing block / composite literal (grouping)
	sub   string   // name of the component when the field is written through (dst.Id.Reply = …)
}

// fieldWriteSites lists composite-literal keys and assignments that write fields of the named struct type inside root.
func fieldWriteSites(info *types.Info, root ast.Node, owner *types.Named) []fieldWriteSite {
	var out []fieldWriteSite
	isOwner := func(t types.Type) bool { return astx.NamedOf(t) == owner }
	var blocks []ast.Node
	var walk func(n ast.Node)
	walk = func(n ast.Node) {
		ast.Inspect(n, func(m ast.Node) bool {
			if m == nil || m == n {
				return true
			}
			switch x := m.(type) {
			case *ast.BlockStmt:
				blocks = append(blocks, x)
				walk(x)
				blocks = blocks[:len(blocks)-1]
				return false
			case *ast.CompositeLit:
				if tv, ok := info.Types[x]; ok && isOwner(tv.Type) {
					for _, el := range x.Elts {
						if kv, ok := el.(*ast.KeyValueExpr); ok {
							if id, ok := kv.Key.(*ast.Ident); ok {
								if f, ok := info.Uses[id].(*types.Var); ok {
									out = append(out, fieldWriteSite{field: f, value: kv.Value, node: kv, block: x})
								}
							}
						}
					}
				}
			case *ast.AssignStmt:
				if len(x.Lhs) == len(x.Rhs) {
					for i, l := range x.Lhs {
						se, ok := ast.Unparen(l).(*ast.SelectorExpr)
						if !ok {
							continue
						}
						f := astx.FieldSel(info, se)
						if f == nil {
							continue
						}
						var blk ast.Node
						if len(blocks) > 0 {
							blk = blocks[len(blocks)-1]
						}
						if tv, ok := info.Types[se.X]; ok && isOwner(tv.Type) {
							out = append(out, fieldWriteSite{field: f, value: x.Rhs[i], node: x, block: blk})
						} else if in, ok := ast.Unparen(se.X).(*ast.SelectorExpr); ok {
							// dst.Id.Reply = … also fills dst.Id
							if fo := astx.FieldSel(info, in); fo != nil {
								if tv, ok := info.Types[in.X]; ok && isOwner(tv.Type) {
									out = append(out, fieldWriteSite{field: fo, value: x.Rhs[i], node: x, block: blk, sub: f.Name()})
								}
							}
						}
					}
				}
			}
			return true
		})
	}
	walk(root)
	return out
}

// fieldsMentioned returns the fields of `owner` selected inside e.
func fieldsMentioned(info *types.Info, e ast.Node, owner *types.Named) []*types.Var {
	var out []*types.Var
	ast.Inspect(e, func(n ast.Node) bool {
		if se, ok := n.(*ast.SelectorExpr); ok {
			if f := astx.FieldSel(info, se); f != nil {
				if tv, ok := info.Types[se.X]; ok && astx.NamedOf(tv.Type) == owner {
					out = append(out, f)
				}
			}
		}
		return true
	})
	return out
}

func sameFieldName(a, b string) bool { return strings.EqualFold(a, b) }

// checkCopy verifies, inside fi, every write site of dst-struct fields: the value comes from the like-named src-struct field,
// and every group of sites (one literal / one block) that writes several dst fields writes all of `want`.
func (c *Ctx) checkCopy(rule string, fi *load.FuncInfo, root ast.Node, dst, src *types.Named, want []string, skipSrc map[string]bool, subsetOK bool) int {
	r := c.R
	info := fi.Info()
	sites := fieldWriteSites(info, root, dst)
	groups := map[ast.Node][]fieldWriteSite{}
	n := 0
	copyGroups := map[ast.Node]bool{}
	for _, s := range sites {
		groups[s.block] = append(groups[s.block], s)
	}
	for _, s := range sites {
		srcFields := fieldsMentioned(info, s.value, src)
		if len(srcFields) == 0 {
			continue // not a copy from src (constant, other source)
		}
		n++
		copyGroups[s.block] = true
		okName := false
		var others []string
		for _, sf := range srcFields {
			if sameFieldName(sf.Name(), s.field.Name()) {
				okName = true
			} else {
				others = append(others, sf.Name())
			}
		}
		construct := dst.Obj().Name() + "." + s.field.Name() + " <- " + src.Obj().Name()
		if okName && len(others) == 0 {
			r.Ok(rule, fi.Name(), construct, c.P.Pos(s.node.Pos()), "like-named field")
		} else {
			r.Fail(rule, fi.Name(), construct, c.P.Pos(s.node.Pos()), "field "+s.field.Name()+" is filled from "+strings.Join(append(others, ""), " ")+"instead of the field of the same name: two fields are swapped or one is copied twice")
		}
	}
	// completeness per group
	var keys []ast.Node
	for k := range groups {
		keys = append(keys, k)
	}
	sort.Slice(keys, func(i, j int) bool {
		if keys[i] == nil || keys[j] == nil {
			return keys[j] != nil
		}
		return keys[i].Pos() < keys[j].Pos()
	})
	for _, k := range keys {
		g := groups[k]
		if len(g) < 2 || !copyGroups[k] {
			continue
		}
		have := map[string]bool{}
		for _, s := range g {
			have[strings.ToLower(s.field.Name())] = true
		}
		var missing []string
		for _, w := range want {
			if !have[strings.ToLower(w)] && !skipSrc[w] {
				missing = append(missing, w)
			}
		}
		pos := "-"
		if k != nil {
			pos = c.P.Pos(k.Pos())
		}
		if subsetOK {
			continue
		}
		// a struct-valued field that is filled component by component gets every (exported) component
		subs := map[string]map[string]bool{}
		whole := map[string]bool{}
		ftype := map[string]*types.Var{}
		for _, s := range g {
			ftype[s.field.Name()] = s.field
			if s.sub == "" {
				whole[s.field.Name()] = true
				continue
			}
			if subs[s.field.Name()] == nil {
				subs[s.field.Name()] = map[string]bool{}
			}
			subs[s.field.Name()][s.sub] = true
		}
		var fnames []string
		for fn := range subs {
			fnames = append(fnames, fn)
		}
		sort.Strings(fnames)
		for _, fn := range fnames {
			if whole[fn] {
				continue
			}
			t := ftype[fn].Type()
			if p, ok := t.(*types.Pointer); ok {
				t = p.Elem()
			}
			st, ok := t.Underlying().(*types.Struct)
			if !ok {
				continue
			}
			for i := 0; i < st.NumFields(); i++ {
				cf := st.Field(i)
				if !cf.Exported() {
					continue
				}
				r.Check(subs[fn][cf.Name()], rule, fi.Name(), "copies component "+fn+"."+cf.Name()+" into "+dst.Obj().Name(), pos, "every component of the identifier is assigned in the same block",
					"the copy fills "+fn+" component by component but leaves out "+cf.Name()+": with a re-used destination it keeps the previous entry's value, otherwise it is zero — ids lose their Reply part or messages are attributed to session 0")
			}
		}
		// one obligation per field as well (so that a property which depends on one field can borrow just that one)
		miss := map[string]bool{}
		for _, m := range missing {
			miss[m] = true
		}
		for _, w := range want {
			if skipSrc[w] {
				continue
			}
			if miss[w] {
				r.Fail(rule, fi.Name(), "copies field "+w+" into "+dst.Obj().Name(), pos, "this copy of "+src.Obj().Name()+" into "+dst.Obj().Name()+" does not (unconditionally) copy "+w+": with a re-used destination the field keeps the value of the previous entry, otherwise it is lost")
			} else {
				r.Ok(rule, fi.Name(), "copies field "+w+" into "+dst.Obj().Name(), pos, "copied in the same block as the other fields")
			}
		}
		if len(missing) == 0 {
			r.Ok(rule, fi.Name(), "copies every field into "+dst.Obj().Name(), pos, "all of "+strings.Join(want, ","))
		} else {
			r.Fail(rule, fi.Name(), "copies every field into "+dst.Obj().Name(), pos, "this copy of "+src.Obj().Name()+" into "+dst.Obj().Name()+" forgets: "+strings.Join(missing, ", "))
		}
	}
	return n
}

func c18(c *Ctx) {
	r := c.R
	r.Explanation = "Structural completeness and agreement of the hand-written codecs (same kind of claim as C03). (F1) robust.Message <-> pb.RobustMessage: ProtoMessage, CopyToProtoMessage and the protobuf branch of NewMessageFromBytes each copy every field (except the json:\"-\" recipient set) from the like-named field, the enum values agree, and the id defaults to the raft index only under the zero test; (F2) raft.Log <-> pb.RaftLog: every encoder and decoder copy in the module (Apply, StoreLogs, ConvertToProto x2, GetLog, raftlog.FromBytes, Snapshot, canary, log dump) copies all six fields from the like-named field with the matching conversion; (F3) framing: every protobuf value written gets the one-byte 'p' marker that every reader strips ([1:]); (F4) the output-store batch codec: the writer's and the reader's scripts (ordered items, widths, byte order, loops, cursor increments) are equal and the size pre-computation sums the same items. Value-level round-trip equality for all inputs is not decided."
	r.Rules = []string{"C18.F1 robust.Message codec", "C18.F2 raft.Log codec copies", "C18.F3 framing agreement", "C18.F4 output batch codec symmetry", "C18.F5 textual ids", "C18.F6 error discipline of the message codec", "C18.F7 standard JSON encoding of replicated types"}

	goMsg := c.P.Named("robust", "Message")
	goID := c.P.Named("robust", "Id")
	pbMsg := c.P.Named("proto", "RobustMessage")
	pbID := c.P.Named("proto", "RobustId")
	pbLog := c.P.Named("proto", "RaftLog")
	var raftLog *types.Named
	if p := c.P.All[pathRaft]; p != nil {
		if o := p.Types.Scope().Lookup("Log"); o != nil {
			raftLog, _ = o.Type().(*types.Named)
		}
	}
	if goMsg == nil || goID == nil || pbMsg == nil || pbID == nil || pbLog == nil || raftLog == nil {
		r.Break("C18 anchors missing (robust.Message / pb.RobustMessage / pb.RaftLog / raft.Log)")
		return
	}

	// ---------- F1
	var msgFields []string
	skip := map[string]bool{}
	st := goMsg.Underlying().(*types.Struct)
	for i := 0; i < st.NumFields(); i++ {
		f := st.Field(i)
		if strings.Contains(st.Tag(i), `json:"-"`) {
			skip[f.Name()] = true
			continue
		}
		msgFields = append(msgFields, f.Name())
	}
	r.Check(len(skip) == 1 && skip["InterestingFor"], "C18.F1", "robust.Message", "only the recipient set is excluded from the wire format", c.P.Pos(goMsg.Obj().Pos()), "json:\"-\" on InterestingFor only", "the set of fields excluded from serialization changed")
	for _, name := range []string{"robust.(*Message).ProtoMessage", "robust.(*Message).CopyToProtoMessage"} {
		if fi := c.MustFunc(name); fi != nil {
			r.Functions++
			n := c.checkCopy("C18.F1", fi, fi.Body(), pbMsg, goMsg, msgFields, skip, false)
			c.checkCopy("C18.F1", fi, fi.Body(), pbID, goID, []string{"Id", "Reply"}, nil, false)
			r.Check(n >= len(msgFields)-1, "C18.F1", fi.Name(), "encodes the message fields", c.P.Pos(fi.Node().Pos()), "copy sites found", "fewer copy sites than message fields")
			// CopyToProtoMessage writes through dst.Id.Id = m.Id.Id: nested targets
			c.checkNestedIDs(fi, pbMsg, goMsg)
		}
	}
	if fi := c.MustFunc("robust.NewMessageFromBytes"); fi != nil {
		r.Functions++
		n := c.checkCopy("C18.F1", fi, fi.Body(), goMsg, pbMsg, msgFields, skip, false)
		c.checkCopy("C18.F1", fi, fi.Body(), goID, pbID, []string{"Id", "Reply"}, nil, false)
		r.Check(n >= len(msgFields)-2, "C18.F1", fi.Name(), "decodes the message fields", c.P.Pos(fi.Node().Pos()), "copy sites found", "fewer copy sites than message fields")
		c.checkNestedIDs(fi, goMsg, pbMsg)
		// id defaulting
		info := fi.Info()
		g := c.Graph(fi)
		var idxParam types.Object
		for _, fld := range fi.FuncType().Params.List {
			for _, nm := range fld.Names {
				if o := info.Defs[nm]; o != nil {
					if b, ok := o.Type().Underlying().(*types.Basic); ok && b.Kind() == types.Uint64 {
						idxParam = o
					}
				}
			}
		}
		nDef := 0
		for _, v := range g.Nodes() {
			as, ok := v.Node.(*ast.AssignStmt)
			if !ok || len(as.Lhs) != 1 || len(as.Rhs) != 1 {
				continue
			}
			id, ok := ast.Unparen(as.Rhs[0]).(*ast.Ident)
			if !ok || astx.Obj(info, id) != idxParam {
				continue
			}
			nDef++
			okZero := false
			for _, fct := range g.FactsAt(v.ID) {
				if be, ok := ast.Unparen(fct.Expr).(*ast.BinaryExpr); ok && fct.Tag == nil {
					z, isZ := astx.ConstInt(info, be.Y)
					if isZ && z == 0 && astx.Same(info, be.X, as.Lhs[0]) && ((be.Op == token.EQL && fct.Val) || (be.Op == token.NEQ && !fct.Val)) {
						okZero = true
					}
				}
			}
			isIDID := strings.HasSuffix(astx.Str(as.Lhs[0]), ".Id.Id")
			r.Check(okZero && isIDID, "C18.F1", fi.Name(), "id defaults to the raft index only when absent", c.P.Pos(as.Pos()), "msg.Id.Id = index under msg.Id.Id == 0",
				"the decoded message id is overwritten with the raft index although it was present (or a different field is defaulted)")
		}
		r.Check(nDef == 1, "C18.F1", fi.Name(), "one id default", c.P.Pos(fi.Node().Pos()), "found", "expected exactly one assignment from the index parameter")
	}
	// F5: textual ids are read back as they are written: a robust.Id component is never fed from strconv.ParseInt (ids use
	// the full unsigned 64-bit range; the writers format them with FormatUint / %d of a uint64)
	{
		n := 0
		for _, fi := range c.P.AllFuncs {
			// only readers of files the program wrote itself (package main: the text-log dump); ban masks typed by users are
			// not a stored format
			if fi.Body() == nil || load.ShortPkg(fi.Pkg.PkgPath) != "main" {
				continue
			}
			info := fi.Info()
			for _, cl := range compositeLitsOf(info, fi.Body(), pathRobust, "Id") {
				for _, fld := range []string{"Id", "Reply"} {
					v := litField(cl, fld)
					if v == nil {
						continue
					}
					// strip conversions, follow a single definition
					e := ast.Unparen(v)
					for k := 0; k < 4; k++ {
						if call, ok := e.(*ast.CallExpr); ok && len(call.Args) == 1 {
							if tv, okT := info.Types[call.Fun]; okT && tv.IsType() {
								e = ast.Unparen(call.Args[0])
								continue
							}
						}
						if d := uniqueDef(info, fi.Node(), e); d != nil {
							e = ast.Unparen(d)
							continue
						}
						break
					}
					call, ok := e.(*ast.CallExpr)
					if !ok {
						continue
					}
					fn := astx.Callee(info, call)
					if fn == nil || fn.Pkg() == nil || fn.Pkg().Path() != "strconv" {
						continue
					}
					n++
					r.Check(fn.Name() == "ParseUint", "C18.F5", fi.Name(), "id component "+fld+" parsed as unsigned", c.P.Pos(call.Pos()), "strconv.ParseUint",
						"an id is read back with strconv."+fn.Name()+": ids at or above 2^63 (ids are derived from nanosecond timestamps plus an offset and use the full uint64 range) cannot be read back")
				}
			}
		}
		r.Check(n >= 1, "C18.F5", "module", "textual id readers found", "-", itoa(n), "no robust.Id built from a strconv parse (vacuity guard)")
	}
	// the value produced by an encoder is what the copy produced: no field of the destination is reassigned afterwards
	// (clearing "fields that do not belong to this type" breaks messages whose type was rewritten, e.g. the marked message of death)
	for _, name := range []string{"robust.(*Message).ProtoMessage", "robust.(*Message).CopyToProtoMessage"} {
		fi := c.P.Func(name)
		if fi == nil || fi.Body() == nil {
			continue
		}
		info := fi.Info()
		// destination: a local / parameter of type *pb.RobustMessage
		nClr := 0
		ast.Inspect(fi.Body(), func(n ast.Node) bool {
			as, ok := n.(*ast.AssignStmt)
			if !ok {
				return true
			}
			for i, l := range as.Lhs {
				se, ok := ast.Unparen(l).(*ast.SelectorExpr)
				if !ok {
					continue
				}
				fv := astx.FieldSel(info, se)
				if fv == nil || fv.Pkg() == nil || fv.Pkg().Path() != pathProto {
					continue
				}
				// assignment of a constant / zero value to a field of the encoded message
				if len(as.Rhs) == len(as.Lhs) {
					if tv, ok := info.Types[as.Rhs[i]]; ok && (tv.Value != nil || tv.IsNil()) {
						nClr++
						r.Fail("C18.F1", fi.Name(), "encoded field "+fv.Name()+" is not overwritten after the copy", c.P.Pos(as.Pos()),
							"the encoder resets "+fv.Name()+" to a constant after copying it (for some message types): a message whose type was rewritten — the entry marked as message of death — loses the field (its client message id), and the two encoders disagree")
					}
				}
			}
			return true
		})
		if nClr == 0 {
			r.Ok("C18.F1", fi.Name(), "encoded fields are not overwritten after the copy", c.P.Pos(fi.Node().Pos()), "no constant assignment to a field of the protobuf message")
		}
	}
	// enum agreement
	c.c18Enums()
	// sibling agreement of the decoder's call sites: the default id is robust.IdFromRaftIndex(<raft index>)
	{
		nmfb := c.P.Func("robust.NewMessageFromBytes")
		n := 0
		for _, fi := range c.P.AllFuncs {
			for _, call := range callsIn(fi, func(fn *types.Func, _ *ast.CallExpr) bool { return nmfb != nil && fn == nmfb.Obj }) {
				n++
				ok := false
				if len(call.Args) == 2 {
					if ic, isCall := ast.Unparen(call.Args[1]).(*ast.CallExpr); isCall {
						if fn := astx.Callee(fi.Info(), ic); fn != nil && isFunc(fn, "robust", "IdFromRaftIndex") {
							ok = true
							// … of the very entry whose data is decoded: <e>.Data and <e>.Index of the same variable
							if len(ic.Args) == 1 {
								d, isD := ast.Unparen(call.Args[0]).(*ast.SelectorExpr)
								x, isX := ast.Unparen(ic.Args[0]).(*ast.SelectorExpr)
								if isD && isX && d.Sel.Name == "Data" && x.Sel.Name == "Index" && !astx.Same(fi.Info(), d.X, x.X) {
									r.Fail("C18.F1", fi.Name(), "default id comes from the entry that is decoded", c.P.Pos(call.Pos()),
										"the data of "+astx.Str(d.X)+" is decoded with the index of "+astx.Str(x.X)+" as default id: entries without an explicit id get the id of a different log entry")
								}
							}
						}
					}
				}
				r.Check(ok, "C18.F1", fi.Name(), "default id is IdFromRaftIndex(raft index)", c.P.Pos(call.Pos()), "NewMessageFromBytes(data, robust.IdFromRaftIndex(index))",
					"this reader decodes a message with a default id that is not robust.IdFromRaftIndex(index) like every other reader: with a non-zero message offset the same entry gets a different id here (output is not found/deleted, sessions are not found after a restore)")
			}
		}
		r.Check(n >= 5, "C18.F1", "module", "decoder call sites enumerated", "-", itoa(n), "fewer NewMessageFromBytes call sites than expected")
	}

	c.errorDispositions("C18.F6", []string{"robust"}, nil, "bytes that do not decode are taken for a message")
	// ---------- F7: the legacy JSON form of the replicated values is encoding/json's own struct encoding, on every node and
	// in every version: the types of package robust (and raft.Log, which is not ours) carry no hand-written JSON / text /
	// binary (un)marshalling methods — one that goes through float64 or a different spelling changes what old entries decode to
	for _, fi := range c.P.FuncsIn("robust") {
		if fi.Obj == nil {
			continue
		}
		sig, _ := fi.Obj.Type().(*types.Signature)
		if sig == nil || sig.Recv() == nil {
			continue
		}
		switch fi.Obj.Name() {
		case "MarshalJSON", "UnmarshalJSON", "MarshalText", "UnmarshalText", "MarshalBinary", "UnmarshalBinary", "GobEncode", "GobDecode":
			r.Fail("C18.F7", fi.Name(), "replicated types use the standard JSON struct encoding", c.P.Pos(fi.Node().Pos()),
				"a hand-written "+fi.Obj.Name()+" on a type of package robust changes how legacy JSON log entries and snapshots decode (numbers through float64 lose ids above 2^53; a different spelling is not understood by older nodes): the same bytes no longer decode to the same message on every node")
		}
	}
	// F1c the decoder stores what it decoded: in NewMessageFromBytes a field of the message is assigned from the decoded record
	// (a selection from a value of a pb type), with the one documented exception — the id that defaults to the raft index.
	// A decoder that "resolves" a legacy convention at decode time makes the re-encoded entry differ from the stored one
	if nm := c.P.Func("robust.NewMessageFromBytes"); nm != nil && nm.Body() != nil {
		info := nm.Info()
		msgT := c.P.Named("robust", "Message")
		nAs := 0
		ast.Inspect(nm.Body(), func(n ast.Node) bool {
			as, ok := n.(*ast.AssignStmt)
			if !ok || len(as.Lhs) != len(as.Rhs) {
				return true
			}
			for i, l := range as.Lhs {
				se, ok := ast.Unparen(l).(*ast.SelectorExpr)
				if !ok {
					continue
				}
				// the root of the selector chain is a robust.Message
				root := ast.Expr(se)
				path := ""
				for {
					s2, ok := ast.Unparen(root).(*ast.SelectorExpr)
					if !ok {
						break
					}
					path = s2.Sel.Name + "." + path
					root = s2.X
				}
				if msgT == nil || astx.NamedOf(info.TypeOf(root)) != msgT {
					continue
				}
				nAs++
				fromRecord := false
				ast.Inspect(as.Rhs[i], func(m ast.Node) bool {
					if s3, ok := m.(*ast.SelectorExpr); ok {
						if fv := astx.FieldSel(info, s3); fv != nil && fv.Pkg() != nil && fv.Pkg().Path() == pathProto {
							fromRecord = true
						}
					}
					return true
				})
				idDefault := strings.HasPrefix(path, "Id.")
				r.Check(fromRecord || idDefault, "C18.F1", nm.Name(), "field "+strings.TrimSuffix(path, ".")+" is assigned from the decoded record", c.P.Pos(as.Pos()), "a selection from the pb value (or the id default)",
					"the decoder fills in "+strings.TrimSuffix(path, ".")+" with a value that is not in the stored bytes: re-encoding the entry (conversion on open, message-of-death marking) stores something else than was stored")
			}
			return true
		})
		// … or the message is built as a composite literal: one obligation per keyed element (nested literals followed)
		fromRec := func(e ast.Expr) bool {
			res := false
			ast.Inspect(e, func(m ast.Node) bool {
				if s3, ok := m.(*ast.SelectorExpr); ok {
					if fv := astx.FieldSel(info, s3); fv != nil && fv.Pkg() != nil && fv.Pkg().Path() == pathProto {
						res = true
					}
				}
				return true
			})
			return res
		}
		var lit func(cl *ast.CompositeLit, prefix string)
		lit = func(cl *ast.CompositeLit, prefix string) {
			for _, el := range cl.Elts {
				kv, ok := el.(*ast.KeyValueExpr)
				if !ok {
					continue
				}
				k, ok := kv.Key.(*ast.Ident)
				if !ok {
					continue
				}
				if inner, ok := ast.Unparen(kv.Value).(*ast.CompositeLit); ok {
					lit(inner, prefix+k.Name+".")
					continue
				}
				nAs++
				path := prefix + k.Name
				r.Check(fromRec(kv.Value) || strings.HasPrefix(path, "Id."), "C18.F1", nm.Name(), "field "+path+" is assigned from the decoded record", c.P.Pos(kv.Pos()), "a selection from the pb value (or the id default)",
					"the decoder fills in "+path+" with a value that is not in the stored bytes: re-encoding the entry (conversion on open, message-of-death marking) stores something else than was stored")
			}
		}
		ast.Inspect(nm.Body(), func(n ast.Node) bool {
			if cl, ok := n.(*ast.CompositeLit); ok && msgT != nil && astx.NamedOf(info.TypeOf(cl)) == msgT {
				lit(cl, "")
				return false
			}
			return true
		})
		if nAs < 8 {
			r.Break("C18.F1: only %d field assignments found in NewMessageFromBytes", nAs)
		}
	}
	r.Ok("C18.F7", "robust", "no hand-written JSON/text/binary codec methods on replicated types", "-", "methods of package robust inspected")
	// … and the JSON key of every field is the field's name: logs and snapshots written in the JSON encoding (and the bridges'
	// wire format) carry these keys; a field that is renamed in the tag is silently dropped when old data is decoded
	for _, tn := range []string{"Message", "Id"} {
		n := c.P.Named("robust", tn)
		if n == nil {
			r.Break("C18.F7: type robust.%s not found", tn)
			continue
		}
		st, ok := n.Underlying().(*types.Struct)
		if !ok {
			continue
		}
		for k := 0; k < st.NumFields(); k++ {
			f := st.Field(k)
			tag := reflect.StructTag(st.Tag(k)).Get("json")
			name := tag
			if i := strings.Index(tag, ","); i >= 0 {
				name = tag[:i]
			}
			okName := name == "" || name == f.Name() || (name == "-" && f.Name() == "InterestingFor")
			r.Check(okName, "C18.F7", "robust."+tn, "JSON key of field "+f.Name()+" is the field name", c.P.Pos(f.Pos()), "tag: "+strconvQuote(tag),
				"field "+f.Name()+" is stored under the JSON key "+strconvQuote(name)+" now: entries written before (raft log, irclog, snapshots in the JSON encoding) carry "+strconvQuote(f.Name())+", which the decoder drops silently — e.g. the ClientMessageId that makes a retry recognisable")
		}
	}
	// ---------- F6: error discipline of the message codec
	{
		nErr := 0
		for _, fi := range c.P.FuncsIn("robust") {
			if fi.Body() != nil {
				nErr += c.errorDiscipline("C18.F6", fi, "bytes that do not decode are taken for a message")
			}
		}
		if nErr < 2 {
			r.Break("C18.F6: only %d error definitions found in package robust", nErr)
		}
	}
	// ---------- F2: every function that copies between raft.Log and pb.RaftLog
	logFields := []string{"Index", "Term", "Type", "Data", "Extensions", "AppendedAt"}
	nEnc, nDec := 0, 0
	encFns, decFns := map[*load.FuncInfo]bool{}, map[*load.FuncInfo]bool{}
	for _, fi := range c.P.AllFuncs {
		if fi.Body() == nil {
			continue
		}
		info := fi.Info()
		// encoder side
		sites := fieldWriteSites(info, fi.Body(), pbLog)
		copying := 0
		for _, s := range sites {
			if len(fieldsMentioned(info, s.value, raftLog)) > 0 {
				copying++
			}
		}
		if copying >= 2 {
			nEnc++
			encFns[fi] = true
			r.Functions++
			c.checkCopy("C18.F2", fi, fi.Body(), pbLog, raftLog, logFields, nil, false)
			c.checkLogConversions(fi, sites, true)
		}
		sites = fieldWriteSites(info, fi.Body(), raftLog)
		copying = 0
		for _, s := range sites {
			if len(fieldsMentioned(info, s.value, pbLog)) > 0 {
				copying++
			}
		}
		if copying >= 2 {
			nDec++
			decFns[fi] = true
			r.Functions++
			c.checkCopy("C18.F2", fi, fi.Body(), raftLog, pbLog, logFields, nil, false)
			c.checkLogConversions(fi, sites, false)
		}
	}
	// the two readers of the store do not reject what unmarshals: the writers store every entry raft hands them (commands,
	// configuration changes, barriers, no-ops), so a reader that validates more than the decoding refuses entries the store
	// acknowledged
	for _, name := range []string{"raftlog.FromBytes", "raftstore.(*LevelDBStore).GetLog"} {
		fi := c.MustFunc(name)
		if fi == nil || fi.Body() == nil {
			continue
		}
		info := fi.Info()
		g := c.Graph(fi)
		isUnm := func(call *ast.CallExpr) bool {
			fn := astx.Callee(info, call)
			return fn != nil && fn.Name() == "Unmarshal" && fn.Pkg() != nil && (strings.HasSuffix(fn.Pkg().Path(), "/proto") || fn.Pkg().Path() == "encoding/json")
		}
		uV := -1
		for _, v := range g.Nodes() {
			for _, call := range astx.Calls(v.Node, false) {
				if fn := astx.Callee(info, call); fn != nil && isUnm(call) && strings.HasSuffix(fn.Pkg().Path(), "/proto") && uV < 0 {
					uV = v.ID
				}
			}
		}
		if uV < 0 {
			r.Break("C18.F2: no proto.Unmarshal call found in %s", name)
			continue
		}
		// unmErr: an error variable every definition of which is an Unmarshal call (a bare `var err error` aside)
		unmErr := func(id *ast.Ident) bool {
			o := astx.Obj(info, id)
			if o == nil || !types.Identical(o.Type(), types.Universe.Lookup("error").Type()) {
				return false
			}
			nU := 0
			for _, d := range defsOf(info, fi.Node(), o) {
				if d == nil {
					continue
				}
				if call, isCall := ast.Unparen(d).(*ast.CallExpr); isCall && isUnm(call) {
					nU++
				} else {
					return false
				}
			}
			return nU > 0
		}
		reach := g.Reach(uV, nil, nil)
		nRet := 0
		for _, rv := range g.Returns() {
			if !reach[rv.ID] {
				continue
			}
			rs := rv.Node.(*ast.ReturnStmt)
			if len(rs.Results) == 0 {
				continue
			}
			nRet++
			last := ast.Unparen(rs.Results[len(rs.Results)-1])
			ok := false
			if id, isID := last.(*ast.Ident); isID && id.Name == "nil" && info.Uses[id] == types.Universe.Lookup("nil") {
				ok = true
			} else if call, isCall := last.(*ast.CallExpr); isCall && isUnm(call) {
				ok = true
			} else if id, isID := last.(*ast.Ident); isID {
				ok = unmErr(id)
			} else if call, isCall := last.(*ast.CallExpr); isCall {
				// an error built from the Unmarshal error where that error is set (fmt.Errorf("entry %d: %w", index, err)): the
				// decoding failed, nothing that unmarshalled is rejected
				ast.Inspect(call, func(m ast.Node) bool {
					aid, isA := m.(*ast.Ident)
					if !isA || !unmErr(aid) {
						return true
					}
					for _, f := range g.FactsAt(rv.ID) {
						if x, isNil, isCmp := nilCompare(info, f); isCmp && !isNil {
							if xid, isX := ast.Unparen(x).(*ast.Ident); isX && astx.Obj(info, xid) == astx.Obj(info, aid) {
								ok = true
							}
						}
					}
					return true
				})
			}
			r.Check(ok, "C18.F2", fi.Name(), "after the bytes unmarshalled the entry is returned, not rejected", c.P.Pos(rs.Pos()), "error result is nil or the Unmarshal error",
				"the reader refuses an entry for a reason other than a decoding failure: the store writes every entry raft hands it (configuration changes, barriers, no-ops), so an entry the store acknowledged cannot be read back and the store does not open again")
		}
		if nRet < 2 {
			r.Break("C18.F2: only %d returns after the Unmarshal in %s", nRet, name)
		}
	}
	// the functions that have to convert do so themselves or through a (shared) conversion function, which is checked above
	// like any other copy
	converts := func(name string, set map[*load.FuncInfo]bool) bool {
		fi := c.P.Func(name)
		if fi == nil {
			return false
		}
		if set[fi] {
			return true
		}
		for _, cal := range c.callees(fi) {
			if set[cal] {
				return true
			}
			for _, cal2 := range c.callees(cal) {
				if set[cal2] {
					return true
				}
			}
		}
		return false
	}
	for _, name := range []string{"main.(*FSM).Apply", "raftstore.(*LevelDBStore).StoreLogs", "raftstore.(*LevelDBStore).ConvertToProto"} {
		r.Check(converts(name, encFns), "C18.F2", name, "raft.Log -> pb.RaftLog: converts through a checked field copy", "-", itoa(nEnc)+" copying functions in the module",
			"the function no longer fills a pb.RaftLog from the raft.Log field by field (itself or through a conversion function): entries are stored without some of their fields")
	}
	for _, name := range []string{"raftlog.FromBytes", "raftstore.(*LevelDBStore).GetLog", "main.(*FSM).Snapshot"} {
		r.Check(converts(name, decFns), "C18.F2", name, "pb.RaftLog -> raft.Log: converts through a checked field copy", "-", itoa(nDec)+" copying functions in the module",
			"the function no longer fills the raft.Log from the stored pb.RaftLog field by field (itself or through a conversion function): entries come back without some of their fields")
	}
	r.Check(nEnc >= 1, "C18.F2", "module", "raft.Log -> pb.RaftLog encoder copies found", "-", itoa(nEnc)+" functions", "no encoder copy found")
	r.Check(nDec >= 1, "C18.F2", "module", "pb.RaftLog -> raft.Log decoder copies found", "-", itoa(nDec)+" functions", "no decoder copy found")

	c.c18Framing(pbLog, pbMsg)
	c.c18Batch()
}

// checkNestedIDs: writes of the form dst.Id.Id = src.Id.Id / dst.Session.Reply = src.Session.Reply keep the outer field.
func (c *Ctx) checkNestedIDs(fi *load.FuncInfo, dstOwner, srcOwner *types.Named) {
	r := c.R
	info := fi.Info()
	ast.Inspect(fi.Body(), func(n ast.Node) bool {
		as, ok := n.(*ast.AssignStmt)
		if !ok || len(as.Lhs) != 1 || len(as.Rhs) != 1 {
			return true
		}
		lo, ok1 := ast.Unparen(as.Lhs[0]).(*ast.SelectorExpr)
		ro, ok2 := ast.Unparen(as.Rhs[0]).(*ast.SelectorExpr)
		if !ok1 || !ok2 {
			return true
		}
		li, ok1 := ast.Unparen(lo.X).(*ast.SelectorExpr)
		ri, ok2 := ast.Unparen(ro.X).(*ast.SelectorExpr)
		if !ok1 || !ok2 {
			return true
		}
		lt, okL := info.Types[li.X]
		rt, okR := info.Types[ri.X]
		if !okL || !okR || astx.NamedOf(lt.Type) != dstOwner || astx.NamedOf(rt.Type) != srcOwner {
			return true
		}
		ok = sameFieldName(li.Sel.Name, ri.Sel.Name) && sameFieldName(lo.Sel.Name, ro.Sel.Name)
		r.Check(ok, "C18.F1", fi.Name(), astx.Str(as.Lhs[0])+" <- "+astx.Str(as.Rhs[0]), c.P.Pos(as.Pos()), "same outer and inner field",
			"an id component is copied from a different id (Id vs Session) or a different component (Id vs Reply)")
		return true
	})
	// literal form: Id: &pb.RobustId{Id: m.Id.Id, Reply: m.Id.Reply}
	for _, s := range fieldWriteSites(info, fi.Body(), dstOwner) {
		u, ok := ast.Unparen(s.value).(*ast.UnaryExpr)
		var cl *ast.CompositeLit
		if ok && u.Op == token.AND {
			cl, _ = ast.Unparen(u.X).(*ast.CompositeLit)
		} else {
			cl, _ = ast.Unparen(s.value).(*ast.CompositeLit)
		}
		if cl == nil {
			continue
		}
		for _, el := range cl.Elts {
			kv, ok := el.(*ast.KeyValueExpr)
			if !ok {
				continue
			}
			ro, ok := ast.Unparen(kv.Value).(*ast.SelectorExpr)
			if !ok {
				continue
			}
			ri, ok := ast.Unparen(ro.X).(*ast.SelectorExpr)
			if !ok {
				continue
			}
			key := kv.Key.(*ast.Ident).Name
			okk := sameFieldName(ri.Sel.Name, s.field.Name()) && sameFieldName(ro.Sel.Name, key)
			r.Check(okk, "C18.F1", fi.Name(), s.field.Name()+"."+key+" <- "+astx.Str(kv.Value), c.P.Pos(kv.Pos()), "same outer and inner field",
				"an id component is copied from a different id (Id vs Session) or a different component (Id vs Reply)")
		}
	}
}

// c18Enums: robust.Type constants and pb.RobustMessage_RobustType constants agree by (normalised) name and value.
func (c *Ctx) c18Enums() {
	r := c.R
	rp, pp := c.P.Pkg("robust"), c.P.Pkg("proto")
	if rp == nil || pp == nil {
		return
	}
	norm := func(s string) string { return strings.ToLower(strings.ReplaceAll(s, "_", "")) }
	goVals := map[string]int64{}
	tt := c.P.Named("robust", "Type")
	for _, nm := range rp.Types.Scope().Names() {
		if k, ok := rp.Types.Scope().Lookup(nm).(*types.Const); ok && tt != nil && types.Identical(k.Type(), tt) {
			v, _ := constant.Int64Val(constant.ToInt(k.Val()))
			goVals[norm(nm)] = v
		}
	}
	pbVals := map[string]int64{}
	for _, nm := range pp.Types.Scope().Names() {
		if k, ok := pp.Types.Scope().Lookup(nm).(*types.Const); ok && strings.HasPrefix(nm, "RobustMessage_") {
			v, _ := constant.Int64Val(constant.ToInt(k.Val()))
			pbVals[norm(strings.TrimPrefix(nm, "RobustMessage_"))] = v
		}
	}
	var names []string
	for n := range goVals {
		names = append(names, n)
	}
	sort.Strings(names)
	for _, n := range names {
		pv, ok := pbVals[n]
		r.Check(ok && pv == goVals[n], "C18.F1", "robust.Type", "enum value of "+n+" agrees with the protobuf enum", "-", "same name, same number",
			"robust.Type constant "+n+" has a different number than (or no counterpart in) pb.RobustMessage_RobustType: the numeric conversion decodes to a different message type")
	}
	r.Check(len(names) >= 9, "C18.F1", "robust.Type", "message type constants enumerated", "-", itoa(len(names)), "fewer robust.Type constants than expected")
	// raft.LogType vs pb.RaftLog_LogType
	if rpkg := c.P.All[pathRaft]; rpkg != nil {
		rv := map[string]int64{}
		for _, nm := range rpkg.Types.Scope().Names() {
			if k, ok := rpkg.Types.Scope().Lookup(nm).(*types.Const); ok && k.Type().String() == pathRaft+".LogType" {
				v, _ := constant.Int64Val(constant.ToInt(k.Val()))
				rv[norm(strings.TrimPrefix(nm, "Log"))] = v
			}
		}
		pv := map[string]int64{}
		for _, nm := range pp.Types.Scope().Names() {
			if k, ok := pp.Types.Scope().Lookup(nm).(*types.Const); ok && strings.HasPrefix(nm, "RaftLog_") {
				v, _ := constant.Int64Val(constant.ToInt(k.Val()))
				pv[norm(strings.TrimPrefix(nm, "RaftLog_"))] = v
			}
		}
		for _, n := range []string{"command", "noop", "addpeerdeprecated", "removepeerdeprecated", "barrier", "configuration"} {
			a, okA := rv[n]
			b, okB := pv[n]
			if okA && okB {
				r.Check(a == b, "C18.F2", "pb.RaftLog_LogType", "log type "+n+" agrees with raft.LogType", "-", "same number", "pb.RaftLog_LogType and raft.LogType disagree on "+n)
			}
		}
	}
}

// checkLogConversions: Type goes through the enum conversion of the destination, AppendedAt through timestamppb.New / AsTime.
func (c *Ctx) checkLogConversions(fi *load.FuncInfo, sites []fieldWriteSite, encode bool) {
	r := c.R
	info := fi.Info()
	for _, s := range sites {
		switch s.field.Name() {
		case "AppendedAt":
			ok := false
			for _, call := range astx.Calls(s.value, false) {
				fn := astx.Callee(info, call)
				if fn == nil {
					continue
				}
				if encode && fname(fn) == "New" && strings.HasSuffix(fn.Pkg().Path(), "timestamppb") {
					ok = true
				}
				if !encode && fname(fn) == "AsTime" {
					ok = true
				}
			}
			if len(astx.Calls(s.value, false)) == 0 {
				continue
			}
			r.Check(ok, "C18.F2", fi.Name(), "AppendedAt conversion", c.P.Pos(s.node.Pos()), "timestamppb.New / AsTime", "the append time is converted with an unexpected function")
		}
	}
}

// c18Framing (F3)
func (c *Ctx) c18Framing(pbLog, pbMsg *types.Named) {
	r := c.R
	nW, nR := 0, 0
	for _, fi := range c.P.AllFuncs {
		if fi.Body() == nil || strings.Contains(fi.Pkg.PkgPath, "/cmd/") {
			continue
		}
		info := fi.Info()
		g := c.Graph(fi)
		for _, call := range astx.Calls(fi.Body(), true) {
			fn := astx.Callee(info, call)
			if fn == nil || fn.Pkg() == nil || !strings.HasSuffix(fn.Pkg().Path(), "protobuf/proto") {
				continue
			}
			switch fname(fn) {
			case "Marshal":
				if len(call.Args) != 1 {
					continue
				}
				t := astx.NamedOf(info.TypeOf(call.Args[0]))
				if t != pbLog && t != pbMsg {
					continue
				}
				nW++
				// result variable flows into append([]byte{'p'}, v...)
				var res types.Object
				ast.Inspect(fi.Node(), func(n ast.Node) bool {
					if as, ok := n.(*ast.AssignStmt); ok && len(as.Rhs) == 1 && ast.Unparen(as.Rhs[0]) == ast.Expr(call) && len(as.Lhs) >= 1 {
						if id, ok := as.Lhs[0].(*ast.Ident); ok {
							res = astx.Obj(info, id)
						}
					}
					return true
				})
				ok := false
				ast.Inspect(fi.Node(), func(n ast.Node) bool {
					ac, isC := n.(*ast.CallExpr)
					if !isC || astx.Builtin(info, ac) != "append" || len(ac.Args) != 2 || !ac.Ellipsis.IsValid() {
						return true
					}
					cl, isL := ast.Unparen(ac.Args[0]).(*ast.CompositeLit)
					if !isL || len(cl.Elts) != 1 {
						return true
					}
					b, isB := astx.ConstInt(info, cl.Elts[0])
					id, isID := ast.Unparen(ac.Args[1]).(*ast.Ident)
					if isB && b == 'p' && isID && res != nil && astx.Obj(info, id) == res {
						ok = true
					}
					return true
				})
				// … and the prefixed value is not replaced by the un-prefixed one afterwards (T = append(p, v...); T = v)
				if ok && res != nil {
					var tgt ast.Expr
					var tgtPos token.Pos
					ast.Inspect(fi.Node(), func(n ast.Node) bool {
						as, isAs := n.(*ast.AssignStmt)
						if !isAs || len(as.Lhs) != 1 || len(as.Rhs) != 1 {
							return true
						}
						ac, isC := ast.Unparen(as.Rhs[0]).(*ast.CallExpr)
						if isC && astx.Builtin(info, ac) == "append" && len(ac.Args) == 2 && ac.Ellipsis.IsValid() {
							if id, isID := ast.Unparen(ac.Args[1]).(*ast.Ident); isID && astx.Obj(info, id) == res {
								if lid, isL := ast.Unparen(as.Lhs[0]).(*ast.Ident); !isL || astx.Obj(info, lid) != res {
									tgt, tgtPos = as.Lhs[0], as.Pos()
								}
							}
						}
						return true
					})
					if tgt != nil {
						ast.Inspect(fi.Node(), func(n ast.Node) bool {
							as, isAs := n.(*ast.AssignStmt)
							if isAs && as.Pos() > tgtPos && len(as.Lhs) == 1 && len(as.Rhs) == 1 && astx.Same(info, as.Lhs[0], tgt) {
								if id, isID := ast.Unparen(as.Rhs[0]).(*ast.Ident); isID && astx.Obj(info, id) == res {
									ok = false
								}
							}
							return true
						})
					}
				}
				r.Check(ok, "C18.F3", fi.Name(), "protobuf value gets the 'p' marker", c.P.Pos(call.Pos()), "append([]byte{'p'}, v...)",
					"a protobuf-encoded "+t.Obj().Name()+" is written without the leading 'p' marker byte every reader strips: it is decoded as legacy JSON")
			case "Unmarshal":
				if len(call.Args) != 2 {
					continue
				}
				t := astx.NamedOf(info.TypeOf(call.Args[1]))
				if t != pbLog && t != pbMsg {
					continue
				}
				nR++
				se, ok := astx.Expand(info, call.Args[0]).(*ast.SliceExpr)
				okStrip := false
				if ok && se.Low != nil && se.High == nil {
					if lo, isC := astx.ConstInt(info, se.Low); isC && lo == 1 {
						okStrip = true
					}
				}
				r.Check(okStrip, "C18.F3", fi.Name(), "reader strips exactly the marker byte", c.P.Pos(call.Pos()), "proto.Unmarshal(x[1:], …)",
					"a reader does not strip exactly one marker byte before decoding the protobuf value")
				if okStrip {
					// the marker was tested: no path reaches the decode without an edge that establishes x[0] == 'p' (directly or in
					// the got/want form) — except with an empty value, for which [1:] cannot be taken anyway
					v := g.VertexOf(call)
					resolve := func(e ast.Expr) ast.Expr {
						if d := uniqueDef(info, fi.Node(), e); d != nil {
							return d
						}
						return e
					}
					isFirst := func(e ast.Expr) bool {
						ie, ok := ast.Unparen(resolve(e)).(*ast.IndexExpr)
						if !ok {
							return false
						}
						z, okz := astx.ConstInt(info, ie.Index)
						return okz && z == 0 && astx.Same(info, ie.X, se.X)
					}
					isP := func(e ast.Expr) bool {
						e = resolve(e)
						if cc, ok := ast.Unparen(e).(*ast.CallExpr); ok && astx.IsConversion(info, cc) && len(cc.Args) == 1 {
							e = cc.Args[0]
						}
						v, ok := astx.ConstInt(info, e)
						return ok && v == 'p'
					}
					passEdge := func(e2 *cfgx.Edge) bool {
						if e2.Cond == nil {
							return false
						}
						for _, f2 := range cfgx.ExpandCond(e2.Cond, e2.Val) {
							b2, ok := ast.Unparen(f2.Expr).(*ast.BinaryExpr)
							if !ok || f2.Tag != nil {
								continue
							}
							eq := (b2.Op == token.EQL && f2.Val) || (b2.Op == token.NEQ && !f2.Val)
							if eq && ((isFirst(b2.X) && isP(b2.Y)) || (isFirst(b2.Y) && isP(b2.X))) {
								return true
							}
							if lc, ok := ast.Unparen(b2.X).(*ast.CallExpr); ok && astx.Builtin(info, lc) == "len" && len(lc.Args) == 1 && astx.Same(info, lc.Args[0], se.X) {
								if z, ok := astx.ConstInt(info, b2.Y); ok && z == 0 {
									if (b2.Op == token.GTR && !f2.Val) || (b2.Op == token.EQL && f2.Val) || (b2.Op == token.NEQ && !f2.Val) {
										return true
									}
								}
							}
						}
						return false
					}
					okTest := v >= 0 && !g.Reach(g.Entry, nil, passEdge)[v]
					r.Check(okTest, "C18.F3", fi.Name(), "reader tests the marker byte", c.P.Pos(call.Pos()), "dominated by x[0] == 'p' (or the mismatch edge never reaches the decode)",
						"a value is decoded as protobuf without its first byte having been compared with the 'p' marker")
				}
			}
		}
	}
	r.Check(nW >= 7, "C18.F3", "module", "protobuf writers found", "-", itoa(nW), "fewer protobuf writer sites than expected")
	r.Check(nR >= 6, "C18.F3", "module", "protobuf readers found", "-", itoa(nR), "fewer protobuf reader sites than expected")
}

// ---------- F4 batch codec

type codecOp struct {
	kind   string // u64 | bytes | loop | endloop
	endian string
	item   string
	adv    string // cursor advance following the op
	pos    token.Pos
}

func endianOf(info *types.Info, call *ast.CallExpr) (string, string) {
	se, ok := ast.Unparen(call.Fun).(*ast.SelectorExpr)
	if !ok {
		return "", ""
	}
	in, ok := ast.Unparen(se.X).(*ast.SelectorExpr)
	if !ok {
		return "", ""
	}
	if o := info.Uses[in.Sel]; o != nil && o.Pkg() != nil && o.Pkg().Path() == "encoding/binary" {
		return o.Name(), se.Sel.Name
	}
	return "", ""
}

// itemName canonicalises an operand / target expression: Id.Id, len(Data), key(InterestingFor), NextID, …
func itemName(info *types.Info, e ast.Expr, locals map[types.Object]string) string {
	e = ast.Unparen(e)
	for {
		call, ok := e.(*ast.CallExpr)
		if ok && astx.IsConversion(info, call) && len(call.Args) == 1 {
			e = ast.Unparen(call.Args[0])
			continue
		}
		break
	}
	if call, ok := e.(*ast.CallExpr); ok && astx.Builtin(info, call) == "len" && len(call.Args) == 1 {
		return "len(" + itemName(info, call.Args[0], locals) + ")"
	}
	if id, ok := e.(*ast.Ident); ok {
		if n, ok := locals[astx.Obj(info, id)]; ok {
			return n
		}
		return id.Name
	}
	if se, ok := e.(*ast.SelectorExpr); ok {
		// drop the receiver / loop variable: keep the field path
		var parts []string
		cur := ast.Expr(se)
		for {
			s2, ok := ast.Unparen(cur).(*ast.SelectorExpr)
			if !ok {
				break
			}
			parts = append([]string{s2.Sel.Name}, parts...)
			cur = s2.X
		}
		return strings.Join(parts, ".")
	}
	return astx.Str(e)
}

func (c *Ctx) c18Batch() {
	r := c.R
	enc := c.MustFunc("outputstream.(*messageBatch).marshal")
	dec := c.MustFunc("outputstream.unmarshalMessageBatch")
	if enc == nil || dec == nil {
		return
	}
	r.Functions += 2
	cursorAdv := func(info *types.Info, st ast.Stmt, locals map[types.Object]string) string {
		as, ok := st.(*ast.AssignStmt)
		if !ok || as.Tok != token.ADD_ASSIGN || len(as.Lhs) != 1 {
			return ""
		}
		if v, ok := astx.ConstInt(info, as.Rhs[0]); ok {
			return itoa(int(v))
		}
		return itemName(info, as.Rhs[0], locals)
	}
	// writer script
	var wops []codecOp
	{
		info := enc.Info()
		locals := map[types.Object]string{}
		var walk func(list []ast.Stmt)
		walk = func(list []ast.Stmt) {
			for i, st := range list {
				switch x := st.(type) {
				case *ast.RangeStmt:
					if x.Key != nil {
						if id, ok := x.Key.(*ast.Ident); ok && id.Name != "_" {
							locals[info.Defs[id]] = "key(" + itemName(info, x.X, locals) + ")"
						}
					}
					wops = append(wops, codecOp{kind: "loop", item: itemName(info, x.X, locals), pos: x.Pos()})
					walk(x.Body.List)
					wops = append(wops, codecOp{kind: "endloop"})
				case *ast.ForStmt:
					// for i := 0; i < len(X); i++: the same loop in index form
					item := "?"
					if cnt, ok := loopCount(info, x); ok {
						item = itemName(info, cnt, locals)
						item = strings.TrimSuffix(strings.TrimPrefix(item, "len("), ")")
					}
					wops = append(wops, codecOp{kind: "loop", item: item, pos: x.Pos()})
					walk(x.Body.List)
					wops = append(wops, codecOp{kind: "endloop"})
				case *ast.ExprStmt:
					call, ok := x.X.(*ast.CallExpr)
					if !ok {
						continue
					}
					adv := ""
					if i+1 < len(list) {
						adv = cursorAdv(info, list[i+1], locals)
					}
					if en, m := endianOf(info, call); m == "PutUint64" && len(call.Args) == 2 {
						wops = append(wops, codecOp{kind: "u64", endian: en, item: itemName(info, call.Args[1], locals), adv: adv, pos: call.Pos()})
					} else if fid, isID := ast.Unparen(call.Fun).(*ast.Ident); isID && len(call.Args) == 1 {
						// a local closure `put := func(v uint64) { binary.X.PutUint64(buffer[n:], v); n += 8 }` used as one item
						if d := uniqueDef(info, enc.Node(), fid); d != nil {
							if fl, ok := ast.Unparen(d).(*ast.FuncLit); ok && len(fl.Body.List) == 2 && len(fl.Type.Params.List) == 1 && len(fl.Type.Params.List[0].Names) == 1 {
								if es2, ok := fl.Body.List[0].(*ast.ExprStmt); ok {
									if c2, ok := es2.X.(*ast.CallExpr); ok {
										if en, m := endianOf(info, c2); m == "PutUint64" && len(c2.Args) == 2 {
											if pid, ok := ast.Unparen(c2.Args[1]).(*ast.Ident); ok && astx.Obj(info, pid) == info.Defs[fl.Type.Params.List[0].Names[0]] {
												wops = append(wops, codecOp{kind: "u64", endian: en, item: itemName(info, call.Args[0], locals), adv: cursorAdv(info, fl.Body.List[1], locals), pos: call.Pos()})
											}
										}
									}
								}
							}
						}
					} else if astx.Builtin(info, call) == "copy" && len(call.Args) == 2 {
						wops = append(wops, codecOp{kind: "bytes", item: itemName(info, call.Args[1], locals), adv: adv, pos: call.Pos()})
					}
				}
			}
		}
		// only the part after the buffer allocation
		walk(enc.Body().List)
	}
	// reader script
	var rops []codecOp
	{
		info := dec.Info()
		locals := map[types.Object]string{}
		// name local length variables by their use
		ast.Inspect(dec.Body(), func(n ast.Node) bool {
			switch x := n.(type) {
			case *ast.SliceExpr:
				if be, ok := ast.Unparen(x.High).(*ast.BinaryExpr); x.High != nil && ok && be.Op == token.ADD {
					if id, ok := ast.Unparen(be.Y).(*ast.Ident); ok {
						// string(buffer[n:n+lenData]) assigned to msg.Data
						locals[astx.Obj(info, id)] = "len(?)"
					}
				}
			}
			return true
		})
		ast.Inspect(dec.Body(), func(n ast.Node) bool {
			as, ok := n.(*ast.AssignStmt)
			if !ok || len(as.Lhs) != 1 || len(as.Rhs) != 1 {
				return true
			}
			// msg.X = string(buffer[n:n+L])  => L is len(X)
			ast.Inspect(as.Rhs[0], func(m ast.Node) bool {
				if se, ok := m.(*ast.SliceExpr); ok && se.High != nil {
					if be, ok := ast.Unparen(se.High).(*ast.BinaryExpr); ok {
						if id, ok := ast.Unparen(be.Y).(*ast.Ident); ok {
							locals[astx.Obj(info, id)] = "len(" + itemName(info, as.Lhs[0], nil) + ")"
						}
					}
				}
				// msg.X = make(map…, L) => L is len(X)
				if mk, ok := m.(*ast.CallExpr); ok && astx.Builtin(info, mk) == "make" && len(mk.Args) == 2 {
					if id, ok := ast.Unparen(mk.Args[1]).(*ast.Ident); ok {
						locals[astx.Obj(info, id)] = "len(" + itemName(info, as.Lhs[0], nil) + ")"
					}
				}
				return true
			})
			return true
		})
		var walk func(list []ast.Stmt)
		walk = func(list []ast.Stmt) {
			for i, st := range list {
				adv := ""
				for j := i + 1; j < len(list) && j <= i+2; j++ {
					if a := cursorAdv(info, list[j], locals); a != "" {
						adv = a
						break
					}
					if _, isAs := list[j].(*ast.AssignStmt); !isAs {
						break
					}
					// an intervening plain assignment (the make(...) after reading a length) is tolerated
					if call := firstCall(list[j]); call != nil {
						if _, m := endianOf(info, call); m != "" {
							break
						}
					}
				}
				switch x := st.(type) {
				case *ast.RangeStmt:
					// for i := range result.Messages: the same loop in range form
					rops = append(rops, codecOp{kind: "loop", item: itemName(info, x.X, locals), pos: x.Pos()})
					walk(x.Body.List)
					rops = append(rops, codecOp{kind: "endloop"})
				case *ast.ForStmt:
					item := "?"
					if cnt, ok := loopCount(info, x); ok {
						item = itemName(info, cnt, locals)
						item = strings.TrimSuffix(strings.TrimPrefix(item, "len("), ")")
					}
					rops = append(rops, codecOp{kind: "loop", item: item, pos: x.Pos()})
					walk(x.Body.List)
					rops = append(rops, codecOp{kind: "endloop"})
				case *ast.AssignStmt:
					if len(x.Lhs) != 1 || len(x.Rhs) != 1 {
						continue
					}
					if _, isLit := ast.Unparen(x.Rhs[0]).(*ast.FuncLit); isLit {
						continue // the definition of a reading closure is not an item; its calls are
					}
					var u64 *ast.CallExpr
					en := ""
					ast.Inspect(x, func(m ast.Node) bool {
						if call, ok := m.(*ast.CallExpr); ok {
							if e2, mname := endianOf(info, call); mname == "Uint64" {
								u64, en = call, e2
							}
							// a local closure `read := func() uint64 { v := binary.X.Uint64(buffer[n:]); n += 8; return v }` used as one item
							if fid, isID := ast.Unparen(call.Fun).(*ast.Ident); isID && len(call.Args) == 0 && u64 == nil {
								if d := uniqueDef(info, dec.Node(), fid); d != nil {
									if fl, ok := ast.Unparen(d).(*ast.FuncLit); ok && len(fl.Body.List) == 3 {
										if rs, isRet := fl.Body.List[2].(*ast.ReturnStmt); isRet && len(rs.Results) == 1 {
											if c2 := firstCall(fl.Body.List[0]); c2 != nil {
												if e2, mname := endianOf(info, c2); mname == "Uint64" {
													if a := cursorAdv(info, fl.Body.List[1], locals); a != "" {
														u64, en, adv = call, e2, a
													}
												}
											}
										}
									}
								}
							}
						}
						return true
					})
					if u64 != nil {
						item := ""
						lhs := ast.Unparen(x.Lhs[0])
						if ie, ok := lhs.(*ast.IndexExpr); ok {
							// msg.InterestingFor[u64] = true
							if contains(ie.Index, u64) {
								item = "key(" + itemName(info, ie.X, locals) + ")"
							}
						}
						if item == "" {
							if mk, ok := ast.Unparen(x.Rhs[0]).(*ast.CallExpr); ok && astx.Builtin(info, mk) == "make" {
								item = "len(" + itemName(info, lhs, locals) + ")"
							} else {
								item = itemName(info, lhs, locals)
							}
						}
						rops = append(rops, codecOp{kind: "u64", endian: en, item: item, adv: adv, pos: x.Pos()})
						continue
					}
					// bytes: X = string(buffer[a:b])
					isBytes := false
					ast.Inspect(x.Rhs[0], func(m ast.Node) bool {
						if se, ok := m.(*ast.SliceExpr); ok && se.High != nil {
							isBytes = true
						}
						return true
					})
					if isBytes {
						rops = append(rops, codecOp{kind: "bytes", item: itemName(info, x.Lhs[0], locals), adv: adv, pos: x.Pos()})
					}
				}
			}
		}
		walk(dec.Body().List)
	}
	render := func(ops []codecOp) []string {
		var out []string
		for _, o := range ops {
			switch o.kind {
			case "loop":
				out = append(out, "loop("+trimRecv(o.item)+")")
			case "endloop":
				out = append(out, "end")
			default:
				out = append(out, o.kind+":"+o.endian+":"+trimRecv(o.item)+":+"+trimRecv(o.adv))
			}
		}
		return out
	}
	// loops that emit nothing (the size pre-computation loop) are not part of the script
	dropEmpty := func(ops []codecOp) []codecOp {
		var out []codecOp
		for i := 0; i < len(ops); i++ {
			if ops[i].kind == "loop" && i+1 < len(ops) && ops[i+1].kind == "endloop" {
				i++
				continue
			}
			out = append(out, ops[i])
		}
		return out
	}
	wops, rops = dropEmpty(wops), dropEmpty(rops)
	ws, rs := render(wops), render(rops)
	r.Extra["batch_writer_script"] = ws
	r.Extra["batch_reader_script"] = rs
	n := len(ws)
	if len(rs) > n {
		n = len(rs)
	}
	for i := 0; i < n; i++ {
		w, rd := "<missing>", "<missing>"
		var pos token.Pos
		if i < len(ws) {
			w = ws[i]
			pos = wops[i].pos
		}
		if i < len(rs) {
			rd = rs[i]
			if !pos.IsValid() {
				pos = rops[i].pos
			}
		}
		r.Check(w == rd, "C18.F4", dec.Name(), "script item #"+itoa(i+1)+" "+w, c.P.Pos(pos), "reader item equals writer item",
			"the batch writer and reader disagree at item "+itoa(i+1)+": writer "+w+" vs reader "+rd)
	}
	r.Floor("C18.F4", 10)
	// every u64 advances the cursor by 8, bytes by the data length
	for _, ops := range [][]codecOp{wops, rops} {
		for _, o := range ops {
			switch o.kind {
			case "u64":
				r.Check(o.adv == "8", "C18.F4", dec.Name(), "cursor advances by 8 after "+trimRecv(o.item), c.P.Pos(o.pos), "n += 8", "the cursor is advanced by "+o.adv+" after a 64-bit item")
			case "bytes":
				r.Check(strings.HasPrefix(o.adv, "len("), "C18.F4", dec.Name(), "cursor advances by the byte length after "+trimRecv(o.item), c.P.Pos(o.pos), "n += len", "the cursor is not advanced by the data length after the bytes item")
			}
		}
	}
	// field coverage: every field of a stored message (identifier components included) and of the batch is an item of the
	// writer's script — a field that is "re-derived on reading" round-trips only for the values the derivation assumes
	{
		have := map[string]bool{}
		for _, w := range ws {
			have[w] = true
		}
		hasItem := func(name string) bool {
			for w := range have {
				if strings.Contains(w, ":"+name+":") || strings.Contains(w, "("+name+")") {
					return true
				}
			}
			return false
		}
		var wantItems []string
		if mt := c.P.Named("outputstream", "Message"); mt != nil {
			for _, fv := range structFields(mt) {
				if st, ok := fv.Type().Underlying().(*types.Struct); ok {
					for i := 0; i < st.NumFields(); i++ {
						if st.Field(i).Exported() {
							wantItems = append(wantItems, fv.Name()+"."+st.Field(i).Name())
						}
					}
				} else {
					wantItems = append(wantItems, fv.Name())
				}
			}
		}
		if bt := c.P.Named("outputstream", "messageBatch"); bt != nil {
			for _, fv := range structFields(bt) {
				wantItems = append(wantItems, fv.Name())
			}
		}
		for _, it := range wantItems {
			r.Check(hasItem(it), "C18.F4", enc.Name(), "field "+it+" is part of the stored encoding", c.P.Pos(enc.Node().Pos()), "an item of the writer's script",
				"the batch writer no longer stores "+it+" (the reader re-derives or defaults it): a batch whose "+it+" is not what the derivation assumes decodes to different ids, text or recipients than were added")
		}
		if len(wantItems) < 5 {
			r.Break("C18.F4: only %d fields of the stored batch types found", len(wantItems))
		}
	}
	// cursor freshness: between two accesses of buffer[<cursor>:…] the cursor is advanced on every path; and index loops of
	// the codec stop before the length (`<`)
	for _, fi := range []*load.FuncInfo{enc, dec} {
		info := fi.Info()
		g := c.Graph(fi)
		var cursor types.Object
		usesCursor := func(n ast.Node) bool {
			found := false
			if n == nil {
				return false
			}
			ast.Inspect(n, func(m ast.Node) bool {
				if sl, ok := m.(*ast.SliceExpr); ok && sl.Low != nil {
					if id, ok := ast.Unparen(sl.Low).(*ast.Ident); ok {
						if o := astx.Obj(info, id); o != nil && (cursor == nil || o == cursor) {
							if b, ok := o.Type().Underlying().(*types.Basic); ok && b.Info()&types.IsInteger != 0 {
								cursor = o
								found = true
							}
						}
					}
				}
				return true
			})
			return found
		}
		var accV []int
		// local closures that access the buffer at the cursor and then advance it count as one self-advancing access
		selfAdv := map[types.Object]bool{}
		ast.Inspect(fi.Body(), func(n ast.Node) bool {
			as, ok := n.(*ast.AssignStmt)
			if !ok || len(as.Lhs) != 1 || len(as.Rhs) != 1 {
				return true
			}
			fl, ok := ast.Unparen(as.Rhs[0]).(*ast.FuncLit)
			if !ok || len(fl.Body.List) < 2 {
				return true
			}
			body := fl.Body.List
			// a reading closure ends in `return v` after the advance (v := …(buffer[cursor:]); cursor += 8; return v)
			if rs, isRet := body[len(body)-1].(*ast.ReturnStmt); isRet && len(body) >= 3 && !usesCursor(rs) {
				body = body[:len(body)-1]
			}
			last, ok := body[len(body)-1].(*ast.AssignStmt)
			if !ok || last.Tok != token.ADD_ASSIGN {
				return true
			}
			acc := false
			for _, st := range body[:len(body)-1] {
				if usesCursor(st) {
					acc = true
				}
				switch st.(type) {
				case *ast.ExprStmt, *ast.AssignStmt:
				default:
					return true // only straight-line closures
				}
			}
			if lid, ok := last.Lhs[0].(*ast.Ident); ok && acc && astx.Obj(info, lid) == cursor {
				if id, ok := as.Lhs[0].(*ast.Ident); ok {
					selfAdv[astx.Obj(info, id)] = true
				}
			}
			return true
		})
		callsSelfAdv := func(n ast.Node) bool {
			if n == nil {
				return false
			}
			if _, isDef := n.(*ast.AssignStmt); isDef {
				if as := n.(*ast.AssignStmt); len(as.Rhs) == 1 {
					if _, isLit := ast.Unparen(as.Rhs[0]).(*ast.FuncLit); isLit {
						return false
					}
				}
			}
			for _, call := range astx.Calls(n, false) {
				if id, ok := ast.Unparen(call.Fun).(*ast.Ident); ok && selfAdv[astx.Obj(info, id)] {
					return true
				}
			}
			return false
		}
		for _, v := range g.Nodes() {
			if as, ok := v.Node.(*ast.AssignStmt); ok && as.Tok == token.ADD_ASSIGN {
				continue
			}
			if as, ok := v.Node.(*ast.AssignStmt); ok && len(as.Rhs) == 1 {
				if _, isLit := ast.Unparen(as.Rhs[0]).(*ast.FuncLit); isLit {
					continue
				}
			}
			if usesCursor(v.Node) || callsSelfAdv(v.Node) {
				accV = append(accV, v.ID)
			}
		}
		isAdv := func(x int) bool {
			if callsSelfAdv(g.V[x].Node) {
				return true
			}
			as, ok := g.V[x].Node.(*ast.AssignStmt)
			if !ok || as.Tok != token.ADD_ASSIGN || len(as.Lhs) != 1 {
				return false
			}
			id, ok := as.Lhs[0].(*ast.Ident)
			return ok && astx.Obj(info, id) == cursor
		}
		isAcc := func(x int) bool {
			for _, a := range accV {
				if a == x {
					return true
				}
			}
			return false
		}
		for _, a := range accV {
			stale := false
			if callsSelfAdv(g.V[a].Node) {
				continue // advances by itself
			}
			for _, e := range g.V[a].Succ {
				if isAdv(e.To) && !callsSelfAdv(g.V[e.To].Node) {
					continue
				}
				reach := g.Reach(e.To, isAdv, nil)
				for _, b := range accV {
					hit := reach[b] || e.To == b
					if !hit && callsSelfAdv(g.V[b].Node) {
						for _, pe := range g.V[b].Pred {
							if reach[pe.From] {
								hit = true
							}
						}
					}
					if hit {
						stale = true
					}
				}
			}
			_ = isAcc
			r.Check(!stale, "C18.F4", fi.Name(), "the cursor is advanced between two accesses of the buffer", c.P.Pos(g.V[a].Node.Pos()), "n += … on every path to the next buffer[n:] access",
				"two items of the batch encoding are written to / read from the same offset (the cursor advance between them is missing on some path): the second overwrites the first, or the reader takes one item for two")
		}
		if len(accV) < 5 {
			r.Break("C18.F4: only %d cursor accesses found in %s", len(accV), fi.Name())
		}
		ast.Inspect(fi.Body(), func(n ast.Node) bool {
			fs, ok := n.(*ast.ForStmt)
			if !ok || fs.Cond == nil {
				return true
			}
			_, ok = loopCount(info, fs)
			r.Check(ok, "C18.F4", fi.Name(), "index loop stops before the element count", c.P.Pos(fs.Cond.Pos()), "i := 0; i < count; i++  or  j := count; j > 0; j--",
				"an index loop of the codec runs one element too far (or uses another comparison): out-of-range access or an extra element read from the following bytes")
			return true
		})
	}
	// every item is written / read unconditionally: the counts in front of the lists are len(list), so an element
	// that is skipped (or a loop that is left early) shifts everything that follows
	for _, fi := range []*load.FuncInfo{enc, dec} {
		info := fi.Info()
		isCodec := func(n ast.Node) bool {
			found := false
			ast.Inspect(n, func(m ast.Node) bool {
				switch x := m.(type) {
				case *ast.CallExpr:
					if _, mth := endianOf(info, x); mth != "" || astx.Builtin(info, x) == "copy" {
						found = true
					}
				case *ast.AssignStmt:
					if x.Tok == token.ADD_ASSIGN {
						found = true
					}
				}
				return !found
			})
			return found
		}
		nLoops := 0
		var walk func(n ast.Node, inLoop bool)
		walk = func(n ast.Node, inLoop bool) {
			ast.Inspect(n, func(m ast.Node) bool {
				if m == n {
					return true
				}
				switch x := m.(type) {
				case *ast.FuncLit:
					return false
				case *ast.RangeStmt:
					nLoops++
					walk(x.Body, true)
					return false
				case *ast.ForStmt:
					nLoops++
					walk(x.Body, true)
					return false
				case *ast.IfStmt, *ast.SwitchStmt, *ast.TypeSwitchStmt, *ast.SelectStmt:
					if isCodec(x) {
						r.Fail("C18.F4", fi.Name(), "codec items are written and read unconditionally", c.P.Pos(x.Pos()),
							"an item of the batch encoding is produced or consumed only under a condition, while the element count written in front of the list is the full length: the reader takes the following bytes for the skipped elements (wrong recipients, garbage text or an out-of-range panic)")
						return false
					}
				case *ast.BranchStmt:
					if inLoop {
						r.Fail("C18.F4", fi.Name(), "codec items are written and read unconditionally", c.P.Pos(x.Pos()),
							"a codec loop skips or abandons elements ("+x.Tok.String()+"), while the element count written in front of the list is the full length: the reader takes the following bytes for the skipped elements")
					}
				}
				return true
			})
		}
		walk(fi.Body(), false)
		r.Ok("C18.F4", fi.Name(), "codec loops inspected for conditional items", "-", itoa(nLoops)+" loops, straight-line bodies")
		if nLoops < 2 {
			r.Break("C18.F4: only %d loops found in %s", nLoops, fi.Name())
		}
	}
	// size pre-computation
	c.c18BatchSize(enc, wops)
}

func firstCall(n ast.Node) *ast.CallExpr {
	var out *ast.CallExpr
	ast.Inspect(n, func(m ast.Node) bool {
		if c, ok := m.(*ast.CallExpr); ok && out == nil {
			out = c
		}
		return out == nil
	})
	return out
}

func contains(outer ast.Node, inner ast.Node) bool {
	return outer.Pos() <= inner.Pos() && inner.End() <= outer.End()
}

// trimRecv drops the leading variable of a path (m.NextID / result.NextID -> NextID; msg.Id.Id -> Id.Id).
func trimRecv(s string) string {
	pre, suf := "", ""
	for _, w := range []string{"len(", "key("} {
		if strings.HasPrefix(s, w) && strings.HasSuffix(s, ")") {
			pre, suf = w, ")"
			s = s[len(w) : len(s)-1]
		}
	}
	// paths were already rendered without the base identifier by itemName
	return pre + s + suf
}

// c18BatchSize: bufLen sums exactly the items the script writes.
func (c *Ctx) c18BatchSize(enc *load.FuncInfo, wops []codecOp) {
	r := c.R
	info := enc.Info()
	// polynomial: term name -> coefficient ("1" constant)
	var eval func(e ast.Expr) map[string]int64
	eval = func(e ast.Expr) map[string]int64 {
		e = ast.Unparen(e)
		if tv, ok := info.Types[e]; ok && tv.Value != nil {
			if v, ok := constant.Int64Val(constant.ToInt(tv.Value)); ok {
				return map[string]int64{"1": v}
			}
		}
		switch x := e.(type) {
		case *ast.BinaryExpr:
			a, b := eval(x.X), eval(x.Y)
			if a == nil || b == nil {
				return nil
			}
			switch x.Op {
			case token.ADD:
				out := map[string]int64{}
				for k, v := range a {
					out[k] += v
				}
				for k, v := range b {
					out[k] += v
				}
				return out
			case token.MUL:
				out := map[string]int64{}
				for ka, va := range a {
					for kb, vb := range b {
						switch {
						case ka == "1":
							out[kb] += va * vb
						case kb == "1":
							out[ka] += va * vb
						default:
							return nil
						}
					}
				}
				return out
			}
		case *ast.CallExpr:
			if astx.IsConversion(info, x) && len(x.Args) == 1 {
				return eval(x.Args[0])
			}
			if astx.Builtin(info, x) == "len" {
				return map[string]int64{itemName(info, x, nil): 1}
			}
		}
		return nil
	}
	var header, perMsg map[string]int64
	ast.Inspect(enc.Body(), func(n ast.Node) bool {
		as, ok := n.(*ast.AssignStmt)
		if !ok || len(as.Lhs) != 1 || len(as.Rhs) != 1 {
			return true
		}
		id, ok := as.Lhs[0].(*ast.Ident)
		if !ok || !strings.Contains(strings.ToLower(id.Name), "len") {
			return true
		}
		switch as.Tok {
		case token.DEFINE:
			header = eval(as.Rhs[0])
		case token.ADD_ASSIGN:
			perMsg = eval(as.Rhs[0])
		}
		return true
	})
	// expected from the script
	depth := 0
	expHeader, expMsgConst, expInner, expBytes := int64(0), int64(0), int64(0), int64(0)
	for _, o := range wops {
		switch o.kind {
		case "loop":
			depth++
		case "endloop":
			depth--
		case "u64":
			switch depth {
			case 0:
				expHeader += 8
			case 1:
				expMsgConst += 8
			case 2:
				expInner += 8
			}
		case "bytes":
			expBytes++
		}
	}
	pos := c.P.Pos(enc.Node().Pos())
	r.Check(header != nil && header["1"] == expHeader && len(header) == 1, "C18.F4", enc.Name(), "buffer size: header", pos, itoa(int(expHeader))+" bytes",
		"the pre-computed buffer size does not reserve exactly the header items the writer emits (a short buffer panics in PutUint64, a long one leaves trailing zeros)")
	okMsg := perMsg != nil && perMsg["1"] == expMsgConst && perMsg["len(Data)"] == expBytes && perMsg["len(InterestingFor)"] == expInner && len(perMsg) == 3
	r.Check(okMsg, "C18.F4", enc.Name(), "buffer size: per message", pos, itoa(int(expMsgConst))+" + len(Data) + "+itoa(int(expInner))+"*len(InterestingFor)",
		"the pre-computed buffer size per message does not match what the writer emits per message")
}

var _ = cfgx.NoReturn

// loopCount returns the expression that gives the number of iterations of a counting loop in one of the forms
// `i := 0; i < N; i++`, `N > i` likewise, or `j := N; j > 0 (>= 1, != 0); j--`; ok is false for any other form.
func loopCount(info *types.Info, fs *ast.ForStmt) (ast.Expr, bool) {
	if fs.Cond == nil || fs.Init == nil || fs.Post == nil {
		return nil, false
	}
	init, ok := fs.Init.(*ast.AssignStmt)
	if !ok || len(init.Lhs) != 1 || len(init.Rhs) != 1 {
		return nil, false
	}
	iv, ok := init.Lhs[0].(*ast.Ident)
	if !ok {
		return nil, false
	}
	ivo := astx.Obj(info, iv)
	post, ok := fs.Post.(*ast.IncDecStmt)
	if !ok {
		return nil, false
	}
	if pid, ok := ast.Unparen(post.X).(*ast.Ident); !ok || astx.Obj(info, pid) != ivo {
		return nil, false
	}
	be, ok := ast.Unparen(fs.Cond).(*ast.BinaryExpr)
	if !ok {
		return nil, false
	}
	isIV := func(e ast.Expr) bool {
		id, ok := ast.Unparen(e).(*ast.Ident)
		return ok && astx.Obj(info, id) == ivo
	}
	initVal := init.Rhs[0]
	for {
		if cc, ok := ast.Unparen(initVal).(*ast.CallExpr); ok && astx.IsConversion(info, cc) && len(cc.Args) == 1 {
			initVal = cc.Args[0]
			continue
		}
		break
	}
	zero := func(e ast.Expr) bool { z, ok := astx.ConstInt(info, e); return ok && z == 0 }
	one := func(e ast.Expr) bool { z, ok := astx.ConstInt(info, e); return ok && z == 1 }
	if post.Tok == token.INC && zero(initVal) {
		if be.Op == token.LSS && isIV(be.X) {
			return be.Y, true
		}
		if be.Op == token.GTR && isIV(be.Y) {
			return be.X, true
		}
		return nil, false
	}
	if post.Tok == token.DEC {
		if isIV(be.X) && (be.Op == token.GTR && zero(be.Y) || be.Op == token.GEQ && one(be.Y) || be.Op == token.NEQ && zero(be.Y)) {
			return init.Rhs[0], true
		}
		if isIV(be.Y) && (be.Op == token.LSS && zero(be.X) || be.Op == token.LEQ && one(be.X) || be.Op == token.NEQ && zero(be.X)) {
			return init.Rhs[0], true
		}
	}
	return nil, false
}
